package samlsim

import (
	"crypto/rsa"
	"encoding/base64"
	"encoding/xml"
	"fmt"
	"net/http"
	"sort"
	"strings"
	"testing"
	"time"
	"unicode/utf8"

	"github.com/beevik/etree"
	"github.com/crewjam/saml"
	"github.com/crewjam/saml/samlsp"
	dsig "github.com/russellhaering/goxmldsig"
)

// C07 — IdP-to-SP round trip preserves the authenticated identity exactly (profile `roundtrip`).
//
// Simulator dimension: multi-party composition only (no fault, no clock trick). The real
// library IdP and the real library SP are configured exclusively from each other's published
// metadata, exchanged as bytes over the simulated wire; the SP issues an AuthnRequest, the
// IdP answers for a session whose strings range over XML-hostile classes, the SP consumes the
// answer. Oracle (from the statement): the response is accepted and the returned assertion
// carries exactly what the IdP put into its assertion, which in turn is exactly the session.

// ---------------------------------------------------------------- plan types

// c07Str is one session string: V followed by N copies of Rep (keeps very long strings small in plans).
type c07Str struct {
	V     string `json:"v"`
	Rep   string `json:"rep,omitempty"`
	N     int    `json:"n,omitempty"`
	Class string `json:"class"`
}

func (s c07Str) str() string {
	if s.N <= 0 || s.Rep == "" {
		return s.V
	}
	return s.V + strings.Repeat(s.Rep, s.N)
}

// c07NIDVal is an attribute value that is a name identifier: a <saml:NameID> element inside the <saml:AttributeValue>
// (the standard form of eduPersonTargetedID), which is what AttributeValue.NameID is for.
type c07NIDVal struct {
	Value           c07Str `json:"value"`
	Format          string `json:"format,omitempty"`
	NameQualifier   string `json:"name_qualifier,omitempty"`
	SPNameQualifier string `json:"sp_name_qualifier,omitempty"`
}

type c07Attr struct {
	Name       c07Str   `json:"name"`
	Friendly   c07Str   `json:"friendly"`
	NameFormat string   `json:"name_format"`
	Values     []c07Str `json:"values"`
	// NameIDs, when present, runs parallel to Values: a non-nil entry makes that value carry a name identifier element
	// (the string of the same index is then the text beside it, normally empty, and the value has no xsi:type)
	NameIDs []*c07NIDVal `json:"value_name_ids,omitempty"`
}

func (a c07Attr) nameID(q int) *c07NIDVal {
	if q < len(a.NameIDs) {
		return a.NameIDs[q]
	}
	return nil
}

type c07Session struct {
	NameID       c07Str    `json:"name_id"`
	NameIDFormat string    `json:"name_id_format,omitempty"`
	Index        c07Str    `json:"index"`
	UserName     c07Str    `json:"user_name"`
	UserEmail    c07Str    `json:"user_email"`
	CommonName   c07Str    `json:"user_common_name"`
	Surname      c07Str    `json:"user_surname"`
	GivenName    c07Str    `json:"user_given_name"`
	Affiliation  c07Str    `json:"user_scoped_affiliation"`
	EPPN         c07Str    `json:"edu_person_principal_name"`
	SubjectID    c07Str    `json:"subject_id"`
	Groups       []c07Str  `json:"groups"`
	Custom       []c07Attr `json:"custom_attributes"`
}

type c07Knobs struct {
	SPKey      string `json:"sp_key"`              // rsa1..rsa4 | rsasig | rsaski | rsa4096 | rsa1024 | ec0 | ec1 | none (no certificate: nothing to encrypt to)
	EntityID   string `json:"sp_entity_id"`        // "" = unset (metadata URL is the entity ID)
	Binding    string `json:"request_binding"`     // redirect | post
	SPSig      string `json:"sp_signature_method"` // "" = unsigned requests
	IdPKey     string `json:"idp_key"`             // rsa0 | rsa2 | ec0 (self-signed) | rsaleaf | ecleaf (certificate issued by a CA); ec only through crypto.Signer
	IdPSigner  bool   `json:"idp_uses_signer"`
	IdPSig     string `json:"idp_signature_method"`             // "" = library default
	IdPEntry   string `json:"idp_entry"`                        // lib (NewIdpAuthnRequest/Validate/MakeAssertion/PostBinding) | servesso (ServeSSO + browser form parse)
	SPEntry    string `json:"sp_entry"`                         // xml (ParseXMLResponse) | post (ParseResponse on the browser's POST)
	MDWire     string `json:"metadata_wire"`                    // marshal (xml.Marshal) | handler (ServeMetadata handlers, indented)
	NameIDFmt  string `json:"sp_authn_nameid_format,omitempty"` // ServiceProvider.AuthnNameIDFormat ("": unset)
	ForceAuthn bool   `json:"sp_force_authn,omitempty"`
	ReqCtx     bool   `json:"sp_requested_authn_context,omitempty"` // RequestedAuthnContext with the comparison left unset
	// IdPChain is the number of CA certificates the IdP is configured with in IdentityProvider.Intermediates (0: none; 1: the CA that
	// issued its certificate; 2: that CA and the root that issued the CA's). Only for the CA-issued IdP keys.
	IdPChain int `json:"idp_intermediates,omitempty"`
}

type c07Step struct {
	Kind    string     `json:"kind"` // "flow" | "reregister" (the SP changes its key and re-publishes its metadata; NewKey names the key)
	NewKey  string     `json:"new_sp_key,omitempty"`
	Relay   string     `json:"relay_state"`
	Session c07Session `json:"session"`
}

func c07DefaultKnobs() c07Knobs {
	return c07Knobs{SPKey: "rsa1", Binding: "redirect", IdPKey: "rsa0", IdPEntry: "lib", SPEntry: "xml", MDWire: "marshal"}
}

// ---------------------------------------------------------------- generation

type c07FragClass struct {
	class string
	frags []string
}

var c07Frags = []c07FragClass{
	{"markup", []string{"<", ">", "&", "'", "\"", "<>&'\"", "</saml:NameID>", "<a b='c'>", "&&", "<<", "\"'>", "</saml:AttributeValue><saml:AttributeValue>"}},
	{"lf", []string{"\n", "\n\n"}},
	{"tab", []string{"\t", "\t\t"}},
	{"space-run", []string{" ", "   ", " \t \n ", "\n \n"}},
	{"cdata-end", []string{"]]>", "]]", "]]>]]>"}},
	{"comment", []string{"<!--x-->", "<!--", "-->", "--"}},
	{"cdata", []string{"<![CDATA[x]]>", "<![CDATA[", "<![CDATA[<]]>"}},
	{"pi", []string{"<?xml version=\"1.0\"?>", "<?x y?>", "<!DOCTYPE x>"}},
	{"entity", []string{"&amp;", "&lt;", "&#13;", "&#xD;", "&#x41;", "&quot;", "&nosuch;", "&#0;", "&amp;amp;", "&#10;"}},
	{"nonbmp", []string{"\U0001F600", "\U00010000", "\U0010FFFF", "\U0001FFFE", "\U000E0001"}},
	{"combining", []string{"e\u0301", "\u0301", "a\u200d", "\u202e", "\ufeff", "\u00a0"}},
	{"edge-char", []string{"\u0085", "\u2028", "\u2029", "\u007f", "\u0080", "\u009f", "\ufffd", "\ud7ff", "\ue000", "\ufdd0"}},
	{"ns-lookalike", []string{"xmlns:xs=\"x\"", "xs:string", "xsi:type=\"xs:int\"", "saml:", "xsi:nil"}},
	{"case-mix", []string{"MiXeD", "\u0130", "\u00df", "\u01c5"}},
}

// the carriage-return classes are kept apart so that their rate can be set independently
var c07CRFrags = []c07FragClass{
	{"cr", []string{"\r", "\r\r"}},
	{"crlf", []string{"\r\n", "\n\r"}},
}

func c07Marker(kind string, i int) string { return fmt.Sprintf("Zq%s%dQz", kind, i) }

func c07Place(g *Rng, frag, mk string) (string, string) {
	switch g.PickW(3, 3, 3, 4, 2, 1) {
	case 0:
		return frag, "whole"
	case 1:
		return frag + mk, "prefix"
	case 2:
		return mk + frag, "suffix"
	case 3:
		return mk[:3] + frag + mk[3:], "infix"
	case 4:
		return frag + mk + frag, "both-ends"
	}
	return frag + frag + frag + mk, "repeated-prefix"
}

func c07RandRune(g *Rng) rune {
	switch g.PickW(6, 3, 3, 2, 2, 1) {
	case 0:
		return rune(0x20 + g.Intn(0x7f-0x20))
	case 1:
		return rune(0xa0 + g.Intn(0x300-0xa0))
	case 2:
		return rune(0x370 + g.Intn(0xd800-0x370))
	case 3:
		return rune(0xe000 + g.Intn(0xfffe-0xe000))
	case 4:
		return rune(0x10000 + g.Intn(0x110000-0x10000))
	}
	return Pick(g, '\t', '\n', '<', '&', '>', '"', '\'', ']', ' ')
}

// c07GenStr draws one session string. crRate is the per-string probability of a carriage-return class.
func c07GenStr(g *Rng, kind string, i int, tier string, crRate float64, allowLong bool) c07Str {
	mk := c07Marker(kind, i)
	if g.Bool(crRate) {
		fc := c07CRFrags[g.Intn(len(c07CRFrags))]
		s, pl := c07Place(g, fc.frags[g.Intn(len(fc.frags))], mk)
		return c07Str{V: s, Class: fc.class + "/" + pl}
	}
	switch g.PickW(30, 8, 48, 9, 5) {
	case 0:
		return c07Str{V: mk, Class: "plain"}
	case 1:
		return c07Str{V: "", Class: "empty"}
	case 2:
		fc := c07Frags[g.Intn(len(c07Frags))]
		s, pl := c07Place(g, fc.frags[g.Intn(len(fc.frags))], mk)
		return c07Str{V: s, Class: fc.class + "/" + pl}
	case 3:
		n := 1 + g.Intn(12)
		var b strings.Builder
		for j := 0; j < n; j++ {
			b.WriteRune(c07RandRune(g))
		}
		s, pl := c07Place(g, b.String(), mk)
		return c07Str{V: s, Class: "random-mix/" + pl}
	}
	if !allowLong {
		return c07Str{V: mk, Class: "plain"}
	}
	rep := Pick(g, "x", "\u00e9", "\U0001F600", "<", "&", " ", "\n", "]]>", "a b", "\t")
	size := Pick(g, 1000, 8000, 40000)
	if tier == "thorough" && g.Bool(0.2) {
		size = 200000
	}
	n := size / len(rep)
	return c07Str{V: mk, Rep: rep, N: n, Class: fmt.Sprintf("long-%dk", size/1000)}
}

var c07NameFormats = []string{
	"urn:oasis:names:tc:SAML:2.0:attrname-format:basic",
	"urn:oasis:names:tc:SAML:2.0:attrname-format:uri",
	"urn:oasis:names:tc:SAML:2.0:attrname-format:unspecified",
	"",
}

var c07NameIDFormats = []string{"", "", "urn:oasis:names:tc:SAML:1.1:nameid-format:emailAddress", "urn:oasis:names:tc:SAML:2.0:nameid-format:persistent", "urn:oasis:names:tc:SAML:1.1:nameid-format:unspecified"}

func c07GenSession(g *Rng, i int, tier string, crRate float64) c07Session {
	long := g.Bool(0.04) // at most a few long strings per session, and only in a few sessions
	longLeft := 1
	gs := func(kind string) c07Str {
		s := c07GenStr(g, kind, i, tier, crRate, long && longLeft > 0)
		if s.N > 0 {
			longLeft--
		}
		return s
	}
	s := c07Session{
		NameID: gs("nid"), NameIDFormat: Pick(g, c07NameIDFormats...), Index: gs("idx"),
		UserName: gs("un"), UserEmail: gs("em"), CommonName: gs("cn"), Surname: gs("sn"), GivenName: gs("gn"),
		Affiliation: gs("af"), EPPN: gs("ep"), SubjectID: gs("sid"),
	}
	if g.Bool(0.05) {
		// a session that says next to nothing about the user: a name identifier and no attribute at all (or not even that)
		e := c07Str{Class: "empty"}
		s.UserName, s.UserEmail, s.CommonName, s.Surname, s.GivenName, s.Affiliation, s.EPPN, s.SubjectID = e, e, e, e, e, e, e, e
		if g.Bool(0.3) {
			s.NameID = e
		}
		return s
	}
	ng := g.PickW(3, 3, 3, 1)
	for j := 0; j < ng; j++ {
		s.Groups = append(s.Groups, gs(fmt.Sprintf("g%d_", j)))
	}
	nc := g.PickW(4, 4, 2)
	for j := 0; j < nc; j++ {
		a := c07Attr{Name: gs(fmt.Sprintf("an%d_", j)), NameFormat: Pick(g, c07NameFormats...)}
		if j > 0 && g.Bool(0.15) {
			// a later attribute under the name (and name format) of the first: both are part of the identity, in order
			a.Name, a.NameFormat = s.Custom[0].Name, s.Custom[0].NameFormat
		}
		if g.Bool(0.5) {
			a.Friendly = gs(fmt.Sprintf("af%d_", j))
		} else {
			a.Friendly = c07Str{Class: "empty"}
		}
		// 1-3 values, or none at all (an attribute the user has, currently without a value: its name is still part of the identity)
		nv := g.PickW(2, 5, 3, 1)
		// attributes whose values are name identifiers (eduPersonTargetedID and its like) are a fifth of the attributes, and most
		// of their values are of that kind
		nidAttr := g.Bool(0.2)
		for q := 0; q < nv; q++ {
			if nidAttr && g.Bool(0.75) {
				n := &c07NIDVal{Value: gs(fmt.Sprintf("avn%d_%d_", j, q)), Format: Pick(g, c07NameIDFormats...)}
				if g.Bool(0.5) {
					n.NameQualifier = c07IdPBase + "/metadata"
				}
				if g.Bool(0.5) {
					n.SPNameQualifier = spBase + "/saml/metadata"
				}
				for len(a.NameIDs) < q {
					a.NameIDs = append(a.NameIDs, nil)
				}
				a.NameIDs = append(a.NameIDs, n)
				text := c07Str{Class: "empty"}
				if g.Bool(0.1) {
					text = gs(fmt.Sprintf("av%d_%d_", j, q)) // text beside the element
				}
				a.Values = append(a.Values, text)
				continue
			}
			a.Values = append(a.Values, gs(fmt.Sprintf("av%d_%d_", j, q)))
		}
		s.Custom = append(s.Custom, a)
	}
	return s
}

var c07RSAMethods = []string{dsig.RSASHA1SignatureMethod, dsig.RSASHA256SignatureMethod, dsig.RSASHA384SignatureMethod, dsig.RSASHA512SignatureMethod}
var c07ECMethods = []string{dsig.ECDSASHA1SignatureMethod, dsig.ECDSASHA256SignatureMethod, dsig.ECDSASHA384SignatureMethod, dsig.ECDSASHA512SignatureMethod}

func genRoundtrip(g *Rng, tier string) *Plan {
	k := c07DefaultKnobs()
	switch g.PickW(66, 28, 6) {
	case 0:
		// rsasig: keyUsage digitalSignature only; the SP publishes it for encryption all the same. Key lengths: 2048 bits
		// mostly, 4096, and 1024 (the shortest crypto/rsa works with, so the least room for whatever the IdP wraps for the SP)
		k.SPKey = Pick(g, "rsa1", "rsa2", "rsa3", "rsa4", "rsasig", "rsaski", "rsa4096", "rsa4096", "rsa1024", "rsa1024")
	case 1:
		k.SPKey = "none"
	case 2:
		k.SPKey = Pick(g, "ec0", "ec1")
	}
	k.EntityID = Pick(g, "", "", "https://sp.example.com/entity", "urn:example:sp", "urn:example:sp?a=1&b=<2>'\"")
	k.Binding = Pick(g, "redirect", "post")
	if k.SPKey != "none" && g.Bool(0.45) {
		if strings.HasPrefix(k.SPKey, "ec") {
			k.SPSig = Pick(g, c07ECMethods...)
		} else {
			k.SPSig = Pick(g, c07RSAMethods...)
		}
	}
	switch g.PickW(5, 4, 2, 2, 1) {
	case 0:
		k.IdPKey = "rsa0"
	case 1:
		k.IdPKey = "rsa2"
		if k.SPKey == "rsa2" {
			k.IdPKey = "rsa0"
		}
	case 2:
		k.IdPKey = "ec0"
		if k.SPKey == "ec0" {
			k.SPKey = "ec1"
		}
	case 3:
		k.IdPKey = "rsaleaf"
	case 4:
		k.IdPKey = "ecleaf"
	}
	if strings.HasSuffix(k.IdPKey, "leaf") {
		// an IdP whose certificate a CA issued: configured with the chain above it (so that it sends the chain along), or not
		k.IdPChain = g.PickW(1, 2, 2)
	}
	if strings.HasPrefix(k.IdPKey, "ec") {
		k.IdPSigner = true
		k.IdPSig = Pick(g, c07ECMethods...)
	} else {
		k.IdPSigner = g.Bool(0.3)
		k.IdPSig = Pick(g, append([]string{""}, c07RSAMethods...)...)
	}
	k.IdPEntry = Pick(g, "lib", "servesso")
	k.SPEntry = Pick(g, "xml", "post")
	k.MDWire = Pick(g, "marshal", "handler")
	k.NameIDFmt = Pick(g, "", "", string(saml.TransientNameIDFormat), string(saml.EmailAddressNameIDFormat), string(saml.PersistentNameIDFormat), string(saml.UnspecifiedNameIDFormat), "urn:oasis:names:tc:SAML:1.1:nameid-format:X509SubjectName")
	k.ForceAuthn = g.Bool(0.2)
	k.ReqCtx = g.Bool(0.2)
	p := &Plan{Knobs: mustJSON(k)}
	// carriage returns are a known defect class of the pinned tree: concentrate them in few runs
	crRate := 0.0
	if g.Bool(0.07) {
		crRate = 0.12
	}
	n := 1 + g.PickW(6, 3, 1)
	rereg := g.Bool(0.2) // the SP changes its key and re-registers under the same entity ID between two logins
	if rereg && n < 2 {
		n = 2
	}
	for i := 0; i < n; i++ {
		if rereg && i == 1 {
			nk := Pick(g, "rsa1", "rsa2", "rsa3", "rsa4", "none", "ec0", "rsa1024")
			if nk == k.SPKey {
				nk = "rsa4"
				if k.SPKey == "rsa4" {
					nk = "rsa2"
				}
			}
			p.Steps = append(p.Steps, mustJSON(c07Step{Kind: "reregister", NewKey: nk}))
		}
		st := c07Step{Kind: "flow", Relay: Pick(g, "", "rs", "idx-7")} // RelayState encoding is C12's subject: URL-safe values only
		st.Session = c07GenSession(g, i, tier, crRate)
		p.Steps = append(p.Steps, mustJSON(st))
	}
	return p
}

// ---------------------------------------------------------------- world

func c07Key(name string) (KeyPair, bool) {
	for _, k := range []KeyPair{rsaSig, rsaSKI, rsa4096, rsa1024, rsaLeaf, ecLeaf} {
		if k.Name == name {
			return k, true
		}
	}
	for _, k := range rsaKeys {
		if k.Name == name {
			return k, true
		}
	}
	for _, k := range ecKeys {
		if k.Name == name {
			return k, true
		}
	}
	return KeyPair{}, false
}

type c07World struct {
	k   c07Knobs
	idp *saml.IdentityProvider
	sp  *saml.ServiceProvider
	reg mapSPP
}

const c07IdPBase = "https://idp.example.com"

// c07Build wires IdP and SP together from published metadata only. A non-empty stage means it failed.
func c07Build(k c07Knobs) (w *c07World, stage string, detail string) {
	w = &c07World{k: k, reg: mapSPP{}}
	idpKP, ok := c07Key(k.IdPKey)
	if !ok {
		return nil, "plan", "unknown idp key " + k.IdPKey
	}
	w.idp = newIdP(c07IdPBase, idpKP, w.reg)
	w.idp.SignatureMethod = k.IdPSig
	if k.IdPSigner {
		w.idp.Signer = idpKP.Key
		w.idp.Key = nil
	}
	if k.IdPChain > 0 {
		if !strings.HasSuffix(k.IdPKey, "leaf") {
			return nil, "plan", "intermediates for a self-signed idp key " + k.IdPKey
		}
		for _, ca := range []KeyPair{rsaICA, rsaCA}[:min(k.IdPChain, 2)] {
			w.idp.Intermediates = append(w.idp.Intermediates, ca.Cert)
		}
	}
	// IdP metadata → bytes → SP
	var idpMDBytes []byte
	var idpMD *saml.EntityDescriptor
	var err error
	if pan := guard(func() {
		if k.MDWire == "handler" {
			rep := deliver(http.HandlerFunc(w.idp.ServeMetadata), "GET", c07IdPBase+"/metadata", "", "", nil)
			idpMDBytes = []byte(rep.Body)
		} else {
			idpMDBytes, err = xml.Marshal(w.idp.Metadata())
		}
		if err == nil {
			idpMD, err = samlsp.ParseMetadata(idpMDBytes)
		}
	}); pan != nil {
		return nil, "idp-metadata", fmt.Sprintf("panic: %v", pan)
	}
	if err != nil || idpMD == nil {
		return nil, "idp-metadata", fmt.Sprint(err)
	}
	if k.SPKey == "none" {
		w.sp = &saml.ServiceProvider{EntityID: k.EntityID, MetadataURL: mustURL(spBase + "/saml/metadata"), AcsURL: mustURL(spBase + "/saml/acs"),
			SloURL: mustURL(spBase + "/saml/slo"), IDPMetadata: idpMD}
	} else {
		spKP, ok := c07Key(k.SPKey)
		if !ok {
			return nil, "plan", "unknown sp key " + k.SPKey
		}
		w.sp = newSP(spBase, spKP, k.EntityID, idpMD)
		w.sp.SignatureMethod = k.SPSig
		w.sp.AuthnNameIDFormat = saml.NameIDFormat(k.NameIDFmt)
		if k.ForceAuthn {
			t := true
			w.sp.ForceAuthn = &t
		}
		if k.ReqCtx {
			w.sp.RequestedAuthnContext = &saml.RequestedAuthnContext{AuthnContextClassRef: "urn:oasis:names:tc:SAML:2.0:ac:classes:PasswordProtectedTransport"}
		}
	}
	// SP metadata → bytes → IdP registry
	var spMDBytes []byte
	md := &saml.EntityDescriptor{}
	if pan := guard(func() {
		if k.MDWire == "handler" {
			mw := &samlsp.Middleware{ServiceProvider: *w.sp}
			rep := deliver(http.HandlerFunc(mw.ServeMetadata), "GET", spBase+"/saml/metadata", "", "", nil)
			spMDBytes = []byte(rep.Body)
		} else {
			spMDBytes, err = xml.Marshal(w.sp.Metadata())
		}
		if err == nil {
			err = xml.Unmarshal(spMDBytes, md)
		}
	}); pan != nil {
		return nil, "sp-metadata", fmt.Sprintf("panic: %v", pan)
	}
	if err != nil {
		return nil, "sp-metadata", fmt.Sprint(err)
	}
	w.reg[md.EntityID] = md
	return w, "", ""
}

// reregister: the SP switches to another key (or none), re-publishes its metadata under the same entity ID,
// and the IdP's registry entry is replaced by the re-parsed document.
func (w *c07World) reregister(newKey string) (stage, detail string) {
	k := w.k
	k.SPKey = newKey
	if strings.HasPrefix(newKey, "ec") && k.SPSig != "" && !strings.Contains(k.SPSig, "ecdsa") {
		k.SPSig = "http://www.w3.org/2001/04/xmldsig-more#ecdsa-sha256"
	}
	if strings.HasPrefix(newKey, "rsa") && strings.Contains(k.SPSig, "ecdsa") {
		k.SPSig = "http://www.w3.org/2001/04/xmldsig-more#rsa-sha256"
	}
	if newKey == "none" {
		k.SPSig = ""
	}
	idpMD := w.sp.IDPMetadata
	if newKey == "none" {
		w.sp = &saml.ServiceProvider{EntityID: k.EntityID, MetadataURL: mustURL(spBase + "/saml/metadata"), AcsURL: mustURL(spBase + "/saml/acs"),
			SloURL: mustURL(spBase + "/saml/slo"), IDPMetadata: idpMD}
	} else {
		spKP, ok := c07Key(newKey)
		if !ok {
			return "plan", "unknown sp key " + newKey
		}
		w.sp = newSP(spBase, spKP, k.EntityID, idpMD)
		w.sp.SignatureMethod = k.SPSig
		w.sp.AuthnNameIDFormat = saml.NameIDFormat(k.NameIDFmt)
		if k.ForceAuthn {
			t := true
			w.sp.ForceAuthn = &t
		}
		if k.ReqCtx {
			w.sp.RequestedAuthnContext = &saml.RequestedAuthnContext{AuthnContextClassRef: "urn:oasis:names:tc:SAML:2.0:ac:classes:PasswordProtectedTransport"}
		}
	}
	md := &saml.EntityDescriptor{}
	var err error
	if pan := guard(func() {
		var b []byte
		b, err = xml.Marshal(w.sp.Metadata())
		if err == nil {
			err = xml.Unmarshal(b, md)
		}
	}); pan != nil {
		return "sp-metadata", fmt.Sprintf("panic: %v", pan)
	}
	if err != nil {
		return "sp-metadata", fmt.Sprint(err)
	}
	w.reg[md.EntityID] = md
	w.k = k
	return "", ""
}

func (s c07Session) toSession() *saml.Session {
	out := &saml.Session{ID: "sess", CreateTime: time.Now().UTC(), ExpireTime: time.Now().Add(time.Hour).UTC(),
		Index: s.Index.str(), NameID: s.NameID.str(), NameIDFormat: s.NameIDFormat, SubjectID: s.SubjectID.str(),
		UserName: s.UserName.str(), UserEmail: s.UserEmail.str(), UserCommonName: s.CommonName.str(), UserSurname: s.Surname.str(),
		UserGivenName: s.GivenName.str(), UserScopedAffiliation: s.Affiliation.str(), EduPersonPrincipalName: s.EPPN.str()}
	for _, g := range s.Groups {
		out.Groups = append(out.Groups, g.str())
	}
	for _, a := range s.Custom {
		at := saml.Attribute{Name: a.Name.str(), FriendlyName: a.Friendly.str(), NameFormat: a.NameFormat}
		for q, v := range a.Values {
			if n := a.nameID(q); n != nil {
				at.Values = append(at.Values, saml.AttributeValue{Value: v.str(), NameID: &saml.NameID{Format: n.Format, NameQualifier: n.NameQualifier,
					SPNameQualifier: n.SPNameQualifier, Value: n.Value.str()}})
				continue
			}
			at.Values = append(at.Values, saml.AttributeValue{Type: "xs:string", Value: v.str()})
		}
		out.CustomAttributes = append(out.CustomAttributes, at)
	}
	return out
}

// c07Identity is the identity-bearing content of an assertion (what the statement talks about).
type c07Identity struct {
	HasSubject   bool
	NameID       string
	NameIDFormat string
	SessionIndex string
	Attrs        []saml.Attribute
}

func c07IdentityOf(a *saml.Assertion) c07Identity {
	var id c07Identity
	if a == nil {
		return id
	}
	if a.Subject != nil && a.Subject.NameID != nil {
		id.HasSubject = true
		id.NameID = a.Subject.NameID.Value
		id.NameIDFormat = a.Subject.NameID.Format
	}
	if len(a.AuthnStatements) > 0 {
		id.SessionIndex = a.AuthnStatements[0].SessionIndex
	}
	for _, st := range a.AttributeStatements {
		for _, at := range st.Attributes {
			c := saml.Attribute{Name: at.Name, FriendlyName: at.FriendlyName, NameFormat: at.NameFormat}
			for _, v := range at.Values {
				cv := saml.AttributeValue{Type: v.Type, Value: v.Value}
				if v.NameID != nil {
					n := *v.NameID
					cv.NameID = &n
				}
				c.Values = append(c.Values, cv)
			}
			id.Attrs = append(id.Attrs, c)
		}
	}
	return id
}

type c07Diff struct {
	Kind     string // nameid | nameid-format | session-index | attribute-count | attribute-order | attribute-name | attribute-value | attribute-value-nameid | attribute-value-count | attribute-type | subject-missing
	Field    string
	Expected string
	Observed string
}

func c07AttrKey(a saml.Attribute) string {
	var b strings.Builder
	fmt.Fprintf(&b, "%q|%q|%q", a.Name, a.FriendlyName, a.NameFormat)
	for _, v := range a.Values {
		fmt.Fprintf(&b, "|%q:%q", v.Type, v.Value)
		b.WriteString(c07NameIDKey(v.NameID))
	}
	return b.String()
}

// c07NameIDKey renders the name identifier element of an attribute value ("" when the value has none).
func c07NameIDKey(n *saml.NameID) string {
	if n == nil {
		return ""
	}
	return fmt.Sprintf("<NameID Format=%q NameQualifier=%q SPNameQualifier=%q SPProvidedID=%q>%q", n.Format, n.NameQualifier, n.SPNameQualifier, n.SPProvidedID, n.Value)
}

func c07OrAbsent(s string) string { return c07Or(s, "no NameID element") }

// c07Compare lists the differences between what was put in (want) and what came out (got).
func c07Compare(want, got c07Identity) []c07Diff {
	var d []c07Diff
	if !got.HasSubject {
		return []c07Diff{{Kind: "subject-missing", Field: "Subject/NameID", Expected: "present", Observed: "absent"}}
	}
	if want.NameID != got.NameID {
		d = append(d, c07Diff{"nameid", "NameID", want.NameID, got.NameID})
	}
	if want.NameIDFormat != got.NameIDFormat {
		d = append(d, c07Diff{"nameid-format", "NameID/@Format", want.NameIDFormat, got.NameIDFormat})
	}
	if want.SessionIndex != got.SessionIndex {
		d = append(d, c07Diff{"session-index", "AuthnStatement/@SessionIndex", want.SessionIndex, got.SessionIndex})
	}
	if len(want.Attrs) != len(got.Attrs) {
		d = append(d, c07Diff{"attribute-count", "AttributeStatement", fmt.Sprint(len(want.Attrs)), fmt.Sprint(len(got.Attrs))})
		return d
	}
	// same multiset in another order?
	wk, gk := make([]string, len(want.Attrs)), make([]string, len(got.Attrs))
	same := true
	for i := range want.Attrs {
		wk[i], gk[i] = c07AttrKey(want.Attrs[i]), c07AttrKey(got.Attrs[i])
		if wk[i] != gk[i] {
			same = false
		}
	}
	if same {
		return d
	}
	ws, gs := append([]string{}, wk...), append([]string{}, gk...)
	sort.Strings(ws)
	sort.Strings(gs)
	if strings.Join(ws, "\x00") == strings.Join(gs, "\x00") {
		d = append(d, c07Diff{"attribute-order", "AttributeStatement", "attributes in the order the IdP wrote them", "same attributes, other order"})
		return d
	}
	for i := range want.Attrs {
		w, g := want.Attrs[i], got.Attrs[i]
		f := fmt.Sprintf("Attribute[%d]", i)
		if w.Name != g.Name {
			d = append(d, c07Diff{"attribute-name", f + "/@Name", w.Name, g.Name})
		}
		if w.FriendlyName != g.FriendlyName {
			d = append(d, c07Diff{"attribute-name", f + "/@FriendlyName", w.FriendlyName, g.FriendlyName})
		}
		if w.NameFormat != g.NameFormat {
			d = append(d, c07Diff{"attribute-name", f + "/@NameFormat", w.NameFormat, g.NameFormat})
		}
		if len(w.Values) != len(g.Values) {
			d = append(d, c07Diff{"attribute-value-count", f, fmt.Sprint(len(w.Values)), fmt.Sprint(len(g.Values))})
			continue
		}
		for j := range w.Values {
			if w.Values[j].Value != g.Values[j].Value {
				d = append(d, c07Diff{"attribute-value", fmt.Sprintf("%s/AttributeValue[%d]", f, j), w.Values[j].Value, g.Values[j].Value})
			}
			if w.Values[j].Type != g.Values[j].Type {
				d = append(d, c07Diff{"attribute-type", fmt.Sprintf("%s/AttributeValue[%d]/@type", f, j), w.Values[j].Type, g.Values[j].Type})
			}
			if wn, gn := c07NameIDKey(w.Values[j].NameID), c07NameIDKey(g.Values[j].NameID); wn != gn {
				d = append(d, c07Diff{"attribute-value-nameid", fmt.Sprintf("%s/AttributeValue[%d]/NameID", f, j), c07OrAbsent(wn), c07OrAbsent(gn)})
			}
		}
	}
	return d
}

// c07SessionVsAssertion checks that the assertion the IdP built carries exactly the session's strings
// (no knowledge of attribute naming: every non-empty scalar is the single value of some attribute,
// the groups are the values of one attribute in order, the custom attributes appear unchanged and in
// order, and no value is foreign to the session).
func c07SessionVsAssertion(s *saml.Session, id c07Identity) []c07Diff {
	var d []c07Diff
	if !id.HasSubject {
		return []c07Diff{{Kind: "subject-missing", Field: "Subject/NameID", Expected: "present", Observed: "absent"}}
	}
	if id.NameID != s.NameID {
		d = append(d, c07Diff{"nameid", "NameID", s.NameID, id.NameID})
	}
	if id.SessionIndex != s.Index {
		d = append(d, c07Diff{"session-index", "AuthnStatement/@SessionIndex", s.Index, id.SessionIndex})
	}
	if s.NameIDFormat != "" && id.NameIDFormat != s.NameIDFormat {
		d = append(d, c07Diff{"nameid-format", "NameID/@Format", s.NameIDFormat, id.NameIDFormat})
	}
	single := func(field, v string) {
		if v == "" {
			return
		}
		for _, a := range id.Attrs {
			if len(a.Values) == 1 && a.Values[0].Value == v {
				return
			}
		}
		d = append(d, c07Diff{"attribute-value", "session." + field, v, "no attribute carries exactly this value"})
	}
	single("UserName", s.UserName)
	single("UserEmail", s.UserEmail)
	single("UserCommonName", s.UserCommonName)
	single("UserSurname", s.UserSurname)
	single("UserGivenName", s.UserGivenName)
	single("UserScopedAffiliation", s.UserScopedAffiliation)
	single("EduPersonPrincipalName", s.EduPersonPrincipalName)
	single("SubjectID", s.SubjectID)
	if len(s.Groups) > 0 {
		found := false
		for _, a := range id.Attrs {
			if len(a.Values) == len(s.Groups) {
				eq := true
				for i := range a.Values {
					if a.Values[i].Value != s.Groups[i] {
						eq = false
					}
				}
				if eq {
					found = true
				}
			}
		}
		if !found {
			d = append(d, c07Diff{"attribute-value", "session.Groups", fmt.Sprintf("%q", s.Groups), "no attribute carries exactly these values in order"})
		}
	}
	// custom attributes: an ordered subsequence of the assertion's attributes
	pos := 0
	for ci, c := range s.CustomAttributes {
		found := false
		for ; pos < len(id.Attrs); pos++ {
			if c07AttrKey(id.Attrs[pos]) == c07AttrKey(c) {
				found = true
				pos++
				break
			}
		}
		if !found {
			if nd := c07NameIDOnlyDiff(c, id.Attrs, ci); nd != nil {
				d = append(d, *nd)
				break
			}
			d = append(d, c07Diff{"attribute-order", fmt.Sprintf("session.CustomAttributes[%d]", ci), c07AttrKey(c), "not present unchanged at its place"})
			break
		}
	}
	// nothing foreign
	known := map[string]bool{s.UserName: true, s.UserEmail: true, s.UserCommonName: true, s.UserSurname: true, s.UserGivenName: true,
		s.UserScopedAffiliation: true, s.EduPersonPrincipalName: true, s.SubjectID: true}
	for _, g := range s.Groups {
		known[g] = true
	}
	knownNID := map[string]bool{}
	for _, c := range s.CustomAttributes {
		for _, v := range c.Values {
			known[v.Value] = true
			knownNID[c07NameIDKey(v.NameID)] = true
		}
	}
	for i, a := range id.Attrs {
		for j, v := range a.Values {
			if !known[v.Value] {
				d = append(d, c07Diff{"attribute-value", fmt.Sprintf("Attribute[%d]/AttributeValue[%d]", i, j), "a string of the session", v.Value})
			}
			if v.NameID != nil && !knownNID[c07NameIDKey(v.NameID)] {
				d = append(d, c07Diff{"attribute-value-nameid", fmt.Sprintf("Attribute[%d]/AttributeValue[%d]/NameID", i, j), "a name identifier of the session's custom attributes", c07NameIDKey(v.NameID)})
			}
		}
	}
	return d
}

// c07NameIDOnlyDiff says whether the custom attribute c is in attrs with its name, its strings and its value types intact and only
// the name identifier elements of its values differing; it then names the first such value.
func c07NameIDOnlyDiff(c saml.Attribute, attrs []saml.Attribute, ci int) *c07Diff {
	for _, a := range attrs {
		if a.Name != c.Name || a.FriendlyName != c.FriendlyName || a.NameFormat != c.NameFormat || len(a.Values) != len(c.Values) {
			continue
		}
		first, same := -1, true
		for j := range c.Values {
			if a.Values[j].Type != c.Values[j].Type || a.Values[j].Value != c.Values[j].Value {
				same = false
			}
			if first < 0 && c07NameIDKey(a.Values[j].NameID) != c07NameIDKey(c.Values[j].NameID) {
				first = j
			}
		}
		if same && first >= 0 {
			return &c07Diff{"attribute-value-nameid", fmt.Sprintf("session.CustomAttributes[%d]/AttributeValue[%d]/NameID", ci, first),
				c07OrAbsent(c07NameIDKey(c.Values[first].NameID)), c07OrAbsent(c07NameIDKey(a.Values[first].NameID))}
		}
	}
	return nil
}

// c07Outcome is what one flow produced.
type c07Outcome struct {
	Stage     string // "" = completed; else sp-request | idp-<stage> | wire | sp-reject | panic
	Detail    string
	Panic     bool
	Wire      string // plain | encrypted | none
	Captured  *c07Identity
	Returned  *c07Identity
	ActionURL string
}

func c07Q(s string) string {
	q := fmt.Sprintf("%q", s)
	if len(q) > 120 {
		q = q[:100] + fmt.Sprintf("…(%d bytes)", len(s))
	}
	return q
}

// c07Flow runs one complete SP → IdP → SP exchange for session sess.
func c07Flow(w *c07World, sess *saml.Session, relay string) c07Outcome {
	out := c07Outcome{Wire: "none"}
	k := w.k
	binding := saml.HTTPRedirectBinding
	if k.Binding == "post" {
		binding = saml.HTTPPostBinding
	}
	// 1. SP issues the request
	var ar *saml.AuthnRequest
	var hr *http.Request
	var err error
	if pan := guard(func() {
		ar, err = w.sp.MakeAuthenticationRequest(w.sp.GetSSOBindingLocation(binding), binding, saml.HTTPPostBinding)
		if err != nil {
			return
		}
		if binding == saml.HTTPRedirectBinding {
			u, e := ar.Redirect(relay, w.sp)
			if e != nil {
				err = e
				return
			}
			hr = redirectRequest(u)
		} else {
			f := parseForm(string(ar.Post(relay)))
			if f == nil {
				err = fmt.Errorf("no form in the SP's POST-binding page")
				return
			}
			hr = postRequest(f.Action, f.Fields)
		}
	}); pan != nil {
		out.Stage, out.Detail, out.Panic = "panic", fmt.Sprintf("SP request: %v", pan), true
		return out
	}
	if err != nil {
		out.Stage, out.Detail = "sp-request", err.Error()
		return out
	}
	advance(ms(20))
	// 2. IdP answers
	var samlResponse string
	capture := func(r *saml.IdpAuthnRequest) {
		id := c07IdentityOf(r.Assertion)
		out.Captured = &id
	}
	if k.IdPEntry == "servesso" {
		w.idp.SessionProvider = fixedSession{sess}
		w.idp.AssertionMaker = policyMaker{f: capture}
		body := ""
		if hr.Method == "POST" {
			_ = hr.ParseForm()
			body = hr.PostForm.Encode()
		}
		rep := deliver(http.HandlerFunc(w.idp.ServeSSO), hr.Method, hr.URL.String(), body, formCT, nil)
		if rep.Panic != nil {
			out.Stage, out.Detail, out.Panic = "panic", fmt.Sprintf("IdP ServeSSO: %v", rep.Panic), true
			return out
		}
		if rep.Code != http.StatusOK {
			out.Stage, out.Detail = fmt.Sprintf("idp-http-%d", rep.Code), strings.TrimSpace(rep.Body)
			return out
		}
		f := parseForm(rep.Body)
		if f == nil || f.Fields.Get("SAMLResponse") == "" {
			out.Stage, out.Detail = "wire", "IdP page carries no SAMLResponse form"
			return out
		}
		out.ActionURL = f.Action
		samlResponse = f.Fields.Get("SAMLResponse")
	} else {
		var form saml.IdpAuthnRequestForm
		if pan := guard(func() { _, form, err = libIssue(w.idp, hr, sess, capture) }); pan != nil {
			out.Stage, out.Detail, out.Panic = "panic", fmt.Sprintf("IdP: %v", pan), true
			return out
		}
		if err != nil {
			st := "idp-error"
			for _, p := range []string{"parse", "validate", "assertion", "binding"} { // stage prefixes are the harness's own (libIssue)
				if strings.HasPrefix(err.Error(), p+":") {
					st = "idp-" + p
				}
			}
			out.Stage, out.Detail = st, err.Error()
			return out
		}
		out.ActionURL = form.URL
		samlResponse = form.SAMLResponse
	}
	raw, derr := base64.StdEncoding.DecodeString(samlResponse)
	if derr != nil {
		out.Stage, out.Detail = "wire", "SAMLResponse is not base64: "+derr.Error()
		return out
	}
	out.Wire = c07WireForm(raw)
	advance(ms(20))
	// 3. SP consumes it: the request ID is the only outstanding one, delivered at the ACS URL the form names
	var as *saml.Assertion
	if pan := guard(func() {
		if k.SPEntry == "post" {
			r := postRequest(out.ActionURL, map[string][]string{"SAMLResponse": {samlResponse}, "RelayState": {relay}})
			_ = r.ParseForm()
			as, err = w.sp.ParseResponse(r, []string{ar.ID})
		} else {
			as, err = w.sp.ParseXMLResponse(raw, []string{ar.ID}, mustURL(out.ActionURL))
		}
	}); pan != nil {
		out.Stage, out.Detail, out.Panic = "panic", fmt.Sprintf("SP: %v", pan), true
		return out
	}
	if err != nil || as == nil {
		out.Stage, out.Detail = "sp-reject", privErr(err)
		return out
	}
	id := c07IdentityOf(as)
	out.Returned = &id
	return out
}

// c07WireForm says how the assertion travelled: plain, encrypted, both or none.
func c07WireForm(raw []byte) string {
	doc := etree.NewDocument()
	if err := doc.ReadFromBytes(raw); err != nil || doc.Root() == nil {
		return "unparseable"
	}
	plain, enc := 0, 0
	for _, e := range doc.Root().FindElements("//*") {
		switch e.Tag {
		case "Assertion":
			plain++
		case "EncryptedAssertion":
			enc++
		}
	}
	switch {
	case plain > 0 && enc > 0:
		return "both"
	case plain > 0:
		return "plain"
	case enc > 0:
		return "encrypted"
	}
	return "none"
}

func (s c07Session) classes() []string {
	var out []string
	add := func(f string, v c07Str) {
		if v.Class != "plain" {
			out = append(out, f+":"+v.Class)
		}
	}
	add("nameid", s.NameID)
	add("index", s.Index)
	add("username", s.UserName)
	add("email", s.UserEmail)
	add("cn", s.CommonName)
	add("sn", s.Surname)
	add("gn", s.GivenName)
	add("affiliation", s.Affiliation)
	add("eppn", s.EPPN)
	add("subject-id", s.SubjectID)
	for i, g := range s.Groups {
		add(fmt.Sprintf("group%d", i), g)
	}
	for i, a := range s.Custom {
		add(fmt.Sprintf("custom%d.name", i), a.Name)
		if a.Friendly.Class != "empty" {
			add(fmt.Sprintf("custom%d.friendly", i), a.Friendly)
		}
		for j, v := range a.Values {
			if n := a.nameID(j); n != nil {
				out = append(out, fmt.Sprintf("custom%d.value%d:name-identifier", i, j))
				add(fmt.Sprintf("custom%d.value%d.nameid", i, j), n.Value)
				if v.Class != "empty" {
					add(fmt.Sprintf("custom%d.value%d.text", i, j), v)
				}
				continue
			}
			add(fmt.Sprintf("custom%d.value%d", i, j), v)
		}
		if len(a.Values) == 0 {
			out = append(out, fmt.Sprintf("custom%d.values:none", i))
		}
	}
	return out
}

func (s c07Session) all() []c07Str {
	out := []c07Str{s.NameID, s.Index, s.UserName, s.UserEmail, s.CommonName, s.Surname, s.GivenName, s.Affiliation, s.EPPN, s.SubjectID}
	out = append(out, s.Groups...)
	for _, a := range s.Custom {
		out = append(out, a.Name, a.Friendly)
		out = append(out, a.Values...)
		for _, n := range a.NameIDs {
			if n != nil {
				out = append(out, n.Value)
			}
		}
	}
	return out
}

// nameIDValued counts the custom attribute values that are name identifier elements.
func (s c07Session) nameIDValued() int {
	c := 0
	for _, a := range s.Custom {
		for _, n := range a.NameIDs {
			if n != nil {
				c++
			}
		}
	}
	return c
}

func (s c07Session) hasCR() bool {
	for _, v := range s.all() {
		if strings.ContainsRune(v.str(), '\r') {
			return true
		}
	}
	return false
}

// c07StripCR returns the same session with every carriage return removed (control for attribution).
func (s c07Session) mapStrings(f func(string) string) c07Session {
	m := func(v c07Str) c07Str { return c07Str{V: f(v.V), Rep: f(v.Rep), N: v.N, Class: v.Class} }
	o := s
	o.NameID, o.Index, o.UserName, o.UserEmail, o.CommonName, o.Surname = m(s.NameID), m(s.Index), m(s.UserName), m(s.UserEmail), m(s.CommonName), m(s.Surname)
	o.GivenName, o.Affiliation, o.EPPN, o.SubjectID = m(s.GivenName), m(s.Affiliation), m(s.EPPN), m(s.SubjectID)
	o.Groups = nil
	for _, g := range s.Groups {
		o.Groups = append(o.Groups, m(g))
	}
	o.Custom = nil
	for _, a := range s.Custom {
		na := c07Attr{Name: m(a.Name), Friendly: m(a.Friendly), NameFormat: a.NameFormat}
		for _, v := range a.Values {
			na.Values = append(na.Values, m(v))
		}
		for _, n := range a.NameIDs {
			if n != nil {
				c := *n
				c.Value = m(n.Value)
				n = &c
			}
			na.NameIDs = append(na.NameIDs, n)
		}
		o.Custom = append(o.Custom, na)
	}
	return o
}

func c07NormEOL(s string) string {
	return strings.ReplaceAll(strings.ReplaceAll(s, "\r\n", "\n"), "\r", "\n")
}

func c07ValidXMLString(s string) bool {
	if !utf8.ValidString(s) {
		return false
	}
	for _, r := range s {
		ok := r == 0x9 || r == 0xA || r == 0xD || (r >= 0x20 && r <= 0xD7FF) || (r >= 0xE000 && r <= 0xFFFD) || (r >= 0x10000 && r <= 0x10FFFF)
		if !ok {
			return false
		}
	}
	return true
}

func c07DiffKinds(d []c07Diff) string {
	set := map[string]bool{}
	for _, x := range d {
		set[x.Kind] = true
	}
	return strings.Join(sortedKeys(set), "+")
}

// ---------------------------------------------------------------- execution + oracle

func execRoundtrip(t *testing.T, p *Plan) *Result {
	res := newResult()
	k := decode[c07Knobs](p.Knobs)
	if k.SPKey == "none" {
		k.SPSig = "" // nothing to sign with
	}
	installRand(p)
	start := time.Now()
	def := c07DefaultKnobs()
	nonDefault := k != def

	w, stage, detail := c07Build(k)
	res.logf("world sp_key=%s entity_id_set=%v binding=%s sp_sig=%s idp_key=%s idp_intermediates=%d signer=%v idp_sig=%s idp_entry=%s sp_entry=%s md=%s build=%s",
		k.SPKey, k.EntityID != "", k.Binding, c07Short(k.SPSig), k.IdPKey, k.IdPChain, k.IdPSigner, c07Short(k.IdPSig), k.IdPEntry, k.SPEntry, k.MDWire, c07Or(stage, "ok"))
	if stage != "" {
		if stage == "plan" {
			panic("harness: " + detail)
		}
		res.Nontrivial = true
		res.violate(-1, "metadata-exchange-failed", "C07/metadata-exchange/"+stage, "each party can be configured from the other's published metadata", "failed at "+stage, detail)
		return res
	}
	isEC := strings.HasPrefix(k.SPKey, "ec")
	// an SP with an RSA certificate publishes it as its encryption key; a certificate with another kind
	// of key cannot be encrypted to with the key transports the library offers, so that SP gets plaintext
	wantEncrypted := k.SPKey != "none" && !isEC
	if isEC {
		res.probe("ecdsa-sp-key")
	}
	if k.IdPSigner {
		res.probe("idp-crypto-signer")
	}

	for si, raw := range p.Steps {
		st := decode[c07Step](raw)
		if st.Kind == "reregister" {
			if stage, detail := w.reregister(st.NewKey); stage != "" {
				if stage == "plan" {
					panic("harness: " + detail)
				}
				res.violate(si, "metadata-exchange-failed", "C07/metadata-exchange/"+stage, "each party can be configured from the other's published metadata", "failed at "+stage, detail)
				return res
			}
			k = w.k
			isEC = strings.HasPrefix(k.SPKey, "ec")
			wantEncrypted = k.SPKey != "none" && !isEC
			res.Nontrivial = true
			res.fire("sp-reregistered")
			res.logf("step %d the SP re-registered with key %s (same entity ID)", si, st.NewKey)
			continue
		}
		if st.Kind != "flow" {
			continue
		}
		for _, v := range st.Session.all() {
			if !c07ValidXMLString(v.str()) {
				panic(fmt.Sprintf("harness: plan string outside the XML 1.0 character range: %q", v.str()))
			}
		}
		classes := st.Session.classes()
		if len(classes) > 0 || nonDefault {
			res.Nontrivial = true
		}
		hasCR := st.Session.hasCR()
		sess := st.Session.toSession()
		out := c07Flow(w, sess, st.Relay)

		observed := "ACCEPT"
		switch {
		case out.Panic:
			observed = "PANIC"
		case out.Stage == "sp-reject":
			observed = "SP-REJECT"
		case out.Stage != "":
			observed = "FAILED(" + out.Stage + ")"
		}
		var capDiff, retDiff []c07Diff
		if out.Captured != nil {
			capDiff = c07SessionVsAssertion(sess, *out.Captured)
		}
		if out.Returned != nil && out.Captured != nil {
			retDiff = c07Compare(*out.Captured, *out.Returned)
		}
		ident := "n/a"
		if out.Returned != nil {
			ident = "equal"
			if len(retDiff) > 0 {
				ident = "differs(" + c07DiffKinds(retDiff) + ")"
			}
		}
		res.logf("step %d flow classes=%v cr=%v wire=%s expect=ACCEPT+identity observed=%s idp-assertion-vs-session=%s returned-vs-idp-assertion=%s",
			si, classes, hasCR, out.Wire, observed, c07Or(c07DiffKinds(capDiff), "equal"), ident)
		for _, v := range st.Session.all() {
			if v.N > 0 {
				res.probe("long-string")
			}
		}
		if hasCR {
			res.probe("carriage-return/" + out.Wire)
		}
		for _, a := range st.Session.Custom {
			if len(a.Values) == 0 {
				res.probe("custom-attribute-without-values/" + observed)
				break
			}
		}
		for j, a := range st.Session.Custom {
			if j > 0 && a.Name.str() == st.Session.Custom[0].Name.str() && a.NameFormat == st.Session.Custom[0].NameFormat {
				res.probe("custom-attributes-share-name-and-format/" + observed)
				break
			}
		}
		if st.Session.nameIDValued() > 0 {
			res.probe("custom-attribute-value-is-name-identifier/wire=" + out.Wire + "/" + observed)
		}
		if strings.HasSuffix(k.IdPKey, "leaf") {
			res.probe(fmt.Sprintf("idp-certificate-issued-by-ca/%s/intermediates=%d/%s", k.IdPKey, k.IdPChain, observed))
		}
		if kp, ok := c07Key(k.SPKey); ok {
			if pub, isRSA := kp.Cert.PublicKey.(*rsa.PublicKey); isRSA && pub.N.BitLen() != 2048 {
				res.probe(fmt.Sprintf("sp-rsa-key-%d-bit/idp-sig=%s/wire=%s", pub.N.BitLen(), c07Short(k.IdPSig), out.Wire))
			}
		}

		if out.Panic {
			// nothing hostile is in play in this profile (the library's own SP, its own IdP, a session of the application's): a panic
			// is a round trip that did not happen
			res.logf("panic: %s", short(out.Detail, 100))
			res.violate(si, "round-trip-panicked", "C07/panic/"+strings.SplitN(out.Detail, ":", 2)[0], "the IdP answers and the SP accepts", "panic", short(out.Detail, 300))
			return res
		}
		// --- the IdP must have built an assertion that is exactly the session
		if len(capDiff) > 0 {
			d := capDiff[0]
			res.violate(si, "idp-assertion-differs-from-session", "C07/idp-assertion/"+d.Kind, "IdP assertion carries "+d.Field+" = "+c07Q(d.Expected), c07Q(d.Observed), fmt.Sprintf("%d differences", len(capDiff)))
			return res
		}
		switch {
		case out.Stage == "sp-request":
			res.violate(si, "sp-cannot-issue-request", "C07/sp-request-error", "SP issues an AuthnRequest", "error", out.Detail)
			return res
		case strings.HasPrefix(out.Stage, "idp-") || out.Stage == "wire":
			encStage := out.Stage == "idp-binding" || out.Stage == "idp-http-500"
			if isEC && encStage {
				res.violate(si, "ecdsa-sp-key-idp-cannot-encrypt", "C07/ecdsa-sp-key/idp-cannot-encrypt", "ACCEPT (SP with an ECDSA key, registered from its own published metadata)", "IdP fails to produce a response: "+out.Stage, out.Detail)
				return res
			}
			res.violate(si, "idp-failed", "C07/idp-failed/"+out.Stage, "IdP answers the SP's request", "failure at "+out.Stage, out.Detail)
			return res
		case out.Stage == "sp-reject":
			if hasCR {
				// attribution control: the same flow without the carriage returns
				ctl := c07Flow(w, st.Session.mapStrings(func(s string) string { return strings.ReplaceAll(s, "\r", "") }).toSession(), st.Relay)
				ok := ctl.Stage == "" && ctl.Returned != nil // accepted: the rejection is down to the carriage returns
				res.logf("step %d control-without-CR accepted=%v", si, ok)
				if ok {
					res.violate(si, "carriage-return-unverifiable", "C07/carriage-return/unverifiable", "ACCEPT with the session's identity", "SP rejects the IdP's response (wire="+out.Wire+"); the same session without its carriage returns is accepted", out.Detail)
					return res
				}
			}
			res.violate(si, "rejected", "C07/rejected/wire-"+out.Wire, "ACCEPT with the session's identity", "SP rejects the IdP's response", out.Detail)
			return res
		}
		// --- accepted: the returned assertion must be the IdP's, value for value, in order
		if len(retDiff) > 0 {
			d := retDiff[0]
			allCR := hasCR
			for _, x := range retDiff {
				if !(strings.ContainsRune(x.Expected, '\r') && c07NormEOL(x.Expected) == x.Observed) {
					allCR = false
				}
			}
			if allCR {
				res.violate(si, "carriage-return-altered", "C07/carriage-return/altered", d.Field+" = "+c07Q(d.Expected), c07Q(d.Observed), fmt.Sprintf("wire=%s; %d fields differ, every difference is a carriage return turned into a line feed", out.Wire, len(retDiff)))
				return res
			}
			res.violate(si, "identity-altered", "C07/altered/"+d.Kind, d.Field+" = "+c07Q(d.Expected), c07Q(d.Observed), fmt.Sprintf("wire=%s; %d differences (%s)", out.Wire, len(retDiff), c07DiffKinds(retDiff)))
			return res
		}
		if out.ActionURL != w.sp.AcsURL.String() {
			res.violate(si, "wrong-delivery-url", "C07/form-action", w.sp.AcsURL.String(), out.ActionURL, "")
			return res
		}
		// --- the configuration asked for encryption the only way an SP can (it has a certificate)
		if wantEncrypted && out.Wire != "encrypted" {
			res.violate(si, "encryption-not-exercised", "C07/encryption-knob/"+out.Wire+"-on-wire", "SP with an RSA certificate receives an EncryptedAssertion", "wire="+out.Wire, "the SP's published metadata did not make the IdP encrypt")
			return res
		}
		if !wantEncrypted && out.Wire != "plain" {
			res.violate(si, "encryption-not-exercised", "C07/encryption-knob/"+out.Wire+"-on-wire", "SP without an encryption-capable certificate receives a plain Assertion", "wire="+out.Wire, "")
			return res
		}
		advance(ms(1000))
	}
	res.SimMillis = time.Since(start).Milliseconds()
	return res
}

func c07Short(m string) string {
	if i := strings.LastIndexAny(m, "#"); i >= 0 {
		return m[i+1:]
	}
	return c07Or(m, "-")
}

func c07Or(s, d string) string {
	if s == "" {
		return d
	}
	return s
}

// ---------------------------------------------------------------- simplification

func c07SimplerStr(v c07Str) []c07Str {
	var out []c07Str
	if v.N > 0 {
		out = append(out, c07Str{V: v.V, Class: v.Class}, c07Str{V: v.V, Rep: v.Rep, N: v.N / 2, Class: v.Class})
	}
	if v.V != "a" && v.str() != "" {
		out = append(out, c07Str{V: "a", Class: "plain"})
	}
	r := []rune(v.V)
	if len(r) > 1 {
		cl := strings.TrimSuffix(v.Class, "(cut)") + "(cut)"
		out = append(out, c07Str{V: string(r[:len(r)/2]), Rep: v.Rep, N: v.N, Class: cl}, c07Str{V: string(r[len(r)/2:]), Rep: v.Rep, N: v.N, Class: cl})
	}
	return out
}

func simplifyRoundtrip(p *Plan) []*Plan {
	var out []*Plan
	k := decode[c07Knobs](p.Knobs)
	def := c07DefaultKnobs()
	withKnobs := func(f func(k *c07Knobs)) {
		c := p.Clone()
		k2 := k
		f(&k2)
		if k2 != k {
			c.Knobs = mustJSON(k2)
			out = append(out, c)
		}
	}
	withKnobs(func(k *c07Knobs) { *k = def })
	withKnobs(func(k *c07Knobs) { k.SPSig = "" })
	withKnobs(func(k *c07Knobs) {
		if !strings.HasPrefix(k.SPKey, "rsa") {
			k.SPSig = ""
		}
		k.SPKey = def.SPKey
	})
	withKnobs(func(k *c07Knobs) { k.EntityID = "" })
	withKnobs(func(k *c07Knobs) { k.Binding = def.Binding })
	withKnobs(func(k *c07Knobs) { k.IdPKey, k.IdPSigner, k.IdPSig, k.IdPChain = def.IdPKey, false, "", 0 })
	withKnobs(func(k *c07Knobs) { k.IdPChain = 0 })
	withKnobs(func(k *c07Knobs) {
		if k.IdPChain > 1 {
			k.IdPChain = 1
		}
	})
	withKnobs(func(k *c07Knobs) {
		if !strings.HasPrefix(k.IdPKey, "ec") {
			k.IdPSigner = false
		}
	})
	withKnobs(func(k *c07Knobs) {
		if !strings.HasPrefix(k.IdPKey, "ec") {
			k.IdPSig = ""
		}
	})
	withKnobs(func(k *c07Knobs) { k.IdPEntry = def.IdPEntry })
	withKnobs(func(k *c07Knobs) { k.SPEntry = def.SPEntry })
	withKnobs(func(k *c07Knobs) { k.MDWire = def.MDWire })

	for i, raw := range p.Steps {
		st := decode[c07Step](raw)
		emit := func(f func(s *c07Step)) {
			s2 := decode[c07Step](raw)
			f(&s2)
			c := p.Clone()
			c.Steps[i] = mustJSON(s2)
			out = append(out, c)
		}
		if st.Relay != "" {
			emit(func(s *c07Step) { s.Relay = "" })
		}
		if st.Session.NameIDFormat != "" {
			emit(func(s *c07Step) { s.Session.NameIDFormat = "" })
		}
		if len(st.Session.Groups) > 0 {
			emit(func(s *c07Step) { s.Session.Groups = nil })
			for j := range st.Session.Groups {
				emit(func(s *c07Step) {
					s.Session.Groups = append(append([]c07Str{}, s.Session.Groups[:j]...), s.Session.Groups[j+1:]...)
				})
			}
		}
		if len(st.Session.Custom) > 0 {
			emit(func(s *c07Step) { s.Session.Custom = nil })
			for j := range st.Session.Custom {
				emit(func(s *c07Step) {
					s.Session.Custom = append(append([]c07Attr{}, s.Session.Custom[:j]...), s.Session.Custom[j+1:]...)
				})
				if len(st.Session.Custom[j].Values) > 1 {
					for q := range st.Session.Custom[j].Values {
						emit(func(s *c07Step) {
							v := s.Session.Custom[j].Values
							s.Session.Custom[j].Values = append(append([]c07Str{}, v[:q]...), v[q+1:]...)
							if n := s.Session.Custom[j].NameIDs; q < len(n) {
								s.Session.Custom[j].NameIDs = append(append([]*c07NIDVal{}, n[:q]...), n[q+1:]...)
							}
						})
					}
				}
				if len(st.Session.Custom[j].NameIDs) > 0 {
					// all values plain strings, then each name identifier on its own: plain string, bare element
					emit(func(s *c07Step) { s.Session.Custom[j].NameIDs = nil })
					for q, n := range st.Session.Custom[j].NameIDs {
						if n == nil {
							continue
						}
						emit(func(s *c07Step) { s.Session.Custom[j].NameIDs[q] = nil })
						if n.Format != "" || n.NameQualifier != "" || n.SPNameQualifier != "" {
							emit(func(s *c07Step) { s.Session.Custom[j].NameIDs[q] = &c07NIDVal{Value: n.Value} })
						}
					}
				}
			}
		}
		// scalar fields: empty, then simpler
		fields := func(s *c07Session) []*c07Str {
			fs := []*c07Str{&s.NameID, &s.Index, &s.UserName, &s.UserEmail, &s.CommonName, &s.Surname, &s.GivenName, &s.Affiliation, &s.EPPN, &s.SubjectID}
			for j := range s.Groups {
				fs = append(fs, &s.Groups[j])
			}
			for j := range s.Custom {
				fs = append(fs, &s.Custom[j].Name, &s.Custom[j].Friendly)
				for q := range s.Custom[j].Values {
					fs = append(fs, &s.Custom[j].Values[q])
				}
				for _, n := range s.Custom[j].NameIDs {
					if n != nil {
						fs = append(fs, &n.Value)
					}
				}
			}
			return fs
		}
		cur := fields(&st.Session)
		// all non-hostile at once is tried first: every field but one → plain
		for fi := range cur {
			if cur[fi].Class == "plain" || cur[fi].Class == "empty" {
				continue
			}
			emit(func(s *c07Step) {
				for fj, f := range fields(&s.Session) {
					if fj != fi && f.str() != "" {
						*f = c07Str{V: "a", Class: "plain"}
					}
				}
			})
		}
		for fi := range cur {
			if cur[fi].str() != "" && fi >= 2 { // NameID and Index stay (an empty one is its own class)
				emit(func(s *c07Step) { *fields(&s.Session)[fi] = c07Str{Class: "empty"} })
			}
			for _, sv := range c07SimplerStr(*cur[fi]) {
				emit(func(s *c07Step) { *fields(&s.Session)[fi] = sv })
			}
		}
	}
	return out
}

func init() {
	register(&Profile{
		ID: "C07", Name: "roundtrip", Level: "exploration",
		Rule: "each run: one world (real library IdP + real library SP, each configured only from the other's published metadata passed as bytes: IdP metadata through ServeMetadata/xml.Marshal → samlsp.ParseMetadata, SP metadata through Middleware.ServeMetadata/xml.Marshal → xml.Unmarshal → IdP registry) with drawn knobs {SP key RSA 2048-bit×6 (one with keyUsage digitalSignature only, one with a SubjectKeyIdentifier), RSA 4096-bit, RSA 1024-bit/ECDSA×2/none, entity ID unset/URL/URN/URN with markup, request binding redirect/POST, requests unsigned or signed with any RSA/ECDSA method, IdP key RSA×2 or ECDSA via crypto.Signer (self-signed), or an RSA / ECDSA key whose certificate an issuing CA under a root CA issued, with 0, 1 or 2 of the CA certificates in IdentityProvider.Intermediates, Key vs Signer, IdP signature method default/RSA-SHA1/256/384/512 (ECDSA-SHA1..512 for the ECDSA signer), IdP entry PostBinding vs ServeSSO+HTML5 form parse, SP entry ParseXMLResponse vs ParseResponse, metadata compact vs indented}, then 1-3 fault-free flows, each for a session whose ~12-25 strings (NameID, Index, UserName, UserEmail, UserCommonName, UserSurname, UserGivenName, UserScopedAffiliation, EduPersonPrincipalName, SubjectID, 0-3 groups, 0-2 custom attributes with name, friendly name and 0-3 values (an attribute without any value is part of the identity by its name; a second attribute may repeat the first one's name and name format; a value is a string or a name identifier element - AttributeValue.NameID with value, Format, NameQualifier, SPNameQualifier - with or without text beside it)) are drawn from 17 XML-hostile classes × 6 placements (whole/prefix/suffix/infix/both ends/repeated), random mixes of valid XML 1.0 characters, empty and 1k-200k character strings. Non-trivial = the run contains at least one non-plain string class or one non-default knob; distinct = distinct abstract log (knobs, per-field class list, wire form, outcome, comparison result)",
		Gen:  genRoundtrip, Exec: execRoundtrip, Simplify: simplifyRoundtrip,
		RunsQuick: 3000, RunsThorough: 300000,
		Assumptions: []string{
			"nothing in this property needs a fault, a clock position or a schedule: the simulator contributes the multi-party composition (metadata exchange, request, response over the simulated wire) and ordinary input generation",
			"session strings are restricted to XML 1.0 characters (no NUL/C0 controls other than TAB LF CR, no surrogates, no U+FFFE/U+FFFF)",
			"'the IdP's assertion equals the session' is checked without knowledge of attribute naming: each non-empty scalar is the single value of some attribute, groups are one attribute's values in order, custom attributes appear unchanged in order, no value is foreign",
			"an SP is given encryption exactly when it has a certificate (its Metadata() then publishes it as encryption key); without a certificate requests are unsigned",
			"the ECDSA IdP key is only used through crypto.Signer (IdentityProvider.Key with an ECDSA key is not a supported configuration and is not generated)",
			"an IdP that sends its certificate chain along (IdentityProvider.Intermediates) has a certificate those CAs really issued; its metadata publishes the IdP's own certificate only, and that is all the SP is configured with",
			"a name identifier inside an attribute value is compared by value, Format, NameQualifier, SPNameQualifier and SPProvidedID, as part of that value",
		},
		Components: map[string][]string{
			"real": {"saml.IdentityProvider (Metadata, ServeMetadata, ServeSSO, NewIdpAuthnRequest, Validate, DefaultAssertionMaker, MakeAssertionEl, MakeResponse, PostBinding/WriteResponse)", "saml.ServiceProvider (Metadata, MakeAuthenticationRequest, Redirect/Post, ParseResponse, ParseXMLResponse)", "samlsp.ParseMetadata, samlsp.Middleware.ServeMetadata", "xmlenc, goxmldsig, etree, xml-roundtrip-validator, html/template"},
			"stub": {"browser (HTML5 form parse, redirect/POST delivery)", "session provider returning the drawn session", "AssertionMaker delegating to DefaultAssertionMaker and recording the assertion"},
		},
	})
}
