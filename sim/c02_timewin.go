package samlsim

import (
	"bytes"
	"encoding/base64"
	"encoding/json"
	"fmt"
	"io"
	"math"
	"net/http"
	"net/http/httptest"
	"net/url"
	"strings"
	"testing"
	"time"

	"github.com/beevik/etree"
	"github.com/crewjam/saml"
)

// C02 — validity windows at the documented tolerances (profile `windows`).
//
// Simulator dimension: the clock. An IdP issues at its time t0; the network delays the
// message; the SP's clock is skewed; SP-now lands at a chosen position relative to each
// of the bounds of the response. Tolerances are per-run knobs.

type winKnobs struct {
	MaxIssueDelayMs int64 `json:"MaxIssueDelay_ms"`
	MaxClockSkewMs  int64 `json:"MaxClockSkew_ms"`
	AudienceHook    bool  `json:"custom_audience_validator,omitempty"` // the application installs ValidateAudienceRestriction (accepts this SP's audience)
	AllowIDP        bool  `json:"allow_idp_initiated,omitempty"`       // ServiceProvider.AllowIDPInitiated: says nothing about any validity window
	// ForceAuthn: ServiceProvider.ForceAuthn is set (what the SP asks for in its requests): says nothing about any validity window
	ForceAuthn *bool `json:"force_authn,omitempty"`
	// ReqIDHook: the application installs ValidateRequestID (one that matches InResponseTo exactly like the library's default)
	ReqIDHook bool `json:"custom_request_id_validator,omitempty"`
}

type winStep struct {
	Kind     string   `json:"kind"`  // "deliver"
	Entry    string   `json:"entry"` // xml | post | artifact
	DelayMs  int64    `json:"delay_ms"`
	SkewMs   int64    `json:"sp_skew_ms"`
	ArtIssue int64    `json:"artifact_issue_ms,omitempty"`
	BackMs   int64    `json:"backchannel_ms,omitempty"` // entry artifact-http: simulated time the artifact resolution round trip takes (part of the delivery delay)
	Spec     RespSpec `json:"response"`
	Classes  []string `json:"classes"`                 // generator's intent per bound (informational)
	Lattice  int      `json:"lattice_point,omitempty"` // 1 + index of the enumerated lattice point (0: sampled case)
	Sub      *winSub  `json:"sub_millisecond,omitempty"`
}

// winSub: the parts of the instants below one millisecond, in nanoseconds (every other field of a step is in whole milliseconds).
// An instant of the message is t0 + its *_ms + its *_ns and is written with nine fractional digits; the SP clock reads
// t0 + delay + skew + sp_clock_ns. Absent: everything lies on the millisecond lattice.
type winSub struct {
	NowNs  int64      `json:"sp_clock_ns"`
	RespNs int64      `json:"resp_issue_ns,omitempty"`
	As     []winSubAs `json:"assertions,omitempty"`
}

type winSubAs struct {
	IssueNs int64   `json:"issue_ns,omitempty"`
	NBNs    int64   `json:"nb_ns,omitempty"`
	NOANs   int64   `json:"noa_ns,omitempty"`
	ConfNs  []int64 `json:"conf_noa_ns,omitempty"`
}

func (s *winSub) now() int64 {
	if s == nil {
		return 0
	}
	return s.NowNs
}

func (s *winSub) resp() int64 {
	if s == nil {
		return 0
	}
	return s.RespNs
}

func (s *winSub) as(j int) winSubAs {
	if s == nil || j >= len(s.As) {
		return winSubAs{}
	}
	return s.As[j]
}

func (a winSubAs) conf(q int) int64 {
	if q >= len(a.ConfNs) {
		return 0
	}
	return a.ConfNs[q]
}

// roundNs: ns (|ns| < 1 ms, never exactly half) to the nearest whole millisecond, in ns.
func roundNs(ns int64) int64 {
	switch {
	case ns > 500_000:
		return 1_000_000
	case ns < -500_000:
		return -1_000_000
	}
	return 0
}

// rounded: the same step with every instant of the message moved to the nearest millisecond (the SP clock is left as it is).
func (s *winSub) rounded() *winSub {
	if s == nil {
		return nil
	}
	r := &winSub{NowNs: s.NowNs, RespNs: roundNs(s.RespNs)}
	for _, a := range s.As {
		ra := winSubAs{IssueNs: roundNs(a.IssueNs), NBNs: roundNs(a.NBNs), NOANs: roundNs(a.NOANs)}
		for _, c := range a.ConfNs {
			ra.ConfNs = append(ra.ConfNs, roundNs(c))
		}
		r.As = append(r.As, ra)
	}
	return r
}

const (
	idpEntity = "https://idp.example.com/metadata"
	idpSSO    = "https://idp.example.com/sso"
	idpSLO    = "https://idp.example.com/slo"
	spBase    = "https://sp.example.com"
)

var marginClasses = []string{"far-in", "in+1ms", "out-1ms", "far-out", "edge", "half-in", "half-out"}

func drawMargin(g *Rng, tol int64) (int64, string) {
	switch g.PickW(58, 15, 11, 5, 3, 4, 4) {
	case 0:
		return Pick(g, int64(3_600_000), 10_000, 86_400_000, 1_000), "far-in"
	case 1:
		return 1, "in+1ms"
	case 2:
		return -1, "out-1ms"
	case 3:
		return -Pick(g, int64(3_600_000), 10_000, 86_400_000*365), "far-out"
	case 4:
		return 0, "edge"
	case 5:
		if tol/2 > 0 {
			return tol / 2, "half-in"
		}
		return 1, "in+1ms"
	default:
		if tol/2 > 0 {
			return -tol / 2, "half-out"
		}
		return -1, "out-1ms"
	}
}

// otherACS: assertion consumer endpoints of other relying parties the IdP serves (an IdP that fans an assertion out issues one
// confirmation per Recipient).
var otherACS = []string{"https://other.example.net/saml/acs", spBase + "/saml/acs2", "https://sp.example.com:8443/saml/acs"}

// drawTimeForm draws the lexical form of every instant of one message: one of the seven fixed forms, or (one in four) the instants
// written in a zone drawn from the whole range xs:dateTime admits (-14:00 ... +14:00, quarter hours), biased towards the zones in use
// at both ends of the range (+12:45/+13:45 Chatham, +13:00 Tonga/NZDT, +14:00 Line Islands, -12:00 Baker Island).
func drawTimeForm(g *Rng) int {
	if !g.Bool(0.25) {
		return g.Intn(7)
	}
	if g.Bool(0.5) {
		return zoneFormBase + Pick(g, 13*60, 14*60, 12*60+45, 13*60+45, 12*60, -12*60, -14*60, -(13*60+30), 5*60+45)
	}
	return zoneFormBase + 15*(g.Intn(113)-56)
}

// latticeClasses: the four positions the property's quantifier names per instant.
var latticeClasses = []string{"far-in", "in+1ms", "out-1ms", "far-out"}

func latticeMargin(class string) int64 {
	switch class {
	case "in+1ms":
		return 1
	case "out-1ms":
		return -1
	case "far-out":
		return -3_600_000
	}
	return 3_600_000
}

// genLattice enumerates the lattice {far-in, +1ms, -1ms, far-out}^6 over the six bounds of a
// one-assertion, two-confirmation response (point = idx in base 4); knobs, entry, skew, layout
// and lexical form stay random.
func genLattice(g *Rng, idx uint64) *Plan {
	k := winKnobs{
		MaxIssueDelayMs: Pick(g, int64(1000), 7000, 90_000, 660_000, 7_200_000),
		MaxClockSkewMs:  Pick(g, int64(0), 1000, 180_000, 1_020_000),
		AudienceHook:    g.Bool(0.15),
		AllowIDP:        g.Bool(0.2),
		ForceAuthn:      Pick[*bool](g, nil, nil, nil, bp(true), bp(true), bp(false)),
		ReqIDHook:       g.Bool(0.15),
	}
	st := winStep{Kind: "deliver", Entry: Pick(g, "xml", "xml", "post"), Lattice: int(idx) + 1}
	st.SkewMs = Pick(g, int64(0), 1000, -1000, 250_000, -250_000)
	st.DelayMs = Pick(g, int64(0), 500, 60_000, 7_000_000) + g.Int63n(1000)
	x := st.DelayMs + st.SkewMs
	mid, mcs := k.MaxIssueDelayMs, k.MaxClockSkewMs
	digit := func(i int) string { return latticeClasses[(idx>>(2*uint(i)))&3] }
	spec := RespSpec{ID: "id-resp-0", Issuer: sp(idpEntity), Destination: spBase + "/saml/acs", InResponseTo: "id-req", Status: saml.StatusSuccess, TimeForm: drawTimeForm(g)}
	spec.IssueMs = x + latticeMargin(digit(0)) - mid
	layout := g.Intn(3)
	spec.Sign = layout != 1
	a := AsrtSpec{ID: "id-as-0-0", Issuer: idpEntity, NameID: marker("nid", 0), Audiences: []string{spBase + "/saml/metadata"}, Sign: layout != 0, SessionIndex: "si"}
	a.IssueMs = x + latticeMargin(digit(1)) - mid
	a.NotBefore = i64(x - latticeMargin(digit(2)) + mcs)
	a.NotOnOrAfter = i64(x + latticeMargin(digit(3)) - mcs)
	a.Confs = []ConfSpec{
		{NotOnOrAfter: i64(x + latticeMargin(digit(4)) - mcs), Recipient: spBase + "/saml/acs", InResponseTo: "id-req"},
		{NotOnOrAfter: i64(x + latticeMargin(digit(5)) - mcs), Recipient: spBase + "/saml/acs", InResponseTo: "id-req",
			Method: Pick(g, "", "", "urn:oasis:names:tc:SAML:2.0:cm:holder-of-key", "urn:oasis:names:tc:SAML:2.0:cm:sender-vouches")},
	}
	for ci := range a.Confs {
		if g.Bool(0.2) {
			a.Confs[ci].NotBefore = i64(-86_400_000)
		}
	}
	if g.Bool(0.15) {
		// one of the two confirmations is addressed to another relying party: its NotOnOrAfter binds all the same
		a.Confs[g.Intn(2)].Recipient = Pick(g, otherACS...)
	}
	st.Classes = []string{"resp-issue:" + digit(0), "as0-issue:" + digit(1), "as0-nb:" + digit(2), "as0-noa:" + digit(3), "as0-conf0:" + digit(4), "as0-conf1:" + digit(5)}
	spec.Assertions = []AsrtSpec{a}
	if g.Bool(0.12) {
		spec.NSDecls = winNSDecls(g, x)
	}
	if g.Bool(0.1) {
		spec.QualAttrs = withNS(winNSDecls(g, x), Pick(g, "", "xml", "xsi")) // the same names and instants as extension attributes in a foreign namespace, signed by the IdP
	}
	if g.Bool(0.3) {
		// the IdP's own session ends hours later (SessionNotOnOrAfter): that is about the IdP's session, not about this assertion's windows
		spec.Assertions[0].SessionNOA = i64(x + Pick(g, int64(8*3_600_000), 86_400_000, 60_000))
	}
	if g.Bool(0.3) {
		// the IdP answers from a session it opened minutes, hours or weeks ago (AuthnInstant): when the user logged in at the IdP is none of the windows
		spec.Assertions[0].AuthnMs = i64(-Pick(g, int64(600_000), 8*3_600_000, 30*86_400_000))
	}
	st.Spec = spec
	return &Plan{Knobs: mustJSON(k), Steps: []json.RawMessage{mustJSON(st)}}
}

// winNSDecls draws unused namespace declarations whose prefixes are the names of the instants the checks read and whose values are
// instants that would change every verdict if anybody took them for those attributes (x: the validator's clock at delivery, ms after t0).
func winNSDecls(g *Rng, x int64) []NSDecl {
	day := int64(86_400_000)
	all := []NSDecl{
		{On: "Response", Prefix: "IssueInstant", Value: fmt.Sprintf("@ms:%d", x)},
		{On: "Assertion", Prefix: "IssueInstant", Value: fmt.Sprintf("@ms:%d", x)},
		{On: "Conditions", Prefix: "NotOnOrAfter", Value: fmt.Sprintf("@ms:%d", x+day)},
		{On: "Conditions", Prefix: "NotBefore", Value: fmt.Sprintf("@ms:%d", x-day)},
		{On: "SubjectConfirmationData", Prefix: "NotOnOrAfter", Value: fmt.Sprintf("@ms:%d", x+day)},
	}
	if g.Bool(0.3) {
		// ... or that would condemn a response inside every window
		all = []NSDecl{
			{On: "Response", Prefix: "IssueInstant", Value: fmt.Sprintf("@ms:%d", x-400*day)},
			{On: "Conditions", Prefix: "NotOnOrAfter", Value: fmt.Sprintf("@ms:%d", x-day)},
			{On: "Conditions", Prefix: "NotBefore", Value: fmt.Sprintf("@ms:%d", x+day)},
			{On: "SubjectConfirmationData", Prefix: "NotOnOrAfter", Value: fmt.Sprintf("@ms:%d", x-day)},
		}
	}
	var out []NSDecl
	for _, d := range all {
		if g.Bool(0.6) {
			out = append(out, d)
		}
	}
	return out
}

func genWindows(g *Rng, tier string) *Plan {
	if g.Run%2 == 1 { // every other run walks the lattice systematically
		return genLattice(g, (g.Run/2)%4096)
	}
	k := winKnobs{
		MaxIssueDelayMs: Pick(g, int64(1000), 7000, 90_000, 660_000, 7_200_000),
		MaxClockSkewMs:  Pick(g, int64(0), 1000, 180_000, 1_020_000, 1_020_000, -1000),
		AudienceHook:    g.Bool(0.15),
		AllowIDP:        g.Bool(0.2),
		ForceAuthn:      Pick[*bool](g, nil, nil, nil, bp(true), bp(true), bp(false)),
		ReqIDHook:       g.Bool(0.15),
	}
	p := &Plan{Knobs: mustJSON(k)}
	subMs := g.Bool(0.1) // one sampled run in ten (5% of all runs): instants and SP clock off the millisecond lattice
	n := 1 + g.PickW(6, 3, 1)
	for i := 0; i < n; i++ {
		st := winStep{Kind: "deliver", Entry: Pick(g, "xml", "xml", "post", "artifact", "artifact-http")}
		st.SkewMs = Pick(g, int64(0), 0, 1000, -1000, k.MaxClockSkewMs/2, -k.MaxClockSkewMs/2, 250_000, -250_000)
		st.DelayMs = Pick(g, int64(0), 1, 500, 5000, 60_000, 600_000, 7_000_000) + g.Int63n(1000)
		if st.Entry == "artifact-http" {
			st.BackMs = Pick(g, int64(0), 5, 1000, 90_000, 3_600_000)
		}
		x := st.DelayMs + st.BackMs + st.SkewMs // SP-now (when the response is examined) minus t0
		mid, mcs := k.MaxIssueDelayMs, k.MaxClockSkewMs
		spec := RespSpec{ID: fmt.Sprintf("id-resp-%d", i), Issuer: sp(idpEntity), Destination: spBase + "/saml/acs",
			InResponseTo: "id-req", Status: saml.StatusSuccess, TimeForm: drawTimeForm(g)}
		m, c := drawMargin(g, mid)
		spec.IssueMs = x + m - mid
		if c == "far-out" && g.Bool(0.5) {
			// centuries back, verbatim: "@wrap" = the SP's clock at examination - 2^64 ns - 30 s, where 64-bit nanosecond arithmetic comes round to "30 s ago"
			spec.IssueText, spec.IssueMs = Pick(g, "@wrap", "@wrap", "1700-01-01T00:00:00Z", "1000-06-15T12:00:00Z", "0001-01-01T00:00:00Z"), -3_000_000_000_000
		}
		st.Classes = append(st.Classes, "resp-issue:"+c)
		if strings.HasPrefix(st.Entry, "artifact") {
			m, c = drawMargin(g, mid)
			st.ArtIssue = x + m - mid
			st.Classes = append(st.Classes, "art-issue:"+c)
		}
		layout := g.Intn(3) // 0: response signed, 1: assertion signed, 2: both
		spec.Sign = layout != 1
		if layout == 1 && g.Bool(0.4) {
			spec.Destination = "" // an unsigned envelope without the (optional) Destination attribute: its IssueInstant counts all the same
		}
		na := 1 + g.PickW(4, 1)
		for j := 0; j < na; j++ {
			a := AsrtSpec{ID: fmt.Sprintf("id-as-%d-%d", i, j), Issuer: idpEntity, NameID: marker("nid", j),
				Audiences: []string{spBase + "/saml/metadata"}, Sign: layout != 0, SessionIndex: "si"}
			m, c = drawMargin(g, mid)
			a.IssueMs = x + m - mid
			if c == "far-out" && g.Bool(0.5) {
				a.IssueText, a.IssueMs = Pick(g, "@wrap", "@wrap", "1700-01-01T00:00:00Z", "1000-06-15T12:00:00Z"), -3_000_000_000_000
			}
			st.Classes = append(st.Classes, fmt.Sprintf("as%d-issue:%s", j, c))
			m, c = drawMargin(g, mcs)
			a.NotBefore = i64(x - m + mcs)
			if c == "far-out" && g.Bool(0.4) {
				// the xs:dateTime end-of-day form: 24:00:00 of a day is 00:00:00 of the NEXT day. Whether the parser admits it or not, an
				// assertion that is not valid before the end of the SP's today must not be accepted now ("@eod": resolved when the step runs)
				a.NBText = "@eod" + Pick(g, "T24:00:00", "T24:00:00", "T24:00:00Z", "T24:00:00.000", "T24:00:00+00:00")
			}
			st.Classes = append(st.Classes, fmt.Sprintf("as%d-nb:%s", j, c))
			m, c = drawMargin(g, mcs)
			a.NotOnOrAfter = i64(x + m - mcs)
			if c == "far-out" && g.Bool(0.5) {
				// the earliest instant the lexical space can express: as far outside the window as it gets
				a.NOAText = Pick(g, "0001-01-01T00:00:00Z", "0001-01-01T00:00:00.000Z", "0001-01-01T00:00:00", "0001-01-01T05:30:00+05:30")
				a.NotOnOrAfter = i64(-3_000_000_000_000) // what the oracle uses: ~95 years before issuance (any value far outside serves)
			}
			st.Classes = append(st.Classes, fmt.Sprintf("as%d-noa:%s", j, c))
			nc := 1 + g.PickW(5, 3, 1)
			for q := 0; q < nc; q++ {
				m, c = drawMargin(g, mcs)
				cf := ConfSpec{NotOnOrAfter: i64(x + m - mcs), Recipient: spBase + "/saml/acs", InResponseTo: "id-req",
					Method: Pick(g, "", "", "", "urn:oasis:names:tc:SAML:2.0:cm:holder-of-key", "urn:oasis:names:tc:SAML:2.0:cm:sender-vouches")}
				if c == "far-out" && g.Bool(0.4) {
					cf.NOAText, cf.NotOnOrAfter = Pick(g, "0001-01-01T00:00:00Z", "0001-01-01T00:00:00.0004Z"), i64(-3_000_000_000_000)
				}
				if c == "far-in" && g.Bool(0.1) {
					cf.NOAText, cf.NotOnOrAfter = Pick(g, "9999-12-31T23:59:59Z", "2400-01-01T00:00:00Z"), i64(10_000_000_000_000)
				}
				if g.Bool(0.2) {
					// a NotBefore on the confirmation too, long past: present, legal, and no reason to look at NotOnOrAfter any differently
					cf.NotBefore = i64(-86_400_000)
					cf.Address = Pick(g, "", "192.0.2.7")
				}
				if nc > 1 && g.Bool(0.12) {
					cf.Recipient = Pick(g, otherACS...)
				}
				a.Confs = append(a.Confs, cf)
				st.Classes = append(st.Classes, fmt.Sprintf("as%d-conf%d:%s", j, q, c))
			}
			if g.Bool(0.2) {
				a.Encrypt, a.EncryptTo = true, 1
				a.Sign = true // an encrypted assertion inside an unsigned envelope must carry its own signature to be meaningful in both layouts
			}
			spec.Assertions = append(spec.Assertions, a)
		}
		if g.Bool(0.25) {
			spec.Pretty = true
			for ai := range spec.Assertions {
				spec.Assertions[ai].Pretty = true
			}
		}
		if g.Bool(0.12) {
			spec.NSDecls = winNSDecls(g, x)
		}
		if g.Bool(0.1) {
			spec.QualAttrs = withNS(winNSDecls(g, x), Pick(g, "", "xml", "xsi"))
		}
		if g.Bool(0.3) {
			for ai := range spec.Assertions {
				spec.Assertions[ai].SessionNOA = i64(x + Pick(g, int64(8*3_600_000), 86_400_000, 60_000))
			}
		}
		if g.Bool(0.3) {
			for ai := range spec.Assertions {
				spec.Assertions[ai].AuthnMs = i64(-Pick(g, int64(600_000), 8*3_600_000, 30*86_400_000))
			}
		}
		st.Spec = spec
		if subMs {
			addSubMs(g, &st, k)
		}
		p.Steps = append(p.Steps, mustJSON(st))
	}
	return p
}

// drawSubNs: a part below one millisecond, in ns (never exactly half a millisecond: which way a tie goes is nobody's business here).
func drawSubNs(g *Rng) int64 {
	switch g.PickW(3, 4, 3) {
	case 0:
		return 0
	case 1:
		return Pick(g, int64(200_000), 400_000, 600_000, 999_999, 1, -200_000, -400_000, -600_000, -999_999, -1)
	}
	n := g.Int63n(1_999_999) - 999_999
	if n == 500_000 || n == -500_000 {
		n++
	}
	return n
}

// addSubMs takes one drawn delivery off the millisecond lattice: the SP clock and every instant of the message get a part below one
// millisecond; usually one bound is first moved onto its boundary (to the millisecond), so that those parts decide.
func addSubMs(g *Rng, st *winStep, k winKnobs) {
	x := st.DelayMs + st.BackMs + st.SkewMs
	mid, mcs := k.MaxIssueDelayMs, k.MaxClockSkewMs
	st.Spec.TimeForm = Pick(g, 0, 4, 5) // the forms that carry nine fractional digits
	relabel := func(name string) {
		for i, c := range st.Classes {
			if strings.HasPrefix(c, name+":") {
				st.Classes[i] = name + ":edge"
			}
		}
	}
	if g.Bool(0.7) {
		ai := g.Intn(len(st.Spec.Assertions))
		a := &st.Spec.Assertions[ai]
		switch w := g.Intn(5); {
		case w == 0 && st.Spec.IssueText == "":
			st.Spec.IssueMs = x - mid
			relabel("resp-issue")
		case w == 1 && a.IssueText == "":
			a.IssueMs = x - mid
			relabel(fmt.Sprintf("as%d-issue", ai))
		case w == 2 && a.NBText == "":
			a.NotBefore = i64(x + mcs)
			relabel(fmt.Sprintf("as%d-nb", ai))
		case w == 3 && a.NOAText == "":
			a.NotOnOrAfter = i64(x - mcs)
			relabel(fmt.Sprintf("as%d-noa", ai))
		case w == 4:
			if ci := g.Intn(len(a.Confs)); a.Confs[ci].NOAText == "" {
				a.Confs[ci].NotOnOrAfter = i64(x - mcs)
				relabel(fmt.Sprintf("as%d-conf%d", ai, ci))
			}
		}
	}
	sub := &winSub{NowNs: Pick(g, int64(0), 200_000, 300_000, 700_000, 999_999, g.Int63n(1_000_000)), RespNs: drawSubNs(g)}
	for _, a := range st.Spec.Assertions {
		fa := winSubAs{IssueNs: drawSubNs(g), NBNs: drawSubNs(g), NOANs: drawSubNs(g)}
		for range a.Confs {
			fa.ConfNs = append(fa.ConfNs, drawSubNs(g))
		}
		sub.As = append(sub.As, fa)
	}
	st.Sub = sub
}

type bound struct {
	name   string
	status int // 0 inside, 1 edge, 2 outside
}

func upper(now, b, tol int64) int { return upperNs(now, b, tol, 0) } // reject iff now > b+tol

func lower(now, b, tol int64) int { return lowerNs(now, b, tol, 0) } // reject iff now < b-tol

// upperNs, lowerNs: the same with dns = (sub-millisecond part of now) - (sub-millisecond part of b), |dns| < 3 ms, in ns.
func upperNs(now, b, tol, dns int64) int {
	d := now - b - tol
	switch {
	case d >= 4:
		return 2
	case d <= -4:
		return 0
	}
	switch d = d*1_000_000 + dns; {
	case d < 0:
		return 0
	case d == 0:
		return 1
	}
	return 2
}

func lowerNs(now, b, tol, dns int64) int {
	d := now - b + tol
	switch {
	case d >= 4:
		return 0
	case d <= -4:
		return 2
	}
	switch d = d*1_000_000 + dns; {
	case d > 0:
		return 0
	case d == 0:
		return 1
	}
	return 2
}

// winJudge: what the statement says about one delivery.
type winJudge struct {
	respSt      int
	asSt        map[string]int
	expect      string
	anyInside   bool
	eodForm     bool // an instant in the 24:00:00 form: a lexical form the parser need not admit, so acceptance of this message is not demanded
	movedAcross bool // a lower bound that the clock crossed during the call: acceptance is not demanded
	// a confirmation addressed to another relying party makes its assertion something other than "an otherwise valid" one (acceptance
	// is not demanded for it); the windows of the statement hold for every confirmation of the assertion returned, whoever it addresses
	elsewhere, insideButElsewhere, lapsedElsewhere bool
}

// judgeWindows is the oracle: from the statement, the spec of the message and the clock only (f: sub-millisecond parts, nil = none).
func judgeWindows(st *winStep, k winKnobs, f *winSub) winJudge {
	now := st.DelayMs + st.BackMs + st.SkewMs // the SP's clock when the response is examined
	now0 := st.DelayMs + st.SkewMs            // ... and when the call began (differs only when the back-channel takes time)
	j := winJudge{asSt: map[string]int{}}
	j.respSt = upperNs(now, st.Spec.IssueMs, k.MaxIssueDelayMs, f.now()-f.resp())
	if strings.HasPrefix(st.Entry, "artifact") {
		j.respSt = worst(j.respSt, upperNs(now, st.ArtIssue, k.MaxIssueDelayMs, f.now()))
	}
	allOutside := true
	for ai, a := range st.Spec.Assertions {
		fa := f.as(ai)
		if strings.Contains(a.NBText, "T24:") {
			j.eodForm = true
		}
		s := upperNs(now, a.IssueMs, k.MaxIssueDelayMs, f.now()-fa.IssueNs)
		s = worst(s, lowerNs(now, *a.NotBefore, k.MaxClockSkewMs, f.now()-fa.NBNs))
		if lowerNs(now0, *a.NotBefore, k.MaxClockSkewMs, f.now()-fa.NBNs) != 0 {
			j.movedAcross = true
		}
		s = worst(s, upperNs(now, *a.NotOnOrAfter, k.MaxClockSkewMs, f.now()-fa.NOANs))
		mine := true
		for ci, c := range a.Confs {
			cs := upperNs(now, *c.NotOnOrAfter, k.MaxClockSkewMs, f.now()-fa.conf(ci))
			s = worst(s, cs)
			if c.Recipient != spBase+"/saml/acs" {
				mine, j.elsewhere = false, true
				if cs == 2 {
					j.lapsedElsewhere = true
				}
			}
		}
		j.asSt[a.ID] = s
		if s == 0 && mine {
			j.anyInside = true
		}
		if s == 0 && !mine {
			j.insideButElsewhere = true
		}
		if s != 2 {
			allOutside = false
		}
	}
	j.expect = "DONT_CARE"
	switch {
	case j.respSt == 2 || allOutside:
		j.expect = "REJECT"
	case j.respSt == 0 && j.anyInside && !(st.BackMs > 0 && j.movedAcross) && !j.eodForm:
		j.expect = "ACCEPT"
	}
	return j
}

// mismatch compares what the SP did (accepted == "": refused, else the ID of the assertion returned) with the judgement:
// "" (agrees), "rejected-inside", "accepted-outside", "unknown-assertion" or "returned-outside".
func (j winJudge) mismatch(accepted string) string {
	switch {
	case j.expect == "ACCEPT" && accepted == "":
		return "rejected-inside"
	case j.expect == "REJECT" && accepted != "":
		return "accepted-outside"
	}
	if accepted != "" {
		// necessary direction on the assertion actually returned
		s, ok := j.asSt[accepted]
		if !ok {
			return "unknown-assertion"
		}
		if s == 2 || j.respSt == 2 {
			return "returned-outside"
		}
	}
	return ""
}

func worst(a, b int) int {
	if a > b {
		return a
	}
	return b
}

func execWindows(t *testing.T, p *Plan) *Result {
	res := newResult()
	k := decode[winKnobs](p.Knobs)
	saml.MaxIssueDelay = ms(k.MaxIssueDelayMs)
	saml.MaxClockSkew = ms(k.MaxClockSkewMs)
	installRand(p)
	idpMD := idpMetadataFor(idpEntity, idpSSO, idpSLO, []KeyPair{rsaKeys[0]}, nil, "signing")
	idpMD.IDPSSODescriptors[0].ArtifactResolutionServices = []saml.Endpoint{{Binding: saml.SOAPBinding, Location: "https://idp.example.com/artifact"}}
	spv := newSP(spBase, rsaKeys[1], "", idpMD)
	if k.AudienceHook {
		res.fire("config:custom-audience-validator")
		spv.ValidateAudienceRestriction = func(a *saml.Assertion) error {
			if a.Conditions != nil {
				for _, ar := range a.Conditions.AudienceRestrictions {
					if ar.Audience.Value == spBase+"/saml/metadata" {
						return nil
					}
				}
			}
			return fmt.Errorf("not for this SP")
		}
	}
	spv.AllowIDPInitiated = k.AllowIDP
	spv.ForceAuthn = k.ForceAuthn
	if k.ReqIDHook {
		// the application matches responses to requests itself, the way the library does by default
		res.probe("config:custom-request-id-validator")
		allow := k.AllowIDP
		spv.ValidateRequestID = func(r saml.Response, possible []string) error {
			for _, id := range possible {
				if r.InResponseTo == id {
					return nil
				}
			}
			if allow {
				return nil
			}
			return fmt.Errorf("custom validator: not an answer to a request of ours")
		}
	}
	if k.ForceAuthn != nil {
		res.probe(fmt.Sprintf("sp-force-authn:%v", *k.ForceAuthn))
	}
	tr := &c02Transport{}
	spv.HTTPClient = &http.Client{Transport: tr}
	start := time.Now()

	for si, raw := range p.Steps {
		st := decode[winStep](raw)
		if st.Kind != "deliver" {
			continue
		}
		t0 := time.Now()
		wrap := t0.Add(ms(st.DelayMs + st.BackMs + st.SkewMs)).Add(math.MinInt64).Add(math.MinInt64).Add(-30 * time.Second).UTC().Format("2006-01-02T15:04:05.999999999Z")
		if st.Spec.IssueText == "@wrap" {
			st.Spec.IssueText = wrap
		}
		for ai := range st.Spec.Assertions {
			if st.Spec.Assertions[ai].IssueText == "@wrap" {
				st.Spec.Assertions[ai].IssueText = wrap
			}
			if a := &st.Spec.Assertions[ai]; strings.HasPrefix(a.NBText, "@eod") {
				spNow := t0.Add(ms(st.DelayMs + st.BackMs + st.SkewMs)).UTC()
				day := time.Date(spNow.Year(), spNow.Month(), spNow.Day(), 0, 0, 0, 0, time.UTC)
				if day.AddDate(0, 0, 1).Sub(spNow) < ms(k.MaxClockSkewMs)+2*time.Hour {
					day = day.AddDate(0, 0, 1) // too close to midnight for today's end to lie clearly ahead: tomorrow's
				}
				a.NBText = day.Format("2006-01-02") + strings.TrimPrefix(a.NBText, "@eod")
				a.NotBefore = i64(day.AddDate(0, 0, 1).Sub(t0).Milliseconds())
			}
		}
		if st.Sub != nil {
			// instants off the millisecond lattice are written verbatim with nine fractional digits; an instant that is written as a
			// given text already has no sub-millisecond part
			sub := &winSub{NowNs: st.Sub.NowNs, RespNs: st.Sub.RespNs}
			text := func(msv, ns int64) string {
				return t0.Add(ms(msv)).Add(time.Duration(ns)).UTC().Format("2006-01-02T15:04:05.999999999Z")
			}
			if st.Spec.IssueText != "" {
				sub.RespNs = 0
			} else if sub.RespNs != 0 {
				st.Spec.IssueText = text(st.Spec.IssueMs, sub.RespNs)
			}
			for ai := range st.Spec.Assertions {
				a, fa := &st.Spec.Assertions[ai], st.Sub.as(ai)
				if a.IssueText != "" {
					fa.IssueNs = 0
				} else if fa.IssueNs != 0 {
					a.IssueText = text(a.IssueMs, fa.IssueNs)
				}
				if a.NBText != "" {
					fa.NBNs = 0
				} else if fa.NBNs != 0 {
					a.NBText = text(*a.NotBefore, fa.NBNs)
				}
				if a.NOAText != "" {
					fa.NOANs = 0
				} else if fa.NOANs != 0 {
					a.NOAText = text(*a.NotOnOrAfter, fa.NOANs)
				}
				cns := make([]int64, len(a.Confs))
				for ci := range a.Confs {
					if c := &a.Confs[ci]; c.NOAText == "" && fa.conf(ci) != 0 {
						cns[ci] = fa.conf(ci)
						c.NOAText = text(*c.NotOnOrAfter, cns[ci])
					}
				}
				fa.ConfNs = cns
				sub.As = append(sub.As, fa)
			}
			st.Sub = sub
			res.probe("sub-millisecond-instants")
		}
		respEl := BuildResponseEl(&st.Spec, t0)
		var body []byte
		if st.Entry == "artifact-http" {
			tr.respEl, tr.issue, tr.took = respEl, t0.Add(ms(st.ArtIssue)), ms(st.BackMs)
		} else if st.Entry == "artifact" {
			body = wrapArtifactResponse(respEl, "id-art", "id-resolve", idpEntity, saml.StatusSuccess, t0.Add(ms(st.ArtIssue)), nil)
		} else {
			body = elBytes(respEl)
		}
		advance(ms(st.DelayMs))
		now := st.DelayMs + st.BackMs + st.SkewMs // the SP's clock when the response is examined (whole milliseconds)

		// ---- oracle, from the statement and the spec only
		j := judgeWindows(&st, k, st.Sub)
		respSt, expect, anyInside, eodForm, movedAcross := j.respSt, j.expect, j.anyInside, j.eodForm, j.movedAcross
		elsewhere, insideButElsewhere, lapsedElsewhere := j.elsewhere, j.insideButElsewhere, j.lapsedElsewhere
		nonFar := 0
		for _, c := range st.Classes {
			if !strings.HasSuffix(c, ":far-in") {
				nonFar++
			}
		}

		// ---- the real SP
		var as *saml.Assertion
		var err error
		var pan any
		at(ms(st.SkewMs)+time.Duration(st.Sub.now()), func() {
			pan = guard(func() {
				switch st.Entry {
				case "xml":
					as, err = spv.ParseXMLResponse(body, []string{"id-req"}, spv.AcsURL)
				case "post":
					form := url.Values{"SAMLResponse": {base64.StdEncoding.EncodeToString(body)}}
					r := httptest.NewRequest("POST", spv.AcsURL.String(), strings.NewReader(form.Encode()))
					r.Header.Set("Content-Type", formCT)
					_ = r.ParseForm()
					as, err = spv.ParseResponse(r, []string{"id-req"})
				case "artifact":
					as, err = spv.ParseXMLArtifactResponse(body, []string{"id-req"}, "id-resolve", spv.AcsURL)
				case "artifact-http":
					r := httptest.NewRequest("GET", spv.AcsURL.String()+"?SAMLart="+url.QueryEscape(c02Artifact), nil)
					_ = r.ParseForm()
					as, err = spv.ParseResponse(r, []string{"id-req"})
				}
			})
		})
		observed := "REJECT"
		if pan != nil {
			observed = "PANIC"
		} else if as != nil && err == nil {
			observed = "ACCEPT(" + as.ID + ")"
		}
		res.logf("step %d %s form=%d layout=%s classes=%v expect=%s observed=%s", si, st.Entry, st.Spec.TimeForm, layoutOf(&st.Spec), st.Classes, expect, observed)
		if st.Lattice > 0 {
			res.Extra["lattice_runs"]++
			res.Lattice = append(res.Lattice, st.Lattice-1)
		}
		if f := st.Spec.TimeForm - zoneFormBase; f >= -14*60 && f <= 14*60 {
			switch {
			case f > 12*60 || f < -12*60:
				res.probe("zone-offset:beyond-12h")
			case f > 6*60 || f < -6*60:
				res.probe("zone-offset:6h-12h")
			default:
				res.probe("zone-offset:within-6h")
			}
			if expect == "ACCEPT" {
				res.probe("zone-offset-form-inside-all-windows")
			}
		}
		if elsewhere {
			res.probe("confirmation-for-another-recipient")
		}
		if lapsedElsewhere {
			res.probe("lapsed-confirmation-for-another-recipient")
			if expect == "REJECT" && nonFar == 1 {
				res.probe("lapsed-confirmation-for-another-recipient-binding")
			}
		}
		if nonFar > 0 {
			res.Nontrivial = true
			res.fire("delay")
			if st.BackMs > 0 {
				res.fire("slow-backchannel")
			}
			if st.SkewMs != 0 {
				res.fire("clock_skew")
			}
		}
		if nonFar == 1 {
			for _, c := range st.Classes {
				if !strings.HasSuffix(c, ":far-in") {
					// which bound was the single binding one, ignoring assertion index
					name := c[:strings.Index(c, ":")]
					if strings.HasPrefix(name, "as") && len(name) > 4 && name[3] == '-' {
						name = name[4:]
					}
					res.Extra["binding:"+name+c[strings.Index(c, ":"):]]++
					if strings.Contains(c, "conf1") || strings.Contains(c, "conf2") {
						res.probe("later-confirmation-binding")
					}
					if strings.HasPrefix(c, "as1-") {
						res.probe("second-assertion-binding")
					}
				}
			}
		}
		if pan != nil {
			res.Excluded = "panic (reported under C09)"
			res.logf("panic: %v", pan)
			return res
		}
		if expect == "DONT_CARE" {
			if eodForm {
				res.dontcare("end-of-day-lexical-form")
			} else if respSt == 0 && !anyInside && insideButElsewhere {
				res.dontcare("confirmation-for-another-recipient")
			} else if st.BackMs > 0 && movedAcross {
				res.dontcare("lower-bound-crossed-during-the-call")
			} else {
				res.dontcare("boundary-equality")
			}
		}
		accepted := ""
		if as != nil {
			accepted = as.ID
		}
		if bad := j.mismatch(accepted); bad != "" {
			// a verdict that is off ONLY because the library moves every decoded instant to the nearest millisecond (it would agree with
			// the statement applied to the message so rounded) is the known rounding finding, whatever bound it shows at
			onlyRounding := st.Sub != nil && judgeWindows(&st, k, st.Sub.rounded()).mismatch(accepted) == ""
			sig := func(s string) string {
				if onlyRounding {
					return s[:strings.LastIndex(s, "/")] + "/sub-millisecond-rounding"
				}
				return s
			}
			switch bad {
			case "rejected-inside":
				res.violate(si, "rejected-inside-window", sig("C02/rejected-inside/"+st.Entry), expect, observed, privErr(err))
			case "accepted-outside":
				res.violate(si, "accepted-outside-window", sig("C02/accepted-outside/"+bindingOf(st, now, k)), expect, observed, "")
			case "unknown-assertion":
				res.violate(si, "unknown-assertion-returned", "C02/unknown-assertion", "one of the issued assertions", as.ID, "")
			case "returned-outside":
				res.violate(si, "accepted-outside-window", sig("C02/accepted-outside/"+bindingOf(st, now, k)), "REJECT or another assertion", observed, "returned assertion violates a window")
			}
			return res
		}
	}
	res.SimMillis = time.Since(start).Milliseconds()
	return res
}

// c02Artifact is a well-formed type-4 artifact (endpoint index 0).
var c02Artifact = base64.StdEncoding.EncodeToString(append([]byte{0, 4, 0, 0}, bytes.Repeat([]byte{7}, 40)...))

// c02Transport is the artifact-resolution back-channel: the round trip takes simulated time, the
// ArtifactResponse answers the ArtifactResolve it was sent.
type c02Transport struct {
	respEl *etree.Element
	issue  time.Time
	took   time.Duration
}

func (t *c02Transport) RoundTrip(r *http.Request) (*http.Response, error) {
	b, _ := io.ReadAll(r.Body)
	doc := etree.NewDocument()
	_ = doc.ReadFromBytes(b)
	id := ""
	if ar := doc.FindElement("//ArtifactResolve"); ar != nil {
		id = ar.SelectAttrValue("ID", "")
	}
	advance(t.took)
	body := wrapArtifactResponse(t.respEl, "id-art", id, idpEntity, saml.StatusSuccess, t.issue, nil)
	return &http.Response{StatusCode: 200, Status: "200 OK", Body: io.NopCloser(bytes.NewReader(body)), Header: http.Header{}, Request: r}, nil
}

func layoutOf(s *RespSpec) string {
	l := ""
	if s.Sign {
		l += "R"
	}
	for _, a := range s.Assertions {
		if a.Sign {
			l += "A"
		} else {
			l += "a"
		}
		if a.Encrypt {
			l += "e"
		}
	}
	return l
}

// bindingOf names the first violated bound (for violation signatures).
func bindingOf(st winStep, now int64, k winKnobs) string {
	f := st.Sub
	if upperNs(now, st.Spec.IssueMs, k.MaxIssueDelayMs, f.now()-f.resp()) == 2 {
		return "response-issue-instant"
	}
	if strings.HasPrefix(st.Entry, "artifact") && upperNs(now, st.ArtIssue, k.MaxIssueDelayMs, f.now()) == 2 {
		return "artifact-issue-instant"
	}
	for ai, a := range st.Spec.Assertions {
		fa := f.as(ai)
		if upperNs(now, a.IssueMs, k.MaxIssueDelayMs, f.now()-fa.IssueNs) == 2 {
			return "assertion-issue-instant"
		}
		if lowerNs(now, *a.NotBefore, k.MaxClockSkewMs, f.now()-fa.NBNs) == 2 {
			return "conditions-not-before"
		}
		if upperNs(now, *a.NotOnOrAfter, k.MaxClockSkewMs, f.now()-fa.NOANs) == 2 {
			return "conditions-not-on-or-after"
		}
		for i, c := range a.Confs {
			if upperNs(now, *c.NotOnOrAfter, k.MaxClockSkewMs, f.now()-fa.conf(i)) == 2 {
				n := "later-confirmation-not-on-or-after"
				if i == 0 {
					n = "confirmation-not-on-or-after"
				}
				if c.Recipient != spBase+"/saml/acs" {
					n += "-for-another-recipient"
				}
				return n
			}
		}
	}
	return "none"
}

func simplifyWindows(p *Plan) []*Plan {
	var out []*Plan
	for i, raw := range p.Steps {
		st := decode[winStep](raw)
		// fewer assertions / confirmations, default lexical form, xml entry
		if len(st.Spec.Assertions) > 1 {
			for j := range st.Spec.Assertions {
				c := p.Clone()
				s2 := decode[winStep](raw)
				s2.Spec.Assertions = append(append([]AsrtSpec{}, s2.Spec.Assertions[:j]...), s2.Spec.Assertions[j+1:]...)
				if s2.Sub != nil && j < len(s2.Sub.As) {
					s2.Sub.As = append(append([]winSubAs{}, s2.Sub.As[:j]...), s2.Sub.As[j+1:]...)
				}
				c.Steps[i] = mustJSON(s2)
				out = append(out, c)
			}
		}
		for j, a := range st.Spec.Assertions {
			if len(a.Confs) > 1 {
				for q := range a.Confs {
					c := p.Clone()
					s2 := decode[winStep](raw)
					cf := s2.Spec.Assertions[j].Confs
					s2.Spec.Assertions[j].Confs = append(append([]ConfSpec{}, cf[:q]...), cf[q+1:]...)
					if s2.Sub != nil && j < len(s2.Sub.As) && q < len(s2.Sub.As[j].ConfNs) {
						cn := s2.Sub.As[j].ConfNs
						s2.Sub.As[j].ConfNs = append(append([]int64{}, cn[:q]...), cn[q+1:]...)
					}
					c.Steps[i] = mustJSON(s2)
					out = append(out, c)
				}
			}
			if a.Encrypt {
				c := p.Clone()
				s2 := decode[winStep](raw)
				s2.Spec.Assertions[j].Encrypt = false
				c.Steps[i] = mustJSON(s2)
				out = append(out, c)
			}
		}
		if st.Sub != nil {
			c := p.Clone()
			s2 := decode[winStep](raw)
			s2.Sub = nil
			c.Steps[i] = mustJSON(s2)
			out = append(out, c)
		}
		if st.Spec.TimeForm != 0 {
			c := p.Clone()
			s2 := decode[winStep](raw)
			s2.Spec.TimeForm = 0
			c.Steps[i] = mustJSON(s2)
			out = append(out, c)
		}
		if st.Entry != "xml" {
			c := p.Clone()
			s2 := decode[winStep](raw)
			s2.Entry = "xml"
			c.Steps[i] = mustJSON(s2)
			out = append(out, c)
		}
		if st.SkewMs != 0 {
			c := p.Clone()
			s2 := decode[winStep](raw)
			s2.DelayMs += s2.SkewMs
			s2.SkewMs = 0
			if s2.DelayMs >= 0 {
				c.Steps[i] = mustJSON(s2)
				out = append(out, c)
			}
		}
	}
	return out
}

func init() {
	register(&Profile{
		ID: "C02", Name: "windows", Level: "exploration",
		Rule: "each run: 1-3 deliveries of a foreign-IdP response (1-2 assertions, 1-3 confirmations, 7 lexical time forms, 3 signing layouts, plaintext/encrypted, xml/post/artifact entry) whose every bound (response/artifact/assertion IssueInstant, NotBefore, NotOnOrAfter, each confirmation) is placed at a drawn position {far-in,+1ms,-1ms,far-out,edge,half-tolerance in/out} relative to SP-now = issue time + network delay + SP clock skew, with MaxIssueDelay/MaxClockSkew drawn per run; non-trivial = at least one bound is not far inside; distinct = distinct abstract event log (entry, form, position classes, expectation, outcome); every other run enumerates the lattice {far-in,+1ms,-1ms,far-out}^6 over the six bounds of a one-assertion two-confirmation response systematically (coverage.lattice_coverage); confirmations carry bearer / holder-of-key / sender-vouches methods; far-out bounds include the verbatim year-1 instant, far-in bounds the customary never-expires instants (year 2400/9999); MaxClockSkew may be negative; artifact responses also arrive through ParseResponse over a back-channel whose round trip takes 0 ms-1 h of simulated time (bounds are judged by the SP clock when the response is examined; acceptance is not demanded when NotBefore was crossed during the call); 15% of runs install a custom ValidateAudienceRestriction; one message in four writes its instants in a zone drawn from the whole xs:dateTime range -14:00...+14:00; confirmations may be addressed to another relying party (their NotOnOrAfter binds all the same, acceptance is then not demanded); 5% of the runs take the instants and the SP clock off the millisecond lattice (nine fractional digits) with one bound moved onto its boundary",
		Gen:  genWindows, Exec: execWindows, Simplify: simplifyWindows,
		RunsQuick: 6000, RunsThorough: 600000,
		Assumptions: []string{"instants and the SP clock are exact milliseconds in 95% of the runs; in the others both carry parts below a millisecond and are judged exactly (a verdict off only because the library rounds decoded instants to the millisecond is reported under .../sub-millisecond-rounding)", "exact equality with a bound is a declared don't-care"},
		Components: map[string][]string{
			"real": {"saml.ServiceProvider.ParseXMLResponse/ParseResponse/ParseXMLArtifactResponse", "goxmldsig", "xmlenc (decrypt)", "etree", "xml-roundtrip-validator"},
			"stub": {"foreign IdP (library schema types + goxmldsig signing)", "network delay / clock skew (bubble clock)"},
		},
	})
}
