package samlsim

import (
	"bytes"
	"compress/flate"
	"context"
	"crypto"
	"crypto/sha256"
	"encoding/base64"
	"encoding/xml"
	"errors"
	"fmt"
	"io"
	"log"
	mrand "math/rand/v2"
	"net/http"
	"net/http/httptest"
	"net/url"
	"runtime"
	"runtime/debug"
	"sort"
	"strings"
	"syscall"
	"testing"
	"testing/synctest"
	"time"

	"github.com/beevik/etree"
	"github.com/crewjam/saml"
	"github.com/crewjam/saml/samlidp"
	"github.com/crewjam/saml/samlsp"
	"github.com/crewjam/saml/xmlenc"
)

// C09 — message-consuming APIs are total (profile `totality`).
//
// Two parts, one profile; a run draws which part it exercises.
//
//  (1) back-channel fault sequences (fault_enumeration): a SimTransport sits behind
//      ServiceProvider.HTTPClient (artifact resolution) and behind samlsp.FetchMetadata;
//      every fault kind x every position of a sequence of 1-4 resolutions is covered.
//  (2) corruption and omission in flight (sampled): a foreign IdP omits optional
//      elements and re-signs; the network corrupts genuine messages on every path;
//      deflate bombs on the redirect paths.
//
// Oracle (from the statement): every call returns normally; on the response-parsing
// paths assertion==nil <=> err!=nil, every error is *saml.InvalidResponseError whose
// Error() is the constant of the statement; the genuine message is accepted with the
// right identity; HTTP failures are rejections; simulated time spent <= configured
// timeout (+slack); deflated inputs beyond 10 MB inflated are refused with bounded
// allocation; server handlers give exactly one well-formed reply.

const (
	c09IdpBase   = "https://idp.example.com"
	c09IdpEntity = c09IdpBase + "/metadata"
	c09IdpSSO    = c09IdpBase + "/sso"
	c09IdpSLO    = c09IdpBase + "/slo"
	c09IdpArt    = c09IdpBase + "/artifact"
	c09SpBase    = "https://sp.example.com"
	c09Acs       = c09SpBase + "/saml/acs"
	c09Slo       = c09SpBase + "/saml/slo"
	c09Aud       = c09SpBase + "/saml/metadata"
	c09ReqID     = "id-req"
	// the constant of the property statement ("... whose message is the constant 'Authentication failed'")
	c09AuthFailed = "Authentication failed"
	c09SlackMs    = 1000
	c09AllocBound = 256 << 20
	c09Safety     = 10 * time.Minute
)

type c09Knobs struct {
	Part            string `json:"part"` // backchannel | inflight
	ClientTimeoutMs int64  `json:"client_timeout_ms"`
	CtxTimeoutMs    int64  `json:"ctx_timeout_ms"`
	NoDeadline      bool   `json:"application_sets_no_deadline,omitempty"` // both timeouts 0 and meant so (else 0/0 stands for the 5 s client default of older plans)
	MaxIssueDelayMs int64  `json:"MaxIssueDelay_ms"`
}

type c09Step struct {
	Kind  string `json:"kind"`  // resolve | fetch | omit | corrupt | bomb | good
	Entry string `json:"entry"` // entry point (+ "/binding")
	// back-channel
	Fault   string `json:"fault,omitempty"`
	Variant int    `json:"variant,omitempty"`
	Code    int    `json:"code,omitempty"`
	Pm      int    `json:"pm,omitempty"`       // per-mille position (truncation, stall)
	Chunks  int    `json:"chunks,omitempty"`   // slow body
	DelayMs int64  `json:"delay_ms,omitempty"` // slow body: pause between chunks
	// in-flight
	Family  string   `json:"family,omitempty"` // response | logout | authnrequest | spmetadata | metadata
	Omit    []string `json:"omit,omitempty"`
	Layout  string   `json:"layout,omitempty"` // R | A | RA
	Encrypt bool     `json:"encrypt,omitempty"`
	Op      string   `json:"op,omitempty"`    // corruption operator
	Layer   string   `json:"layer,omitempty"` // xml | b64 | deflate
	Pms     []int    `json:"pms,omitempty"`   // per-mille positions of bit flips
	N       int      `json:"n,omitempty"`
	Seed    uint64   `json:"seed,omitempty"`
	MB      int      `json:"mb,omitempty"` // bomb size (inflated)
	// resolve: the artifact the browser presents: 0 = a fixed sample; n>0 = a well-formed type-0x0004 artifact (44 bytes) with EndpointIndex n-1
	ArtIdx int `json:"artifact_endpoint_index_plus1,omitempty"`
	// response family: the key the service provider holds ("" = the RSA key rsa1; see c09SPKeys) and the certificate the foreign IdP
	// encrypts the assertion to ("" = rsa1's, the one this SP published while rsa1 was its key; "rsa4" = that of another RSA key)
	SPKey string `json:"sp_key,omitempty"`
	EncTo string `json:"encrypted_to,omitempty"`
	// the Status a reply carries (bad_status, status-shape): how many subordinate StatusCodes are nested in the top-level one, which
	// StatusMessage goes with it (0 = none, n = c09StatusMessages[n-1]), and whether a StatusDetail does
	Sub    int  `json:"status_subordinate_codes,omitempty"`
	Msg    int  `json:"status_message,omitempty"`
	Detail bool `json:"status_detail,omitempty"`
}

// c09Artifact renders the SAMLart value for a resolve step.
func c09Artifact(st *c09Step) string {
	if st.ArtIdx <= 0 {
		return "AAQAAMFbLinlXaCM+FIxiDwGOLAy2T71gbpO7ZhNzAgEANlB90ECfpNEVLg="
	}
	idx := st.ArtIdx - 1
	b := make([]byte, 44)
	b[0], b[1] = 0x00, 0x04
	b[2], b[3] = byte(idx>>8), byte(idx)
	for i := 4; i < 44; i++ {
		b[i] = byte(i * 7)
	}
	return base64.StdEncoding.EncodeToString(b)
}

// ---------------------------------------------------------------- panic capture

type c09Panic struct {
	Val   string
	Func  string // first frame inside github.com/crewjam/saml
	Frame string // file:line of that frame, relative to the module root
	Top   string // first non-runtime frame at all (may be a dependency)
}

// c09Guard runs f; a panic in library code is an outcome.
func c09Guard(f func()) (p *c09Panic) {
	defer func() {
		if r := recover(); r != nil {
			p = &c09Panic{Val: short(fmt.Sprint(r), 160)}
			lines := strings.Split(string(debug.Stack()), "\n")
			seenPanic := false
			for i := 0; i+1 < len(lines); i++ {
				l := lines[i]
				if strings.HasPrefix(l, "panic(") {
					seenPanic = true
					continue
				}
				if !seenPanic || strings.HasPrefix(l, "\t") || strings.HasPrefix(l, "runtime.") || strings.HasPrefix(l, "runtime/") {
					continue
				}
				fn := l
				if k := strings.LastIndex(fn, "("); k > 0 {
					fn = fn[:k]
				}
				loc := strings.TrimSpace(lines[i+1])
				if k := strings.Index(loc, " +0x"); k > 0 {
					loc = loc[:k]
				}
				if p.Top == "" {
					p.Top = fn + " " + loc[strings.LastIndex(loc, "/")+1:]
				}
				if strings.HasPrefix(fn, "github.com/crewjam/saml") {
					pkg := strings.TrimPrefix(fn, "github.com/crewjam/saml")
					sub := ""
					if strings.HasPrefix(pkg, "/") {
						sub = pkg[1:]
						if k := strings.Index(sub, "."); k > 0 {
							sub = sub[:k] + "/"
						}
					}
					p.Func = fn[strings.LastIndex(fn, "/")+1:]
					p.Frame = sub + loc[strings.LastIndex(loc, "/")+1:]
					break
				}
			}
		}
	}()
	f()
	return nil
}

// ---------------------------------------------------------------- SimTransport

// c09Resp is what the simulated peer does with one HTTP exchange.
type c09Resp struct {
	ConnErr      bool
	StallHeaders bool
	Code         int
	Header       http.Header
	Body         []byte
	CutAt        int           // >=0: deliver only Body[:CutAt] ...
	CutErr       error         // ... then this error (nil: clean EOF)
	StallAt      int           // >=0: deliver Body[:StallAt], then block until the request context ends
	Chunks       int           // >0: deliver in this many chunks ...
	Delay        time.Duration // ... pausing this long (bubble clock) before each
	ClaimLen     int64         // >0: announced Content-Length (the body delivered is what Body/CutAt say, i.e. far shorter)
	CloseErr     bool          // the whole body is delivered, then Close() reports an error
	RedirectTo   string        // non-empty: 307 to this URL (the peer keeps redirecting to URLs it has not used before)
	Endless      bool          // after Body the peer keeps sending filler, half a kilobyte a (simulated) second, for as long as anybody reads
}

// c09Transport is the SimTransport: an http.RoundTripper routing to simulated peers.
type c09Transport struct {
	handler   func(req *http.Request, body []byte) *c09Resp
	callStart int  // Requests at the start of the current API call
	Runaway   bool // the current call issued more than 200 back-channel requests
	ReadOn    bool // the current call read more than c09EndlessReads pieces of an endless body and had to be cut off
	Requests  int
	Open      int // bodies handed out that were neither closed nor read to EOF/error
}

func (t *c09Transport) RoundTrip(req *http.Request) (*http.Response, error) {
	var body []byte
	if req.Body != nil {
		body, _ = io.ReadAll(req.Body)
		_ = req.Body.Close()
	}
	t.Requests++
	if t.Requests-t.callStart > 200 {
		// a caller that keeps issuing back-channel requests without bound (and without any simulated time passing)
		// would spin the simulation forever: cut it off and report it
		t.Runaway = true
		return nil, errors.New("sim: more than 200 back-channel requests in one call")
	}
	r := t.handler(req, body)
	if r.RedirectTo != "" {
		h := http.Header{"Location": {r.RedirectTo}}
		return &http.Response{Status: "307 Temporary Redirect", StatusCode: 307, Proto: "HTTP/1.1", ProtoMajor: 1, ProtoMinor: 1,
			Header: h, Body: http.NoBody, ContentLength: 0, Request: req}, nil
	}
	if r.ConnErr {
		return nil, errors.New("dial tcp 192.0.2.1:443: connect: connection refused")
	}
	if r.StallHeaders {
		// released by the (fake-clock) client/context timer; a peer that is never released
		// gives up after c09Safety of simulated time so that a caller that ignores its
		// deadline shows up as a time-budget violation, not as a dead bubble
		tm := time.NewTimer(c09Safety)
		defer tm.Stop()
		select {
		case <-req.Context().Done():
			return nil, req.Context().Err()
		case <-tm.C:
			return nil, errors.New("sim: peer closed the idle connection")
		}
	}
	if err := req.Context().Err(); err != nil {
		return nil, err
	}
	code := r.Code
	if code == 0 {
		code = 200
	}
	h := r.Header
	if h == nil {
		h = http.Header{}
	}
	b := &c09Body{t: t, ctx: req.Context(), r: r, data: r.Body}
	if r.CutAt >= 0 && r.CutAt < len(b.data) {
		b.data = b.data[:r.CutAt]
	}
	if r.StallAt >= 0 && r.StallAt < len(b.data) {
		b.data = b.data[:r.StallAt]
	}
	if r.Chunks > 0 {
		b.chunk = (len(b.data) + r.Chunks - 1) / r.Chunks
		if b.chunk == 0 {
			b.chunk = 1
		}
	}
	t.Open++
	clen := int64(-1)
	if r.ClaimLen > 0 {
		clen = r.ClaimLen
	}
	return &http.Response{Status: fmt.Sprintf("%d %s", code, http.StatusText(code)), StatusCode: code, Proto: "HTTP/1.1", ProtoMajor: 1, ProtoMinor: 1,
		Header: h, Body: b, ContentLength: clen, Request: req}, nil
}

type c09Body struct {
	t       *c09Transport
	ctx     context.Context
	r       *c09Resp
	data    []byte
	off     int
	chunk   int
	pauseAt int
	done    bool
	filler  int
}

const c09EndlessReads = 4000

var c09Filler = []byte(strings.Repeat("<!-- still here -->\n", 25))

func (b *c09Body) release() {
	if !b.done {
		b.done = true
		b.t.Open--
	}
}

func (b *c09Body) Read(p []byte) (int, error) {
	if err := b.ctx.Err(); err != nil {
		b.release()
		return 0, err
	}
	if b.off >= len(b.data) && b.r.Endless {
		b.filler++
		if b.filler > c09EndlessReads {
			// a caller that reads an endless body to its end would spin the simulation forever: cut it off and report it
			b.t.ReadOn = true
			b.release()
			return 0, errors.New("sim: endless body cut off")
		}
		tm := time.NewTimer(time.Second)
		select {
		case <-tm.C:
		case <-b.ctx.Done():
			tm.Stop()
			b.release()
			return 0, b.ctx.Err()
		}
		n := copy(p, c09Filler)
		return n, nil
	}
	if b.off >= len(b.data) {
		if b.r.StallAt >= 0 {
			tm := time.NewTimer(c09Safety)
			defer tm.Stop()
			select {
			case <-b.ctx.Done():
				b.release()
				return 0, b.ctx.Err()
			case <-tm.C:
				b.release()
				return 0, errors.New("sim: peer closed the idle connection")
			}
		}
		b.release()
		if b.r.CutAt >= 0 && b.r.CutErr != nil {
			return 0, b.r.CutErr
		}
		return 0, io.EOF
	}
	n := len(b.data) - b.off
	if b.chunk > 0 {
		if b.off >= b.pauseAt { // a pause of the peer before each chunk
			tm := time.NewTimer(b.r.Delay)
			select {
			case <-tm.C:
			case <-b.ctx.Done():
				tm.Stop()
				b.release()
				return 0, b.ctx.Err()
			}
			b.pauseAt += b.chunk
		}
		if n > b.pauseAt-b.off {
			n = b.pauseAt - b.off
		}
	}
	if n > len(p) {
		n = len(p)
	}
	copy(p, b.data[b.off:b.off+n])
	b.off += n
	return n, nil
}

func (b *c09Body) Close() error {
	b.release()
	if b.r.CloseErr {
		return errors.New("sim: connection reset while closing the response body")
	}
	return nil
}

func c09Plain(body []byte) *c09Resp {
	return &c09Resp{Body: body, CutAt: -1, StallAt: -1}
}

// ---------------------------------------------------------------- world

// c09CertMode: which signing certificates the IdP metadata lists while a "strip-keyinfo" step runs
// ("": the IdP's one certificate; bad-first / bad-last: beside it an entry that is base64 but no certificate; two-good: a second real one).
var c09CertMode string

func c09IdpMetadata() *saml.EntityDescriptor {
	md := idpMetadataFor(c09IdpEntity, c09IdpSSO, c09IdpSLO, []KeyPair{rsaKeys[0]}, nil, "signing")
	if c09CertMode != "" {
		kds := md.IDPSSODescriptors[0].KeyDescriptors
		bad := saml.KeyDescriptor{Use: "signing", KeyInfo: saml.KeyInfo{X509Data: saml.X509Data{X509Certificates: []saml.X509Certificate{{Data: c09B64([]byte("0\x82\x01\x0anot a certificate, though it starts like a DER sequence"))}}}}}
		switch c09CertMode {
		case "fingerprint", "pinned":
			kds = nil
		case "bad-first":
			kds = append([]saml.KeyDescriptor{bad}, kds...)
		case "bad-last":
			kds = append(kds, bad)
		case "two-good":
			kds = append(kds, saml.KeyDescriptor{Use: "signing", KeyInfo: saml.KeyInfo{X509Data: saml.X509Data{X509Certificates: []saml.X509Certificate{{Data: rsaKeys[3].CertB64()}}}}})
		}
		md.IDPSSODescriptors[0].KeyDescriptors = kds
	}
	md.IDPSSODescriptors[0].ArtifactResolutionServices = []saml.Endpoint{{Binding: saml.SOAPBinding, Location: c09IdpArt}}
	return md
}

// c09SPKey: which key the service provider holds while a response step runs (ServiceProvider.Key is a crypto.Signer: "RSA or ECDSA", or
// anything else that signs).
var c09SPKey string

// c09SPKeys are the keys a service provider may hold: "" the RSA key the foreign IdP knows it by; an ECDSA key (the SP rolled its key
// over; it decrypts nothing); another RSA key; the first RSA key kept where only signatures can be asked of it (an HSM, a KMS).
var c09SPKeys = []string{"ec0", "rsa4", "rsa1-signer-only"}

// c09SignerOnly hides a private key behind crypto.Signer.
type c09SignerOnly struct{ k crypto.Signer }

func (o c09SignerOnly) Public() crypto.PublicKey { return o.k.Public() }
func (o c09SignerOnly) Sign(r io.Reader, digest []byte, opts crypto.SignerOpts) ([]byte, error) {
	return o.k.Sign(r, digest, opts)
}

func c09SPKeyPair(name string) KeyPair {
	switch name {
	case "":
		return rsaKeys[1]
	case "ec0":
		return ecKeys[0]
	case "rsa4":
		return rsaKeys[4]
	case "rsa1-signer-only":
		return KeyPair{Name: name, Key: c09SignerOnly{rsaKeys[1].Key}, Cert: rsaKeys[1].Cert}
	}
	panic("harness: unknown service provider key " + name)
}

// c09Readable is the reference model of decryption: the service provider can read an assertion encrypted to a certificate exactly when
// it holds that certificate's RSA private key (as a key, not as something that only signs).
func c09Readable(spKey, encTo string) bool {
	if encTo == "" {
		encTo = "rsa1"
	}
	if spKey == "" {
		spKey = "rsa1"
	}
	return spKey == encTo
}

func c09NewSP() *saml.ServiceProvider {
	s := newSP(c09SpBase, c09SPKeyPair(c09SPKey), "", c09IdpMetadata())
	switch c09CertMode {
	case "fingerprint":
		// trust by certificate fingerprint: the certificate is taken from the message's KeyInfo before anything is verified
		sum := sha256.Sum256(rsaKeys[0].Cert.Raw)
		parts := make([]string, len(sum))
		for i, b := range sum {
			parts[i] = fmt.Sprintf("%02X", b)
		}
		fp, alg := strings.Join(parts, ":"), "http://www.w3.org/2001/04/xmlenc#sha256"
		s.IDPCertificateFingerprint, s.IDPCertificateFingerprintAlgorithm = &fp, &alg
	case "pinned":
		c := rsaKeys[0].CertB64()
		s.IDPCertificate = &c
	}
	return s
}

func c09Rng(seed uint64) *mrand.Rand { return mrand.New(mrand.NewPCG(seed, 0xC09)) }

func c09RandBytes(seed uint64, n int) []byte {
	r := c09Rng(seed)
	b := make([]byte, n)
	for i := range b {
		b[i] = byte(r.IntN(256))
	}
	return b
}

func c09Has(xs []string, s string) bool {
	for _, x := range xs {
		if x == s {
			return true
		}
	}
	return false
}

// c09Sign signs el (enveloped, signature placed after Issuer). If the element cannot be
// signed in its present shape it is returned unsigned.
func c09Sign(kp KeyPair, el *etree.Element) *etree.Element {
	signed, err := signingCtx(kp, "").SignEnveloped(el)
	if err != nil {
		return el
	}
	return placeSignature(signed)
}

func c09RemoveChild(el *etree.Element, path ...string) {
	cur := el
	for i, tag := range path {
		if cur == nil {
			return
		}
		c := cur.SelectElement(tag)
		if c == nil {
			return
		}
		if i == len(path)-1 {
			cur.RemoveChild(c)
			return
		}
		cur = c
	}
}

func c09RemoveAttrAt(el *etree.Element, attr string, path ...string) {
	cur := el
	for _, tag := range path {
		if cur == nil {
			return
		}
		cur = cur.SelectElement(tag)
	}
	if cur != nil {
		cur.RemoveAttr(attr)
	}
}

// ---- response family

var c09AssertionOmits = []string{
	"assertion-no-subject", "assertion-no-nameid", "assertion-no-conditions", "confirmation-no-data",
	"assertion-no-confirmation", "assertion-no-authnstatement", "assertion-no-attributestatement",
	"conditions-no-notbefore", "conditions-no-notonorafter", "confirmation-no-notonorafter",
	"confirmation-no-recipient", "confirmation-no-inresponseto", "conditions-no-audience",
	"assertion-no-issuer", "assertion-no-id", "assertion-no-version", "assertion-no-issueinstant",
	"authn-no-context", "authn-no-instant", "confirmation-no-method", "attribute-no-value", "attribute-no-name",
}

var c09ResponseOmits = []string{
	"response-no-issuer", "response-no-destination", "response-no-inresponseto", "response-no-status",
	"response-status-no-code", "response-statuscode-no-value", "response-no-id", "response-no-version",
	"response-no-issueinstant", "response-no-assertion",
}

func c09OmitAssertion(el *etree.Element, o string) {
	switch o {
	case "assertion-no-subject":
		c09RemoveChild(el, "Subject")
	case "assertion-no-nameid":
		c09RemoveChild(el, "Subject", "NameID")
	case "assertion-no-conditions":
		c09RemoveChild(el, "Conditions")
	case "confirmation-no-data":
		c09RemoveChild(el, "Subject", "SubjectConfirmation", "SubjectConfirmationData")
	case "assertion-no-confirmation":
		c09RemoveChild(el, "Subject", "SubjectConfirmation")
	case "assertion-no-authnstatement":
		c09RemoveChild(el, "AuthnStatement")
	case "assertion-no-attributestatement":
		c09RemoveChild(el, "AttributeStatement")
	case "conditions-no-notbefore":
		c09RemoveAttrAt(el, "NotBefore", "Conditions")
	case "conditions-no-notonorafter":
		c09RemoveAttrAt(el, "NotOnOrAfter", "Conditions")
	case "confirmation-no-notonorafter":
		c09RemoveAttrAt(el, "NotOnOrAfter", "Subject", "SubjectConfirmation", "SubjectConfirmationData")
	case "confirmation-no-recipient":
		c09RemoveAttrAt(el, "Recipient", "Subject", "SubjectConfirmation", "SubjectConfirmationData")
	case "confirmation-no-inresponseto":
		c09RemoveAttrAt(el, "InResponseTo", "Subject", "SubjectConfirmation", "SubjectConfirmationData")
	case "conditions-no-audience":
		c09RemoveChild(el, "Conditions", "AudienceRestriction")
	case "assertion-no-issuer":
		c09RemoveChild(el, "Issuer")
	case "assertion-no-id":
		el.RemoveAttr("ID")
	case "assertion-no-version":
		el.RemoveAttr("Version")
	case "assertion-no-issueinstant":
		el.RemoveAttr("IssueInstant")
	case "authn-no-context":
		c09RemoveChild(el, "AuthnStatement", "AuthnContext")
	case "authn-no-instant":
		c09RemoveAttrAt(el, "AuthnInstant", "AuthnStatement")
	case "confirmation-no-method":
		c09RemoveAttrAt(el, "Method", "Subject", "SubjectConfirmation")
	case "attribute-no-value":
		c09RemoveChild(el, "AttributeStatement", "Attribute", "AttributeValue")
	case "attribute-no-name":
		c09RemoveAttrAt(el, "Name", "AttributeStatement", "Attribute")
	}
}

func c09OmitResponse(el *etree.Element, o string) {
	switch o {
	case "response-no-issuer":
		c09RemoveChild(el, "Issuer")
	case "response-no-destination":
		el.RemoveAttr("Destination")
	case "response-no-inresponseto":
		el.RemoveAttr("InResponseTo")
	case "response-no-status":
		c09RemoveChild(el, "Status")
	case "response-status-no-code":
		c09RemoveChild(el, "Status", "StatusCode")
	case "response-statuscode-no-value":
		c09RemoveAttrAt(el, "Value", "Status", "StatusCode")
	case "response-no-id":
		el.RemoveAttr("ID")
	case "response-no-version":
		el.RemoveAttr("Version")
	case "response-no-issueinstant":
		el.RemoveAttr("IssueInstant")
	}
}

type c09RespOpts struct {
	Omit       []string
	Layout     string // R | A | RA | none
	Encrypt    bool
	SignKey    int
	NameID     string
	MutAsrt    func(el *etree.Element)                // before the assertion is signed
	MutEnc     func(el *etree.Element) *etree.Element // on the EncryptedAssertion, before the response is signed
	MutResp    func(el *etree.Element)                // before the response is signed
	PlainBytes func(assertion []byte) (plain []byte)  // replace the plaintext that gets encrypted
	EncCipher  xmlenc.BlockCipher                     // content-encryption algorithm (nil: AES128-CBC)
	EncKT      int                                    // key transport: 0 OAEP/SHA-1, 1 OAEP/SHA-256, 2 OAEP/SHA-512, 3 OAEP/RIPEMD-160, 4 RSA-1_5, 5 OAEP with the DigestMethod element removed
	EncTo      string                                 // whose certificate the assertion is encrypted to ("": rsa1's)
}

// c09BuildResponse renders a genuine Response of the foreign IdP at moment t0, with the
// requested optional parts left out *before* signing.
func c09BuildResponse(o c09RespOpts, t0 time.Time) *etree.Element {
	if o.Layout == "" {
		o.Layout = "R"
	}
	if o.NameID == "" {
		o.NameID = marker("nid", 0)
	}
	as := AsrtSpec{ID: "id-as-0", Issuer: c09IdpEntity, NameID: o.NameID,
		Confs:     []ConfSpec{{NotOnOrAfter: i64(3_600_000), Recipient: c09Acs, InResponseTo: c09ReqID}},
		NotBefore: i64(-3_600_000), NotOnOrAfter: i64(3_600_000), Audiences: []string{c09Aud},
		Attrs: []AttrSpec{{Name: "uid", Friendly: "uid", Values: []string{marker("uid", 0)}}}, SessionIndex: "si"}
	asEl := as.toAssertion(t0).Element()
	for _, om := range o.Omit {
		c09OmitAssertion(asEl, om)
	}
	if o.MutAsrt != nil {
		o.MutAsrt(asEl)
	}
	if strings.Contains(o.Layout, "A") {
		asEl = c09Sign(rsaKeys[o.SignKey], asEl)
	}
	if o.Encrypt {
		plain := elBytes(asEl.Copy())
		if o.PlainBytes != nil {
			plain = o.PlainBytes(plain)
		}
		asEl = c09EncryptBytesWith(plain, c09SPKeyPair(o.EncTo), o.EncCipher, o.EncKT)
		if o.MutEnc != nil {
			asEl = o.MutEnc(asEl)
		}
	}
	r := &saml.Response{ID: "id-resp-0", InResponseTo: c09ReqID, Version: "2.0", IssueInstant: t0.UTC(), Destination: c09Acs,
		Issuer: &saml.Issuer{Format: "urn:oasis:names:tc:SAML:2.0:nameid-format:entity", Value: c09IdpEntity},
		Status: saml.Status{StatusCode: saml.StatusCode{Value: saml.StatusSuccess}}}
	el := r.Element()
	for _, om := range o.Omit {
		c09OmitResponse(el, om)
	}
	if !c09Has(o.Omit, "response-no-assertion") {
		el.AddChild(asEl)
	}
	if o.MutResp != nil {
		o.MutResp(el)
	}
	if strings.Contains(o.Layout, "R") {
		el = c09Sign(rsaKeys[o.SignKey], el)
	}
	return el
}

// c09EncryptBytes wraps arbitrary plaintext into saml:EncryptedAssertion for the holder of kp
// (RSA-OAEP + AES128-CBC, as the library IdP does).
func c09EncryptBytes(plain []byte, kp KeyPair) *etree.Element {
	return c09EncryptBytesWith(plain, kp, nil, 0)
}

func c09EncryptBytesWith(plain []byte, kp KeyPair, bc xmlenc.BlockCipher, kt int) *etree.Element {
	mk := func(kt int) xmlenc.RSA {
		enc := xmlenc.OAEP()
		enc.DigestMethod = &xmlenc.SHA1
		switch kt {
		case 1:
			enc.DigestMethod = &xmlenc.SHA256
		case 2:
			enc.DigestMethod = &xmlenc.SHA512
		case 3:
			enc.DigestMethod = &xmlenc.RIPEMD160
		case 4:
			enc = xmlenc.PKCS1v15()
		}
		enc.BlockCipher = xmlenc.AES128CBC
		if bc != nil {
			enc.BlockCipher = bc
		}
		return enc
	}
	ed, err := mk(kt).Encrypt(kp.Cert, plain, nil)
	if err != nil {
		ed, err = mk(0).Encrypt(kp.Cert, plain, nil) // e.g. the digest leaves no room for the key under this RSA modulus
	}
	if err != nil {
		panic(fmt.Sprintf("harness: encrypt: %v", err))
	}
	if kt == 5 {
		if dm := ed.FindElement("./KeyInfo/EncryptedKey/EncryptionMethod/DigestMethod"); dm != nil {
			dm.Parent().RemoveChild(dm)
		}
	}
	ed.CreateAttr("Type", "http://www.w3.org/2001/04/xmlenc#Element")
	ea := etree.NewElement("saml:EncryptedAssertion")
	ea.CreateAttr("xmlns:saml", "urn:oasis:names:tc:SAML:2.0:assertion")
	ea.AddChild(ed)
	return ea
}

// ---- the Status of a reply (samlp:StatusType): a top-level code, subordinate codes nested in it to any depth, an optional
// StatusMessage, an optional StatusDetail with anything in it

var c09StatusTops = []string{"urn:oasis:names:tc:SAML:2.0:status:Requester", "urn:oasis:names:tc:SAML:2.0:status:Responder",
	"urn:oasis:names:tc:SAML:2.0:status:VersionMismatch", "urn:oasis:names:tc:SAML:2.0:status:Success"}

// second-level codes of the specification, one of somebody's own, an empty one, and one without the Value attribute
var c09SubCodes = []string{"urn:oasis:names:tc:SAML:2.0:status:AuthnFailed", "urn:oasis:names:tc:SAML:2.0:status:NoPassive",
	"urn:oasis:names:tc:SAML:2.0:status:RequestDenied", "urn:example:reason:session-expired", "", "@no-value"}

var c09StatusMessages = []string{"The user cancelled the login", "", " \n\t ", "100%s sure: %d %v %!s(MISSING) {0}\nsecond line", strings.Repeat("no ", 30_000)}

func c09TopName(top string) string { return top[strings.LastIndex(top, ":")+1:] }

// c09StatusTag names the shape of a step's Status for signatures and counters.
func c09StatusTag(st *c09Step) string {
	tag := fmt.Sprintf("subcodes-%d", st.Sub)
	if st.Msg > 0 {
		tag += "+message"
	}
	if st.Detail {
		tag += "+detail"
	}
	return tag
}

// c09SetStatus rewrites a Status element: top-level code top, st.Sub codes nested below it, message and detail as the step says.
func c09SetStatus(status *etree.Element, top string, st *c09Step) {
	tag := func(name string) string {
		if status.Space != "" {
			return status.Space + ":" + name
		}
		return name
	}
	for _, c := range status.ChildElements() {
		status.RemoveChild(c)
	}
	cur := status.CreateElement(tag("StatusCode"))
	cur.CreateAttr("Value", top)
	for i := 0; i < st.Sub; i++ {
		cur = cur.CreateElement(tag("StatusCode"))
		if v := c09SubCodes[(st.Variant/len(c09StatusTops)+i)%len(c09SubCodes)]; v != "@no-value" {
			cur.CreateAttr("Value", v)
		}
	}
	if st.Msg > 0 {
		status.CreateElement(tag("StatusMessage")).SetText(c09StatusMessages[(st.Msg-1)%len(c09StatusMessages)])
	}
	if st.Detail {
		d := status.CreateElement(tag("StatusDetail"))
		c := d.CreateElement("ex:Cause")
		c.CreateAttr("xmlns:ex", "urn:example:detail")
		c.CreateAttr("code", "42")
		c.SetText("directory unavailable")
	}
}

// c09EnvStatus rewrites the Status of the ArtifactResponse inside a SOAP envelope.
func c09EnvStatus(env []byte, top string, st *c09Step) []byte {
	doc := etree.NewDocument()
	if err := doc.ReadFromBytes(env); err != nil {
		panic(err)
	}
	ar := doc.FindElement("//ArtifactResponse")
	if ar == nil {
		return env
	}
	status := ar.SelectElement("Status")
	if status == nil {
		return env
	}
	c09SetStatus(status, top, st)
	b, err := doc.WriteToBytes()
	if err != nil {
		panic(err)
	}
	return b
}

// c09StatusOnArtifact: a status-shape step on an artifact entry point shapes the ArtifactResponse's Status (odd N) or the Response's.
func c09StatusOnArtifact(st *c09Step) bool {
	return st.Kind == "corrupt" && st.Op == "status-shape" && st.Family == "response" && st.N%2 == 1 && strings.Contains(st.Entry, "rtifact")
}

func c09CountStatus(res *Result, where string, top string, st *c09Step) {
	res.Extra[fmt.Sprintf("status:%s:%s:subcodes-%d", where, map[bool]string{true: "success", false: "failure"}[top == c09StatusTops[3]], st.Sub)]++
	if st.Sub > 0 {
		res.probe("status-with-subordinate-codes")
	}
	if st.Msg > 0 {
		res.probe("status-with-message")
	}
	if st.Detail {
		res.probe("status-with-detail")
	}
}

// ---- SOAP faults: what a resolver that cannot answer puts into the Body. SOAP 1.1 says faultcode and faultstring (unqualified),
// optionally faultactor and detail; resolvers in the field also send less, more, qualified or SOAP 1.2 children.

const c09Soap11, c09Soap12 = "http://schemas.xmlsoap.org/soap/envelope/", "http://www.w3.org/2003/05/soap-envelope"

var c09SoapFaults = []struct{ name, ns, body string }{
	{"code+string", c09Soap11, `<soap:Fault><faultcode>soap:Server</faultcode><faultstring>artifact unknown</faultstring></soap:Fault>`},
	{"code-only", c09Soap11, `<soap:Fault><faultcode>soap:Server</faultcode></soap:Fault>`},
	{"string-only+detail", c09Soap11, `<soap:Fault><faultstring>artifact unknown</faultstring><detail/></soap:Fault>`},
	{"empty", c09Soap11, `<soap:Fault/>`},
	{"qualified-children", c09Soap11, `<soap:Fault><soap:faultcode>soap:Client</soap:faultcode><soap:faultstring>no</soap:faultstring></soap:Fault>`},
	{"code+soap12-reason", c09Soap11, `<soap:Fault><faultcode>soap:Client</faultcode><Reason><Text>no</Text></Reason></soap:Fault>`},
	{"empty-code-and-string", c09Soap11, `<soap:Fault><faultcode/><faultstring/></soap:Fault>`},
	{"actor+detail", c09Soap11, `<soap:Fault><faultcode>soap:Server</faultcode><faultstring xml:lang="en">artifact unknown</faultstring><faultactor>https://idp.example.com/artifact</faultactor><detail><e:cause xmlns:e="urn:example:detail">spent</e:cause></detail></soap:Fault>`},
	{"string-before-code", c09Soap11, `<soap:Fault><faultstring>artifact unknown</faultstring><faultcode>soap:Server</faultcode></soap:Fault>`},
	{"two-faults", c09Soap11, `<soap:Fault><faultcode>soap:Server</faultcode></soap:Fault><soap:Fault><faultstring>again</faultstring></soap:Fault>`},
	{"soap12", c09Soap12, `<soap:Fault><soap:Code><soap:Value>soap:Receiver</soap:Value></soap:Code><soap:Reason><soap:Text xml:lang="en">artifact unknown</soap:Text></soap:Reason></soap:Fault>`},
	{"long-string", c09Soap11, `<soap:Fault><faultstring>` + strings.Repeat("artifact unknown ", 6000) + `</faultstring></soap:Fault>`},
}

func c09SoapFault(variant int) (name string, doc []byte) {
	f := c09SoapFaults[variant%len(c09SoapFaults)]
	return f.name, []byte(`<soap:Envelope xmlns:soap="` + f.ns + `"><soap:Body>` + f.body + `</soap:Body></soap:Envelope>`)
}

// ---- logout family

var c09LogoutOmits = []string{
	"logout-no-issuer", "logout-no-destination", "logout-no-status", "logout-status-no-code", "logout-no-inresponseto",
	"logout-no-id", "logout-no-issueinstant", "logout-no-version",
}

func c09BuildLogout(omit []string, signed bool, t0 time.Time, mut func(*etree.Element)) *etree.Element {
	lr := &saml.LogoutResponse{ID: "id-lr-0", InResponseTo: "id-lreq", Version: "2.0", IssueInstant: t0.UTC(), Destination: c09Slo,
		Issuer: &saml.Issuer{Format: "urn:oasis:names:tc:SAML:2.0:nameid-format:entity", Value: c09IdpEntity},
		Status: saml.Status{StatusCode: saml.StatusCode{Value: saml.StatusSuccess}}}
	el := lr.Element()
	for _, o := range omit {
		switch o {
		case "logout-no-issuer":
			c09RemoveChild(el, "Issuer")
		case "logout-no-destination":
			el.RemoveAttr("Destination")
		case "logout-no-status":
			c09RemoveChild(el, "Status")
		case "logout-status-no-code":
			c09RemoveChild(el, "Status", "StatusCode")
		case "logout-no-inresponseto":
			el.RemoveAttr("InResponseTo")
		case "logout-no-id":
			el.RemoveAttr("ID")
		case "logout-no-issueinstant":
			el.RemoveAttr("IssueInstant")
		case "logout-no-version":
			el.RemoveAttr("Version")
		}
	}
	if mut != nil {
		mut(el)
	}
	if signed {
		el = c09Sign(rsaKeys[0], el)
	}
	return el
}

// ---- AuthnRequest family

var c09AuthnOmits = []string{
	"authnrequest-no-issuer", "authnrequest-no-nameidpolicy", "authnrequest-no-destination", "authnrequest-no-issueinstant",
	"authnrequest-no-id", "authnrequest-no-version", "authnrequest-no-acsurl", "authnrequest-no-protocolbinding",
	"authnrequest-nameidpolicy-no-format", "authnrequest-nameidpolicy-no-allowcreate",
}

func c09BuildAuthnRequest(spv *saml.ServiceProvider, omit []string, mut func(*etree.Element)) *etree.Element {
	req, err := spv.MakeAuthenticationRequest(c09IdpSSO, saml.HTTPRedirectBinding, saml.HTTPPostBinding)
	if err != nil {
		panic(fmt.Sprintf("harness: MakeAuthenticationRequest: %v", err))
	}
	el := req.Element()
	for _, o := range omit {
		switch o {
		case "authnrequest-no-issuer":
			c09RemoveChild(el, "Issuer")
		case "authnrequest-no-nameidpolicy":
			c09RemoveChild(el, "NameIDPolicy")
		case "authnrequest-no-destination":
			el.RemoveAttr("Destination")
		case "authnrequest-no-issueinstant":
			el.RemoveAttr("IssueInstant")
		case "authnrequest-no-id":
			el.RemoveAttr("ID")
		case "authnrequest-no-version":
			el.RemoveAttr("Version")
		case "authnrequest-no-acsurl":
			el.RemoveAttr("AssertionConsumerServiceURL")
		case "authnrequest-no-protocolbinding":
			el.RemoveAttr("ProtocolBinding")
		case "authnrequest-nameidpolicy-no-format":
			c09RemoveAttrAt(el, "Format", "NameIDPolicy")
		case "authnrequest-nameidpolicy-no-allowcreate":
			c09RemoveAttrAt(el, "AllowCreate", "NameIDPolicy")
		}
	}
	if mut != nil {
		mut(el)
	}
	return el
}

// ---- SP metadata as registered at the IdP

var c09SPMetaShapes = []string{
	"keydescriptor-encryption-no-certificate", "keydescriptor-encryption-no-x509data", "keydescriptor-encryption-no-keyinfo",
	"keydescriptor-encryption-empty-certificate", "keydescriptor-encryption-garbage-certificate",
	"keydescriptor-nouse-no-certificate", "spmetadata-no-keydescriptor", "spmetadata-no-spssodescriptor",
	"spmetadata-no-acs", "spmetadata-acs-no-binding", "spmetadata-no-entityid", "spmetadata-no-validuntil",
}

func c09BuildSPMetadata(spv *saml.ServiceProvider, omit []string) []byte {
	buf, err := xml.Marshal(spv.Metadata())
	if err != nil {
		panic(err)
	}
	doc := etree.NewDocument()
	if err := doc.ReadFromBytes(buf); err != nil {
		panic(err)
	}
	root := doc.Root()
	spsso := root.SelectElement("SPSSODescriptor")
	var kd *etree.Element
	if spsso != nil {
		kd = spsso.SelectElement("KeyDescriptor")
	}
	for _, o := range omit {
		switch o {
		case "keydescriptor-encryption-no-certificate":
			c09RemoveChild(kd, "KeyInfo", "X509Data", "X509Certificate")
		case "keydescriptor-encryption-no-x509data":
			c09RemoveChild(kd, "KeyInfo", "X509Data")
		case "keydescriptor-encryption-no-keyinfo":
			c09RemoveChild(kd, "KeyInfo")
		case "keydescriptor-encryption-empty-certificate":
			if c := kd.FindElement("./KeyInfo/X509Data/X509Certificate"); c != nil {
				c.SetText("")
			}
		case "keydescriptor-encryption-garbage-certificate":
			if c := kd.FindElement("./KeyInfo/X509Data/X509Certificate"); c != nil {
				c.SetText("AAAA")
			}
		case "keydescriptor-nouse-no-certificate":
			kd.RemoveAttr("use")
			c09RemoveChild(kd, "KeyInfo", "X509Data", "X509Certificate")
		case "spmetadata-no-keydescriptor":
			c09RemoveChild(spsso, "KeyDescriptor")
		case "spmetadata-no-spssodescriptor":
			c09RemoveChild(root, "SPSSODescriptor")
		case "spmetadata-no-acs":
			for _, c := range spsso.SelectElements("AssertionConsumerService") {
				spsso.RemoveChild(c)
			}
		case "spmetadata-acs-no-binding":
			for _, c := range spsso.SelectElements("AssertionConsumerService") {
				c.RemoveAttr("Binding")
			}
		case "spmetadata-no-entityid":
			root.RemoveAttr("entityID")
		case "spmetadata-no-validuntil":
			root.RemoveAttr("validUntil")
			if spsso != nil {
				spsso.RemoveAttr("validUntil")
			}
		}
	}
	out, err := doc.WriteToBytes()
	if err != nil {
		panic(err)
	}
	return out
}

// ---- metadata documents (for samlsp.ParseMetadata / FetchMetadata)

var c09MetaShapes = []string{
	"entitydescriptor", "entities-with-idp", "entities-without-idp", "entities-empty", "entities-nested",
	"entitydescriptor-no-idp", "idp-no-keydescriptor", "idp-keydescriptor-no-certificate", "entitydescriptor-no-entityid",
	"validuntil-garbage", "cacheduration-garbage", "entitydescriptor-empty",
	"cacheduration-fraction-63", "cacheduration-fraction-64", "cacheduration-fraction-65", "cacheduration-fraction-1000", "cacheduration-huge-years", "cacheduration-max-seconds",
	"cacheduration-negative", "cacheduration-bare-p", "cacheduration-bare-pt", "cacheduration-dot-only", "cacheduration-all-fields", "cacheduration-empty",
	"validuntil-year-99999", "validuntil-fraction-1000", "validuntil-year-0", "validuntil-empty", "validuntil-zone-99",
	"with-affiliation-descriptor", "entities-with-affiliation", "affiliation-only", "kitchen-sink",
	// what comes before the root element: declarations naming other encodings or XML versions, byte-order marks, processing
	// instructions, a DOCTYPE, comments
	"prolog-latin1", "prolog-xml11", "prolog-utf16-name", "prolog-ascii", "prolog-bom", "prolog-bom-decl", "prolog-standalone", "prolog-pi", "prolog-doctype",
	"prolog-comment", "prolog-decl-in-entities", "prolog-empty-encoding", "prolog-garbage-decl",
	// a federation aggregate nested a quarter of a million levels deep (10 MB): a result or an error, not the end of the process
	"entities-nested-250000",
}

var c09Prologs = map[string]string{
	"prolog-latin1":         `<?xml version="1.0" encoding="ISO-8859-1"?>` + "\n",
	"prolog-xml11":          `<?xml version="1.1"?>`,
	"prolog-utf16-name":     `<?xml version="1.0" encoding="UTF-16"?>`,
	"prolog-ascii":          `<?xml version="1.0" encoding="US-ASCII"?>`,
	"prolog-bom":            "\xef\xbb\xbf",
	"prolog-bom-decl":       "\xef\xbb\xbf" + `<?xml version="1.0" encoding="UTF-8"?>`,
	"prolog-standalone":     `<?xml version="1.0" encoding="utf-8" standalone="yes"?>` + "\r\n",
	"prolog-pi":             `<?xml version="1.0"?><?xml-stylesheet type="text/xsl" href="md.xsl"?>`,
	"prolog-doctype":        `<?xml version="1.0"?><!DOCTYPE EntityDescriptor>`,
	"prolog-comment":        `<!-- generated 2000-01-01 --><?pi?>` + "\n\n",
	"prolog-empty-encoding": `<?xml version="1.0" encoding=""?>`,
	"prolog-garbage-decl":   `<?xml version="2.0" encoding="x-unknown-9" ?>`,
}

// elements of the metadata schema that IdP metadata and federation aggregates may carry beside the IDPSSODescriptor
const c09Affiliation = `<AffiliationDescriptor affiliationOwnerID="https://federation.example.org/members" cacheDuration="PT1H" validUntil="2030-01-01T00:00:00Z"><AffiliateMember>https://idp.example.com/metadata</AffiliateMember><AffiliateMember>https://sp.example.com/saml/metadata</AffiliateMember></AffiliationDescriptor>`
const c09KitchenSink = `<Extensions><x:Info xmlns:x="urn:example:ext">i</x:Info></Extensions>` +
	`<AuthnAuthorityDescriptor protocolSupportEnumeration="urn:oasis:names:tc:SAML:2.0:protocol"><AuthnQueryService Binding="urn:oasis:names:tc:SAML:2.0:bindings:SOAP" Location="https://idp.example.com/authnq"/></AuthnAuthorityDescriptor>` +
	`<AttributeAuthorityDescriptor protocolSupportEnumeration="urn:oasis:names:tc:SAML:2.0:protocol"><AttributeService Binding="urn:oasis:names:tc:SAML:2.0:bindings:SOAP" Location="https://idp.example.com/attr"/></AttributeAuthorityDescriptor>` +
	`<PDPDescriptor protocolSupportEnumeration="urn:oasis:names:tc:SAML:2.0:protocol"><AuthzService Binding="urn:oasis:names:tc:SAML:2.0:bindings:SOAP" Location="https://idp.example.com/authz"/></PDPDescriptor>` +
	`<Organization><OrganizationName xml:lang="en">Example</OrganizationName><OrganizationDisplayName xml:lang="en">Example Org</OrganizationDisplayName><OrganizationURL xml:lang="en">https://example.com/</OrganizationURL></Organization>` +
	`<ContactPerson contactType="technical"><GivenName>Ada</GivenName><EmailAddress>mailto:ada@example.com</EmailAddress></ContactPerson>` +
	`<AdditionalMetadataLocation namespace="urn:example:ns">https://example.com/more-metadata.xml</AdditionalMetadataLocation>`

// c09MetaTexts: lexical forms of xsd:duration / xsd:dateTime attributes (well-formed ones included) a metadata document may carry.
var c09MetaTexts = map[string][2]string{
	"cacheduration-fraction-63":   {"cacheDuration", "PT1." + strings.Repeat("3", 63) + "S"},
	"cacheduration-fraction-64":   {"cacheDuration", "PT1." + strings.Repeat("3", 64) + "S"},
	"cacheduration-fraction-65":   {"cacheDuration", "PT0." + strings.Repeat("0", 64) + "1S"},
	"cacheduration-fraction-1000": {"cacheDuration", "PT1." + strings.Repeat("9", 1000) + "S"},
	"cacheduration-huge-years":    {"cacheDuration", "P99999999999999999999999Y"},
	"cacheduration-max-seconds":   {"cacheDuration", "PT9223372036854775807S"},
	"cacheduration-negative":      {"cacheDuration", "-P1DT1S"},
	"cacheduration-bare-p":        {"cacheDuration", "P"},
	"cacheduration-bare-pt":       {"cacheDuration", "PT"},
	"cacheduration-dot-only":      {"cacheDuration", "PT.S"},
	"cacheduration-all-fields":    {"cacheDuration", "P1Y2M3DT4H5M6.789S"},
	"cacheduration-empty":         {"cacheDuration", ""},
	"validuntil-year-99999":       {"validUntil", "99999-12-31T23:59:59Z"},
	"validuntil-fraction-1000":    {"validUntil", "2030-01-01T00:00:00." + strings.Repeat("1", 1000) + "Z"},
	"validuntil-year-0":           {"validUntil", "0000-00-00T00:00:00Z"},
	"validuntil-empty":            {"validUntil", ""},
	"validuntil-zone-99":          {"validUntil", "2030-01-01T00:00:00+99:99"},
}

func c09BuildMetadata(shape string) []byte {
	buf, err := xml.Marshal(c09IdpMetadata())
	if err != nil {
		panic(err)
	}
	idp := string(buf)
	spbuf, err := xml.Marshal(c09NewSP().Metadata())
	if err != nil {
		panic(err)
	}
	spmd := string(spbuf)
	const ns = `xmlns="urn:oasis:names:tc:SAML:2.0:metadata"`
	edit := func(f func(root *etree.Element)) []byte {
		doc := etree.NewDocument()
		if err := doc.ReadFromString(idp); err != nil {
			panic(err)
		}
		f(doc.Root())
		out, _ := doc.WriteToBytes()
		return out
	}
	if t, ok := c09MetaTexts[shape]; ok {
		return edit(func(r *etree.Element) { r.CreateAttr(t[0], t[1]) })
	}
	if pro, ok := c09Prologs[shape]; ok {
		return []byte(pro + idp)
	}
	if shape == "prolog-decl-in-entities" {
		return []byte(`<?xml version="1.0" encoding="ISO-8859-1"?><EntitiesDescriptor ` + ns + `>` + spmd + idp + `</EntitiesDescriptor>`)
	}
	// insert raw children at the end of the IdP's EntityDescriptor
	withChildren := func(xmlText string) string {
		i := strings.LastIndex(idp, "</")
		return idp[:i] + xmlText + idp[i:]
	}
	switch shape {
	case "with-affiliation-descriptor":
		return []byte(withChildren(c09Affiliation))
	case "entities-with-affiliation":
		return []byte(`<EntitiesDescriptor ` + ns + `><EntityDescriptor entityID="https://federation.example.org/members">` + c09Affiliation + `</EntityDescriptor>` + idp + `</EntitiesDescriptor>`)
	case "affiliation-only":
		return []byte(`<EntityDescriptor ` + ns + ` entityID="https://federation.example.org/members">` + c09Affiliation + `</EntityDescriptor>`)
	case "kitchen-sink":
		return []byte(withChildren(c09KitchenSink + c09Affiliation))
	case "entities-with-idp":
		return []byte(`<EntitiesDescriptor ` + ns + `>` + spmd + idp + `</EntitiesDescriptor>`)
	case "entities-without-idp":
		return []byte(`<EntitiesDescriptor ` + ns + `>` + spmd + `</EntitiesDescriptor>`)
	case "entities-empty":
		return []byte(`<EntitiesDescriptor ` + ns + `></EntitiesDescriptor>`)
	case "entities-nested":
		return []byte(`<EntitiesDescriptor ` + ns + `><EntitiesDescriptor>` + idp + `</EntitiesDescriptor></EntitiesDescriptor>`)
	case "entities-nested-250000":
		const n = 250000
		return []byte(`<EntitiesDescriptor ` + ns + `>` + strings.Repeat(`<EntitiesDescriptor>`, n) + idp + strings.Repeat(`</EntitiesDescriptor>`, n) + `</EntitiesDescriptor>`)
	case "entitydescriptor-no-idp":
		return []byte(spmd)
	case "idp-no-keydescriptor":
		return edit(func(r *etree.Element) { c09RemoveChild(r, "IDPSSODescriptor", "KeyDescriptor") })
	case "idp-keydescriptor-no-certificate":
		return edit(func(r *etree.Element) {
			c09RemoveChild(r, "IDPSSODescriptor", "KeyDescriptor", "KeyInfo", "X509Data", "X509Certificate")
		})
	case "entitydescriptor-no-entityid":
		return edit(func(r *etree.Element) { r.RemoveAttr("entityID") })
	case "validuntil-garbage":
		return edit(func(r *etree.Element) { r.CreateAttr("validUntil", "yesterday") })
	case "cacheduration-garbage":
		return edit(func(r *etree.Element) { r.CreateAttr("cacheDuration", "P1Q") })
	case "entitydescriptor-empty":
		return []byte(`<EntityDescriptor ` + ns + `/>`)
	}
	return []byte(idp)
}

// ---------------------------------------------------------------- framings and corruption

func c09Deflate(b []byte) []byte {
	var w bytes.Buffer
	fw, _ := flate.NewWriter(&w, 9)
	_, _ = fw.Write(b)
	_ = fw.Close()
	return w.Bytes()
}

func c09B64(b []byte) string { return base64.StdEncoding.EncodeToString(b) }

var c09Rootless = []string{"<!-- x -->", "", " \n\t ", "\xef\xbb\xbf", `<?xml version="1.0"?>`, `<?pi x?>`, "<!DOCTYPE a>", "<!-- a --><!-- b -->\n"}

var c09Garbage = []string{"", "<html><body><h1>502 Bad Gateway</h1></body></html>", `{"error":"internal"}`, "<foo/>", "<!-- x -->", "\xef\xbb\xbf",
	"<a><b></a></b>", "<a", "\x00\x01\x02\xff\xfe", "<?xml version=\"1.0\"?><!DOCTYPE x [<!ENTITY e \"eeee\">]><x>&e;</x>"}

// c09CorruptBytes applies a byte-level operator to b.
func c09CorruptBytes(b []byte, st *c09Step) []byte {
	switch st.Op {
	case "truncate":
		return append([]byte(nil), b[:len(b)*st.Pm/1000]...)
	case "bitflip":
		out := append([]byte(nil), b...)
		for i, pm := range st.Pms {
			if len(out) == 0 {
				break
			}
			k := len(out) * pm / 1000
			if k >= len(out) {
				k = len(out) - 1
			}
			out[k] ^= 1 << uint((st.N+i)%8)
		}
		return out
	case "garbage":
		return c09RandBytes(st.Seed, st.N)
	case "rootless-document":
		return []byte(c09Rootless[st.Variant%len(c09Rootless)])
	case "keyinfo-cert-text", "retrieval-method", "encryptedkey-algorithm", "forged-assertion-first":
		doc := etree.NewDocument()
		if err := doc.ReadFromBytes(b); err != nil || doc.Root() == nil {
			return b
		}
		var all []*etree.Element
		c01All(doc.Root(), &all)
		done := false
		for _, e := range all {
			switch {
			case st.Op == "forged-assertion-first" && !done && e.Tag == "Assertion" && e.Parent() != nil && e.Parent().Tag == "Response":
				// somebody puts assertions of his own making (copies without a signature, or with nothing in them) in front of the genuine
				// one: whatever the verdict on the response is, it is a result or an error, not neither
				done = true
				for q, n := 0, 1+st.N%3; q < n; q++ {
					f := e.Copy()
					for _, c := range f.ChildElements() {
						if c.Tag == "Signature" || (st.Variant%2 == 1 && c.Tag != "Issuer") {
							f.RemoveChild(c)
						}
					}
					f.CreateAttr("ID", fmt.Sprintf("id-forged-%d", q))
					e.Parent().InsertChildAt(e.Index(), f)
				}
			case st.Op == "keyinfo-cert-text" && e.Tag == "X509Certificate" && e.Parent() != nil && e.Parent().Parent() != nil && e.Parent().Parent().Parent() != nil && e.Parent().Parent().Parent().Tag == "Signature":
				// the certificate text inside a signature's KeyInfo (not signed content): armour lines, white space, garbage, nothing
				own := strings.TrimSpace(e.Text())
				texts := []string{
					"-----BEGIN CERTIFICATE-----\n" + own, own + "\n-----END CERTIFICATE-----", "-----END CERTIFICATE-----\n" + own + "\n-----BEGIN CERTIFICATE-----",
					"-----BEGIN CERTIFICATE-----\n" + own + "\n-----END CERTIFICATE-----", "-----BEGIN CERTIFICATE-----", "-----END CERTIFICATE-----", "", " \n ", "!!!not base64!!!",
					own[:len(own)/2], own + own, "AAAA", strings.Repeat("A", 100_000), own[:len(own)-1],
				}
				e.SetText(texts[st.N%len(texts)])
				if st.N%len(texts) == 9 {
					e.CreateComment("c") // a second child node beside the text
				}
			case st.Op == "encryptedkey-algorithm" && e.Tag == "EncryptedKey":
				// what the EncryptedKey says about how the key was wrapped is anybody's to write: a content-encryption algorithm,
				// nothing, something unheard of; or the wrapped key is itself said to be wrapped (an EncryptedKey inside its KeyInfo)
				algs := []string{"http://www.w3.org/2001/04/xmlenc#aes128-cbc", "http://www.w3.org/2001/04/xmlenc#aes256-cbc", "http://www.w3.org/2001/04/xmlenc#tripledes-cbc",
					"http://www.w3.org/2009/xmlenc11#aes128-gcm", "", "urn:example:no-such-algorithm", "http://www.w3.org/2001/04/xmlenc#rsa-1_5", "http://www.w3.org/2001/04/xmlenc#kw-aes128", "@remove", "@nest"}
				alg := algs[st.N%len(algs)]
				em := e.FindElement("./EncryptionMethod")
				switch {
				case alg == "@nest":
					ki := e.FindElement("./KeyInfo")
					if ki == nil {
						ki = etree.NewElement("ds:KeyInfo")
						ki.CreateAttr("xmlns:ds", "http://www.w3.org/2000/09/xmldsig#")
						e.InsertChildAt(0, ki)
					}
					inner := e.Copy()
					ki.AddChild(inner)
				case alg == "@remove":
					if em != nil {
						e.RemoveChild(em)
					}
				case em != nil:
					em.CreateAttr("Algorithm", alg)
				}
			case st.Op == "retrieval-method" && e.Tag == "EncryptedData":
				// the one-key-per-recipient layout: EncryptedKey beside EncryptedData, referenced from it by a RetrievalMethod URI
				ki := e.FindElement("./KeyInfo")
				if ki == nil || e.Parent() == nil {
					continue
				}
				uris := []string{"#key-1", "#key-2'", "#key[2", "#", "", "#]", "#a'][b", "no-hash", "#key=1", "#\"", "#*", "#key-1/../x", "#" + strings.Repeat("k", 70_000)}
				uri := uris[st.N%len(uris)]
				rm := etree.NewElement("ds:RetrievalMethod")
				rm.CreateAttr("xmlns:ds", "http://www.w3.org/2000/09/xmldsig#")
				rm.CreateAttr("Type", "http://www.w3.org/2001/04/xmlenc#EncryptedKey")
				rm.CreateAttr("URI", uri)
				if ek := ki.FindElement("./EncryptedKey"); ek != nil && st.Variant%2 == 0 {
					ki.RemoveChild(ek)
					ek.CreateAttr("Id", "key-1")
					e.Parent().AddChild(ek)
				}
				ki.InsertChildAt(0, rm)
			}
		}
		out, _ := doc.WriteToBytes()
		return out
	case "strip-keyinfo":
		// KeyInfo is not signed content: anybody on the wire can drop it from a signature
		doc := etree.NewDocument()
		if err := doc.ReadFromBytes(b); err != nil || doc.Root() == nil {
			return b
		}
		var all []*etree.Element
		c01All(doc.Root(), &all)
		for _, e := range all {
			if e.Tag == "KeyInfo" && e.Parent() != nil && e.Parent().Tag == "Signature" {
				e.Parent().RemoveChild(e)
			}
		}
		out, _ := doc.WriteToBytes()
		return out
	case "deep-nesting":
		if st.Variant%2 == 0 {
			return []byte(strings.Repeat("<a>", st.N) + strings.Repeat("</a>", st.N))
		}
	case "huge-attribute":
		if st.Variant%2 == 0 {
			return []byte(`<a x="` + strings.Repeat("A", st.N) + `"/>`)
		}
	}
	return b
}

// c09CorruptB64 applies a framing-level operator to base64 text.
func c09CorruptB64(s string, st *c09Step) string {
	switch st.Op {
	case "b64-cut":
		n := 1 + st.N%3
		if n > len(s) {
			n = len(s)
		}
		return s[:len(s)-n]
	case "b64-pad":
		return s + strings.Repeat("=", 1+st.N%3)
	case "b64-badchar":
		k := len(s) * st.Pm / 1000
		return s[:k] + []string{"!", "\x00", "%", "-_", "\n \n"}[st.Variant%5] + s[k:]
	}
	return s
}

// c09StructMut returns a mutator for the to-be-signed root element (structural operators).
// c09HostileAttrs / c09HostileValues: attributes of the message's root element whose text the consuming code parses
// (URLs, instants, numbers, identifiers) and texts that such parsers choke on. Set before signing: the signature stays valid.
var c09HostileAttrs = []string{"Destination", "Destination", "Destination", "AssertionConsumerServiceURL", "IssueInstant", "ID", "InResponseTo", "Version", "ProtocolBinding", "AssertionConsumerServiceIndex", "AttributeConsumingServiceIndex", "ForceAuthn", "IsPassive", "NotOnOrAfter"}

var c09HostileValues = []string{
	"https://sp.example.com/%zz", "https://sp.example.com/saml/acs%", "https://sp exa mple.com/saml/acs", "https://sp.example.com\t/saml/acs", "https://sp.example.com\x7f/saml/acs",
	"http://[::1/saml/acs", "https://sp.example.com:port/saml/acs", "https://sp.example.com:99999999/saml/acs", "//sp.example.com/saml/acs", "sp.example.com/saml/acs", ":", "%", "?", "#",
	"https://%41:b@sp.example.com/%", "ht!tp://sp.example.com/", "HTTPS://SP.EXAMPLE.COM/saml/acs", "https://sp.example.com/saml/acs\x00", "\xff\xfe", "\r\n",
	"2026-13-45T99:99:99Z", "99999999-01-01T00:00:00Z", "-1", "99999999999999999999", "1e9", "0x10", "true ", "", " ",
}

func c09HostileValue(n int) string {
	if n%(len(c09HostileValues)+1) == len(c09HostileValues) {
		return "https://sp.example.com/" + strings.Repeat("a", 70000)
	}
	return c09HostileValues[n%(len(c09HostileValues)+1)]
}

func c09StructMut(st *c09Step) func(*etree.Element) {
	switch {
	case st.Op == "hostile-attribute":
		return func(el *etree.Element) {
			el.CreateAttr(c09HostileAttrs[st.Variant%len(c09HostileAttrs)], c09HostileValue(st.N))
		}
	case st.Op == "deep-nesting" && st.Variant%2 == 1:
		return func(el *etree.Element) {
			cur := el.CreateElement("Extensions")
			for i := 0; i < st.N; i++ {
				cur = cur.CreateElement("a")
			}
		}
	case st.Op == "many-declarations-many-children":
		// n unused namespace declarations on the Response and n empty children called like the things the SP looks for
		return func(el *etree.Element) {
			unused := "urn:example:unused"
			if st.Variant >= 3 {
				unused = "u" // the declaring-children variants keep the message small for its number of declarations
			}
			for i := 0; i < st.N; i++ {
				el.CreateAttr(fmt.Sprintf("xmlns:a%d", i), unused)
			}
			name := []string{"Signature", "Assertion", "EncryptedAssertion"}[st.Variant%3]
			for i := 0; i < st.N; i++ {
				c := el.CreateElement(name)
				switch (st.Variant / 3) % 3 {
				case 1: // each child declares a default namespace of its own
					c.CreateAttr("xmlns", "v")
				case 2: // each child declares a prefix of its own
					c.CreateAttr("xmlns:z", "v")
				}
			}
		}
	case st.Op == "huge-attribute" && st.Variant%2 == 1:
		return func(el *etree.Element) { el.CreateAttr("Consent", strings.Repeat("A", st.N)) }
	case st.Op == "status-shape" && !c09StatusOnArtifact(st):
		// the issuer reports a failure the way the specification says (or success, with remarks): set before signing
		return func(el *etree.Element) {
			if status := el.SelectElement("Status"); status != nil {
				c09SetStatus(status, c09StatusTops[st.Variant%len(c09StatusTops)], st)
			}
		}
	}
	return nil
}

// c09ShortCipher replaces CipherValue texts by N blocks (+1 byte when Variant is odd) of plan-derived bytes.
// Variant/2: 0 = data only, 1 = key only, 2 = both.
func c09ShortCipher(st *c09Step) func(*etree.Element) *etree.Element {
	return func(ea *etree.Element) *etree.Element {
		n := st.N * 16
		if st.Variant%2 == 1 {
			n++
		}
		val := c09B64(c09RandBytes(st.Seed, n))
		which := (st.Variant / 2) % 3
		if which != 1 {
			if cv := ea.FindElement("./EncryptedData/CipherData/CipherValue"); cv != nil {
				cv.SetText(val)
			}
		}
		if which != 0 {
			if cv := ea.FindElement("./EncryptedData/KeyInfo/EncryptedKey/CipherData/CipherValue"); cv != nil {
				cv.SetText(val)
			}
		}
		return ea
	}
}

// c09CipherAlgs: every content-encryption algorithm the library registers a decrypter for; anybody can encrypt to the SP's
// public certificate and name any of them, with a properly wrapped key of the right length and a cipher value of any length.
var c09CipherAlgs = []struct {
	name string
	bc   xmlenc.BlockCipher
}{
	{"aes128-gcm", nil}, // the library's GCM.Encrypt cannot be driven through its key-transport Encrypt (nil nonce): an AES128-CBC envelope, renamed
	{"tripledes-cbc", xmlenc.TripleDES},
	{"aes192-cbc", xmlenc.AES192CBC},
	{"aes256-cbc", xmlenc.AES256CBC},
	{"aes128-cbc", xmlenc.AES128CBC},
}

var c09CipherLens = []int{0, 1, 7, 8, 9, 11, 12, 13, 15, 16, 17, 23, 24, 28, 31, 32, 40, 48, 64}

// c09CipherAlg: the assertion is encrypted with the library's own implementation of the step's algorithm; then the
// cipher value is replaced by c09CipherLens[N] plan-derived bytes (N < 0: the genuine cipher value stays).
func c09CipherAlg(st *c09Step) func(*etree.Element) *etree.Element {
	return func(ea *etree.Element) *etree.Element {
		if c09CipherAlgs[st.Variant%len(c09CipherAlgs)].bc == nil {
			if em := ea.FindElement("./EncryptedData/EncryptionMethod"); em != nil {
				em.CreateAttr("Algorithm", xmlenc.AES128GCM.Algorithm())
			}
		}
		if st.N >= 0 {
			if cv := ea.FindElement("./EncryptedData/CipherData/CipherValue"); cv != nil {
				cv.SetText(c09B64(c09RandBytes(st.Seed, c09CipherLens[st.N%len(c09CipherLens)])))
			}
		}
		return ea
	}
}

var c09EncPlain = []string{"<!-- x -->", "", " ", "<foo/>", "not xml at all", "<saml:Assertion", "<a><b></a></b>",
	`<Assertion xmlns="urn:oasis:names:tc:SAML:2.0:assertion"/>`, `<saml:Assertion xmlns:saml="urn:oasis:names:tc:SAML:2.0:assertion" ID="x"><saml:Issuer/></saml:Assertion>`}

// ---- deflate bombs (built once per process, cached)

var c09BombCache = map[int][]byte{}

func c09Bomb(mb int) []byte {
	if b, ok := c09BombCache[mb]; ok {
		return b
	}
	var w bytes.Buffer
	fw, _ := flate.NewWriter(&w, flate.BestSpeed)
	// not well-formed from the second byte on: whatever gets to see the inflated bytes fails
	// at once, so that only the inflation itself is on trial (and a tree without the limit
	// costs seconds, not minutes, per execution)
	_, _ = fw.Write([]byte("<<"))
	chunk := bytes.Repeat([]byte("A"), 1<<20)
	for i := 0; i < mb; i++ {
		_, _ = fw.Write(chunk)
	}
	_ = fw.Close()
	c09BombCache[mb] = w.Bytes()
	return c09BombCache[mb]
}

// c09PaddedBomb deflates a genuine message preceded by mb MB of comment: just over the
// limit, well-formed, and valid in every other respect.
func c09PaddedBomb(genuine []byte, mb int) []byte {
	var w bytes.Buffer
	fw, _ := flate.NewWriter(&w, flate.BestSpeed)
	_, _ = fw.Write([]byte("<!--"))
	chunk := bytes.Repeat([]byte("A"), 1<<20)
	for i := 0; i < mb; i++ {
		_, _ = fw.Write(chunk)
	}
	_, _ = fw.Write([]byte("-->"))
	_, _ = fw.Write(genuine)
	_ = fw.Close()
	return w.Bytes()
}

func c09BombFor(genuine []byte, mb int) []byte {
	if mb <= 16 {
		return c09PaddedBomb(genuine, mb)
	}
	return c09Bomb(mb)
}

func c09TotalAlloc() uint64 {
	var m runtime.MemStats
	runtime.ReadMemStats(&m)
	return m.TotalAlloc
}

// ---------------------------------------------------------------- reply recorder (one well-formed reply)

type c09Writer struct {
	h         http.Header
	code      int
	headers   int // WriteHeader calls
	afterBody int // WriteHeader calls after the body started
	body      bytes.Buffer
}

func (w *c09Writer) Header() http.Header { return w.h }
func (w *c09Writer) WriteHeader(c int) {
	w.headers++
	if w.body.Len() > 0 || w.code != 0 {
		w.afterBody++
		return
	}
	w.code = c
}
func (w *c09Writer) Write(b []byte) (int, error) {
	if w.code == 0 {
		w.code = 200
	}
	return w.body.Write(b)
}

// c09Serve delivers r to h and classifies the reply.
func c09Serve(h http.Handler, r *http.Request) (w *c09Writer, pan *c09Panic) {
	w = &c09Writer{h: http.Header{}}
	pan = c09Guard(func() { h.ServeHTTP(w, r) })
	if w.code == 0 && pan == nil {
		w.code = 200 // net/http sends 200 when the handler returns without writing
	}
	return
}

// ---------------------------------------------------------------- oracles

type c09Ctx struct {
	res     *Result
	si      int
	corrupt bool // corruption-class shapes name the panicking function as well
}

func (c *c09Ctx) panicViolation(entry, shape string, pan *c09Panic) {
	if c.corrupt && pan.Func != "" {
		shape += "@" + strings.NewReplacer("(", "", ")", "", "*", "").Replace(pan.Func)
	}
	c.res.violate(c.si, "panic", "C09/panic/"+c09Func(entry)+"/"+shape, "a result or an error", "PANIC",
		fmt.Sprintf("site=%s; %s in %s [top frame: %s]", pan.Frame, pan.Val, pan.Func, pan.Top))
}

// c09Func strips the binding suffix of an entry name.
func c09Func(entry string) string {
	if k := strings.Index(entry, "/"); k > 0 {
		return entry[:k]
	}
	return entry
}

func c09Observed(as *saml.Assertion, err error, pan *c09Panic) string {
	switch {
	case pan != nil:
		return "PANIC(" + pan.Func + ")"
	case as != nil && err == nil:
		id := "<no subject>"
		if as.Subject != nil && as.Subject.NameID != nil {
			id = as.Subject.NameID.Value
		} else if as.Subject != nil {
			id = "<no nameid>"
		}
		return "ACCEPT(" + id + ")"
	case as == nil && err != nil:
		return "REJECT"
	case as != nil:
		return "ASSERTION+ERROR"
	}
	return "NIL+NIL"
}

// checkSP applies the statement to the outcome of a response-parsing entry point.
// expect: ACCEPT | REJECT | ANY (statement says only "a result or an error").
func (c *c09Ctx) checkSP(entry, shape, expect, wantID string, as *saml.Assertion, err error, pan *c09Panic) bool {
	obs := c09Observed(as, err, pan)
	fn := c09Func(entry)
	switch {
	case pan != nil:
		c.panicViolation(entry, shape, pan)
	case as != nil && err != nil:
		c.res.violate(c.si, "assertion-with-error", "C09/assertion-with-error/"+fn+"/"+shape, "assertion nil exactly when error non-nil", obs, privErr(err))
	case as == nil && err == nil:
		c.res.violate(c.si, "neither-result-nor-error", "C09/nil-nil/"+fn+"/"+shape, "a result or an error", obs, "")
	}
	if c.res.Violation != nil {
		return false
	}
	if err != nil {
		ire, ok := err.(*saml.InvalidResponseError)
		if !ok || ire == nil {
			c.res.violate(c.si, "error-type", "C09/error-type/"+fn+"/"+shape, "*saml.InvalidResponseError", fmt.Sprintf("%T", err), short(err.Error(), 120))
			return false
		}
		if err.Error() != c09AuthFailed {
			c.res.violate(c.si, "error-message", "C09/error-message/"+fn+"/"+shape, c09AuthFailed, short(err.Error(), 120), "")
			return false
		}
	}
	switch expect {
	case "ACCEPT":
		if as == nil {
			c.res.violate(c.si, "genuine-rejected", "C09/genuine-rejected/"+fn+"/"+shape, "ACCEPT("+wantID+")", obs, privErr(err))
			return false
		}
		if as.Subject == nil || as.Subject.NameID == nil || as.Subject.NameID.Value != wantID {
			c.res.violate(c.si, "wrong-identity", "C09/wrong-identity/"+fn+"/"+shape, "ACCEPT("+wantID+")", obs, "")
			return false
		}
	case "REJECT":
		if as != nil {
			c.res.violate(c.si, "accepted-on-failure", "C09/accepted-on-failure/"+fn+"/"+shape, "REJECT", obs, "")
			return false
		}
	default:
		c.res.dontcare("accept-or-reject-open:" + fn)
	}
	return true
}

// checkTime: the call consumed no more simulated time than the configured budget (+slack).
func (c *c09Ctx) checkTime(entry, shape string, spent time.Duration, budgetMs int64) bool {
	if budgetMs > 0 && spent > ms(budgetMs+c09SlackMs) {
		c.res.violate(c.si, "hang", "C09/hang/"+c09Func(entry)+"/"+shape, fmt.Sprintf("returns within %d ms (+%d slack)", budgetMs, c09SlackMs),
			fmt.Sprintf("returned after %d ms", spent.Milliseconds()), "")
		return false
	}
	return true
}

func c09Budget(k c09Knobs) int64 {
	b := k.ClientTimeoutMs
	if k.CtxTimeoutMs > 0 && (b == 0 || k.CtxTimeoutMs < b) {
		b = k.CtxTimeoutMs
	}
	return b
}

// ---------------------------------------------------------------- part 1: back-channel fault sequences

var c09ArtFaults = []string{"conn_err", "status", "status_endless", "empty", "trunc_err", "trunc_clean", "length_lie", "close_err", "redirect_chain", "slow", "stall_headers", "stall_body",
	"garbage", "soap_fault", "wrong_envelope", "wrong_irt", "bad_status", "unsigned", "wrong_key", "good"}
var c09MdFaults = []string{"conn_err", "status", "status_endless", "empty", "trunc_err", "trunc_clean", "slow", "stall_headers", "stall_body",
	"garbage", "wrong_doc", "good"}

const c09NWrongEnvelope = 10

func c09ResolveID(body []byte) string {
	doc := etree.NewDocument()
	if err := doc.ReadFromBytes(body); err != nil {
		return ""
	}
	if el := doc.FindElement("//ArtifactResolve"); el != nil {
		return el.SelectAttrValue("ID", "")
	}
	return ""
}

// c09ArtPayload is what the foreign IdP's resolver answers for this step.
func c09ArtPayload(st *c09Step, resolveID, prevID string, t0 time.Time) []byte {
	o := c09RespOpts{Layout: st.Layout, Encrypt: st.Encrypt}
	irt := resolveID
	artStatus := saml.StatusSuccess
	switch st.Fault {
	case "unsigned":
		o.Layout = "none"
	case "wrong_key":
		o.SignKey = 2
	case "wrong_irt":
		switch st.Variant % 3 {
		case 0:
			irt = "id-some-other-resolve"
		case 1:
			irt = ""
		case 2:
			irt = prevID
			if irt == "" || irt == resolveID {
				irt = "id-some-other-resolve"
			}
		}
	case "bad_status":
		if st.Variant%2 == 0 {
			artStatus = c09StatusTops[0]
		} else {
			o.MutResp = func(el *etree.Element) {
				if status := el.SelectElement("Status"); status != nil {
					c09SetStatus(status, c09StatusTops[1], st)
				}
			}
		}
	case "soap_fault":
		_, doc := c09SoapFault(st.Variant)
		return doc
	}
	respEl := c09BuildResponse(o, t0)
	env := wrapArtifactResponse(respEl, "id-art-0", irt, c09IdpEntity, artStatus, t0, nil)
	if st.Fault == "bad_status" && st.Variant%2 == 0 {
		env = c09EnvStatus(env, artStatus, st)
	}
	if st.Fault != "wrong_envelope" {
		return env
	}
	doc := etree.NewDocument()
	if err := doc.ReadFromBytes(env); err != nil {
		panic(err)
	}
	root := doc.Root()
	body := root.SelectElement("Body")
	ar := body.SelectElement("ArtifactResponse")
	out := etree.NewDocument()
	switch st.Variant % c09NWrongEnvelope {
	case 0: // non-SOAP root
		out.SetRoot(ar.Copy())
	case 1: // SOAP 1.2 namespace
		root.CreateAttr("xmlns:soap", "http://www.w3.org/2003/05/soap-envelope")
		out.SetRoot(root.Copy())
	case 2: // no Body
		root.RemoveChild(body)
		root.AddChild(ar.Copy())
		out.SetRoot(root.Copy())
	case 3: // empty Body
		body.RemoveChild(ar)
		out.SetRoot(root.Copy())
	case 4: // two ArtifactResponses
		body.AddChild(ar.Copy())
		out.SetRoot(root.Copy())
	case 5: // two Bodies
		root.AddChild(body.Copy())
		out.SetRoot(root.Copy())
	case 6: // Body carries the Response directly
		resp := ar.SelectElement("Response")
		body.RemoveChild(ar)
		r2 := resp.Copy()
		r2.CreateAttr("xmlns:samlp", "urn:oasis:names:tc:SAML:2.0:protocol")
		r2.CreateAttr("xmlns:saml", "urn:oasis:names:tc:SAML:2.0:assertion")
		body.AddChild(r2)
		out.SetRoot(root.Copy())
	case 7: // ArtifactResponse without Response
		c09RemoveChild(ar, "Response")
		out.SetRoot(root.Copy())
	case 8: // ArtifactResponse with two Responses
		ar.AddChild(ar.SelectElement("Response").Copy())
		out.SetRoot(root.Copy())
	case 9: // wrong root tag in the SOAP namespace
		root.Tag = "Envelop"
		out.SetRoot(root.Copy())
	}
	b, err := out.WriteToBytes()
	if err != nil {
		panic(err)
	}
	return b
}

func c09MdPayload(st *c09Step) []byte {
	switch st.Fault {
	case "wrong_doc":
		return c09BuildMetadata(c09MetaShapes[2+st.Variant%(len(c09MetaShapes)-2)])
	case "good":
		return c09BuildMetadata(c09MetaShapes[st.Variant%2])
	}
	return c09BuildMetadata("entitydescriptor")
}

// c09BackResp turns the step's fault kind into transport behaviour around payload.
func c09BackResp(st *c09Step, payload []byte) *c09Resp {
	r := c09Plain(payload)
	switch st.Fault {
	case "conn_err":
		r.ConnErr = true
	case "stall_headers":
		r.StallHeaders = true
	case "status":
		r.Code = st.Code
		switch st.Variant % 3 {
		case 0:
			r.Body = nil
		case 1:
			r.Body = []byte("<html><body><h1>" + http.StatusText(st.Code) + "</h1></body></html>")
		}
		if st.Code == 302 && st.Variant >= 3 {
			r.Header = http.Header{"Location": {"/elsewhere"}}
		}
	case "status_endless":
		// a tar pit, or a broken proxy: an error status whose body never ends
		r.Code, r.Endless = st.Code, true
		r.Body = []byte("<html><body><h1>" + http.StatusText(st.Code) + "</h1>")
	case "empty":
		r.Body = nil
	case "trunc_err":
		r.CutAt, r.CutErr = len(payload)*st.Pm/1000, io.ErrUnexpectedEOF
	case "trunc_clean":
		r.CutAt = len(payload) * st.Pm / 1000
	case "close_err":
		r.CloseErr = true
	case "redirect_chain":
		r.RedirectTo = "hop" // the handler appends a counter: every hop is a URL not used before
	case "length_lie":
		// the peer announces far more than it delivers (1 GiB, 64 GiB or 2^62 bytes), then the connection dies
		r.CutAt, r.CutErr = len(payload)*st.Pm/1000, io.ErrUnexpectedEOF
		r.ClaimLen = []int64{1 << 30, 1 << 36, 1 << 62}[st.Variant%3]
	case "stall_body":
		r.StallAt = len(payload) * st.Pm / 1000
	case "slow":
		r.Chunks, r.Delay = st.Chunks, ms(st.DelayMs)
	case "garbage":
		if v := st.Variant % (len(c09Garbage) + 1); v < len(c09Garbage) {
			r.Body = []byte(c09Garbage[v])
		} else {
			r.Body = c09RandBytes(st.Seed, 64+st.N%4000)
		}
	}
	return r
}

func c09ExecBack(p *Plan, k c09Knobs, res *Result) {
	spv := c09NewSP()
	tr := &c09Transport{}
	client := &http.Client{Transport: tr, Timeout: ms(k.ClientTimeoutMs)}
	spv.HTTPClient = client
	budget := c09Budget(k)
	if budget == 0 {
		res.probe("application-sets-no-deadline")
	}
	prevID := ""
	for si, raw := range p.Steps {
		st := decode[c09Step](raw)
		if st.Kind != "resolve" && st.Kind != "fetch" {
			continue
		}
		c := &c09Ctx{res: res, si: si}
		pos := si
		if pos > 3 {
			pos = 3
		}
		res.Extra[fmt.Sprintf("cov:%s:%s@%d", st.Kind, st.Fault, pos)]++
		t0 := time.Now()
		resolveID := ""
		tr.callStart, tr.Runaway, tr.ReadOn = tr.Requests, false, false
		tr.handler = func(req *http.Request, body []byte) *c09Resp {
			if req.URL.Path == "/elsewhere" {
				return c09Plain([]byte(c09Garbage[1]))
			}
			if st.Fault == "redirect_chain" && st.Kind == "resolve" {
				r := c09Plain(nil)
				r.RedirectTo = fmt.Sprintf("%s?hop=%d", c09IdpArt, tr.Requests-tr.callStart)
				return r
			}
			if st.Kind == "fetch" {
				return c09BackResp(&st, c09MdPayload(&st))
			}
			resolveID = c09ResolveID(body)
			return c09BackResp(&st, c09ArtPayload(&st, resolveID, prevID, time.Now()))
		}
		ctx, cancel := context.Background(), context.CancelFunc(func() {})
		if k.CtxTimeoutMs > 0 {
			ctx, cancel = context.WithTimeout(ctx, ms(k.CtxTimeoutMs))
		}
		// expectation, from the plan alone
		expect := "REJECT"
		total := int64(st.Chunks) * st.DelayMs
		switch {
		case st.Fault == "good":
			expect = "ACCEPT"
		case st.Fault == "slow" && total < budget-100:
			expect = "ACCEPT"
		case st.Fault == "slow" && total <= budget+100:
			expect = "ANY"
		case st.Fault == "close_err":
			expect = "ANY" // the complete, genuine answer was received; whether a failed Close counts is the library's choice - but not both a result and an error
		}
		if st.Fault != "good" {
			res.fire("backchannel:" + st.Fault)
			res.Nontrivial = true
		}
		shape := st.Fault
		if st.Fault == "status" || st.Fault == "status_endless" {
			shape = fmt.Sprintf("%s-%d", strings.ReplaceAll(st.Fault, "_", "-"), st.Code)
		}
		if st.Fault == "soap_fault" && st.Kind == "resolve" {
			name, _ := c09SoapFault(st.Variant)
			res.Extra["soap-fault:"+name]++
			if st.Variant%len(c09SoapFaults) != 0 {
				shape += "-" + name
				res.probe("soap-fault-other-than-faultcode+faultstring")
			}
		}
		if st.Fault == "bad_status" && st.Kind == "resolve" {
			where, top := "artifact-response", c09StatusTops[0]
			if st.Variant%2 == 1 {
				where, top = "response-in-artifact-response", c09StatusTops[1]
			}
			c09CountStatus(res, where, top, &st)
			if st.Sub > 0 || st.Msg > 0 || st.Detail {
				shape += "-" + c09StatusTag(&st)
			}
		}
		var pan *c09Panic
		var observed string
		if st.Kind == "resolve" {
			form := url.Values{"SAMLart": {c09Artifact(&st)}, "RelayState": {"rs"}}
			hr := httptest.NewRequest("POST", c09Acs, strings.NewReader(form.Encode())).WithContext(ctx)
			hr.Header.Set("Content-Type", formCT)
			_ = hr.ParseForm()
			var as *saml.Assertion
			var err error
			allocBefore := c09TotalAlloc()
			pan = c09Guard(func() { as, err = spv.ParseResponse(hr, []string{c09ReqID}) })
			grew := c09TotalAlloc() - allocBefore
			cancel()
			synctest.Wait()
			spent := time.Since(t0)
			if tr.Runaway {
				res.logf("step %d resolve fault=%s: the call kept issuing back-channel requests (%d) and had to be cut off", si, shape, tr.Requests-tr.callStart)
				res.violate(si, "hang", "C09/hang/ParseResponse/backchannel-"+shape+"/unbounded-requests", "a bounded number of back-channel requests per resolution", fmt.Sprintf("> %d requests, still going", tr.Requests-tr.callStart-1), "")
				return
			}
			if tr.ReadOn {
				res.logf("step %d resolve fault=%s: the call kept reading the endless body of an error reply and had to be cut off", si, shape)
				res.violate(si, "hang", "C09/hang/ParseResponse/backchannel-"+shape+"/reads-error-body-without-end", "returns once the peer has answered with an error status", fmt.Sprintf("still reading after %d pieces and %d simulated seconds", c09EndlessReads, c09EndlessReads), "")
				return
			}
			if st.Fault == "length_lie" && pan == nil && grew > 256<<20 {
				res.logf("step %d resolve fault=%s: allocated %d MB for a reply of a few hundred bytes", si, shape, grew>>20)
				res.violate(si, "unbounded-allocation", "C09/alloc/ParseResponse/backchannel-"+shape, "allocation bounded by what was received", fmt.Sprintf("%d MB allocated", grew>>20), "the peer only announced that much")
				return
			}
			observed = c09Observed(as, err, pan)
			res.logf("step %d resolve fault=%s variant=%d layout=%s enc=%v pos=%d expect=%s observed=%s budget_ms=%d spent_ms=%d requests=%d", si, shape, st.Variant, st.Layout, st.Encrypt, pos, expect, observed, budget, spent.Milliseconds(), tr.Requests)
			if !c.checkSP("ParseResponse/artifact", "backchannel-"+shape, expect, marker("nid", 0), as, err, pan) {
				return
			}
			if !c.checkTime("ParseResponse/artifact", "backchannel-"+shape, spent, budget) {
				return
			}
			if expect == "ACCEPT" {
				res.probe("artifact-accepted-at-pos-" + fmt.Sprint(pos))
			}
		} else {
			var md *saml.EntityDescriptor
			var err error
			pan = c09Guard(func() { md, err = samlsp.FetchMetadata(ctx, client, mustURL(c09IdpEntity)) })
			cancel()
			synctest.Wait()
			spent := time.Since(t0)
			if tr.ReadOn {
				res.logf("step %d fetch fault=%s: the call kept reading the endless body of an error reply and had to be cut off", si, shape)
				res.violate(si, "hang", "C09/hang/samlsp.FetchMetadata/backchannel-"+shape+"/reads-error-body-without-end", "returns once the peer has answered with an error status", fmt.Sprintf("still reading after %d pieces and %d simulated seconds", c09EndlessReads, c09EndlessReads), "")
				return
			}
			switch {
			case pan != nil:
				observed = "PANIC(" + pan.Func + ")"
			case md != nil && err == nil:
				observed = "METADATA(" + md.EntityID + ")"
			case md == nil && err != nil:
				observed = "ERROR"
			case md != nil:
				observed = "METADATA+ERROR"
			default:
				observed = "NIL+NIL"
			}
			mdExpect := "ANY"
			switch {
			case st.Fault == "good" || (st.Fault == "slow" && total < budget-100):
				mdExpect = "METADATA"
			case st.Fault == "conn_err" || st.Fault == "status_endless" || st.Fault == "stall_headers" || st.Fault == "stall_body" || st.Fault == "trunc_err" || (st.Fault == "slow" && total > budget+100):
				mdExpect = "ERROR"
			}
			res.logf("step %d fetch fault=%s variant=%d pos=%d expect=%s observed=%s budget_ms=%d spent_ms=%d requests=%d", si, shape, st.Variant, pos, mdExpect, observed, budget, spent.Milliseconds(), tr.Requests)
			fn, sh := "samlsp.FetchMetadata", "backchannel-"+shape
			switch {
			case pan != nil:
				c.panicViolation(fn, sh, pan)
			case observed == "METADATA+ERROR" || observed == "NIL+NIL":
				res.violate(si, "neither-result-nor-error", "C09/nil-nil/"+fn+"/"+sh, "metadata or an error", observed, "")
			case mdExpect == "METADATA" && (md == nil || md.EntityID != c09IdpEntity):
				res.violate(si, "genuine-rejected", "C09/genuine-rejected/"+fn+"/"+sh, "METADATA("+c09IdpEntity+")", observed, fmt.Sprint(err))
			case mdExpect == "ERROR" && err == nil:
				res.violate(si, "accepted-on-failure", "C09/accepted-on-failure/"+fn+"/"+sh, "ERROR", observed, "")
			}
			if res.Violation != nil {
				return
			}
			if mdExpect == "ANY" {
				res.dontcare("metadata-or-error-open")
			}
			if !c.checkTime(fn, sh, spent, budget) {
				return
			}
		}
		if tr.Open != 0 {
			res.violate(si, "connection-left-open", "C09/leak/"+st.Kind+"/"+shape, "every response body closed or drained when the call returns", fmt.Sprintf("%d open", tr.Open), "")
			return
		}
		if resolveID != "" {
			prevID = resolveID
		}
	}
}

// ---------------------------------------------------------------- part 2: omission and corruption in flight

var c09ArtifactOmits = []string{"artifact-no-issuer", "artifact-no-status", "artifact-no-inresponseto", "artifact-no-issueinstant", "artifact-no-id", "artifact-no-response"}

func c09OmitArtifact(env []byte, omit []string) []byte {
	doc := etree.NewDocument()
	if err := doc.ReadFromBytes(env); err != nil {
		panic(err)
	}
	ar := doc.FindElement("//ArtifactResponse")
	if ar == nil {
		return env
	}
	for _, o := range omit {
		switch o {
		case "artifact-no-issuer":
			c09RemoveChild(ar, "Issuer")
		case "artifact-no-status":
			c09RemoveChild(ar, "Status")
		case "artifact-no-inresponseto":
			ar.RemoveAttr("InResponseTo")
		case "artifact-no-issueinstant":
			ar.RemoveAttr("IssueInstant")
		case "artifact-no-id":
			ar.RemoveAttr("ID")
		case "artifact-no-response":
			c09RemoveChild(ar, "Response")
		}
	}
	b, err := doc.WriteToBytes()
	if err != nil {
		panic(err)
	}
	return b
}

// c09CPUSeconds: processor time this process has used so far (user + system). Unlike time.Now it is not the bubble's clock.
func c09CPUSeconds() float64 {
	var ru syscall.Rusage
	if err := syscall.Getrusage(syscall.RUSAGE_SELF, &ru); err != nil {
		return 0
	}
	return float64(ru.Utime.Sec+ru.Stime.Sec) + float64(ru.Utime.Usec+ru.Stime.Usec)/1e6
}

func c09Shape(st *c09Step) string {
	switch st.Kind {
	case "good":
		return "genuine"
	case "bomb":
		return "deflate-bomb"
	case "omit":
		o := append([]string(nil), st.Omit...)
		sort.Strings(o)
		return strings.Join(o, "+")
	}
	if st.Layer != "" && st.Layer != "xml" {
		return st.Op + "-" + st.Layer
	}
	if st.Op == "status-shape" {
		shape := "status-" + c09TopName(c09StatusTops[st.Variant%len(c09StatusTops)]) + "-" + c09StatusTag(st)
		if c09StatusOnArtifact(st) {
			shape += "+on-artifact-response"
		}
		return shape
	}
	return st.Op
}

func c09ByteOp(op string) bool {
	switch op {
	case "truncate", "bitflip", "garbage", "rootless-document":
		return true
	}
	return false
}

// c09XMLLayer applies the xml-layer byte operators of a corrupt step.
func c09XMLLayer(b []byte, st *c09Step) []byte {
	if st.Kind == "corrupt" && (st.Layer == "" || st.Layer == "xml") {
		return c09CorruptBytes(b, st)
	}
	return b
}

func c09B64Layer(s string, st *c09Step) string {
	if st.Kind == "corrupt" && st.Layer == "b64" {
		return c09CorruptB64(s, st)
	}
	return s
}

func c09DeflateLayer(x []byte, st *c09Step) []byte {
	if st.Kind == "corrupt" && st.Op == "not-deflated" {
		return x
	}
	d := c09Deflate(x)
	if st.Kind == "corrupt" && st.Layer == "deflate" {
		d = c09CorruptBytes(d, st)
	}
	return d
}

func c09Mut(st *c09Step) func(*etree.Element) {
	if st.Kind == "corrupt" {
		return c09StructMut(st)
	}
	return nil
}

// ---- the bundled middleware as the consumer of a response (samlsp.Middleware at /saml/acs): the library's own handler in front of
// ParseResponse, with the library's own default error handler behind it

// c09Tracker stands for the application's request tracker: one login is pending, the one the foreign IdP answers.
type c09Tracker struct{}

func (c09Tracker) TrackRequest(http.ResponseWriter, *http.Request, string) (string, error) {
	return "rs", nil
}
func (c09Tracker) StopTrackingRequest(http.ResponseWriter, *http.Request, string) error { return nil }
func (c09Tracker) GetTrackedRequests(*http.Request) []samlsp.TrackedRequest {
	return []samlsp.TrackedRequest{{Index: "rs", SAMLRequestID: c09ReqID, URI: c09AfterLogin}}
}
func (c09Tracker) GetTrackedRequest(_ *http.Request, index string) (*samlsp.TrackedRequest, error) {
	if index != "rs" {
		return nil, http.ErrNoCookie
	}
	return &samlsp.TrackedRequest{Index: "rs", SAMLRequestID: c09ReqID, URI: c09AfterLogin}, nil
}

const c09AfterLogin = "/after-login"

// c09LogSink is where the standard logger writes while the middleware runs: the library's default error handler formats its
// line as it does in production (io.Discard would make the logger skip the formatting), and the line goes nowhere.
type c09LogSink struct{}

func (c09LogSink) Write(p []byte) (int, error) { return len(p), nil }

// c09NewMiddleware: the middleware around the step's service provider. Its session tokens are signed with an RSA key of the
// application's (samlsp.New takes RSA and ECDSA keys only); the service provider inside is the step's, with whatever key that holds.
func c09NewMiddleware(spv *saml.ServiceProvider) *samlsp.Middleware {
	kp := rsaKeys[1]
	m, err := samlsp.New(samlsp.Options{URL: mustURL(c09SpBase + "/"), Key: kp.Key, Certificate: kp.Cert, IDPMetadata: spv.IDPMetadata})
	if err != nil {
		panic(fmt.Sprintf("harness: samlsp.New: %v", err))
	}
	m.ServiceProvider = *spv
	m.RequestTracker = c09Tracker{}
	return m
}

// c09ServeACS delivers r to the middleware and judges the reply: no panic, exactly one well-formed reply; the genuine message logs
// the user in (a redirect to where the pending login started, with a session cookie); expect REJECT: no session.
func (c *c09Ctx) c09ServeACS(st *c09Step, shape, expect string, spv *saml.ServiceProvider, r *http.Request) {
	m := c09NewMiddleware(spv)
	old := log.Writer()
	log.SetOutput(c09LogSink{})
	w, pan := c09Serve(m, r)
	log.SetOutput(old)
	synctest.Wait()
	c.res.probe("delivered-to-samlsp.Middleware")
	obs := ""
	switch {
	case pan != nil:
		obs = "PANIC(" + pan.Func + ")"
	case w.afterBody > 0 || w.code < 200 || w.code > 599:
		obs = fmt.Sprintf("MALFORMED-REPLY(%d,%d)", w.code, w.headers)
	case w.code == http.StatusFound && len(w.h["Set-Cookie"]) > 0:
		obs = "SESSION(" + w.h.Get("Location") + ")"
	default:
		obs = fmt.Sprintf("STATUS-%dxx", w.code/100)
	}
	c.res.logf("step %d %s %s shape=%s layout=%s enc=%v expect=%s observed=%s", c.si, st.Kind, st.Entry, shape, st.Layout, st.Encrypt, expect, obs)
	if c.res.Violation != nil {
		return
	}
	fn := c09Func(st.Entry)
	switch {
	case pan != nil:
		c.panicViolation(st.Entry, shape, pan)
	case strings.HasPrefix(obs, "MALFORMED"):
		c.res.violate(c.si, "reply", "C09/reply/"+fn+"/"+shape, "exactly one well-formed HTTP reply", obs, "")
	case expect == "ACCEPT" && obs != "SESSION("+c09AfterLogin+")":
		c.res.violate(c.si, "genuine-rejected", "C09/genuine-rejected/"+fn+"/"+shape, "SESSION("+c09AfterLogin+")", obs, "")
	case expect == "REJECT" && strings.HasPrefix(obs, "SESSION"):
		c.res.violate(c.si, "accepted-on-failure", "C09/accepted-on-failure/"+fn+"/"+shape, "no session", obs, "")
	case expect == "ANY":
		c.res.dontcare("accept-or-reject-open:" + fn)
	}
}

// ---- response family

var c09CertModes = []string{"bad-first", "bad-last", "two-good", ""}
var c09TrustModes = []string{"fingerprint", "fingerprint", "pinned", ""}

func c09ExecResponse(c *c09Ctx, st *c09Step, k c09Knobs) {
	if st.Kind == "corrupt" && st.Op == "strip-keyinfo" {
		c09CertMode = c09CertModes[st.Variant%len(c09CertModes)]
		defer func() { c09CertMode = "" }()
	}
	if st.Kind == "corrupt" && st.Op == "keyinfo-cert-text" {
		c09CertMode = c09TrustModes[st.Variant%len(c09TrustModes)]
		defer func() { c09CertMode = "" }()
	}
	c09SPKey = st.SPKey
	defer func() { c09SPKey = "" }()
	spv := c09NewSP()
	encrypt := st.Encrypt
	if st.Kind == "corrupt" && (c09ByteOp(st.Op) || strings.HasPrefix(st.Op, "b64-")) {
		encrypt = false // ciphertext bytes differ between executions (OAEP): byte positions would not replay
	}
	o := c09RespOpts{Layout: st.Layout, Encrypt: encrypt, MutResp: c09Mut(st), EncTo: st.EncTo}
	if st.Kind == "omit" {
		o.Omit = st.Omit
	}
	if st.Kind == "corrupt" {
		switch st.Op {
		case "ciphervalue-short":
			o.Encrypt = true
			o.MutEnc = c09ShortCipher(st)
		case "cipher-algorithm":
			o.Encrypt = true
			o.EncCipher = c09CipherAlgs[st.Variant%len(c09CipherAlgs)].bc
			o.EncKT = int(st.Seed % 6)
			o.MutEnc = c09CipherAlg(st)
		case "encrypted-plaintext":
			o.Encrypt = true
			plain := c09EncPlain[st.Variant%len(c09EncPlain)]
			o.PlainBytes = func([]byte) []byte { return []byte(plain) }
		}
	}
	shape := c09Shape(st)
	if st.Kind == "corrupt" && st.Op == "encrypted-plaintext" {
		kind := "garbage"
		switch st.Variant % len(c09EncPlain) {
		case 0, 1, 2:
			kind = "rootless"
		case 3, 7, 8:
			kind = "other-element"
		}
		shape = "encrypted-plaintext-" + kind
	}
	if st.Kind == "corrupt" && st.Op == "cipher-algorithm" {
		shape = "cipher-algorithm-" + c09CipherAlgs[st.Variant%len(c09CipherAlgs)].name
	}
	expect := "ANY"
	if st.Kind == "good" {
		expect = "ACCEPT"
	}
	if st.SPKey != "" || st.EncTo != "" {
		// which key the service provider holds has no bearing on whose signatures it trusts; what it can read has: a response whose
		// only assertion is encrypted to a key the SP does not hold (any more) carries nothing for it, and is one more input that has
		// to come back as an error
		readable := c09Readable(st.SPKey, st.EncTo)
		if o.Encrypt && !readable && (st.Kind == "good" || st.Kind == "omit") {
			expect = "REJECT"
		}
		kind := "plaintext"
		if o.Encrypt {
			kind = "encrypted-to-" + map[bool]string{true: "the-key-it-holds", false: "a-key-it-does-not-hold"}[readable]
		}
		c.res.Extra["sp-key:"+map[bool]string{true: st.SPKey, false: "rsa1"}[st.SPKey != ""]+":"+kind]++
		if o.Encrypt && !readable {
			c.res.Nontrivial = true
			c.res.probe("encrypted-assertion-for-a-key-the-sp-does-not-hold")
			shape += "+unreadable"
		}
		if st.SPKey != "" {
			shape += "+sp-key-" + st.SPKey
		}
	}
	if st.Kind == "corrupt" && st.Op == "status-shape" {
		where := "response"
		if c09StatusOnArtifact(st) {
			where = "artifact-response"
		}
		c09CountStatus(c.res, where, c09StatusTops[st.Variant%len(c09StatusTops)], st)
	}
	artStatus := func(env []byte) []byte {
		if c09StatusOnArtifact(st) {
			return c09EnvStatus(env, c09StatusTops[st.Variant%len(c09StatusTops)], st)
		}
		return env
	}
	ids := []string{c09ReqID}
	var as *saml.Assertion
	var err error
	var pan *c09Panic
	t0 := time.Now()
	switch st.Entry {
	case "samlsp.Middleware/post", "samlsp.Middleware/artifact":
		var r *http.Request
		var tr *c09Transport
		if st.Entry == "samlsp.Middleware/post" {
			body := c09XMLLayer(elBytes(c09BuildResponse(o, t0)), st)
			r = postRequest(c09Acs, url.Values{"SAMLResponse": {c09B64Layer(c09B64(body), st)}, "RelayState": {"rs"}})
		} else {
			tr = &c09Transport{handler: func(req *http.Request, body []byte) *c09Resp {
				env := wrapArtifactResponse(c09BuildResponse(o, t0), "id-art-0", c09ResolveID(body), c09IdpEntity, saml.StatusSuccess, t0, nil)
				if st.Kind == "omit" {
					env = c09OmitArtifact(env, st.Omit)
				}
				return c09Plain(c09XMLLayer(artStatus(env), st))
			}}
			spv.HTTPClient = &http.Client{Transport: tr, Timeout: 30 * time.Second}
			r = postRequest(c09Acs, url.Values{"SAMLart": {c09Artifact(st)}, "RelayState": {"rs"}})
		}
		c.c09ServeACS(st, shape, expect, spv, r)
		if tr != nil && tr.Open != 0 && c.res.Violation == nil {
			c.res.violate(c.si, "connection-left-open", "C09/leak/resolve/"+shape, "every response body closed or drained when the call returns", fmt.Sprintf("%d open", tr.Open), "")
		}
		return
	case "ParseXMLResponse":
		body := c09XMLLayer(elBytes(c09BuildResponse(o, t0)), st)
		cpu0 := c09CPUSeconds()
		pan = c09Guard(func() { as, err = spv.ParseXMLResponse(body, ids, spv.AcsURL) })
		spent, allowed := c09CPUSeconds()-cpu0, 3+12*float64(len(body))/(1<<20)
		if (st.Op == "deep-nesting" || st.Op == "many-declarations-many-children") && pan == nil {
			// a machine busy with other work inflates processor time in bursts (shared caches, stolen cycles): what exceeds the bound
			// is measured again, up to twice, and the least of the measurements counts (the call is a function of its input)
			for again := 0; again < 2 && spent > allowed; again++ {
				c.res.probe("cpu-time-measured-again")
				cpu1 := c09CPUSeconds()
				_ = c09Guard(func() { _, _ = spv.ParseXMLResponse(body, ids, spv.AcsURL) })
				if s2 := c09CPUSeconds() - cpu1; s2 < spent {
					spent = s2
				}
			}
		}
		if (st.Op == "deep-nesting" || st.Op == "many-declarations-many-children") && pan == nil {
			// processor time of the consuming call (not the bubble's clock, which does not move while code runs): it has to stay
			// within a generous linear bound of the input size - what takes 0.1 s at 70 KB and 18 s at 280 KB takes hours at the
			// size of a POST body
			c.res.probe("cpu-time-measured-for-deep-nesting")
			switch r := spent / allowed; {
			case r < 0.1:
				c.res.probe("cpu-time-below-10%-of-the-bound")
			case r < 0.3:
				c.res.probe("cpu-time-10-30%-of-the-bound")
			case r < 0.6:
				c.res.probe("cpu-time-30-60%-of-the-bound")
			default:
				c.res.probe("cpu-time-above-60%-of-the-bound")
			}
			if spent > allowed {
				c.res.logf("step %d %s: %d KB of input took more than the linear bound of processor time", c.si, st.Entry, len(body)>>10)
				c.res.violate(c.si, "hang", "C09/blow-up/cpu/"+c09Func(st.Entry)+"/"+shape, fmt.Sprintf("processor time within 3 s + 12 s/MB of input (%.1f s for %d KB)", allowed, len(body)>>10), "more than that", fmt.Sprintf("n=%d", st.N))
				return
			}
		}
	case "ParseResponse/post":
		body := c09XMLLayer(elBytes(c09BuildResponse(o, t0)), st)
		form := url.Values{"SAMLResponse": {c09B64Layer(c09B64(body), st)}}
		r := postRequest(c09Acs, form)
		_ = r.ParseForm()
		pan = c09Guard(func() { as, err = spv.ParseResponse(r, ids) })
	case "ParseXMLArtifactResponse":
		env := wrapArtifactResponse(c09BuildResponse(o, t0), "id-art-0", "id-resolve", c09IdpEntity, saml.StatusSuccess, t0, nil)
		if st.Kind == "omit" {
			env = c09OmitArtifact(env, st.Omit)
		}
		env = c09XMLLayer(artStatus(env), st)
		pan = c09Guard(func() { as, err = spv.ParseXMLArtifactResponse(env, ids, "id-resolve", spv.AcsURL) })
	case "ParseResponse/artifact":
		tr := &c09Transport{handler: func(req *http.Request, body []byte) *c09Resp {
			env := wrapArtifactResponse(c09BuildResponse(o, t0), "id-art-0", c09ResolveID(body), c09IdpEntity, saml.StatusSuccess, t0, nil)
			if st.Kind == "omit" {
				env = c09OmitArtifact(env, st.Omit)
			}
			return c09Plain(c09XMLLayer(artStatus(env), st))
		}}
		spv.HTTPClient = &http.Client{Transport: tr, Timeout: 30 * time.Second}
		form := url.Values{"SAMLart": {"AAQAAMFbLinlXaCM+FIxiDwGOLAy2T71gbpO7ZhNzAgEANlB90ECfpNEVLg="}}
		r := postRequest(c09Acs, form)
		_ = r.ParseForm()
		pan = c09Guard(func() { as, err = spv.ParseResponse(r, ids) })
		synctest.Wait()
		if tr.Open != 0 && pan == nil {
			c.res.violate(c.si, "connection-left-open", "C09/leak/resolve/"+shape, "every response body closed or drained when the call returns", fmt.Sprintf("%d open", tr.Open), "")
		}
	default:
		panic("harness: unknown response entry " + st.Entry)
	}
	c.res.logf("step %d %s %s shape=%s layout=%s enc=%v expect=%s observed=%s", c.si, st.Kind, st.Entry, shape, st.Layout, o.Encrypt, expect, c09Observed(as, err, pan))
	if c.res.Violation != nil {
		return
	}
	c.checkSP(st.Entry, shape, expect, marker("nid", 0), as, err, pan)
}

// ---- logout family

func c09ExecLogout(c *c09Ctx, st *c09Step) {
	if st.Kind == "corrupt" && st.Op == "strip-keyinfo" {
		c09CertMode = c09CertModes[st.Variant%len(c09CertModes)]
		defer func() { c09CertMode = "" }()
	}
	if st.Kind == "corrupt" && st.Op == "keyinfo-cert-text" {
		c09CertMode = c09TrustModes[st.Variant%len(c09TrustModes)]
		defer func() { c09CertMode = "" }()
	}
	spv := c09NewSP()
	t0 := time.Now()
	var omit []string
	if st.Kind == "omit" {
		omit = st.Omit
	}
	if st.Kind == "corrupt" && st.Op == "status-shape" {
		c09CountStatus(c.res, "logout-response", c09StatusTops[st.Variant%len(c09StatusTops)], st)
	}
	signed := !c09Has(omit, "logout-no-signature")
	x := c09XMLLayer(elBytes(c09BuildLogout(omit, signed, t0, c09Mut(st))), st)
	shape := c09Shape(st)
	var err error
	var pan *c09Panic
	var before uint64
	switch st.Entry {
	case "ValidateLogoutResponseForm":
		s := c09B64Layer(c09B64(x), st)
		pan = c09Guard(func() { err = spv.ValidateLogoutResponseForm(s) })
	case "ValidateLogoutResponseRedirect":
		s := c09B64Layer(c09B64(c09DeflateLayer(x, st)), st)
		if st.Kind == "bomb" {
			s = c09B64(c09BombFor(x, st.MB))
			before = c09TotalAlloc()
		}
		pan = c09Guard(func() { err = spv.ValidateLogoutResponseRedirect(s) })
	case "ValidateLogoutResponseRequest/get":
		s := c09B64Layer(c09B64(c09DeflateLayer(x, st)), st)
		if st.Kind == "bomb" {
			s = c09B64(c09BombFor(x, st.MB))
		}
		r := httptest.NewRequest("GET", c09Slo+"?"+url.Values{"SAMLResponse": {s}, "RelayState": {"rs"}}.Encode(), nil)
		if st.Kind == "bomb" {
			before = c09TotalAlloc()
		}
		pan = c09Guard(func() { err = spv.ValidateLogoutResponseRequest(r) })
	case "ValidateLogoutResponseRequest/post":
		s := c09B64Layer(c09B64(x), st)
		r := postRequest(c09Slo, url.Values{"SAMLResponse": {s}})
		pan = c09Guard(func() { err = spv.ValidateLogoutResponseRequest(r) })
	default:
		panic("harness: unknown logout entry " + st.Entry)
	}
	var grew uint64
	if st.Kind == "bomb" {
		grew = c09TotalAlloc() - before
	}
	obs := "ERROR"
	switch {
	case pan != nil:
		obs = "PANIC(" + pan.Func + ")"
	case err == nil:
		obs = "VALID"
	}
	expect := "ANY"
	switch st.Kind {
	case "good":
		expect = "VALID"
	case "bomb":
		expect = "ERROR"
	}
	c.res.logf("step %d %s %s shape=%s mb=%d expect=%s observed=%s", c.si, st.Kind, st.Entry, shape, st.MB, expect, obs)
	fn := c09Func(st.Entry)
	switch {
	case pan != nil:
		c.panicViolation(st.Entry, shape, pan)
	case expect == "VALID" && err != nil:
		c.res.violate(c.si, "genuine-rejected", "C09/genuine-rejected/"+fn+"/"+shape, "nil error", obs, short(privErr(err), 160))
	case expect == "ERROR" && err == nil:
		c.res.violate(c.si, "bomb-not-refused", "C09/bomb-not-refused/"+fn, "refused with an error", obs, "")
	case st.Kind == "bomb" && grew >= c09AllocBound:
		c.res.violate(c.si, "unbounded-allocation", "C09/alloc/"+fn, "allocation below 256 MB", fmt.Sprintf("allocated >= %d MB", grew>>20), "")
	}
	if expect == "ANY" && c.res.Violation == nil {
		c.res.dontcare("valid-or-error-open:" + fn)
	}
}

// ---- IdP side: AuthnRequest shapes and registered-SP-metadata shapes

func c09Session(now time.Time) *saml.Session {
	return &saml.Session{ID: "sess-1", NameID: marker("nid", 1), CreateTime: now, ExpireTime: now.Add(time.Hour), Index: "si-1",
		UserName: marker("user", 1), UserEmail: marker("mail", 1) + "@example.com"}
}

func c09ExecIdP(c *c09Ctx, st *c09Step) {
	spv := c09NewSP()
	now := time.Now()
	shape := c09Shape(st)
	fn := c09Func(st.Entry)
	get := strings.HasSuffix(st.Entry, "/get")

	// the SP metadata as registered at the IdP
	var spOmit, reqOmit []string
	if st.Kind == "omit" {
		if st.Family == "spmetadata" {
			spOmit = st.Omit
		} else {
			reqOmit = st.Omit
		}
	}
	mdBytes := c09BuildSPMetadata(spv, spOmit)

	// the AuthnRequest on the wire
	var x []byte
	if st.Family == "authnrequest" {
		x = c09XMLLayer(elBytes(c09BuildAuthnRequest(spv, reqOmit, c09Mut(st))), st)
	} else {
		x = elBytes(c09BuildAuthnRequest(spv, nil, nil))
	}
	var hr *http.Request
	if get {
		s := c09B64Layer(c09B64(c09DeflateLayer(x, st)), st)
		if st.Kind == "bomb" {
			s = c09B64(c09BombFor(x, st.MB))
		}
		hr = httptest.NewRequest("GET", c09IdpSSO+"?"+url.Values{"SAMLRequest": {s}, "RelayState": {"rs"}}.Encode(), nil)
	} else {
		hr = postRequest(c09IdpSSO, url.Values{"SAMLRequest": {c09B64Layer(c09B64(x), st)}, "RelayState": {"rs"}})
	}

	expect := "ANY"
	switch st.Kind {
	case "good":
		expect = "OK"
	case "bomb":
		expect = "REFUSED"
	}
	var pan *c09Panic
	var obs string
	var before, grew uint64
	wellFormed := func(w *c09Writer) string {
		switch {
		case w.afterBody > 0:
			return fmt.Sprintf("second reply started after the first (status %d, %d WriteHeader calls)", w.code, w.headers)
		case w.code < 200 || w.code > 599:
			return fmt.Sprintf("status %d", w.code)
		}
		return ""
	}
	classify := func(w *c09Writer) string {
		if w.code == 200 {
			if f := parseForm(w.body.String()); f != nil && f.Fields.Get("SAMLResponse") != "" {
				if f.Action == c09Acs {
					return "ASSERTION(acs)"
				}
				return "ASSERTION(elsewhere)"
			}
			return "200-OTHER"
		}
		return fmt.Sprintf("STATUS-%dxx", w.code/100)
	}
	bad := ""
	switch fn {
	case "IdpAuthnRequest.Validate":
		var md saml.EntityDescriptor
		reg := mapSPP{}
		if xml.Unmarshal(mdBytes, &md) == nil {
			reg[c09Aud] = &md
		}
		idp := newIdP(c09IdpBase, rsaKeys[0], reg)
		var err error
		before = c09TotalAlloc()
		pan = c09Guard(func() {
			var req *saml.IdpAuthnRequest
			req, err = saml.NewIdpAuthnRequest(idp, hr)
			if err == nil {
				err = req.Validate()
			}
		})
		grew = c09TotalAlloc() - before
		switch {
		case pan != nil:
			obs = "PANIC(" + pan.Func + ")"
		case err == nil:
			obs = "OK"
		default:
			obs = "REFUSED"
		}
	case "IdentityProvider.ServeSSO":
		var md saml.EntityDescriptor
		reg := mapSPP{}
		if xml.Unmarshal(mdBytes, &md) == nil {
			reg[c09Aud] = &md
		}
		idp := newIdP(c09IdpBase, rsaKeys[0], reg)
		idp.SessionProvider = fixedSession{s: c09Session(now)}
		var w *c09Writer
		before = c09TotalAlloc()
		w, pan = c09Serve(http.HandlerFunc(idp.ServeSSO), hr)
		grew = c09TotalAlloc() - before
		if pan != nil {
			obs = "PANIC(" + pan.Func + ")"
		} else {
			obs, bad = classify(w), wellFormed(w)
		}
	case "samlidp.Server":
		store := &samlidp.MemoryStore{}
		srv, err := samlidp.New(samlidp.Options{URL: mustURL(c09IdpBase), Key: rsaKeys[0].Key, Certificate: rsaKeys[0].Cert, Logger: nullLog{}, Store: store})
		if err != nil {
			panic(fmt.Sprintf("harness: samlidp.New: %v", err))
		}
		if err := store.Put("/sessions/sess-1", c09Session(now)); err != nil {
			panic(err)
		}
		put := httptest.NewRequest("PUT", c09IdpBase+"/services/sp1", bytes.NewReader(mdBytes))
		w1, p1 := c09Serve(srv, put)
		if p1 != nil {
			pan, obs = p1, "PANIC("+p1.Func+") in PUT /services/"
			break
		}
		if b := wellFormed(w1); b != "" {
			bad = "PUT /services/: " + b
		}
		hr.AddCookie(&http.Cookie{Name: "session", Value: "sess-1"})
		var w *c09Writer
		before = c09TotalAlloc()
		w, pan = c09Serve(srv, hr)
		grew = c09TotalAlloc() - before
		if pan != nil {
			obs = "PANIC(" + pan.Func + ")"
		} else {
			obs = fmt.Sprintf("PUT-%d,%s", w1.code, classify(w))
			if b := wellFormed(w); b != "" && bad == "" {
				bad = b
			}
		}
	default:
		panic("harness: unknown IdP entry " + st.Entry)
	}
	c.res.logf("step %d %s %s family=%s shape=%s mb=%d expect=%s observed=%s", c.si, st.Kind, st.Entry, st.Family, shape, st.MB, expect, obs)
	ok := obs == "OK" || strings.HasSuffix(obs, "ASSERTION(acs)")
	refused := obs == "REFUSED" || strings.Contains(obs, "STATUS-4xx") || strings.Contains(obs, "STATUS-5xx")
	switch {
	case pan != nil:
		c.panicViolation(st.Entry, shape, pan)
	case bad != "":
		c.res.violate(c.si, "reply", "C09/reply/"+fn+"/"+shape, "exactly one well-formed HTTP reply", bad, "")
	case expect == "OK" && !ok:
		c.res.violate(c.si, "genuine-rejected", "C09/genuine-rejected/"+fn+"/"+shape, "request processed", obs, "")
	case expect == "REFUSED" && !refused:
		c.res.violate(c.si, "bomb-not-refused", "C09/bomb-not-refused/"+fn, "refused with an error", obs, "")
	case st.Kind == "bomb" && grew >= c09AllocBound:
		c.res.violate(c.si, "unbounded-allocation", "C09/alloc/"+fn, "allocation below 256 MB", fmt.Sprintf("allocated >= %d MB", grew>>20), "")
	}
	if expect == "ANY" && c.res.Violation == nil {
		c.res.dontcare("processed-or-refused-open:" + fn)
	}
}

// ---- metadata documents

func c09ExecMetadata(c *c09Ctx, st *c09Step) {
	shape := c09Shape(st)
	docShape := "entitydescriptor"
	if st.Kind == "omit" && len(st.Omit) > 0 {
		docShape = st.Omit[0]
		shape = "metadata-" + docShape
	}
	if st.Kind == "good" {
		docShape = c09MetaShapes[st.Variant%2]
	}
	x := c09XMLLayer(c09BuildMetadata(docShape), st)
	fn := c09Func(st.Entry)
	expect := "ANY"
	if st.Kind == "good" {
		expect = "METADATA"
	}
	var pan *c09Panic
	obs := ""
	switch fn {
	case "samlsp.ParseMetadata":
		var md *saml.EntityDescriptor
		var err error
		pan = c09Guard(func() { md, err = samlsp.ParseMetadata(x) })
		switch {
		case pan != nil:
			obs = "PANIC(" + pan.Func + ")"
		case md != nil && err == nil:
			obs = "METADATA(" + md.EntityID + ")"
		case md == nil && err != nil:
			obs = "ERROR"
		case md != nil:
			obs = "METADATA+ERROR"
		default:
			obs = "NIL+NIL"
		}
	case "samlidp.Server":
		srv, err := samlidp.New(samlidp.Options{URL: mustURL(c09IdpBase), Key: rsaKeys[0].Key, Certificate: rsaKeys[0].Cert, Logger: nullLog{}, Store: &samlidp.MemoryStore{}})
		if err != nil {
			panic(fmt.Sprintf("harness: samlidp.New: %v", err))
		}
		if st.Kind == "good" {
			x = c09BuildSPMetadata(c09NewSP(), nil)
		}
		var w *c09Writer
		w, pan = c09Serve(srv, httptest.NewRequest("PUT", c09IdpBase+"/services/sp1", bytes.NewReader(x)))
		switch {
		case pan != nil:
			obs = "PANIC(" + pan.Func + ")"
		case w.afterBody > 0 || w.code < 200 || w.code > 599:
			obs = fmt.Sprintf("MALFORMED-REPLY(%d,%d)", w.code, w.headers)
		case w.code < 300:
			obs = "METADATA(stored)"
		default:
			obs = "ERROR"
		}
	default:
		panic("harness: unknown metadata entry " + st.Entry)
	}
	c.res.logf("step %d %s %s shape=%s expect=%s observed=%s", c.si, st.Kind, st.Entry, shape, expect, obs)
	switch {
	case pan != nil:
		c.panicViolation(st.Entry, shape, pan)
	case obs == "METADATA+ERROR" || obs == "NIL+NIL":
		c.res.violate(c.si, "neither-result-nor-error", "C09/nil-nil/"+fn+"/"+shape, "metadata or an error", obs, "")
	case strings.HasPrefix(obs, "MALFORMED"):
		c.res.violate(c.si, "reply", "C09/reply/"+fn+"/"+shape, "exactly one well-formed HTTP reply", obs, "")
	case expect == "METADATA" && obs != "METADATA("+c09IdpEntity+")" && obs != "METADATA(stored)":
		c.res.violate(c.si, "genuine-rejected", "C09/genuine-rejected/"+fn+"/"+shape, "metadata", obs, "")
	}
	if expect == "ANY" && c.res.Violation == nil {
		c.res.dontcare("metadata-or-error-open")
	}
}

// ---------------------------------------------------------------- generation

var c09Entries = map[string][]string{
	"response":     {"ParseXMLResponse", "ParseXMLResponse", "ParseResponse/post", "ParseXMLArtifactResponse", "ParseResponse/artifact", "samlsp.Middleware/post", "samlsp.Middleware/artifact"},
	"logout":       {"ValidateLogoutResponseForm", "ValidateLogoutResponseRedirect", "ValidateLogoutResponseRequest/get", "ValidateLogoutResponseRequest/post"},
	"authnrequest": {"IdpAuthnRequest.Validate/get", "IdpAuthnRequest.Validate/post", "IdentityProvider.ServeSSO/get", "IdentityProvider.ServeSSO/post", "samlidp.Server/get", "samlidp.Server/post"},
	"spmetadata":   {"IdentityProvider.ServeSSO/get", "IdentityProvider.ServeSSO/post", "samlidp.Server/get", "samlidp.Server/post", "IdpAuthnRequest.Validate/get"},
	"metadata":     {"samlsp.ParseMetadata", "samlsp.ParseMetadata", "samlidp.Server/put-service"},
}

var c09BombEntries = []string{"ValidateLogoutResponseRedirect", "ValidateLogoutResponseRequest/get", "IdpAuthnRequest.Validate/get", "IdentityProvider.ServeSSO/get", "samlidp.Server/get"}

func c09Deflated(entry string) bool {
	return strings.HasSuffix(entry, "/get") || entry == "ValidateLogoutResponseRedirect"
}

func c09DrawSubset(g *Rng, pool []string) []string {
	n := 1 + g.PickW(70, 20, 10)
	var out []string
	for len(out) < n {
		o := pool[g.Intn(len(pool))]
		if !c09Has(out, o) {
			out = append(out, o)
		}
	}
	return out
}

func genTotality(g *Rng, tier string) *Plan {
	k := c09Knobs{MaxIssueDelayMs: Pick(g, int64(90_000), 660_000, 7_200_000)}
	p := &Plan{}
	if g.Bool(0.35) {
		k.Part = "backchannel"
		k.ClientTimeoutMs = Pick(g, int64(0), 2000, 5000, 30_000)
		k.CtxTimeoutMs = Pick(g, int64(0), 1000, 3000, 10_000)
		noDeadline := false
		if k.ClientTimeoutMs == 0 && k.CtxTimeoutMs == 0 {
			// an application that sets no deadline at all (an http.Client without Timeout, a server's request context): peers that
			// stall or trickle are then the application's problem and are not drawn; a peer that has answered is the library's
			if noDeadline = g.Bool(0.6); !noDeadline {
				k.ClientTimeoutMs = 5000
			}
			k.NoDeadline = noDeadline
		}
		n := 1 + g.Intn(4)
		for i := 0; i < n; i++ {
			st := c09Step{Kind: "resolve", Entry: "ParseResponse/artifact"}
			if g.Bool(0.3) {
				st.ArtIdx = 1 + Pick(g, 0, 1, 2, 3, 65535)
			}
			faults := c09ArtFaults
			if g.Bool(0.3) {
				st.Kind, st.Entry, faults = "fetch", "samlsp.FetchMetadata", c09MdFaults
			}
			st.Fault = faults[g.Intn(len(faults))]
			for noDeadline && (st.Fault == "slow" || st.Fault == "stall_headers" || st.Fault == "stall_body") {
				st.Fault = Pick(g, "status_endless", "status_endless", faults[g.Intn(len(faults))])
			}
			switch st.Fault {
			case "garbage", "wrong_envelope", "wrong_irt", "bad_status", "wrong_doc", "good", "soap_fault":
				st.Variant = g.Intn(12)
			}
			if st.Fault == "bad_status" {
				// the failure is reported the way the specification says: second-level codes, a message, a detail
				st.Sub, st.Msg, st.Detail = g.PickW(25, 40, 20, 15), g.PickW(40, 25, 10, 5, 10, 10), g.Bool(0.25)
			}
			st.Layout = Pick(g, "R", "A", "RA")
			st.Encrypt = g.Bool(0.25)
			switch st.Fault {
			case "status_endless":
				st.Code = Pick(g, 404, 500, 503, 401, 429)
			case "status":
				st.Code = Pick(g, 404, 500, 302, 503, 401, 204)
				if st.Code == 204 {
					st.Code = 500
				}
				st.Variant = g.Intn(6)
			case "trunc_err", "trunc_clean", "stall_body":
				st.Pm = g.Intn(1000)
			case "slow":
				st.Chunks = Pick(g, 3, 10, 40)
				st.DelayMs = Pick(g, int64(53), 307, 1009) // never a multiple that lands exactly on a timeout: two timers due at the same simulated instant fire in no defined order
			case "garbage":
				st.Seed, st.N = g.Uint64(), g.Intn(4000)
			}
			p.Steps = append(p.Steps, mustJSON(st))
		}
		p.Knobs = mustJSON(k)
		return p
	}
	k.Part = "inflight"
	p.Knobs = mustJSON(k)
	n := 1 + g.PickW(6, 3, 1)
	for i := 0; i < n; i++ {
		st := c09Step{Layout: Pick(g, "R", "A", "RA"), Encrypt: g.Bool(0.3)}
		switch g.PickW(8, 45, 45, 2) {
		case 0:
			st.Kind = "good"
			st.Family = Pick(g, "response", "response", "logout", "authnrequest", "metadata")
			st.Variant = g.Intn(2)
		case 1:
			st.Kind = "omit"
			st.Family = []string{"response", "logout", "authnrequest", "spmetadata", "metadata"}[g.PickW(45, 15, 15, 15, 10)]
		case 2:
			st.Kind = "corrupt"
			st.Family = []string{"response", "logout", "authnrequest", "metadata"}[g.PickW(40, 20, 20, 20)]
		case 3:
			st.Kind = "bomb"
			st.Entry = c09BombEntries[g.Intn(len(c09BombEntries))]
			st.Family = "authnrequest"
			if strings.HasPrefix(st.Entry, "ValidateLogout") {
				st.Family = "logout"
			}
			st.MB = Pick(g, 12, 12, 64, 120, 300)
		}
		if st.Entry == "" {
			es := c09Entries[st.Family]
			st.Entry = es[g.Intn(len(es))]
		}
		switch st.Kind {
		case "omit":
			switch st.Family {
			case "response":
				pool := append(append([]string{}, c09AssertionOmits...), c09ResponseOmits...)
				if strings.Contains(st.Entry, "rtifact") {
					pool = append(pool, c09ArtifactOmits...)
				}
				st.Omit = c09DrawSubset(g, pool)
			case "logout":
				st.Omit = c09DrawSubset(g, append(append([]string{}, c09LogoutOmits...), "logout-no-signature"))
			case "authnrequest":
				st.Omit = c09DrawSubset(g, c09AuthnOmits)
			case "spmetadata":
				st.Omit = c09DrawSubset(g, c09SPMetaShapes)
			case "metadata":
				st.Omit = []string{c09MetaShapes[2+g.Intn(len(c09MetaShapes)-2)]}
			}
		case "corrupt":
			ops := []string{"hostile-attribute", "hostile-attribute", "hostile-attribute", "hostile-attribute", "hostile-attribute", "truncate", "truncate", "truncate", "truncate", "truncate", "bitflip", "bitflip", "bitflip", "bitflip", "bitflip", "garbage", "garbage", "rootless-document", "rootless-document", "rootless-document", "rootless-document", "deep-nesting", "huge-attribute", "many-declarations-many-children"}
			st.Layer = "xml"
			switch st.Family {
			case "response":
				ops = append(ops, "status-shape", "status-shape", "status-shape", "status-shape", "status-shape", "status-shape", "status-shape", "status-shape")
				ops = append(ops, "keyinfo-cert-text", "keyinfo-cert-text", "keyinfo-cert-text", "retrieval-method", "retrieval-method", "retrieval-method", "encryptedkey-algorithm", "encryptedkey-algorithm", "encryptedkey-algorithm", "forged-assertion-first", "forged-assertion-first", "forged-assertion-first", "strip-keyinfo", "strip-keyinfo", "strip-keyinfo", "cipher-algorithm", "cipher-algorithm", "cipher-algorithm", "cipher-algorithm", "cipher-algorithm", "ciphervalue-short", "ciphervalue-short", "ciphervalue-short", "ciphervalue-short", "encrypted-plaintext", "encrypted-plaintext", "encrypted-plaintext", "encrypted-plaintext")
				if st.Entry == "ParseResponse/post" || st.Entry == "samlsp.Middleware/post" {
					ops = append(ops, "b64-cut", "b64-pad", "b64-badchar")
				}
			case "logout", "authnrequest":
				ops = append(ops, "b64-cut", "b64-pad", "b64-badchar", "b64-badchar")
				if st.Family == "logout" {
					ops = append(ops, "status-shape", "status-shape", "status-shape")
					ops = append(ops, "strip-keyinfo", "strip-keyinfo", "strip-keyinfo", "keyinfo-cert-text", "keyinfo-cert-text")
				}
				if c09Deflated(st.Entry) {
					ops = append(ops, "truncate@deflate", "truncate@deflate", "bitflip@deflate", "bitflip@deflate", "garbage@deflate", "not-deflated")
				}
			}
			st.Op = ops[g.Intn(len(ops))]
			if strings.HasPrefix(st.Op, "b64-") {
				st.Layer = "b64"
			}
			if strings.HasSuffix(st.Op, "@deflate") {
				st.Op, st.Layer = strings.TrimSuffix(st.Op, "@deflate"), "deflate"
			}
			st.Pm, st.Variant, st.Seed = g.Intn(1000), g.Intn(24), g.Uint64()
			switch st.Op {
			case "bitflip":
				for j, m := 0, 1+g.Intn(4); j < m; j++ {
					st.Pms = append(st.Pms, g.Intn(1000))
				}
				st.N = g.Intn(8)
			case "garbage":
				st.N = g.Intn(3000)
			case "deep-nesting":
				st.N = Pick(g, 10_000, 10_000, 9_999, 10_001, 1_000, 20_000, 40_000, 40_000)
			case "many-declarations-many-children":
				st.N = Pick(g, 500, 2000, 4000, 14000, 14000)
				st.Variant = g.Intn(9)
				if st.Family == "response" && g.Bool(0.6) {
					st.Entry = "ParseXMLResponse" // the entry point whose processor time is measured
				}
				st.Layout, st.Encrypt = "A", false
			case "huge-attribute":
				st.N = Pick(g, 1<<16, 1<<20, 1<<20, 5<<20)
			case "ciphervalue-short":
				st.N = g.Intn(5)
			case "strip-keyinfo":
				st.Variant = g.Intn(len(c09CertModes))
			case "keyinfo-cert-text":
				st.Variant = g.Intn(len(c09TrustModes))
				st.N = g.Intn(14)
			case "retrieval-method":
				st.Variant = g.Intn(2)
				st.N = g.Intn(13)
			case "encryptedkey-algorithm":
				st.N = g.Intn(10)
				st.Encrypt = true
			case "forged-assertion-first":
				st.N, st.Variant = g.Intn(3), g.Intn(2)
				st.Encrypt = false
				st.Layout = Pick(g, "A", "A", "RA", "R")
			case "hostile-attribute":
				st.Variant = g.Intn(len(c09HostileAttrs))
				st.N = g.Intn(len(c09HostileValues) + 1)
			case "status-shape":
				st.Variant = g.Intn(len(c09StatusTops) * len(c09SubCodes)) // top-level code, and where the rotation of subordinate codes starts
				st.Sub, st.Msg, st.Detail = g.PickW(25, 40, 20, 15), g.PickW(40, 25, 10, 5, 10, 10), g.Bool(0.25)
				st.N = g.Intn(2) // artifact entry points: whose Status
			case "cipher-algorithm":
				st.Variant = g.Intn(len(c09CipherAlgs))
				st.N = g.Intn(len(c09CipherLens))
				if g.Bool(0.15) {
					st.N = -1 // the genuine cipher value
				}
			default:
				st.N = g.Intn(16)
			}
		}
		if st.Family == "response" && st.Kind != "bomb" && g.Bool(0.3) {
			// the service provider holds another key than the one the foreign IdP knows it by (it rolled its key over, to ECDSA or to
			// another RSA key, or moved it into a device that only signs), and/or the IdP encrypts to another certificate
			st.SPKey = Pick(g, append([]string{""}, c09SPKeys...)...)
			st.EncTo = Pick(g, "", "", "rsa4")
		}
		p.Steps = append(p.Steps, mustJSON(st))
	}
	return p
}

// ---------------------------------------------------------------- execution

// c09T is the worker's *testing.T (needed to open a bubble when the minimiser's candidate
// filter re-executes plans, see simplifyTotality).
var c09T *testing.T

func execTotality(t *testing.T, p *Plan) *Result {
	c09T = t
	res := newResult()
	k := decode[c09Knobs](p.Knobs)
	if k.MaxIssueDelayMs > 0 {
		saml.MaxIssueDelay = ms(k.MaxIssueDelayMs)
	}
	if k.ClientTimeoutMs == 0 && k.CtxTimeoutMs == 0 && !k.NoDeadline {
		k.ClientTimeoutMs = 5000
	}
	installRand(p)
	start := time.Now()
	defer func() {
		res.SimMillis = time.Since(start).Milliseconds()
		// let every timer of the run expire (net/http keeps a watchdog goroutine per request
		// until its deadline when a body is drained but not closed): the bubble must be quiet
		// when its main goroutine exits
		time.Sleep(c09Safety + time.Minute)
		synctest.Wait()
	}()
	c09ExecBack(p, k, res)
	if res.Violation != nil {
		return res
	}
	for si, raw := range p.Steps {
		st := decode[c09Step](raw)
		c := &c09Ctx{res: res, si: si, corrupt: st.Kind == "corrupt"}
		switch st.Kind {
		case "good", "omit", "corrupt", "bomb":
		default:
			continue
		}
		shape := c09Shape(&st)
		res.Extra["shape:"+c09Func(st.Entry)+":"+st.Kind+":"+shape]++
		if st.Kind != "good" {
			res.Nontrivial = true
			switch st.Kind {
			case "omit":
				res.fire("omission+resign:" + st.Family)
			case "corrupt":
				res.fire("corruption:" + shape)
			case "bomb":
				res.fire("bomb(deflate)")
			}
		}
		switch st.Family {
		case "response":
			c09ExecResponse(c, &st, k)
		case "logout":
			c09ExecLogout(c, &st)
		case "authnrequest", "spmetadata":
			c09ExecIdP(c, &st)
		case "metadata":
			c09ExecMetadata(c, &st)
		default:
			panic("harness: unknown family " + st.Family)
		}
		if res.Violation != nil {
			return res
		}
	}
	return res
}

// ---------------------------------------------------------------- minimisation helpers

var c09Canon = map[string]string{
	"ParseResponse/post":                 "ParseXMLResponse",
	"ParseResponse/artifact":             "ParseXMLArtifactResponse",
	"ValidateLogoutResponseRequest/get":  "ValidateLogoutResponseRedirect",
	"ValidateLogoutResponseRequest/post": "ValidateLogoutResponseForm",
	"samlidp.Server/get":                 "IdentityProvider.ServeSSO/get",
	"samlidp.Server/post":                "IdentityProvider.ServeSSO/post",
}

// only for omissions (validation code shared behind the parsers); corruption keeps its parser
var c09CanonOmit = map[string]string{
	"ParseXMLArtifactResponse":       "ParseXMLResponse",
	"ValidateLogoutResponseRedirect": "ValidateLogoutResponseForm",
	"IdentityProvider.ServeSSO/get":  "IdpAuthnRequest.Validate/get",
	"IdentityProvider.ServeSSO/post": "IdpAuthnRequest.Validate/post",
}

// a wider omission is replaced by the narrower one it contains
var c09Narrower = map[string]string{
	"keydescriptor-encryption-no-keyinfo":  "keydescriptor-encryption-no-x509data",
	"keydescriptor-encryption-no-x509data": "keydescriptor-encryption-no-certificate",
	"response-no-status":                   "response-status-no-code",
	"response-status-no-code":              "response-statuscode-no-value",
	"logout-no-status":                     "logout-status-no-code",
}

// c09Site is the identity of a violation that minimisation must preserve: its class and,
// for a panic, the innermost library frame.
func c09Site(v *Violation) string {
	if v == nil {
		return ""
	}
	site := v.Class
	if v.Class == "panic" {
		if k := strings.Index(v.Detail, ";"); k > 0 {
			site += "|" + v.Detail[:k]
		}
	}
	return site
}

func c09OmitPool(family string) []string {
	switch family {
	case "response":
		return append(append([]string{}, c09AssertionOmits...), c09ResponseOmits...)
	case "logout":
		return c09LogoutOmits
	case "authnrequest":
		return c09AuthnOmits
	}
	return nil
}

// simplifyTotality proposes canonical forms. The generic minimiser keeps a candidate when
// the violation *class* survives; for this property that is too weak (one panic would be
// allowed to morph into another), so the candidates are pre-filtered here by re-executing
// them: only the first one that reproduces the same class at the same library frame is
// offered. Canonical order: fewer omissions, narrower omission, rootless document instead
// of another byte-level damage, a single omission instead of a corruption, the most direct
// entry point, plaintext, Response-signed layout, variant 0.
func simplifyTotality(p *Plan) []*Plan {
	var out []*Plan
	with := func(i int, f func(st *c09Step)) {
		c := p.Clone()
		st := decode[c09Step](p.Steps[i])
		f(&st)
		c.Steps[i] = mustJSON(st)
		out = append(out, c)
	}
	for i, raw := range p.Steps {
		st := decode[c09Step](raw)
		inflight := st.Kind == "omit" || st.Kind == "corrupt" || st.Kind == "good"
		if len(st.Omit) > 1 {
			for j := range st.Omit {
				j := j
				with(i, func(s *c09Step) { s.Omit = append(append([]string{}, s.Omit[:j]...), s.Omit[j+1:]...) })
			}
		}
		for j, o := range st.Omit {
			if to, ok := c09Narrower[o]; ok && !c09Has(st.Omit, to) {
				j, to := j, to
				with(i, func(s *c09Step) { s.Omit[j] = to })
			}
		}
		if st.Kind == "corrupt" && !(st.Op == "rootless-document" && st.Layer == "xml") && st.Op != "ciphervalue-short" && st.Op != "encrypted-plaintext" && st.Op != "cipher-algorithm" && st.Op != "strip-keyinfo" && st.Op != "hostile-attribute" && st.Op != "keyinfo-cert-text" && st.Op != "retrieval-method" && st.Op != "encryptedkey-algorithm" && st.Op != "forged-assertion-first" && st.Op != "many-declarations-many-children" && st.Op != "status-shape" {
			with(i, func(s *c09Step) {
				s.Op, s.Layer, s.Variant, s.Pms, s.N, s.Pm = "rootless-document", "xml", 0, nil, 0, 0
			})
		}
		if st.Kind == "corrupt" && st.Op == "ciphervalue-short" {
			with(i, func(s *c09Step) { s.Op, s.Variant, s.N, s.Seed = "encrypted-plaintext", 0, 0, 0 })
		}
		if st.Kind == "corrupt" {
			for _, o := range c09OmitPool(st.Family) {
				o := o
				with(i, func(s *c09Step) {
					*s = c09Step{Kind: "omit", Entry: s.Entry, Family: s.Family, Layout: s.Layout, Encrypt: s.Encrypt, Omit: []string{o}, SPKey: s.SPKey, EncTo: s.EncTo}
				})
			}
		}
		if to, ok := c09Canon[st.Entry]; ok && inflight {
			with(i, func(s *c09Step) { s.Entry = to })
		}
		if to, ok := c09CanonOmit[st.Entry]; ok && (st.Kind == "omit" || st.Op == "ciphervalue-short" || st.Op == "encrypted-plaintext" || st.Op == "cipher-algorithm") {
			with(i, func(s *c09Step) { s.Entry = to })
		}
		if st.Encrypt && st.Op != "ciphervalue-short" && st.Op != "encrypted-plaintext" && st.Op != "cipher-algorithm" && st.Op != "encryptedkey-algorithm" {
			with(i, func(s *c09Step) { s.Encrypt = false })
		}
		if st.Layout != "R" && st.Layout != "" {
			with(i, func(s *c09Step) { s.Layout = "R" })
		}
		if st.SPKey != "" && st.EncTo != "" {
			with(i, func(s *c09Step) { s.SPKey, s.EncTo = "", "" })
		}
		if st.SPKey != "" {
			with(i, func(s *c09Step) { s.SPKey = "" })
		}
		if st.EncTo != "" {
			with(i, func(s *c09Step) { s.EncTo = "" })
		}
		if st.Variant != 0 {
			with(i, func(s *c09Step) { s.Variant = 0 })
			if st.Variant > 1 {
				with(i, func(s *c09Step) { s.Variant = s.Variant % 2 })
			}
		}
		if (st.Kind == "resolve" || st.Kind == "fetch") && st.Fault != "good" && len(p.Steps) > 1 {
			with(i, func(s *c09Step) { s.Fault = "good" })
		}
		if len(st.Pms) > 1 {
			with(i, func(s *c09Step) { s.Pms = s.Pms[:1] })
		}
		if st.Kind == "bomb" && st.MB > 64 {
			with(i, func(s *c09Step) { s.MB = 64 })
			with(i, func(s *c09Step) { s.MB = 120 })
		}
	}
	k := decode[c09Knobs](p.Knobs)
	def := c09Knobs{Part: k.Part, MaxIssueDelayMs: 90_000}
	if k.Part == "backchannel" {
		def.ClientTimeoutMs = 5000
	}
	if k != def {
		c := p.Clone()
		c.Knobs = mustJSON(def)
		out = append(out, c)
	}
	if c09T == nil || len(out) == 0 {
		return out
	}
	prof := profiles["C09"]
	base := runPlan(c09T, prof, p)
	if base.Violation == nil {
		return nil
	}
	want := c09Site(base.Violation)
	self := string(mustJSON(p))
	for _, c := range out {
		if string(mustJSON(c)) == self {
			continue
		}
		if r := runPlan(c09T, prof, c); r.Violation != nil && c09Site(r.Violation) == want {
			return []*Plan{c}
		}
	}
	return nil
}

func init() {
	register(&Profile{
		ID: "C09", Name: "totality", Level: "fault_enumeration",
		Rule: "a run is either (1) a back-channel fault sequence: 1-4 artifact resolutions (ParseResponse with SAMLart) / FetchMetadata calls through a SimTransport, each with one fault kind of the enumeration {conn_err, status 401/404/500/503/302(+Location), empty, truncated(err|clean)@permille, slow(chunks x delay), stall headers|body until the client/context deadline, garbage, SOAP fault, 10 wrong envelopes, wrong InResponseTo(other|absent|previous), bad status, unsigned, wrong key, good} - every kind x position is covered and counted in extra[cov:...]; or (2) 1-3 in-flight inputs: a foreign IdP omits a sampled subset of optional elements/attributes and re-signs (Response, Assertion plaintext/encrypted in R/A/RA signing layouts, LogoutResponse, AuthnRequest, registered SP metadata, metadata documents), or the network corrupts a genuine message (truncate, bit flips, base64 cut/pad/bad char, deflate-layer damage, rootless documents, depth-10k nesting, MB-sized attribute, CipherValue of 0-4 blocks(+1), foreign plaintext under valid encryption), or a 12-300 MB deflate bomb, on every consuming entry point of SP, IdP, bundled server and metadata parser. Part (1) is enumerated, part (2) is sampled. non-trivial = the run contains at least one input that is not the genuine message / at least one injected back-channel fault; distinct = distinct abstract event log (entry, shape, parameters, expectation, outcome class); back-channel faults include a body whose Close fails, an endless chain of 307 redirects to fresh URLs (more than 200 back-channel requests in one call is a hang) and a body shorter or longer than its announced length; 30% of artifact deliveries present a well-formed type-4 artifact with endpoint index 0,1,2,3 or 65535; encrypted assertions use every content-encryption algorithm the library registers a decrypter for (aes128/192/256-cbc, tripledes-cbc, aes128-gcm) and six key-transport variants, with cipher values of 19 lengths; root-element attributes whose text is parsed (URLs, instants, numbers) take 30 hostile texts before signing; KeyInfo is dropped from signatures while the SP's IdP metadata lists one certificate, two, or one beside an entry that is no certificate; metadata carries 17 further xsd:duration / xsd:dateTime lexical forms (64+ fraction digits, huge years, empty, year 0); the certificate text inside a signature's KeyInfo takes 14 shapes (PEM armour opened/closed/reversed, empty, garbage, truncated, 100 kB) under fingerprint, pinned and metadata trust; EncryptedData carries a RetrievalMethod with 13 URI shapes, the EncryptedKey beside it; metadata carries AffiliationDescriptor, the other role descriptors, Organization, ContactPerson, Extensions; a worker process that dies inside a run (stack overflow, out of memory: not a panic) leaves the plan behind, the driver re-executes it alone and reports class fatal if the process dies again; in 30% of the response inputs the service provider holds another key than the RSA key the IdP knows it by (an ECDSA key, another RSA key, the same RSA key behind a crypto.Signer that only signs) and/or the assertion is encrypted to the certificate of another RSA key: signatures are judged as before, and a response whose only assertion is encrypted to a key the SP does not hold must come back as an error; the Status of a reply (Response, ArtifactResponse, LogoutResponse; set before signing) takes the shapes of the specification: a top-level code (Requester, Responder, VersionMismatch, Success) with 0-3 subordinate StatusCodes nested in it (codes of the specification, a foreign one, an empty one, one without Value), one of 5 StatusMessages (plain, empty, white space, format verbs, 90 kB) or none, a StatusDetail or none - also for the bad_status back-channel fault; the resolver's SOAP fault takes 12 shapes (faultcode and faultstring, only one of them, neither, empty ones, qualified or SOAP 1.2 children, actor and detail, two faults, a SOAP 1.2 envelope, a 100 kB string); responses are also delivered to the bundled samlsp.Middleware at /saml/acs (POST and artifact binding, a request tracker with one pending login, the library's default error handler writing to a logger that formats its line): no panic, exactly one well-formed reply, the genuine message gives a redirect with a session cookie",
		Gen:  genTotality, Exec: execTotality, Simplify: simplifyTotality,
		RunsQuick: 3000, RunsThorough: 300000,
		Assumptions: []string{
			"byte-level totality over all inputs is sampled (seeded operators on genuine messages), not decided; not coverage-guided",
			"byte-position operators are applied to plaintext messages only (OAEP ciphertext differs between executions of one plan)",
			"the caller configures an http.Client timeout or a context deadline; unbounded back-channel bodies are not injected",
			"allocation bound for deflated inputs is measured as runtime.MemStats.TotalAlloc delta < 256 MB around the call",
			"omitted-element inputs: the statement fixes only totality and error typing, accept/reject is a declared don't-care",
		},
		Components: map[string][]string{
			"real": {"saml.ServiceProvider.ParseResponse/ParseXMLResponse/ParseXMLArtifactResponse/ValidateLogoutResponse{Form,Redirect,Request}", "saml.NewIdpAuthnRequest+Validate", "saml.IdentityProvider.ServeSSO", "samlidp.Server (PUT /services/, /sso) over MemoryStore", "samlsp.ParseMetadata/FetchMetadata", "samlsp.Middleware.ServeHTTP (/saml/acs) with DefaultOnError, default session provider", "net/http.Client (timeouts, redirects)", "goxmldsig", "xmlenc", "etree", "xml-roundtrip-validator", "compress/flate"},
			"stub": {"SimTransport (http.RoundTripper: conn error, status, truncation, slow/stalled bodies on the bubble clock)", "foreign IdP (library schema types + goxmldsig signing, optional parts removed before signing)", "network corruption operators", "request tracker with one pending login (samlsp.Middleware entry)"},
		},
	})
}
