package samlsim

import (
	"crypto/tls"
	"fmt"
	"strconv"
	"strings"
	"time"

	"github.com/beevik/etree"
	"github.com/crewjam/saml"
	"github.com/crewjam/saml/xmlenc"
	dsig "github.com/russellhaering/goxmldsig"
)

// ---------------------------------------------------------------- foreign IdP (stub peer)
//
// Builds Response documents from the library's schema types, with every field
// under the simulator's control, signs them directly with goxmldsig. All
// instants are given in milliseconds relative to the issuing moment t0.

type ConfSpec struct {
	Method       string `json:"method,omitempty"` // default bearer
	NoData       bool   `json:"no_data,omitempty"`
	NotOnOrAfter *int64 `json:"noa_ms"`          // nil: attribute absent
	NotBefore    *int64 `json:"nb_ms,omitempty"` // non-nil: SubjectConfirmationData carries a NotBefore attribute too (schema-legal; no property gives it a meaning)
	Address      string `json:"address,omitempty"`
	NameID       string `json:"confirmer_nameid,omitempty"` // non-empty: the SubjectConfirmation names the entity expected to confirm (saml-core 2.4.1.1) - not the subject
	NOAText      string `json:"noa_text,omitempty"`         // non-empty: SubjectConfirmationData/@NotOnOrAfter is written as exactly this text
	Recipient    string `json:"recipient"`
	InResponseTo string `json:"irt"`
}

type AttrSpec struct {
	Name     string   `json:"name"`
	Friendly string   `json:"friendly,omitempty"`
	Values   []string `json:"values"`
	Stmt     int      `json:"stmt,omitempty"` // index of the AttributeStatement that carries it (0: the first)
}

type AsrtSpec struct {
	ID           string `json:"id"`
	IssueMs      int64  `json:"issue_ms"`
	IssueText    string `json:"issue_text,omitempty"` // non-empty: IssueInstant is written as exactly this text (instants a Duration from t0 cannot express)
	Issuer       string `json:"issuer"`
	IssuerFormat string `json:"issuer_format,omitempty"` // "": nameid-format:entity
	IssuerNQ     string `json:"issuer_name_qualifier,omitempty"`
	Pretty       bool   `json:"pretty_printed,omitempty"` // the IdP pretty-prints (line breaks and indentation between child elements) before it signs
	// EmptyRestrictions: this many AudienceRestriction elements without any Audience child are written into the Conditions (a
	// restriction that names nobody is satisfied by nobody)
	EmptyRestrictions int        `json:"audience_restrictions_without_audience,omitempty"`
	QualAttrs         []NSDecl   `json:"foreign_namespace_attributes,omitempty"`  // see RespSpec.QualAttrs (applied before this assertion is signed)
	NSDecls           []NSDecl   `json:"unused_namespace_declarations,omitempty"` // see RespSpec.NSDecls: added after this assertion was signed and before it is encrypted (whoever encrypts need not be who signed)
	NoSubject         bool       `json:"no_subject,omitempty"`
	NoNameID          bool       `json:"no_nameid,omitempty"`
	NoConditions      bool       `json:"no_conditions,omitempty"`
	NameID            string     `json:"nameid"`
	Confs             []ConfSpec `json:"confs"`
	NotBefore         *int64     `json:"nb_ms"`
	NotOnOrAfter      *int64     `json:"noa_ms"`
	NOAText           string     `json:"noa_text,omitempty"` // non-empty: Conditions/@NotOnOrAfter is written as exactly this text (e.g. the year-1 instant)
	NBText            string     `json:"nb_text,omitempty"`  // non-empty: Conditions/@NotBefore is written as exactly this text
	Audiences         []string   `json:"audiences"`          // one AudienceRestriction each; nil: none
	Attrs             []AttrSpec `json:"attrs,omitempty"`
	SessionIndex      string     `json:"session_index,omitempty"`
	SessionNOA        *int64     `json:"session_noa_ms,omitempty"` // AuthnStatement SessionNotOnOrAfter (nil: absent)
	AuthnMs           *int64     `json:"authn_ms,omitempty"`       // AuthnStatement AuthnInstant relative to t0 (nil: t0): the IdP answers from a session it opened earlier
	NoAuthn           bool       `json:"no_authn,omitempty"`
	Sign              bool       `json:"sign"`
	SignKey           int        `json:"sign_key,omitempty"` // index into rsaKeys
	Encrypt           bool       `json:"encrypt,omitempty"`
	EncryptTo         int        `json:"encrypt_to,omitempty"` // index into rsaKeys (the SP's key)
	// AudienceGroups: further AudienceRestriction elements, each with all the Audience children listed (several audiences inside ONE
	// restriction are an OR: the restriction is satisfied by a relying party that is any one of them). Written after the restrictions
	// of Audiences.
	AudienceGroups [][]string `json:"audience_restrictions_with_several_audiences,omitempty"`
	// Proxy: a ProxyRestriction condition. It says to whom the relying party may in turn issue assertions of its own on the strength
	// of this one (saml-core 2.5.1.6); it does not say whom this assertion is for.
	Proxy *ProxySpec `json:"proxy_restriction,omitempty"`
	// how the sender encrypts ("": RSA-OAEP-MGF1P with SHA-1, AES128-CBC): the key transport (rsa-1_5) and the block cipher (aes192-cbc, aes256-cbc)
	EncTransport string `json:"encrypt_key_transport,omitempty"`
	EncCipher    string `json:"encrypt_block_cipher,omitempty"`
}

type ProxySpec struct {
	Count     *int     `json:"count,omitempty"`
	Audiences []string `json:"audiences,omitempty"`
}

type RespSpec struct {
	ID           string     `json:"id"`
	IssueMs      int64      `json:"issue_ms"`
	IssueText    string     `json:"issue_text,omitempty"`    // non-empty: IssueInstant is written as exactly this text (instants a Duration from t0 cannot express)
	Issuer       *string    `json:"issuer"`                  // nil: absent
	IssuerFormat string     `json:"issuer_format,omitempty"` // "": nameid-format:entity
	IssuerNQ     string     `json:"issuer_name_qualifier,omitempty"`
	Pretty       bool       `json:"pretty_printed,omitempty"` // the IdP pretty-prints (line breaks and indentation between child elements) before it signs
	Destination  string     `json:"destination"`
	InResponseTo string     `json:"irt"`
	Status       string     `json:"status"`
	SubStatus    string     `json:"sub_status,omitempty"` // nested second-level StatusCode ("" = none)
	Sign         bool       `json:"sign"`
	SignKey      int        `json:"sign_key,omitempty"`
	Assertions   []AsrtSpec `json:"assertions"`
	TimeForm     int        `json:"time_form,omitempty"`
	SigMethod    string     `json:"sig_method,omitempty"`
	// NSDecls: namespace declarations nobody uses, added in flight (after every signature was made) to the start tags of the
	// plaintext elements with the given local name. Exclusive canonicalisation leaves them out of the signed octets, so every
	// signature stands and nothing the message says changes - whatever the prefix is called and whatever the URI reads.
	NSDecls []NSDecl `json:"unused_namespace_declarations,omitempty"`
	// QualAttrs: attributes in a foreign namespace (x:Recipient, x:InResponseTo, ... with xmlns:x="urn:example:ext"), written by the
	// IdP itself before it signs - extension attributes, which the schema allows on several elements. Whatever their local name
	// and value, they are not the unqualified attributes the protocol defines.
	QualAttrs []NSDecl `json:"foreign_namespace_attributes,omitempty"`
}

type NSDecl struct {
	On     string `json:"on"`           // local name of the elements that get the declaration
	Prefix string `json:"prefix"`       // e.g. NotOnOrAfter
	Value  string `json:"value"`        // the "namespace URI"; "@ms:<n>" stands for the instant t0+n ms in its UTC lexical form
	NS     string `json:"ns,omitempty"` // foreign-namespace attributes only: "" an extension namespace (x:), "xml" or "xsi" (the two namespaces the schema types do know attributes of)
}

// withNS sets the namespace kind of every entry.
func withNS(ds []NSDecl, ns string) []NSDecl {
	for i := range ds {
		ds[i].NS = ns
	}
	return ds
}

func applyQualAttrs(root *etree.Element, attrs []NSDecl, t0 time.Time) {
	if len(attrs) == 0 {
		return
	}
	var walk func(e *etree.Element)
	walk = func(e *etree.Element) {
		for _, d := range attrs {
			if e.Tag == d.On {
				v := d.Value
				if strings.HasPrefix(v, "@ms:") {
					var n int64
					fmt.Sscanf(v, "@ms:%d", &n)
					v = t0.Add(ms(n)).UTC().Format("2006-01-02T15:04:05.000Z")
				}
				switch d.NS {
				case "xml":
					e.CreateAttr("xml:"+d.Prefix, v)
				case "xsi":
					e.CreateAttr("xmlns:xsi", "http://www.w3.org/2001/XMLSchema-instance")
					e.CreateAttr("xsi:"+d.Prefix, v)
				default:
					e.CreateAttr("xmlns:x", "urn:example:ext")
					e.CreateAttr("x:"+d.Prefix, v)
				}
			}
		}
		if e.Tag == "EncryptedAssertion" || e.Tag == "Signature" {
			return
		}
		for _, c := range e.ChildElements() {
			walk(c)
		}
	}
	walk(root)
}

func applyNSDecls(root *etree.Element, decls []NSDecl, t0 time.Time) {
	if len(decls) == 0 {
		return
	}
	var walk func(e *etree.Element)
	walk = func(e *etree.Element) {
		for _, d := range decls {
			if e.Tag == d.On {
				v := d.Value
				if strings.HasPrefix(v, "@ms:") {
					var n int64
					fmt.Sscanf(v, "@ms:%d", &n)
					v = t0.Add(ms(n)).UTC().Format("2006-01-02T15:04:05.000Z")
				}
				e.CreateAttr("xmlns:"+d.Prefix, v)
			}
		}
		if e.Tag == "EncryptedAssertion" || e.Tag == "Signature" {
			return
		}
		for _, c := range e.ChildElements() {
			walk(c)
		}
	}
	walk(root)
}

func i64(v int64) *int64  { return &v }
func sp(s string) *string { return &s }
func bp(b bool) *bool     { return &b }

func signingCtx(kp KeyPair, method string) *dsig.SigningContext {
	ks := dsig.TLSCertKeyStore(tls.Certificate{Certificate: [][]byte{kp.Cert.Raw}, PrivateKey: kp.Key, Leaf: kp.Cert})
	ctx := dsig.NewDefaultSigningContext(ks)
	ctx.Canonicalizer = dsig.MakeC14N10ExclusiveCanonicalizerWithPrefixList("")
	if method == "" {
		method = dsig.RSASHA256SignatureMethod
	}
	if err := ctx.SetSignatureMethod(method); err != nil {
		panic(err)
	}
	return ctx
}

// signEnveloped signs el and returns a copy carrying the Signature as its last child.
func signEnveloped(kp KeyPair, method string, el *etree.Element) *etree.Element {
	signed, err := signingCtx(kp, method).SignEnveloped(el)
	if err != nil {
		panic(fmt.Sprintf("harness: sign: %v", err))
	}
	return signed
}

// placeSignature returns a copy of el with the trailing Signature child moved to right
// after Issuer (its schema position). goxmldsig appends the signature to Child directly
// (no parent link), so the copy is assembled by hand.
func placeSignature(el *etree.Element) *etree.Element {
	kids := el.ChildElements()
	if len(kids) == 0 || kids[len(kids)-1].Tag != "Signature" {
		return el
	}
	sig := kids[len(kids)-1]
	out := etree.NewElement(el.FullTag())
	out.Attr = append(out.Attr, el.Attr...)
	placed := false
	for _, c := range el.Child {
		if c == etree.Token(sig) {
			continue
		}
		switch v := c.(type) {
		case *etree.Element:
			out.AddChild(v.Copy())
			if v.Tag == "Issuer" && !placed {
				out.AddChild(sig.Copy())
				placed = true
			}
		case *etree.CharData:
			out.CreateText(v.Data)
		}
	}
	if !placed {
		out.InsertChildAt(0, sig.Copy())
	}
	return out
}

var timeAttrs = map[string]bool{"IssueInstant": true, "NotBefore": true, "NotOnOrAfter": true, "AuthnInstant": true}

// lexicalForm renders instant t (an exact millisecond) in one of the lexical forms the parser admits.
// zoneFormBase + m (m in -840..840): the lexical form "three fractional digits, zone offset m minutes" (forms 0-6 are listed below)
const zoneFormBase = 2000

func lexicalForm(t time.Time, form int) string {
	t = t.UTC()
	if form >= zoneFormBase-14*60 && form <= zoneFormBase+14*60 {
		// the same instant written in the zone (form - zoneFormBase) minutes east of UTC: xs:dateTime admits -14:00 ... +14:00
		return t.In(time.FixedZone("", (form-zoneFormBase)*60)).Format("2006-01-02T15:04:05.000Z07:00")
	}
	switch form {
	case 1: // zone offset +02:00
		return t.In(time.FixedZone("", 2*3600)).Format("2006-01-02T15:04:05.000Z07:00")
	case 2: // zone offset -09:30
		return t.In(time.FixedZone("", -(9*3600 + 1800))).Format("2006-01-02T15:04:05.000Z07:00")
	case 3: // six fractional digits
		return t.Format("2006-01-02T15:04:05.000000Z07:00")
	case 4: // nine fractional digits
		return t.Format("2006-01-02T15:04:05.000000000Z07:00")
	case 5: // no zone designator, nine digits (parsed as UTC)
		return t.Format("2006-01-02T15:04:05.000000000")
	case 6: // one fractional digit when exact, else three
		if t.Nanosecond()%100_000_000 == 0 {
			return t.Format("2006-01-02T15:04:05.0Z07:00")
		}
		return t.Format("2006-01-02T15:04:05.000Z07:00")
	}
	return t.Format("2006-01-02T15:04:05.999Z07:00")
}

func rewriteTimes(el *etree.Element, form int) {
	if form == 0 {
		return
	}
	for i, a := range el.Attr {
		if a.Space == "" && timeAttrs[a.Key] {
			if form == 5 && el.Tag == "SubjectConfirmationData" && a.Key == "NotBefore" {
				continue // the one instant the library parses strictly (plain time.Time): a zone-less form is not among "the lexical forms the parser admits" there
			}
			if t, err := time.Parse("2006-01-02T15:04:05.999Z07:00", a.Value); err == nil {
				el.Attr[i].Value = lexicalForm(t, form)
			}
		}
	}
	for _, c := range el.ChildElements() {
		rewriteTimes(c, form)
	}
}

const bearer = "urn:oasis:names:tc:SAML:2.0:cm:bearer"

func (a *AsrtSpec) toAssertion(t0 time.Time) *saml.Assertion {
	as := &saml.Assertion{ID: a.ID, IssueInstant: t0.Add(ms(a.IssueMs)).UTC(), Version: "2.0",
		Issuer: saml.Issuer{Format: firstNonEmpty(a.IssuerFormat, "urn:oasis:names:tc:SAML:2.0:nameid-format:entity"), NameQualifier: a.IssuerNQ, Value: a.Issuer}}
	if !a.NoSubject {
		sub := &saml.Subject{}
		if !a.NoNameID {
			sub.NameID = &saml.NameID{Format: "urn:oasis:names:tc:SAML:2.0:nameid-format:transient", Value: a.NameID}
		}
		for _, c := range a.Confs {
			m := c.Method
			if m == "" {
				m = bearer
			}
			sc := saml.SubjectConfirmation{Method: m}
			if c.NameID != "" {
				sc.NameID = &saml.NameID{Format: "urn:oasis:names:tc:SAML:1.1:nameid-format:unspecified", Value: c.NameID}
			}
			if !c.NoData {
				d := &saml.SubjectConfirmationData{Recipient: c.Recipient, InResponseTo: c.InResponseTo}
				if c.NotOnOrAfter != nil {
					d.NotOnOrAfter = t0.Add(ms(*c.NotOnOrAfter)).UTC()
				}
				if c.NotBefore != nil {
					d.NotBefore = t0.Add(ms(*c.NotBefore)).UTC()
				}
				d.Address = c.Address
				sc.SubjectConfirmationData = d
			}
			sub.SubjectConfirmations = append(sub.SubjectConfirmations, sc)
		}
		as.Subject = sub
	}
	if !a.NoConditions {
		c := &saml.Conditions{}
		if a.NotBefore != nil {
			c.NotBefore = t0.Add(ms(*a.NotBefore)).UTC()
		}
		if a.NotOnOrAfter != nil {
			c.NotOnOrAfter = t0.Add(ms(*a.NotOnOrAfter)).UTC()
		}
		for _, au := range a.Audiences {
			c.AudienceRestrictions = append(c.AudienceRestrictions, saml.AudienceRestriction{Audience: saml.Audience{Value: au}})
		}
		as.Conditions = c
	}
	if !a.NoAuthn {
		as.AuthnStatements = []saml.AuthnStatement{{AuthnInstant: t0.UTC(), SessionIndex: a.SessionIndex,
			AuthnContext: saml.AuthnContext{AuthnContextClassRef: &saml.AuthnContextClassRef{Value: "urn:oasis:names:tc:SAML:2.0:ac:classes:PasswordProtectedTransport"}}}}
		if a.SessionNOA != nil {
			t := t0.Add(ms(*a.SessionNOA)).UTC()
			as.AuthnStatements[0].SessionNotOnOrAfter = &t
		}
		if a.AuthnMs != nil {
			as.AuthnStatements[0].AuthnInstant = t0.Add(ms(*a.AuthnMs)).UTC()
		}
	}
	if len(a.Attrs) > 0 {
		nst := 1
		for _, at := range a.Attrs {
			if at.Stmt+1 > nst {
				nst = at.Stmt + 1
			}
		}
		sts := make([]saml.AttributeStatement, nst)
		for _, at := range a.Attrs {
			attr := saml.Attribute{Name: at.Name, FriendlyName: at.Friendly, NameFormat: "urn:oasis:names:tc:SAML:2.0:attrname-format:basic"}
			for _, v := range at.Values {
				attr.Values = append(attr.Values, saml.AttributeValue{Type: "xs:string", Value: v})
			}
			sts[at.Stmt].Attributes = append(sts[at.Stmt].Attributes, attr)
		}
		as.AttributeStatements = sts
	}
	return as
}

// buildAssertionEl renders (and optionally signs, encrypts) one assertion.
func buildAssertionEl(a *AsrtSpec, t0 time.Time, form int, method string) *etree.Element {
	el := a.toAssertion(t0).Element()
	rewriteTimes(el, form)
	// verbatim instants (outside the range a Duration from t0 can express), written before signing
	if a.NOAText != "" {
		if c := el.FindElement("./Conditions"); c != nil {
			c.CreateAttr("NotOnOrAfter", a.NOAText)
		}
	}
	if a.IssueText != "" {
		el.CreateAttr("IssueInstant", a.IssueText)
	}
	if a.NBText != "" {
		if c := el.FindElement("./Conditions"); c != nil {
			c.CreateAttr("NotBefore", a.NBText)
		}
	}
	if a.EmptyRestrictions > 0 {
		c := el.FindElement("./Conditions")
		if c == nil {
			c = etree.NewElement("saml:Conditions")
			if sub := el.FindElement("./Subject"); sub != nil {
				el.InsertChildAt(sub.Index()+1, c)
			} else {
				el.AddChild(c)
			}
		}
		for i := 0; i < a.EmptyRestrictions; i++ {
			r := etree.NewElement("saml:AudienceRestriction")
			if i%2 == 1 {
				r.SetText("\n") // <AudienceRestriction>\n</AudienceRestriction>
			}
			c.InsertChildAt(0, r)
		}
	}
	if len(a.AudienceGroups) > 0 || a.Proxy != nil {
		c := el.FindElement("./Conditions")
		if c == nil {
			c = etree.NewElement("saml:Conditions")
			if sub := el.FindElement("./Subject"); sub != nil {
				el.InsertChildAt(sub.Index()+1, c)
			} else {
				el.AddChild(c)
			}
		}
		at := 0 // behind the last AudienceRestriction there is
		for _, ch := range c.ChildElements() {
			if ch.Tag == "AudienceRestriction" {
				at = ch.Index() + 1
			}
		}
		for _, grp := range a.AudienceGroups {
			r := etree.NewElement("saml:AudienceRestriction")
			for _, au := range grp {
				r.CreateElement("saml:Audience").SetText(au)
			}
			c.InsertChildAt(at, r)
			at = r.Index() + 1
		}
		if a.Proxy != nil {
			pr := c.CreateElement("saml:ProxyRestriction")
			if a.Proxy.Count != nil {
				pr.CreateAttr("Count", strconv.Itoa(*a.Proxy.Count))
			}
			for _, au := range a.Proxy.Audiences {
				pr.CreateElement("saml:Audience").SetText(au)
			}
		}
	}
	if a.Pretty {
		el.IndentWithSettings(&etree.IndentSettings{Spaces: 2})
	}
	ci := 0
	for _, sc := range el.FindElements("./Subject/SubjectConfirmation") {
		if ci < len(a.Confs) && a.Confs[ci].NOAText != "" {
			if d := sc.FindElement("./SubjectConfirmationData"); d != nil {
				d.CreateAttr("NotOnOrAfter", a.Confs[ci].NOAText)
			}
		}
		ci++
	}
	applyQualAttrs(el, a.QualAttrs, t0)
	if a.Sign {
		el = placeSignature(signEnveloped(rsaKeys[a.SignKey], method, el))
	}
	if a.Encrypt {
		applyNSDecls(el, a.NSDecls, t0)
		if a.EncTransport != "" || a.EncCipher != "" {
			return encryptElWith(el, rsaKeys[a.EncryptTo], "saml:EncryptedAssertion", a.EncTransport, a.EncCipher)
		}
		return encryptAssertionEl(el, rsaKeys[a.EncryptTo])
	}
	return el
}

// encryptAssertionEl wraps el into saml:EncryptedAssertion for the holder of kp (RSA-OAEP + AES128-CBC, as the library IdP does).
func encryptAssertionEl(el *etree.Element, kp KeyPair) *etree.Element {
	return encryptElAs(el, kp, "saml:EncryptedAssertion")
}

// encryptElAs wraps el into the given Encrypted* element for the holder of kp.
func encryptElAs(el *etree.Element, kp KeyPair, wrapper string) *etree.Element {
	return encryptElWith(el, kp, wrapper, "", "")
}

// senderBlockCipher: the block cipher a sender's choice names ("": AES128-CBC).
func senderBlockCipher(name string) xmlenc.BlockCipher {
	switch name {
	case "", "aes128-cbc":
		return xmlenc.AES128CBC
	case "aes192-cbc":
		return xmlenc.AES192CBC
	case "aes256-cbc":
		return xmlenc.AES256CBC
	}
	panic("harness: unknown block cipher " + name)
}

// senderEncrypter: the sender's choice of key transport ("": RSA-OAEP-MGF1P with SHA-1; "rsa-1_5") and block cipher.
func senderEncrypter(transport, blockCipher string) xmlenc.RSA {
	var enc xmlenc.RSA
	switch transport {
	case "", "rsa-oaep-mgf1p":
		enc = xmlenc.OAEP()
		enc.DigestMethod = &xmlenc.SHA1
	case "rsa-1_5":
		enc = xmlenc.PKCS1v15()
	default:
		panic("harness: unknown key transport " + transport)
	}
	enc.BlockCipher = senderBlockCipher(blockCipher)
	return enc
}

// encryptElWith: as encryptElAs, with the sender's choice of key transport ("": RSA-OAEP-MGF1P with SHA-1; "rsa-1_5") and block cipher.
func encryptElWith(el *etree.Element, kp KeyPair, wrapper, transport, blockCipher string) *etree.Element {
	doc := etree.NewDocument()
	doc.SetRoot(el.Copy())
	buf, err := doc.WriteToBytes()
	if err != nil {
		panic(err)
	}
	ed, err := senderEncrypter(transport, blockCipher).Encrypt(kp.Cert, buf, nil)
	if err != nil {
		panic(fmt.Sprintf("harness: encrypt: %v", err))
	}
	ed.CreateAttr("Type", "http://www.w3.org/2001/04/xmlenc#Element")
	ea := etree.NewElement(wrapper)
	ea.AddChild(ed)
	return ea
}

// BuildResponseEl renders a whole Response per spec at issuing moment t0.
func BuildResponseEl(s *RespSpec, t0 time.Time) *etree.Element {
	r := &saml.Response{ID: s.ID, InResponseTo: s.InResponseTo, Version: "2.0", IssueInstant: t0.Add(ms(s.IssueMs)).UTC(),
		Destination: s.Destination, Status: saml.Status{StatusCode: saml.StatusCode{Value: s.Status}}}
	if s.SubStatus != "" {
		r.Status.StatusCode.StatusCode = &saml.StatusCode{Value: s.SubStatus}
	}
	if s.Issuer != nil {
		r.Issuer = &saml.Issuer{Format: firstNonEmpty(s.IssuerFormat, "urn:oasis:names:tc:SAML:2.0:nameid-format:entity"), NameQualifier: s.IssuerNQ, Value: *s.Issuer}
	}
	el := r.Element()
	rewriteTimes(el, s.TimeForm)
	if s.IssueText != "" {
		el.CreateAttr("IssueInstant", s.IssueText)
	}
	if s.Pretty {
		el.IndentWithSettings(&etree.IndentSettings{Spaces: 2})
	}
	for i := range s.Assertions {
		if s.Pretty {
			el.CreateText("\n  ") // between the Response's own children only: the assertions are finished (and possibly signed) documents
		}
		as := s.Assertions[i]
		as.QualAttrs = append(append([]NSDecl(nil), as.QualAttrs...), s.QualAttrs...)
		if as.Encrypt {
			as.NSDecls = append(append([]NSDecl(nil), as.NSDecls...), s.NSDecls...)
		}
		el.AddChild(buildAssertionEl(&as, t0, s.TimeForm, s.SigMethod))
	}
	if len(s.QualAttrs) > 0 {
		// the Response's own elements (the assertions, finished documents by now, have theirs already)
		for _, d := range s.QualAttrs {
			targets := []*etree.Element{el}
			if st := el.FindElement("./Status/StatusCode"); st != nil {
				targets = append(targets, st)
			}
			for _, e := range targets {
				if e.Tag == d.On {
					applyQualAttrs(e, []NSDecl{{On: e.Tag, Prefix: d.Prefix, Value: d.Value, NS: d.NS}}, t0)
				}
			}
		}
	}
	if s.Pretty {
		el.CreateText("\n")
	}
	if s.Sign {
		el = placeSignature(signEnveloped(rsaKeys[s.SignKey], s.SigMethod, el))
	}
	applyNSDecls(el, s.NSDecls, t0)
	return el
}

func elBytes(el *etree.Element) []byte {
	doc := etree.NewDocument()
	doc.SetRoot(el)
	b, err := doc.WriteToBytes()
	if err != nil {
		panic(err)
	}
	return b
}

// wrapArtifactResponse builds the SOAP envelope a foreign IdP's resolver returns.
func wrapArtifactResponse(respEl *etree.Element, id, inResponseTo, issuer, status string, issue time.Time, sign *KeyPair) []byte {
	ar := etree.NewElement("samlp:ArtifactResponse")
	ar.CreateAttr("xmlns:samlp", "urn:oasis:names:tc:SAML:2.0:protocol")
	ar.CreateAttr("xmlns:saml", "urn:oasis:names:tc:SAML:2.0:assertion")
	ar.CreateAttr("xmlns:xs", "http://www.w3.org/2001/XMLSchema")
	ar.CreateAttr("ID", id)
	if inResponseTo != "" {
		ar.CreateAttr("InResponseTo", inResponseTo)
	}
	ar.CreateAttr("Version", "2.0")
	ar.CreateAttr("IssueInstant", issue.UTC().Format("2006-01-02T15:04:05.999Z07:00"))
	if issuer != "" {
		ar.CreateElement("saml:Issuer").SetText(issuer)
	}
	st := ar.CreateElement("samlp:Status")
	st.CreateElement("samlp:StatusCode").CreateAttr("Value", status)
	if respEl != nil {
		ar.AddChild(respEl.Copy())
	}
	if sign != nil {
		ar = placeSignature(signEnveloped(*sign, "", ar))
	}
	env := etree.NewElement("soap:Envelope")
	env.CreateAttr("xmlns:soap", "http://schemas.xmlsoap.org/soap/envelope/")
	env.CreateElement("soap:Body").AddChild(ar)
	return elBytes(env)
}

// ---------------------------------------------------------------- string populations

// markers: unique, recognisable user strings
// marker strings are mixed-case on purpose: a change that folds case somewhere on the way alters them
func marker(kind string, i int) string { return fmt.Sprintf("zQ%s%dQz", kind, i) }

func containsAny(hay string, needles []string) string {
	for _, n := range needles {
		if n != "" && strings.Contains(hay, n) {
			return n
		}
	}
	return ""
}

func firstNonEmpty(a, b string) string {
	if a != "" {
		return a
	}
	return b
}
