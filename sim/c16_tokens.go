package samlsim

import (
	"crypto/hmac"
	"crypto/sha256"
	"crypto/x509"
	"encoding/base64"
	"encoding/json"
	"encoding/pem"
	"fmt"
	"github.com/golang-jwt/jwt/v4"
	"net/http"
	"net/url"
	"strconv"
	"strings"
	"testing"
	"time"

	"github.com/crewjam/saml/samlsp"
)

// C16 — only session tokens minted by this SP, unexpired, authenticate a request (profile `tokens`).
//
// Simulator dimensions: the clock (token lifetime, backward jumps), cross-codec and
// cross-deployment replay, token tampering by the presenting party.

type tokKnobs struct {
	LifetimeMs int64 `json:"session_lifetime_ms"` // 0: library default
	// how long the browser is told to keep the cookie: "" as long as the session lives (the cookie provider's MaxAge follows the
	// codec's); "default" only the codec's lifetime is customised, the provider's stays as shipped; "short"/"long" one minute / a week.
	// A token is not bound by what the browser was told: the session lifetime is the codec's.
	CookieLife string `json:"cookie_lifetime,omitempty"`
	// NoLife: the codec's MaxAge is set to zero ("zero") or to minus one minute ("negative") - a hand-built codec, a mis-computed
	// duration. Such a codec's tokens are never inside their lifetime.
	NoLife    string         `json:"codec_lifetime_not_positive,omitempty"`
	Deploys   []mwDeployConf `json:"deployments"` // [0] is the target; [1] another deployment
	SameKey   bool           `json:"other_deployment_shares_key"`
	OtherDiff string         `json:"other_deployment_differs_in"` // with a shared key: "both" (its own URL as audience and issuer) | "audience" | "issuer"
	// Gates: further attribute-gated routes of the target, /vgate<i>/: RequireAttribute(Attr, Value) for required values an
	// application may well ask for - an organisation's name, a group's distinguished name, anything with punctuation or blanks in it.
	Gates []tokGate `json:"value_gates,omitempty"`
}

// tokGate is one attribute gate: the session's attribute Attr must carry the value Value - that very string, whatever it looks like.
type tokGate struct {
	Attr  string `json:"attribute"`
	Value string `json:"required_value"`
}

var c16GateAttrs = []string{"o", "memberOf", "affiliation", "scope", "perm"}

// required values: most of them contain a character that some notation or other uses to separate the items of a list
var c16GateValues = []string{"Acme, Inc.", "cn=admins,ou=groups,dc=example,dc=org", "staff,faculty", "staff faculty", "ops;dev", "read|write", "team/blue", "zqplainqz"}

// c16Derive draws the values a session's attribute carries from the required value v: v itself, a piece of it (cut at a separator
// character it contains), a prefix, a suffix, another spelling, v with more appended, something unrelated. Which of them equal v
// is for the oracle to say.
func c16Derive(g *Rng, v string) []string {
	var out []string
	for i, n := 0, 1+g.Intn(3); i < n; i++ {
		switch g.PickW(3, 5, 1, 1, 1, 1, 1, 1) {
		case 0:
			out = append(out, v)
		case 1:
			var seps []string
			for _, c := range []string{",", ";", "|", "/", " ", "="} {
				if strings.Contains(v, c) {
					seps = append(seps, c)
				}
			}
			if len(seps) == 0 {
				out = append(out, v[:1+g.Intn(len(v)-1)])
				break
			}
			piece := Pick(g, strings.Split(v, Pick(g, seps...))...)
			if g.Bool(0.3) {
				piece = strings.TrimSpace(piece)
			}
			out = append(out, piece)
		case 2:
			out = append(out, v[:1+g.Intn(len(v)-1)])
		case 3:
			out = append(out, v[1+g.Intn(len(v)-1):])
		case 4:
			out = append(out, strings.ToUpper(v))
		case 5:
			out = append(out, v+Pick(g, ",", ", ", " ", ";", "|")+"zqmoreqz")
		case 6:
			out = append(out, "zqotherqz")
		default:
			out = append(out, strings.ReplaceAll(v, " ", ""))
		}
	}
	return out
}

type tokStep struct {
	Kind  string `json:"kind"` // login | present | advance | jump
	User  int    `json:"user,omitempty"`
	Token string `json:"token,omitempty"` // which token is presented
	Login int    `json:"login,omitempty"` // index of the login whose token is meant
	Mut   string `json:"mut,omitempty"`
	Path  string `json:"path,omitempty"`
	Ms    int64  `json:"ms,omitempty"`
	// present: the request method ("" GET) and whether it looks like a CORS preflight (Origin + Access-Control-Request-* headers).
	// Neither says anything about who is asking.
	Method    string `json:"method,omitempty"`
	Preflight bool   `json:"cors_preflight_headers,omitempty"`
	// pair: two requests are inside the deployment at once - request A presents the token of login Login, request B the token of
	// login Other (-1: none). Order says which of them moves at each decision point (token decode, arrival at the application).
	Other int   `json:"other_login,omitempty"`
	Order []int `json:"order,omitempty"`
	// login: the assertion carries one more attribute (what the value gates ask about), with these values
	CarryAttr   string   `json:"extra_attribute,omitempty"`
	CarryValues []string `json:"extra_attribute_values,omitempty"`
	// login: the clock is first moved on to the next instant that lies this many milliseconds into its second (0: it stays where it
	// is). Sessions begin whenever users log in, not on the stroke of a second.
	IntoSecondMs int64 `json:"ms_into_the_second,omitempty"`
	// advance: with ToEdge the clock is moved on to the instant at which the token of login Login is exactly session lifetime + Ms old
	// (Ms may be negative; the clock stays where it is when that instant has passed already)
	ToEdge bool `json:"to_the_end_of_that_logins_lifetime,omitempty"`
}

// c16EdgeMs: distances (ms) from the end of a session's lifetime at which its token is presented. The property draws the line at the
// lifetime itself; a second is what a token whose instants are whole seconds may lose.
var c16EdgeMs = []int64{-2500, -1500, -1001, -1000, -999, -500, -1, 0, 1, 2, 50, 100, 250, 400, 499, 500, 501, 750, 999, 1000, 1001, 1500, 2500}

// c16SLOPath in a present step's path stands for the path of the single logout URL the SP advertises in its metadata. The
// middleware does not serve it; an application that implements logout serves it itself, behind RequireAccount like its other routes.
const c16SLOPath = "@slo"

var tokKinds = []string{"valid", "valid", "valid", "tracking", "other-deployment", "alg-none", "hs256-pem", "hs256-der", "claims-edit", "header-edit", "truncated", "bitflip", "empty", "garbage", "mallory-signed", "wrong-cookie-name",
	// tokens the session codec never issued although they carry a signature of the deployment's own key (another component of the
	// deployment shares the key, as session and tracking codec already do): another signature algorithm, no session marker,
	// a tracking token's claims with the audience spelt as a string
	"own-key-other-alg", "own-key-no-marker", "own-key-tracking-claims",
	// ... or a token of a component configured without a URL: no audience, no issuer, or neither (a claim that is not there names nobody)
	"own-key-no-audience", "own-key-no-issuer", "own-key-no-audience-no-issuer"}

func genTokens(g *Rng, tier string) *Plan {
	// lifetimes: whole minutes and hours as well as lifetimes that are no whole number of seconds (a duration computed from a
	// configuration value in minutes or hours, e.g. 2.5 min, 0.21 h; a very short one for a one-off confirmation page)
	k := tokKnobs{LifetimeMs: Pick(g, int64(0), 0, 0, 10_000, 300_000, 86_400_000, 10_000, 300_000, 86_400_000, 1_500, 2_500, 150_500, 756_400), SameKey: g.Bool(0.5), OtherDiff: Pick(g, "both", "audience", "issuer")}
	if k.LifetimeMs > 0 {
		k.CookieLife = Pick(g, "", "", "default", "default", "short", "long")
	} else if g.Bool(0.12) {
		k.NoLife = Pick(g, "zero", "negative")
	}
	ec := g.Bool(0.3)
	k.Deploys = []mwDeployConf{
		{HTTPS: g.Bool(0.7), Host: "sp0.example.com", EC: ec, KeyIdx: 1, CookieName: Pick(g, "", "", "sess")},
		{HTTPS: true, Host: "sp1.example.com", EC: ec, KeyIdx: 3},
	}
	if g.Bool(0.4) {
		mwNoise(g, &k.Deploys[0])
		k.Deploys[0].EntityID = "" // the sibling deployment's claims are derived from the target's base URL
	}
	if k.SameKey {
		k.Deploys[1].KeyIdx = 1
		switch g.PickW(6, 3, 0, 1) {
		case 1:
			// the sibling lives on the same host, another port (cookies are not port-scoped: the browser presents the target's cookie there and vice versa)
			k.Deploys[1].Host, k.Deploys[1].HTTPS = k.Deploys[0].Host+":8443", k.Deploys[0].HTTPS
		case 2:
			// (not drawn: the same host in another spelling - case, trailing dot - is arguably the same audience)
			k.Deploys[1].Host = strings.ToUpper(k.Deploys[0].Host[:3]) + k.Deploys[0].Host[3:] + "."
		case 3:
			k.Deploys[1].Host = "www." + k.Deploys[0].Host
		}
	}
	if ec {
		k.Deploys[0].KeyIdx, k.Deploys[1].KeyIdx = 0, 1
		if k.SameKey {
			k.Deploys[1].KeyIdx = 0
		}
	}
	life := k.LifetimeMs
	if life == 0 {
		life = 3_600_000
	}
	if g.Bool(0.5) {
		for i, n := 0, 1+g.Intn(2); i < n; i++ {
			k.Gates = append(k.Gates, tokGate{Attr: Pick(g, c16GateAttrs...), Value: Pick(g, c16GateValues...)})
		}
	}
	login := func() tokStep {
		st := tokStep{Kind: "login", User: g.Intn(19)}
		if g.Bool(0.6) {
			st.IntoSecondMs = Pick(g, int64(1+g.Intn(999)), 1+int64(g.Intn(999)), 1, 499, 500, 501, 999)
		}
		if len(k.Gates) > 0 && g.Bool(0.85) {
			gt := Pick(g, k.Gates...)
			st.CarryAttr, st.CarryValues = gt.Attr, c16Derive(g, gt.Value)
		}
		return st
	}
	p := &Plan{Knobs: mustJSON(k)}
	steps := []tokStep{login()}
	nlogins := 1
	n := 3 + g.Intn(9)
	for i := 0; i < n; i++ {
		switch g.PickW(2, 10, 4, 1) {
		case 0:
			steps = append(steps, login())
			nlogins++
		case 1:
			ps := tokStep{Kind: "present", Token: Pick(g, tokKinds...), Login: g.Intn(nlogins), Path: Pick(g, "/page", "/page", "/gated/x", "/nested/x", "/gatedempty/x")}
			switch {
			case len(k.Gates) > 0 && g.Bool(0.5):
				// a value gate discriminates only among sessions: mostly the genuine token
				ps.Path = fmt.Sprintf("/vgate%d/x", g.Intn(len(k.Gates)))
				ps.Token = Pick(g, "valid", "valid", "valid", ps.Token)
			case g.Bool(0.12):
				// the application's own logout endpoint at the path the SP advertises; what a logout message would bring along
				ps.Path = c16SLOPath + Pick(g, "", "", "?SAMLRequest=zqlogoutqz&RelayState=x", "?SAMLResponse=zqlogoutqz")
			}
			if g.Bool(0.25) {
				ps.Method = Pick(g, "POST", "DELETE", "OPTIONS", "OPTIONS", "HEAD", "PUT")
				ps.Preflight = g.Bool(0.5)
			}
			steps = append(steps, ps)
		case 2:
			if g.Bool(0.5) {
				// the token of one login right around the end of its lifetime, to the millisecond; mostly a login made just now
				// (the end of an earlier one's lifetime may have passed already)
				if g.Bool(0.6) {
					steps = append(steps, login())
					nlogins++
				}
				l := nlogins - 1
				if g.Bool(0.2) {
					l = g.Intn(nlogins)
				}
				steps = append(steps, tokStep{Kind: "advance", ToEdge: true, Login: l, Ms: Pick(g, c16EdgeMs...)})
				steps = append(steps, tokStep{Kind: "present", Token: "valid", Login: l, Path: Pick(g, "/page", "/page", "/page", "/gated/x")})
				break
			}
			steps = append(steps, tokStep{Kind: "advance", Ms: Pick(g, int64(1000), life/2, life-5000, life-1000, life+1000, life+5000, 2*life)})
			steps = append(steps, tokStep{Kind: "present", Token: "valid", Login: g.Intn(nlogins), Path: "/page"})
		default:
			steps = append(steps, tokStep{Kind: "jump", Ms: -Pick(g, int64(5000), 60_000, 3_600_000)})
			steps = append(steps, tokStep{Kind: "present", Token: "valid", Login: nlogins - 1, Path: "/page"})
			steps = append(steps, tokStep{Kind: "jump", Ms: 0})
		}
	}
	if g.Bool(0.3) {
		// two requests in flight at once (every web server runs handlers concurrently): each is judged by its own token
		if nlogins < 2 {
			steps = append(steps, login())
			nlogins++
		}
		for q, n := 0, 1+g.Intn(2); q < n; q++ {
			ps := tokStep{Kind: "pair", Login: g.Intn(nlogins), Other: Pick(g, -1, g.Intn(nlogins), g.Intn(nlogins)), Path: Pick(g, "/page", "/page", "/gated/x")}
			for i := 0; i < 12; i++ {
				ps.Order = append(ps.Order, g.Intn(2))
			}
			steps = append(steps, ps)
		}
	}
	for _, s := range steps {
		p.Steps = append(p.Steps, mustJSON(s))
	}
	return p
}

type loginRec struct {
	user     int
	u        mwUser // the user as this login's assertion describes them (the plan may add an attribute)
	token    string
	tracking string // a tracking token minted by the same deployment
	other    string // a session token minted by the other deployment for the same user
	mintedAt time.Time
}

// c16RunPair runs the requests as cooperating tasks: one moves at a time, from one decision point (mwYield) to the next, and
// order says which one (index into the tasks still running, cyclically).
func c16RunPair(reqs []func(), order []int) {
	type task struct {
		wake chan struct{}
		done bool
	}
	tasks := make([]*task, len(reqs))
	back := make(chan struct{})
	cur := -1
	mwYield = func(string) {
		t := tasks[cur]
		back <- struct{}{}
		<-t.wake
	}
	for i := range reqs {
		t := &task{wake: make(chan struct{})}
		tasks[i] = t
		i := i
		go func() {
			<-t.wake
			reqs[i]()
			t.done = true
			back <- struct{}{}
		}()
	}
	for step := 0; ; step++ {
		var runnable []int
		for i, t := range tasks {
			if !t.done {
				runnable = append(runnable, i)
			}
		}
		if len(runnable) == 0 {
			break
		}
		pick := 0
		if len(order) > 0 {
			pick = order[step%len(order)] % len(runnable)
		}
		cur = runnable[pick]
		tasks[cur].wake <- struct{}{}
		<-back
	}
	mwYield = nil
}

func b64url(b []byte) string { return base64.RawURLEncoding.EncodeToString(b) }

// mwLogin runs a complete faithful login of user at deployment d in browser b and returns the session and tracking cookie values.
func mwLogin(d *mwDeploy, b *browser, u mwUser, n int) (session, tracking string, err error) {
	pu, _ := url.Parse(d.base + "/page")
	rep := deliver(d.handler, "GET", pu.String(), "", "", nil)
	if rep.Panic != nil {
		return "", "", fmt.Errorf("panic: %v", rep.Panic)
	}
	ar, err := decodeStartReply(rep)
	if err != nil {
		return "", "", err
	}
	var tcs []*http.Cookie
	for _, c := range rep.Cookies {
		if strings.HasPrefix(c.Name, "saml_") {
			tracking = c.Value
			tcs = append(tcs, &http.Cookie{Name: c.Name, Value: c.Value})
		}
	}
	spec := mwResponseSpec(d, u, ar.ID, n)
	form := url.Values{"SAMLResponse": {base64.StdEncoding.EncodeToString(elBytes(BuildResponseEl(&spec, time.Now())))}, "RelayState": {ar.RelayState}}
	rep = deliver(d.handler, "POST", d.acs(), form.Encode(), formCT, tcs)
	if rep.Panic != nil {
		return "", "", fmt.Errorf("panic: %v", rep.Panic)
	}
	for _, c := range rep.Cookies {
		if c.Name == d.sessionCookieName() && c.Value != "" {
			session = c.Value
		}
	}
	if session == "" {
		return "", "", fmt.Errorf("login refused with status %d", rep.Code)
	}
	return session, tracking, nil
}

func execTokens(t *testing.T, p *Plan) *Result {
	res := newResult()
	k := decode[tokKnobs](p.Knobs)
	installRand(p)
	idpMD := idpMetadataFor(idpEntity, idpSSO, idpSLO, []KeyPair{rsaKeys[0]}, nil, "signing")
	var deploys []*mwDeploy
	for di, c := range k.Deploys {
		d := newMWDeploy(c, idpMD, "role", "admin")
		if k.LifetimeMs > 0 || (k.NoLife != "" && di == 0) || (di == 1 && k.SameKey && k.OtherDiff != "both") {
			opts := samlsp.Options{URL: mustURL(d.base + "/"), Key: d.kp.Key, Certificate: d.kp.Cert, CookieName: c.CookieName}
			sp := samlsp.DefaultSessionProvider(opts)
			codec := samlsp.DefaultSessionCodec(opts)
			if k.NoLife != "" && di == 0 {
				codec.MaxAge = map[string]time.Duration{"zero": 0, "negative": -time.Minute}[k.NoLife]
			}
			if k.LifetimeMs > 0 {
				codec.MaxAge = ms(k.LifetimeMs)
				switch k.CookieLife {
				case "":
					sp.MaxAge = ms(k.LifetimeMs)
				case "short":
					sp.MaxAge = time.Minute
				case "long":
					sp.MaxAge = 7 * 24 * time.Hour
				}
			}
			if di == 1 && k.SameKey {
				// a sibling deployment sharing the key pair whose tokens differ from the target's in one claim only
				target := deploys[0].base + "/"
				switch k.OtherDiff {
				case "audience":
					codec.Issuer = target
				case "issuer":
					codec.Audience = target
				}
			}
			sp.Codec = codec
			d.mw.Session = sp
		}
		deploys = append(deploys, d)
	}
	deploys[0].nestBehind(deploys[1])
	d := deploys[0]
	for gi, gt := range k.Gates {
		d.mux.Handle(fmt.Sprintf("/vgate%d/", gi), d.mw.RequireAccount(samlsp.RequireAttribute(gt.Attr, gt.Value)(d.record(&d.gated))))
	}
	// the application's logout endpoint, where the SP's metadata says it is
	sloPath := d.mw.ServiceProvider.SloURL.Path
	if sloPath != "" && sloPath != d.mw.ServiceProvider.AcsURL.Path && sloPath != d.mw.ServiceProvider.MetadataURL.Path {
		d.mux.Handle(sloPath, d.mw.RequireAccount(d.record(&d.hits)))
	}
	// the target's session codec is wrapped: a token decode is a decision point of the two-request schedules ("pair" steps).
	// Only plans with such a step need that; the others run the deployment with the codec as shipped (a wrapper hides the codec's
	// concrete type from code that asks for it).
	hasPair := false
	for _, raw := range p.Steps {
		if decode[tokStep](raw).Kind == "pair" {
			hasPair = true
		}
	}
	if hasPair {
		switch sp := d.mw.Session.(type) {
		case samlsp.CookieSessionProvider:
			sp.Codec = yieldCodec{sp.Codec}
			d.mw.Session = sp
		case *samlsp.CookieSessionProvider:
			sp.Codec = yieldCodec{sp.Codec}
		}
	}
	defer func() { mwYield = nil }()
	life := ms(k.LifetimeMs)
	if k.LifetimeMs == 0 {
		life = time.Hour // the documented default session lifetime of the middleware
	}
	switch k.NoLife {
	case "zero":
		life = 0
		res.probe("codec-lifetime-zero")
	case "negative":
		life = -time.Minute
		res.probe("codec-lifetime-negative")
	}
	cookieLife := life
	switch {
	case k.LifetimeMs > 0 && k.CookieLife == "default":
		cookieLife = time.Hour
		res.probe("only-the-codec-lifetime-customised")
	case k.LifetimeMs > 0 && k.CookieLife == "short":
		cookieLife = time.Minute
	case k.LifetimeMs > 0 && k.CookieLife == "long":
		cookieLife = 7 * 24 * time.Hour
	}
	users := mwUsers()
	var logins []*loginRec
	begin := time.Now()
	var jump time.Duration
	nresp := 0

	pubDER, _ := x509.MarshalPKIXPublicKey(d.kp.Key.Public())
	pubPEM := pem.EncodeToMemory(&pem.Block{Type: "PUBLIC KEY", Bytes: pubDER})
	hs := func(tok string, secret []byte) string {
		parts := strings.Split(tok, ".")
		if len(parts) != 3 {
			return tok
		}
		hdr := b64url([]byte(`{"alg":"HS256","typ":"JWT"}`))
		mac := hmac.New(sha256.New, secret)
		mac.Write([]byte(hdr + "." + parts[1]))
		return hdr + "." + parts[1] + "." + b64url(mac.Sum(nil))
	}

	for si, raw := range p.Steps {
		st := decode[tokStep](raw)
		switch st.Kind {
		case "advance":
			if st.ToEdge {
				if st.Login >= len(logins) {
					continue
				}
				d := logins[st.Login].mintedAt.Add(life + ms(st.Ms)).Sub(time.Now())
				advance(d)
				res.logf("step %d advance to %dms from the end of the lifetime of login %d's session (%dms)", si, st.Ms, st.Login, max(d, 0).Milliseconds())
				continue
			}
			advance(ms(st.Ms))
			res.logf("step %d advance %dms", si, st.Ms)
		case "jump":
			jump = ms(st.Ms)
			res.logf("step %d clock jump %dms", si, st.Ms)
			if st.Ms != 0 {
				res.fire("clock_jump_back")
			}
		case "login":
			u := users[st.User%len(users)]
			if st.CarryAttr != "" && len(st.CarryValues) > 0 {
				u.Attrs = append(append([]AttrSpec(nil), u.Attrs...), AttrSpec{Name: st.CarryAttr, Values: st.CarryValues})
			}
			if st.IntoSecondMs > 0 {
				advance((ms(st.IntoSecondMs%1000) - time.Duration(time.Now().Nanosecond()) + time.Second) % time.Second)
				res.probe("login-at-a-fraction-of-a-second")
			}
			var tok, trk, oth string
			var err error
			at(0, func() {
				nresp++
				tok, trk, err = mwLogin(d, &browser{}, u, nresp)
				if err == nil {
					nresp++
					oth, _, err = mwLogin(deploys[1], &browser{}, u, nresp)
				}
			})
			if err != nil {
				if strings.HasPrefix(err.Error(), "panic") {
					res.Excluded = "panic (reported under C09)"
					return res
				}
				res.violate(si, "login-failed", "C16/fault-free-login-failed", "session", err.Error(), "")
				return res
			}
			logins = append(logins, &loginRec{user: st.User % len(users), u: u, token: tok, tracking: trk, other: oth, mintedAt: time.Now()})
			res.logf("step %d login user %d -> login %d (%dms into the second)", si, st.User%len(users), len(logins)-1, time.Now().Nanosecond()/1_000_000)
			if st.CarryAttr != "" && len(st.CarryValues) > 0 {
				res.logf("step %d   the assertion also carries %s=%q", si, st.CarryAttr, st.CarryValues)
			}
		case "pair":
			if st.Login >= len(logins) || st.Other >= len(logins) {
				continue
			}
			type side struct {
				tag   string
				login int
			}
			sides := []side{{"A", st.Login}, {"B", st.Other}}
			now := time.Now()
			cookieName := d.sessionCookieName()
			reps := make([]*reply, 2)
			var reqs []func()
			for qi, sd := range sides {
				qi, sd := qi, sd
				var cookies []*http.Cookie
				if sd.login >= 0 {
					cookies = []*http.Cookie{{Name: cookieName, Value: logins[sd.login].token}}
				}
				reqs = append(reqs, func() { reps[qi] = deliver(d.handler, "GET", d.base+st.Path+"?req="+sd.tag, "", "", cookies) })
			}
			hitsBefore, gatedBefore := len(d.hits), len(d.gated)
			c16RunPair(reqs, st.Order)
			res.probe("two-requests-in-flight")
			res.Nontrivial = true
			for qi, sd := range sides {
				if reps[qi] == nil || reps[qi].Panic != nil {
					res.Excluded = "panic (reported under C09)"
					return res
				}
				var seen *appHit
				for _, hs := range [][]appHit{d.hits[hitsBefore:], d.gated[gatedBefore:]} {
					for i := range hs {
						if strings.HasSuffix(hs[i].URL, "req="+sd.tag) {
							seen = &hs[i]
						}
					}
				}
				observed := "NO_SESSION"
				if seen != nil {
					observed = "AUTHENTICATED as " + strconv.Quote(seen.Subject)
				}
				if sd.login < 0 {
					res.logf("step %d pair %s presents nothing -> %s", si, sd.tag, observed)
					if seen != nil {
						res.violate(si, "foreign-or-stale-token-authenticates", "C16/authenticated/no-token/beside-another-request", "NO_SESSION", observed, "the other request in flight presented a token")
						return res
					}
					continue
				}
				l := logins[sd.login]
				age := now.Sub(l.mintedAt)
				res.logf("step %d pair %s presents the token of login %d (user %d) age-class=%s -> %s", si, sd.tag, sd.login, l.user, ageClass(age, life), observed)
				if seen != nil && seen.Subject != users[l.user].NameID {
					res.violate(si, "identity-altered", "C16/identity-altered/two-requests-in-flight", "subject "+strconv.Quote(users[l.user].NameID)+" (the presented token's), or no session", observed, "the other request in flight belongs to somebody else")
					return res
				}
				if seen != nil && (age > life || age < -2*time.Second) {
					res.violate(si, "foreign-or-stale-token-authenticates", "C16/authenticated/valid/"+ageClass(age, life)+"/beside-another-request", "NO_SESSION", observed, "")
					return res
				}
				if seen == nil && age >= 0 && age < life-2*time.Second && st.Path != "/gated/x" && reps[qi].Code != 200 {
					res.violate(si, "valid-token-refused", "C16/valid-token-refused/two-requests-in-flight", "AUTHENTICATED", fmt.Sprintf("status %d", reps[qi].Code), "")
					return res
				}
			}
		case "present":
			if st.Login >= len(logins) {
				continue
			}
			l := logins[st.Login]
			u := l.u
			tok := l.token
			cookieName := d.sessionCookieName()
			kind := st.Token
			switch kind {
			case "valid":
			case "tracking":
				tok = l.tracking
			case "other-deployment":
				tok = l.other
			case "alg-none":
				parts := strings.Split(tok, ".")
				tok = b64url([]byte(`{"alg":"none","typ":"JWT"}`)) + "." + parts[1] + "."
			case "hs256-pem":
				tok = hs(tok, pubPEM)
			case "hs256-der":
				tok = hs(tok, pubDER)
			case "claims-edit":
				parts := strings.Split(tok, ".")
				cb, _ := base64.RawURLEncoding.DecodeString(parts[1])
				var m map[string]any
				_ = json.Unmarshal(cb, &m)
				m["sub"] = "root"
				m["exp"] = 4102444800
				nb, _ := json.Marshal(m)
				tok = parts[0] + "." + b64url(nb) + "." + parts[2]
			case "header-edit":
				parts := strings.Split(tok, ".")
				hb, _ := base64.RawURLEncoding.DecodeString(parts[0])
				var m map[string]any
				_ = json.Unmarshal(hb, &m)
				m["kid"] = "x"
				nb, _ := json.Marshal(m)
				tok = b64url(nb) + "." + parts[1] + "." + parts[2]
			case "truncated":
				tok = tok[:len(tok)-7]
			case "bitflip":
				parts := strings.Split(tok, ".")
				sig, _ := base64.RawURLEncoding.DecodeString(parts[2])
				sig[len(sig)/2] ^= 0x04
				tok = parts[0] + "." + parts[1] + "." + b64url(sig)
			case "empty":
				tok = ""
			case "garbage":
				tok = "not.a.token"
			case "mallory-signed":
				// identical claims, signed by a key the SP does not own (rsa2 / ec1 are never a target deployment's key)
				parts := strings.Split(tok, ".")
				other := *d
				if d.conf.EC {
					other.kp = ecKeys[1]
				} else {
					other.kp = rsaKeys[2]
				}
				tok = resignJWT(parts[0], parts[1], other.kp)
			case "wrong-cookie-name":
				cookieName = "token2"
			case "own-key-other-alg":
				parts := strings.Split(tok, ".")
				if d.conf.EC {
					kind = "mallory-signed" // a P-256 key signs ES256 only: no other algorithm to substitute
					tok = resignJWT(parts[0], parts[1], ecKeys[1])
					break
				}
				m := []jwt.SigningMethod{jwt.SigningMethodRS384, jwt.SigningMethodRS512, jwt.SigningMethodPS256}[int(st.Login+si)%3]
				hdr := b64url([]byte(`{"alg":"` + m.Alg() + `","typ":"JWT"}`))
				sig, err := m.Sign(hdr+"."+parts[1], d.kp.Key)
				if err != nil {
					panic(err)
				}
				tok = hdr + "." + parts[1] + "." + sig
			case "own-key-no-audience", "own-key-no-issuer", "own-key-no-audience-no-issuer":
				parts := strings.Split(tok, ".")
				cb, _ := base64.RawURLEncoding.DecodeString(parts[1])
				var m map[string]any
				_ = json.Unmarshal(cb, &m)
				if kind != "own-key-no-issuer" {
					delete(m, "aud")
				}
				if kind != "own-key-no-audience" {
					delete(m, "iss")
				}
				nb, _ := json.Marshal(m)
				tok = resignJWT(parts[0], b64url(nb), d.kp)
			case "own-key-no-marker", "own-key-tracking-claims":
				src := tok
				if kind == "own-key-tracking-claims" {
					src = l.tracking
				}
				parts := strings.Split(src, ".")
				if len(parts) != 3 {
					kind, tok = "garbage", "not.a.token"
					break
				}
				cb, _ := base64.RawURLEncoding.DecodeString(parts[1])
				var m map[string]any
				_ = json.Unmarshal(cb, &m)
				if kind == "own-key-no-marker" {
					delete(m, "saml-session")
				} else if a, ok := m["aud"].([]any); ok && len(a) == 1 {
					m["aud"] = a[0]
				}
				nb, _ := json.Marshal(m)
				tok = resignJWT(strings.Split(tok, ".")[0], b64url(nb), d.kp)
			}
			now := time.Now().Add(jump)
			age := now.Sub(l.mintedAt)
			// ---- oracle: authenticates iff this SP's session codec minted exactly this token no longer than `life` ago.
			// The end of the lifetime is where the property puts it: a token older than the lifetime yields no session, by however
			// little. On the other side a token's instants are whole seconds, so a session may end up to a second early (and, at a
			// clock set back, begin up to two seconds early - the don't-care there is as it was).
			expect := "NO_SESSION"
			if kind == "valid" {
				switch {
				case age > life || age < -2*time.Second:
					expect = "NO_SESSION"
				case cookieLife < life && age > cookieLife-2*time.Second:
					expect = "DONT_CARE" // the browser would have dropped the cookie already; the token itself is still inside the session lifetime
				case age >= 0 && age <= life-time.Second:
					expect = "AUTHENTICATED"
				default:
					expect = "DONT_CARE"
				}
				if d := age - life; d > -3*time.Second && d < 3*time.Second {
					res.probe("valid-token-within-3s-of-the-end-of-its-lifetime")
					if d > 0 && d < time.Second {
						res.probe("valid-token-less-than-a-second-older-than-its-lifetime")
						if l.mintedAt.Nanosecond() != 0 || life%time.Second != 0 {
							res.probe("valid-token-less-than-a-second-older-than-its-lifetime/lifetime-ends-inside-a-second")
						}
					}
					if d <= -time.Second && d > -2*time.Second {
						res.probe("valid-token-between-one-and-two-seconds-younger-than-its-lifetime")
					}
				}
			}
			if kind == "other-deployment" && l.other == l.token {
				expect = "DONT_CARE"
			}
			var cookies []*http.Cookie
			if tok != "" {
				cookies = []*http.Cookie{{Name: cookieName, Value: tok}}
			}
			nestedPath := strings.HasPrefix(st.Path, "/nested/")
			if nestedPath {
				// the outer deployment is satisfied by its own genuine session cookie; whether the inner (target)
				// deployment's handler runs must still depend only on the target's own token
				outerName := deploys[1].sessionCookieName()
				if outerName != cookieName || tok == "" {
					cookies = append(cookies, &http.Cookie{Name: outerName, Value: l.other})
				} else {
					nestedPath = false // both deployments read the same cookie name: the outer one cannot be satisfied separately
					st.Path = "/page"
				}
			}
			hitsBefore, gatedBefore := len(d.hits)+len(d.nested), len(d.gated)
			var rep *reply
			reqPath, where, whereDetail := st.Path, "", ""
			if strings.HasPrefix(reqPath, c16SLOPath) {
				where, whereDetail = "/at-the-advertised-logout-path", "the request goes to the application's logout endpoint, behind RequireAccount at the single-logout path the SP advertises"
				if sloPath == "" {
					continue
				}
				reqPath = sloPath + strings.TrimPrefix(reqPath, c16SLOPath)
				res.probe("path:the-logout-endpoint-the-sp-advertises")
			}
			var vgate *tokGate
			if strings.HasPrefix(st.Path, "/vgate") {
				gi, err := strconv.Atoi(strings.TrimSuffix(strings.TrimPrefix(st.Path, "/vgate"), "/x"))
				if err != nil || gi < 0 || gi >= len(k.Gates) {
					continue
				}
				vgate = &k.Gates[gi]
			}
			method, hdr := "GET", http.Header{}
			if st.Method != "" {
				method = st.Method
				res.probe("request-method:" + method)
			}
			if st.Preflight {
				hdr.Set("Origin", "https://app.example.org")
				hdr.Set("Access-Control-Request-Method", "POST")
				hdr.Set("Access-Control-Request-Headers", "content-type")
				res.probe("cors-preflight-headers")
			}
			at(jump, func() { rep = deliverH(d.handler, method, d.base+reqPath, "", "", cookies, hdr) })
			if rep.Panic != nil {
				res.Excluded = "panic (reported under C09)"
				return res
			}
			gatedPath := strings.HasPrefix(st.Path, "/gated/") || strings.HasPrefix(st.Path, "/gatedempty/") || vgate != nil
			ran := len(d.hits)+len(d.nested) > hitsBefore || len(d.gated) > gatedBefore
			authenticated := ran || (gatedPath && rep.Code == http.StatusForbidden && len(rep.Cookies) == 0 && rep.Header.Get("Location") == "")
			observed := "NO_SESSION"
			if authenticated {
				observed = "AUTHENTICATED"
			}
			res.logf("step %d present %s of login %d (user %d) at %s age-class=%s -> expect %s observed %s (status %d)", si, kind, st.Login, l.user, st.Path, ageClass(age, life), expect, observed, rep.Code)
			if kind != "valid" {
				res.fire("token:" + kind)
				res.Nontrivial = true
			} else if ageClass(age, life) != "inside" {
				res.fire("clock:" + ageClass(age, life))
				res.Nontrivial = true
			}
			switch expect {
			case "DONT_CARE":
				res.dontcare("token-age-within-jwt-granularity")
				continue
			case "NO_SESSION":
				if ran || (gatedPath && authenticated) {
					if kind == "valid" && age > life {
						whereDetail = strings.TrimPrefix(whereDetail+"; ", "; ") + fmt.Sprintf("the token was issued %dms ago (%dms into a second), the session lifetime is %dms", age.Milliseconds(), l.mintedAt.Nanosecond()/1_000_000, life.Milliseconds())
					}
					res.violate(si, "foreign-or-stale-token-authenticates", "C16/authenticated/"+kind+"/"+ageClass(age, life)+where, "NO_SESSION", observed, whereDetail)
					return res
				}
				continue
			}
			// expect AUTHENTICATED
			if !authenticated {
				res.violate(si, "valid-token-refused", "C16/valid-token-refused", "AUTHENTICATED", fmt.Sprintf("status %d", rep.Code), "")
				return res
			}
			wantAdmit := false
			for _, v := range u.expectedAttrs()["role"] {
				if v == "admin" {
					wantAdmit = true
				}
			}
			if strings.HasPrefix(st.Path, "/gatedempty/") {
				// this gate asks for the attribute dept to carry the empty string as a value: an attribute that is not there carries nothing
				wantAdmit = false
				for _, v := range u.expectedAttrs()["dept"] {
					if v == "" {
						wantAdmit = true
					}
				}
			}
			gateDetail := ""
			if vgate != nil {
				// the gate admits iff the attribute it names carries the required value: one of its values is that string
				wantAdmit = false
				carried := u.expectedAttrs()[vgate.Attr]
				for _, v := range carried {
					if v == vgate.Value {
						wantAdmit = true
					}
				}
				gateDetail = fmt.Sprintf("the gate requires %s to carry %q; the session's %s carries %q", vgate.Attr, vgate.Value, vgate.Attr, carried)
				res.probe("value-gate:presented")
				if strings.ContainsAny(vgate.Value, ",;|/ =") {
					res.probe("value-gate:required-value-contains-a-separator")
					if !wantAdmit && len(carried) > 0 {
						res.probe("value-gate:required-value-contains-a-separator/session-carries-other-values")
					}
				}
				res.probe(fmt.Sprintf("value-gate:expect-admit=%v", wantAdmit))
				res.logf("step %d   %s -> expect admit=%v", si, gateDetail, wantAdmit)
			}
			if gatedPath {
				admitted := len(d.gated) > gatedBefore
				if admitted != wantAdmit {
					res.violate(si, "attribute-gate", "C16/attribute-gate", fmt.Sprintf("admit=%v", wantAdmit), fmt.Sprintf("admit=%v", admitted), gateDetail)
					return res
				}
				if !admitted {
					continue
				}
			}
			var h appHit
			switch {
			case gatedPath:
				h = d.gated[len(d.gated)-1]
			case nestedPath:
				h = d.nested[len(d.nested)-1]
			default:
				h = d.hits[len(d.hits)-1]
			}
			wantSub := u.NameID
			got := map[string][]string{}
			for k, v := range h.Attrs {
				if k != "SessionIndex" { // taken from the AuthnStatement; neither required nor forbidden by the statement
					got[k] = v
				}
			}
			if h.Subject != wantSub || !sameAttrs(got, u.expectedAttrs()) {
				res.violate(si, "identity-altered", "C16/identity-altered", fmt.Sprintf("subject %q attrs %v", wantSub, u.expectedAttrs()), fmt.Sprintf("subject %q attrs %v", h.Subject, got), "")
				return res
			}
		}
	}
	res.SimMillis = time.Since(begin).Milliseconds()
	return res
}

func ageClass(age, life time.Duration) string {
	switch {
	case age < -2*time.Second:
		return "not-yet-valid"
	case age > life:
		return "expired"
	case age > life-time.Second && age >= 0:
		return "edge"
	case age < 2*time.Second:
		return "just-minted"
	}
	return "inside"
}

func simplifyTokens(p *Plan) []*Plan {
	var out []*Plan
	k := decode[tokKnobs](p.Knobs)
	if k.Deploys[0].CookieName != "" || k.Deploys[0].EC {
		c := p.Clone()
		k2 := decode[tokKnobs](p.Knobs)
		k2.Deploys[0].CookieName = ""
		if k2.Deploys[0].EC {
			k2.Deploys[0].EC, k2.Deploys[1].EC = false, false
			k2.Deploys[0].KeyIdx, k2.Deploys[1].KeyIdx = 1, 3
			if k2.SameKey {
				k2.Deploys[1].KeyIdx = 1
			}
		}
		c.Knobs = mustJSON(k2)
		out = append(out, c)
	}
	for i, raw := range p.Steps {
		st := decode[tokStep](raw)
		if st.Kind == "present" && st.Path != "/page" {
			c := p.Clone()
			s2 := st
			s2.Path = "/page"
			c.Steps[i] = mustJSON(s2)
			out = append(out, c)
		}
		if st.Kind == "login" && st.User != 0 {
			c := p.Clone()
			s2 := st
			s2.User = 0
			c.Steps[i] = mustJSON(s2)
			out = append(out, c)
		}
	}
	return out
}

func init() {
	register(&Profile{
		ID: "C16", Name: "tokens", Level: "exploration",
		Rule: "each run: real logins through the middleware (users with friendly-named, plain-named, repeated attributes, absent NameID; RSA/ECDSA SP key; custom cookie name and session lifetime) followed by 3-10 presentations to RequireAccount / RequireAttribute handlers of: the valid session token at clock positions around mint+lifetime and after a backward clock jump, the same SP's tracking token, another deployment's session token (other key, or same key and other URL), alg=none, HS256 keyed with the public key (PEM/DER), edited claims/header, truncated, bit-flipped, empty, garbage, identical claims signed by a foreign key, wrong cookie name; non-trivial = at least one presentation of a non-valid token or of the valid token outside the comfortable inside of its lifetime; distinct = distinct abstract log; a /nested/ route puts the other deployment's RequireAccount in front of the target's; half of the runs mount one or two further attribute gates whose required value is an ordinary string with punctuation or blanks in it (an organisation's name, a group DN, ...) while logins carry that attribute with values derived from the required one (itself, a piece cut at a separator, a prefix, a suffix, another spelling, more appended), admit <=> one carried value is the required string; 12% of the presentations go to the application's own logout endpoint, mounted behind RequireAccount at the single-logout path the SP advertises (with and without SAMLRequest/SAMLResponse parameters); users include assertions with SessionNotOnOrAfter ten hours out, attributes repeated non-adjacently and across two statements; the sibling deployment sharing the key may differ in audience only or issuer only; logins happen at drawn milliseconds into a second, lifetimes include ones that are no whole number of seconds (1.5 s, 2.5 s, 150.5 s, 756.4 s), and the valid token is presented at drawn distances (1 ms - 2.5 s either side) from mint+lifetime",
		Gen:  genTokens, Exec: execTokens, Simplify: simplifyTokens,
		RunsQuick: 3000, RunsThorough: 300000,
		Assumptions: []string{"a token is 'minted by this SP' iff it is exactly the cookie value the deployment set at a login (harness bookkeeping)", "a token older than the session lifetime yields no session, to the millisecond; the last second of the lifetime and +-2 s around mint at a clock set back are a declared don't-care (JWT instants are whole seconds)", "the default session lifetime is one hour (documented default); custom lifetimes are set through the public MaxAge fields", "the SessionIndex entry the codec adds to the attribute map is ignored"},
		Components: map[string][]string{
			"real": {"samlsp.Middleware.RequireAccount", "samlsp.RequireAttribute", "CookieSessionProvider + JWTSessionCodec", "JWTTrackedRequestCodec", "golang-jwt", "full login through ServeACS"},
			"stub": {"foreign IdP", "token-presenting party (Mallory)", "clock (bubble + jump offset)"},
		},
	})
}
