package samlsim

import (
	"bytes"
	"compress/flate"
	"crypto/sha256"
	"encoding/base64"
	"fmt"
	"math"
	"net/http"
	"net/http/httptest"
	"net/url"
	"runtime"
	"sort"
	"strings"
	"testing"
	"time"

	"github.com/beevik/etree"
	"github.com/crewjam/saml"
	dsig "github.com/russellhaering/goxmldsig"
)

// C18 — logout responses are valid only if IdP-signed, fresh and addressed to this SP
// (profile `logout`).
//
// World: one foreign IdP stub (library schema type saml.LogoutResponse rendered with
// .Element(), enveloped signature by goxmldsig), Mallory on the wire (edits after
// signing), the network (delivery delay on the bubble clock), and one real
// saml.ServiceProvider reached through its three logout-response entry points.
// validateLogoutResponse reads time.Now() (the bubble clock) directly, so the clock
// dimension is the delivery delay alone; no per-node skew is applied.
//
// The oracle is the statement: nil error <=> (well-formed samlp:LogoutResponse in the
// encoding of the entry point) AND (enveloped signature, child of the root, verifying
// under a trusted IdP certificate over the document as delivered) AND Destination = SP
// logout URL AND Issuer = configured IdP entity ID AND age <= MaxIssueDelay AND status
// Success. Everything else: non-nil error, never a panic (the statement says "every
// other input yields an error", so totality on this path belongs to C18).

// ---------------------------------------------------------------- plan types

type c18Knobs struct {
	MaxIssueDelayMs int64  `json:"MaxIssueDelay_ms"`
	MaxClockSkewMs  int64  `json:"MaxClockSkew_ms"`
	Trust           string `json:"trust"`                               // md1 | md2 | md1+enc | pinned | fingerprint | old+md1 (an expired certificate listed first) | ec+md1 (an ECDSA certificate listed first)
	Verifier        bool   `json:"custom_signature_verifier,omitempty"` // the application installs a SignatureVerifier (one that validates exactly like the library)
	VerifierLatMs   int64  `json:"verifier_latency_ms,omitempty"`       // simulated time the application's verifier takes to answer (one that consults a key service); the verdict does not depend on it
	UseAttr         string `json:"use_attr"`                            // KeyDescriptor use of signing certs: "signing" | ""
	SPBase          string `json:"sp_base"`
	IDPEntity       string `json:"idp_entity"`
}

// c18Spec is what the foreign IdP signs.
type c18Spec struct {
	Root         string      `json:"root,omitempty"` // "" = samlp:LogoutResponse | LogoutRequest | Response | wrong-ns | no-ns
	ID           string      `json:"id"`
	InResponseTo string      `json:"irt,omitempty"`
	IssueMs      int64       `json:"issue_ms"`               // relative to the issuing moment
	IssueMode    string      `json:"issue_mode,omitempty"`   // "" | absent | empty | garbage | ancient-wrap (delivery time - 2^64 ns - 30 s: where 64-bit nanosecond arithmetic wraps round to "30 s ago") | year-1700 | year-1000 | year-0001
	IssueRefMs   int64       `json:"issue_ref_ms,omitempty"` // ancient-wrap: the delivery delay the instant is computed against
	TimeForm     int         `json:"time_form,omitempty"`
	Destination  *string     `json:"destination"`             // nil: attribute absent
	Issuer       *string     `json:"issuer"`                  // nil: element absent
	IssuerFormat string      `json:"issuer_format,omitempty"` // "": nameid-format:entity; the Format an Issuer element carries is not a second name for anybody
	IssuerSplit  int         `json:"issuer_split,omitempty"`  // >0: an XML comment is placed inside the Issuer text at this offset (text content unchanged)
	Status       *string     `json:"status"`                  // nil: Status element absent
	StatusNested string      `json:"status_nested,omitempty"`
	NoStatusCode bool        `json:"no_status_code,omitempty"` // Status element without StatusCode
	StatusMsg    *string     `json:"status_message,omitempty"` // samlp:StatusMessage inside Status (explains, decides nothing)
	StatusDetail string      `json:"status_detail,omitempty"`  // samlp:StatusDetail inside Status: "" none | empty | one | two (child elements of the IdP's own namespace)
	SignKey      int         `json:"sign_key"`                 // index into rsaKeys; -1: unsigned
	SigMethod    string      `json:"sig_method,omitempty"`
	SigPlace     string      `json:"sig_place,omitempty"`      // "" = after Issuer (schema) | last | first
	Pretty       bool        `json:"pretty_printed,omitempty"` // line breaks and indentation between child elements, applied before signing
	Foreign      *c18Foreign `json:"foreign_child,omitempty"`  // an extension element of another namespace among the root's children, part of what the IdP signs
}

// c18Foreign is a child element of the root in a namespace that is neither SAML's nor XML-DSig's, whose local name is one the
// SP's checks look for. It is not a signature, an issuer or a status of the response: it only shares their local names.
type c18Foreign struct {
	Name   string `json:"name"`             // local name: Signature | Issuer | Status | KeyInfo
	Inner  string `json:"inner,omitempty"`  // "" empty | text | keyinfo-text | keyinfo-keyvalue | keyinfo-cert (the trusted certificate) | right-issuer | success
	At     string `json:"at,omitempty"`     // "" last | first | before-sig | after-sig | after-issuer
	Prefix string `json:"prefix,omitempty"` // "" = x | ds (the prefix XML-DSig elements use, bound to the foreign namespace on this element) | none (default namespace declared on the element)
}

// c18Op is one edit by Mallory on the signed document in flight.
type c18Op struct {
	Op  string `json:"op"`
	Arg string `json:"arg,omitempty"`
	Val string `json:"val,omitempty"`
	Ms  int64  `json:"ms,omitempty"`
	// add-foreign-child: the element added
	Foreign *c18Foreign `json:"foreign,omitempty"`
}

// c18Beside is content placed beside the root element in flight, at the top level of the byte string. White space, comments,
// processing instructions (and an XML declaration in front of everything) are what XML admits there (production 27, Misc): the document
// is the same document. Another element or text there and the byte string is not a well-formed document at all.
type c18Beside struct {
	At   string `json:"at"`   // before | after
	Kind string `json:"kind"` // whitespace | comment | pi | xml-decl (before only, put first) | element | failure-response | right-response | text
}

func (b c18Beside) legal() bool {
	switch b.Kind {
	case "whitespace", "comment", "pi", "xml-decl":
		return true
	}
	return false
}

// c18Hit is one byte-level corruption: position in parts per million of the document length.
type c18Hit struct {
	PosPPM int    `json:"pos_ppm"`
	Kind   string `json:"kind"` // set | del | ins
	Byte   byte   `json:"byte"`
}

type c18Step struct {
	Kind        string      `json:"kind"`  // deliver
	Entry       string      `json:"entry"` // form | redirect | req-get | req-post
	DelayMs     int64       `json:"delay_ms"`
	Shape       string      `json:"shape"` // logout-response | one of the malformed shapes
	BombMB      int         `json:"bomb_mb,omitempty"`
	Resp        *c18Spec    `json:"response,omitempty"`
	Wire        []c18Op     `json:"wire,omitempty"`
	Encoding    string      `json:"encoding,omitempty"`    // "" proper | swap | trunc:<n> | badchar
	Noise       []c18Hit    `json:"noise,omitempty"`       // shape noise: byte-level damage in flight
	Beside      []c18Beside `json:"beside_root,omitempty"` // content put before / after the root element in flight (top level of the byte string)
	RelayState  string      `json:"relay_state,omitempty"`
	QuerySig    bool        `json:"query_sig,omitempty"`                       // detached redirect-binding signature parameters present (never sufficient)
	URLFromDest bool        `json:"request_url_follows_destination,omitempty"` // req-get / req-post: the request target is the absolute URL the delivered document names as Destination
	Intent      []string    `json:"intent"`                                    // generator's labels (informational, logged)
}

const (
	c18OtherSP     = "https://other-sp.example.net"
	c18OtherTenant = "https://idp.example.com/tenant-b/metadata"
	c18FPAlg       = "http://www.w3.org/2001/04/xmlenc#sha256"
	c18ProtoNS     = "urn:oasis:names:tc:SAML:2.0:protocol"
	c18DsigNS      = "http://www.w3.org/2000/09/xmldsig#"
	c18VendorNS    = "urn:example:vendor-extension"
)

func c18SLO(k c18Knobs) string { return k.SPBase + "/saml/slo" }
func c18ACS(k c18Knobs) string { return k.SPBase + "/saml/acs" }

// ---------------------------------------------------------------- generator

func c18Margin(g *Rng, tol int64, cls string) int64 {
	switch cls {
	case "far-in":
		return Pick(g, int64(1_000), 10_000, 3_600_000, 86_400_000) // may exceed tol: IssueInstant in the future
	case "in+1ms":
		return 1
	case "half-in":
		if tol/2 > 0 {
			return tol / 2
		}
		return 1
	case "edge":
		return 0
	case "out-1ms":
		return -1
	case "half-out":
		if tol/2 > 0 {
			return -tol / 2
		}
		return -1
	case "x10-in": // just inside ten times the tolerance
		return -(9*tol - 1)
	default: // far-out
		return -Pick(g, int64(10_000), 3_600_000, 86_400_000*365)
	}
}

func genLogout(g *Rng, tier string) *Plan {
	k := c18Knobs{
		MaxIssueDelayMs: Pick(g, int64(1000), 7000, 90_000, 660_000, 7_200_000),
		MaxClockSkewMs:  Pick(g, int64(0), 180_000, 1_020_000),
		Trust:           []string{"md1", "md2", "md1+enc", "pinned", "fingerprint", "old+md1", "ec+md1"}[g.PickW(26, 26, 12, 14, 10, 6, 6)],
		Verifier:        g.Bool(0.15),
		UseAttr:         Pick(g, "signing", "signing", ""),
		SPBase:          Pick(g, "https://sp.example.com", "https://sp.example.com", "https://sp.example.com:8443", "http://localhost:8000"),
		IDPEntity:       Pick(g, "https://idp.example.com/metadata", "https://idp.example.com/metadata", "urn:example:idp"),
	}
	if k.Verifier {
		// the application's verifier may take its time (it asks a key service, an HSM): simulated time passes inside the validation
		k.VerifierLatMs = Pick(g, int64(0), 0, 20, 900, 4_000, 12_000, 45_000)
	}
	p := &Plan{Knobs: mustJSON(k)}
	n := 1 + g.PickW(5, 3, 2)
	for i := 0; i < n; i++ {
		p.Steps = append(p.Steps, mustJSON(c18GenStep(g, k, i, tier)))
	}
	return p
}

func c18GenStep(g *Rng, k c18Knobs, i int, tier string) c18Step {
	st := c18Step{Kind: "deliver", Entry: Pick(g, "form", "redirect", "req-get", "req-post")}
	st.URLFromDest = g.Bool(0.4)
	st.DelayMs = Pick(g, int64(0), 1, 500, 5000, 60_000, 600_000, 7_000_000) + g.Int63n(1000)
	if g.Bool(0.3) {
		st.RelayState = Pick(g, "rs", "a b&c=d", "https://sp.example.com/after")
	}

	// ---- malformed shapes (totality): about one delivery in ten
	if g.Bool(0.10) {
		bombW := 2
		if tier == "thorough" {
			bombW = 1
		}
		shapes := []string{"rootless-comment", "empty", "whitespace", "xml-decl-only", "pi-only", "non-xml-text", "binary", "truncated-xml", "bad-base64", "truncated-base64", "wrong-encoding", "unclosed-root", "bomb", "noise"}
		st.Shape = shapes[g.PickW(12, 10, 5, 6, 4, 6, 6, 10, 8, 10, 10, 5, bombW, 16)]
		st.Intent = []string{"malformed:" + st.Shape}
		switch st.Shape {
		case "bomb":
			if st.Entry == "form" {
				st.Entry = "redirect"
			}
			if st.Entry == "req-post" {
				st.Entry = "req-get"
			}
			st.BombMB = Pick(g, 50, 100, 300)
		case "truncated-xml", "truncated-base64", "wrong-encoding", "bad-base64", "noise":
			// start from a genuinely valid response so that only the damage stands in the way
			spec := c18ValidSpec(g, k, i, st.DelayMs)
			st.Resp = &spec
			switch st.Shape {
			case "truncated-base64":
				st.Encoding = fmt.Sprintf("trunc:%d", Pick(g, 1, 2, 3, 4, 8, 64))
			case "wrong-encoding":
				st.Encoding = "swap"
			case "bad-base64":
				st.Encoding = "badchar"
			case "noise":
				for n := 1 + g.PickW(6, 3, 1); n > 0; n-- {
					st.Noise = append(st.Noise, c18Hit{PosPPM: g.Intn(1_000_000), Kind: []string{"set", "del", "ins"}[g.PickW(6, 2, 2)],
						Byte: Pick(g, byte('<'), '>', '"', '&', ';', 'A', 'z', '0', ' ', 0x00, 0xff, '/', ':', '=', '-', ']')})
				}
			}
		}
		return st
	}

	st.Shape = "logout-response"
	spec := c18ValidSpec(g, k, i, st.DelayMs)
	if st.Entry == "req-get" && g.Bool(0.15) {
		st.QuerySig = true
	}
	nd := g.PickW(22, 50, 18, 7, 3)
	for d := 0; d < nd; d++ {
		dim := []string{"signature", "destination", "issuer", "freshness", "status", "root", "beside"}[g.PickW(34, 16, 14, 14, 13, 3, 6)]
		c18Defect(g, k, &st, &spec, dim)
	}
	if nd == 0 {
		st.Intent = append(st.Intent, "valid")
		if g.Bool(0.06) {
			// exact edge of the freshness window: declared don't-care
			spec.IssueMs = st.DelayMs - k.MaxIssueDelayMs
			st.Intent = append(st.Intent, "freshness:edge")
		}
	}
	pKeyInfo := 0.08
	if g.Bool(0.05) {
		// benign: the IdP's response carries an extension element of its own namespace among the root's children, and signs it with the rest
		spec.Foreign = c18GenForeign(g, true)
		st.Intent = append(st.Intent, "benign:foreign-namesake-signed:"+spec.Foreign.label())
		pKeyInfo = 0.4 // ... often together with a Signature that does not name its certificate
	}
	if g.Bool(pKeyInfo) {
		// benign: the certificate is dropped from KeyInfo in flight (KeyInfo is not signed content)
		op := Pick(g, "keyinfo-none", "keyinfo-keyvalue", "keyinfo-add-cert", "keyinfo-x509ref", "keyinfo-x509ref", "signature-object-rebinds-prefix", "signature-object-rebinds-prefix")
		if op == "keyinfo-add-cert" {
			st.Wire = append(st.Wire, c18Op{Op: op, Arg: "4", Val: Pick(g, "after", "before")})
		} else if op == "keyinfo-x509ref" {
			st.Wire = append(st.Wire, c18Op{Op: op, Val: Pick(g, "issuer-serial", "subject", "ski")})
		} else {
			st.Wire = append(st.Wire, c18Op{Op: op})
		}
		st.Intent = append(st.Intent, "benign:"+op)
	}
	if g.Bool(0.12) {
		// benign: a namespace declaration nobody uses is added to the root start tag in flight (exclusive canonicalisation leaves
		// unused declarations out of the signed octets: the signature stands). Its prefix happens to be the name of an attribute
		// the checks read; its value is what that attribute would need to say - or must not say.
		slo := c18SLO(k)
		switch g.Intn(5) {
		case 0:
			st.Wire = append(st.Wire, c18Op{Op: "declare-unused-ns", Arg: "Destination", Val: slo})
		case 1:
			st.Wire = append(st.Wire, c18Op{Op: "declare-unused-ns", Arg: "Destination", Val: c18OtherSP + "/saml/slo"})
		case 2:
			st.Wire = append(st.Wire, c18Op{Op: "declare-unused-ns", Arg: "IssueInstant", Val: "@delivery"})
		case 3:
			st.Wire = append(st.Wire, c18Op{Op: "declare-unused-ns", Arg: "IssueInstant", Val: "1999-01-01T00:00:00Z"})
		default:
			st.Wire = append(st.Wire, c18Op{Op: "declare-unused-ns", Arg: Pick(g, "ID", "Version", "InResponseTo", "Value"), Val: "urn:example:unused"})
		}
		st.Intent = append(st.Intent, "benign:declare-unused-ns:"+st.Wire[len(st.Wire)-1].Arg)
	}
	if g.Bool(0.10) {
		// benign: what XML admits beside the root element (white space, comments, processing instructions; an XML declaration in
		// front) is put there in flight - a gateway's trace, a pretty-printer's line break. The document is the same document.
		decl := false
		for n := 1 + g.PickW(7, 3); n > 0; n-- {
			b := c18Beside{At: Pick(g, "before", "after", "after"), Kind: Pick(g, "whitespace", "comment", "pi")}
			if b.At == "before" && !decl && g.Bool(0.3) {
				b.Kind, decl = "xml-decl", true
			}
			st.Beside = append(st.Beside, b)
			st.Intent = append(st.Intent, "benign:beside-root:"+b.Kind+"@"+b.At)
		}
	}
	st.Resp = &spec
	return st
}

// c18ValidSpec draws a response that meets every clause of the statement at delivery
// time (delay is known to the generator), with benign variation.
func c18ValidSpec(g *Rng, k c18Knobs, i int, delay int64) c18Spec {
	mid := k.MaxIssueDelayMs
	cls := []string{"far-in", "in+1ms", "half-in"}[g.PickW(60, 25, 15)]
	m := c18Margin(g, mid, cls)
	s := c18Spec{ID: fmt.Sprintf("id-lr-%d", i), IssueMs: delay - mid + m, TimeForm: g.Intn(7),
		Destination: sp(c18SLO(k)), Issuer: sp(k.IDPEntity), Status: sp(saml.StatusSuccess), SignKey: 0}
	if g.Bool(0.7) {
		s.InResponseTo = "id-logout-req"
	}
	if k.Trust == "md2" && g.Bool(0.4) {
		s.SignKey = 1
	}
	s.SigMethod = []string{"", dsig.RSASHA1SignatureMethod, dsig.RSASHA512SignatureMethod}[g.PickW(8, 1, 1)]
	s.SigPlace = []string{"", "last", "first"}[g.PickW(6, 3, 1)]
	if g.Bool(0.1) {
		s.StatusNested = "urn:oasis:names:tc:SAML:2.0:status:PartialLogout"
	}
	if g.Bool(0.05) {
		s.IssuerSplit = 1 + g.Intn(len(k.IDPEntity)-1) // a comment inside the text does not change the text
	}
	if g.Bool(0.06) {
		s.IssuerFormat = Pick(g, "urn:oasis:names:tc:SAML:1.1:nameid-format:unspecified", "urn:example:format:tenant") // the right name under an unusual Format
	}
	s.Pretty = g.Bool(0.2)
	if g.Bool(0.08) {
		s.StatusMsg = sp(Pick(g, "done", " all sessions ended ", ""))
	}
	if g.Bool(0.08) {
		s.StatusDetail = Pick(g, "empty", "one", "two")
	}
	return s
}

// c18GenForeign draws an extension element of a foreign namespace whose local name (and the local names inside it) are those the
// SP's checks look for in the response.
func c18GenForeign(g *Rng, signed bool) *c18Foreign {
	f := &c18Foreign{Name: []string{"Signature", "Issuer", "Status", "KeyInfo"}[g.PickW(60, 15, 15, 10)]}
	switch f.Name {
	case "Signature":
		f.Inner = []string{"", "text", "keyinfo-text", "keyinfo-keyvalue", "keyinfo-cert"}[g.PickW(10, 10, 35, 25, 20)]
	case "Issuer":
		f.Inner = "right-issuer"
	case "Status":
		f.Inner = "success"
	default:
		f.Inner = Pick(g, "text", "keyinfo-cert")
	}
	if signed {
		f.At = Pick(g, "first", "after-issuer", "after-issuer", "")
	} else {
		f.At = Pick(g, "first", "before-sig", "after-sig", "after-sig", "")
	}
	f.Prefix = []string{"", "ds", "none"}[g.PickW(6, 2, 2)]
	return f
}

func (f *c18Foreign) label() string {
	return fmt.Sprintf("%s(%s)@%s", f.Name, firstNonEmpty(f.Inner, "empty"), firstNonEmpty(f.At, "last"))
}

// c18Defect breaks one clause of the statement.
func c18Defect(g *Rng, k c18Knobs, st *c18Step, s *c18Spec, dim string) {
	slo := c18SLO(k)
	switch dim {
	case "signature":
		how := g.PickW(10, 10, 6, 5, 5, 5, 12, 10, 14, 4, 4, 4, 4, 12)
		switch how {
		case 13:
			// an element of another namespace that shares the local name of something the checks look for is added to the root in
			// flight (anybody can do that; the signed content changes). Half of the time the Signature no longer names a certificate either.
			if g.Bool(0.5) {
				st.Wire = append(st.Wire, c18Op{Op: Pick(g, "keyinfo-none", "keyinfo-keyvalue", "keyinfo-x509ref")})
			}
			f := c18GenForeign(g, false)
			st.Wire = append(st.Wire, c18Op{Op: "add-foreign-child", Foreign: f})
			st.Intent = append(st.Intent, "signature:foreign-namesake-added:"+f.label())
		case 0:
			s.SignKey = -1
			st.Intent = append(st.Intent, "signature:never-signed")
		case 1:
			s.SignKey = 2
			st.Intent = append(st.Intent, "signature:untrusted-key")
		case 2:
			s.SignKey = 3
			st.Intent = append(st.Intent, "signature:encryption-cert-key")
		case 3:
			if k.Trust == "md2" || (k.Trust == "pinned" && g.Bool(0.4)) {
				s.SignKey = 4
			} else {
				s.SignKey = 1 // under a pinned certificate: the key of the certificate the metadata lists
			}
			st.Intent = append(st.Intent, "signature:other-untrusted-key")
		case 4:
			s.SignKey = 2
			if g.Bool(0.5) {
				st.Wire = append(st.Wire, c18Op{Op: "keyinfo-cert", Arg: "0"})
				st.Intent = append(st.Intent, "signature:untrusted-key-naming-trusted-cert")
			} else {
				// the signer's own certificate stays; the trusted certificate rides along in the same KeyInfo
				st.Wire = append(st.Wire, c18Op{Op: "keyinfo-add-cert", Arg: "0", Val: Pick(g, "after", "before", "own-x509data")})
				st.Intent = append(st.Intent, "signature:untrusted-key-carrying-trusted-cert-too")
			}
		case 5:
			s.SignKey = 2
			st.Wire = append(st.Wire, c18Op{Op: Pick(g, "keyinfo-none", "keyinfo-keyvalue", "keyinfo-x509ref")})
			st.Intent = append(st.Intent, "signature:untrusted-key-no-cert")
		case 6:
			st.Wire = append(st.Wire, c18Op{Op: "strip-sig"})
			st.Intent = append(st.Intent, "signature:stripped")
		case 7:
			st.Wire = append(st.Wire, c18Op{Op: "move-sig", Arg: Pick(g, "status", "issuer", "wrapper", "status-code")})
			st.Intent = append(st.Intent, "signature:moved")
		case 8:
			// a field the IdP signed with a wrong value is rewritten on the wire to the right one:
			// every field is right as delivered, only the signature stands in the way
			switch g.Intn(5) {
			case 0:
				s.Destination = sp(Pick(g, c18OtherSP+"/saml/slo", c18ACS(k)))
				st.Wire = append(st.Wire, c18Op{Op: "set-attr", Arg: "Destination", Val: slo})
				st.Intent = append(st.Intent, "signature:destination-rewritten-to-this-sp")
			case 1:
				s.Issuer = sp(c18OtherTenant)
				st.Wire = append(st.Wire, c18Op{Op: "set-issuer", Val: k.IDPEntity})
				st.Intent = append(st.Intent, "signature:issuer-rewritten")
			case 2:
				s.Status = sp(saml.StatusRequester)
				st.Wire = append(st.Wire, c18Op{Op: "set-status", Val: saml.StatusSuccess})
				st.Intent = append(st.Intent, "signature:status-rewritten-to-success")
			case 3:
				fresh := s.IssueMs
				s.IssueMs = st.DelayMs - k.MaxIssueDelayMs + c18Margin(g, k.MaxIssueDelayMs, "far-out")
				st.Wire = append(st.Wire, c18Op{Op: "set-issue-instant", Ms: fresh})
				st.Intent = append(st.Intent, "signature:issue-instant-refreshed")
			default:
				st.Wire = append(st.Wire, c18Op{Op: "set-attr", Arg: Pick(g, "ID", "Consent", "InResponseTo", "Version"), Val: "id-edited"})
				st.Intent = append(st.Intent, "signature:unchecked-attribute-edited")
			}
		case 9:
			st.Wire = append(st.Wire, c18Op{Op: "add-child", Arg: Pick(g, "first", "last")})
			st.Intent = append(st.Intent, "signature:child-added")
		case 10:
			st.Wire = append(st.Wire, c18Op{Op: "add-sig", Arg: Pick(g, "empty", "copy")})
			st.Intent = append(st.Intent, "signature:second-signature")
		case 11:
			st.Wire = append(st.Wire, c18Op{Op: Pick(g, "corrupt-sigvalue", "corrupt-digest")})
			st.Intent = append(st.Intent, "signature:corrupted")
		default:
			// unsigned document carrying only detached query-string signature parameters
			s.SignKey = -1
			st.Entry = "req-get"
			st.QuerySig = true
			st.Intent = append(st.Intent, "signature:detached-only")
		}
	case "destination":
		how := g.Intn(14)
		var v *string
		lab := ""
		switch how {
		case 12, 13:
			// another host, whose name is the SP's behind a few more letters (ssh.example.com / tsp.example.com for sp.example.com)
			u := mustURL(slo)
			u.Host = Pick(g, "s", "t", "p", "h", "ss", "htt", "ps", "x") + u.Host
			if g.Bool(0.3) {
				u.Scheme = map[string]string{"https": "http", "http": "https"}[u.Scheme]
			}
			v, lab = sp(u.String()), "host-letters-prefixed"
		case 10, 11:
			// same scheme, host and path, another port (another service on that machine)
			u := mustURL(slo)
			if u.Port() == "" {
				u.Host = u.Hostname() + Pick(g, ":8443", ":9031", ":8080")
			} else if how == 10 {
				u.Host = u.Hostname()
			} else {
				u.Host = u.Hostname() + ":1" + u.Port()
			}
			v, lab = sp(u.String()), "other-port"
		case 0:
			v, lab = nil, "absent"
		case 1:
			v, lab = sp(""), "empty"
		case 2:
			v, lab = sp(c18ACS(k)), "acs-url"
		case 3:
			v, lab = sp(c18OtherSP+"/saml/slo"), "other-sp"
		case 4:
			v, lab = sp(slo+"/x"), "prefix-extended"
		case 5:
			v, lab = sp(slo[:len(slo)-1]), "truncated"
		case 6:
			v, lab = sp(k.SPBase), "base-only"
		case 7:
			v, lab = sp(slo+"?a=1"), "query-added"
		case 8:
			v, lab = sp(slo+"/"), "trailing-slash"
		default:
			v, lab = sp(strings.Replace(slo, "://", "://evil.", 1)), "host-prefixed"
		}
		if g.Bool(0.25) {
			// signed right, altered on the wire (signature and destination both fail)
			if v == nil {
				st.Wire = append(st.Wire, c18Op{Op: "remove-attr", Arg: "Destination"})
			} else {
				st.Wire = append(st.Wire, c18Op{Op: "set-attr", Arg: "Destination", Val: *v})
			}
			st.Intent = append(st.Intent, "destination:"+lab+"(on-wire)")
		} else {
			s.Destination = v
			st.Intent = append(st.Intent, "destination:"+lab)
		}
	case "issuer":
		how := g.Intn(9)
		var v *string
		lab := ""
		e := k.IDPEntity
		s.IssuerSplit = 0
		switch how {
		case 0, 1:
			v, lab = nil, "absent"
		case 2:
			v, lab = sp(""), "empty"
		case 3:
			v, lab = sp(c18OtherTenant), "other-tenant"
		case 4:
			v, lab = sp(e+"/"), "extended"
		case 5:
			v, lab = sp(e[:len(e)-1]), "truncated"
		case 6:
			v, lab = sp(strings.ToUpper(e)), "upper-case"
		case 7:
			v, lab = sp(c18SLO(k)), "sp-url"
		default:
			// <Issuer>entity-id<!-- -->.evil.example</Issuer>: the text content is the longer name
			v, lab = sp(e+".evil.example"), "comment-split-extended"
		}
		if v != nil && g.Bool(0.35) {
			s.IssuerFormat = Pick(g, "urn:oasis:names:tc:SAML:1.1:nameid-format:unspecified", "urn:oasis:names:tc:SAML:2.0:nameid-format:persistent", "urn:example:format:tenant")
			lab += "+format"
		}
		if strings.HasPrefix(lab, "comment-split-extended") {
			s.Issuer, s.IssuerSplit = v, len(e)
			st.Intent = append(st.Intent, "issuer:"+lab)
		} else if g.Bool(0.2) {
			if v == nil {
				st.Wire = append(st.Wire, c18Op{Op: "remove-issuer"})
			} else {
				st.Wire = append(st.Wire, c18Op{Op: "set-issuer", Val: *v})
			}
			st.Intent = append(st.Intent, "issuer:"+lab+"(on-wire)")
		} else {
			s.Issuer = v
			st.Intent = append(st.Intent, "issuer:"+lab)
		}
	case "freshness":
		how := g.PickW(30, 14, 14, 14, 8, 5, 5, 5, 5, 8)
		switch how {
		case 9:
			s.IssueMode = Pick(g, "ancient-wrap", "ancient-wrap", "year-1700", "year-1000", "year-0001")
			s.IssueRefMs = st.DelayMs
			st.Intent = append(st.Intent, "freshness:issue-instant-"+s.IssueMode)
		case 0, 1, 2, 3, 4:
			cls := []string{"out-1ms", "half-out", "far-out", "x10-in", "edge"}[how]
			s.IssueMs = st.DelayMs - k.MaxIssueDelayMs + c18Margin(g, k.MaxIssueDelayMs, cls)
			st.Intent = append(st.Intent, "freshness:"+cls)
		case 5:
			s.IssueMode = "absent"
			st.Intent = append(st.Intent, "freshness:issue-instant-absent")
		case 6:
			s.IssueMode = "empty"
			st.Intent = append(st.Intent, "freshness:issue-instant-empty")
		case 7:
			s.IssueMode = "garbage"
			st.Intent = append(st.Intent, "freshness:issue-instant-garbage")
		default:
			// signed fresh, re-dated on the wire to a stale instant
			st.Wire = append(st.Wire, c18Op{Op: "set-issue-instant", Ms: st.DelayMs - k.MaxIssueDelayMs + c18Margin(g, k.MaxIssueDelayMs, "far-out")})
			st.Intent = append(st.Intent, "freshness:far-out(on-wire)")
		}
	case "status":
		how := g.Intn(9)
		switch how {
		case 0:
			s.Status = nil
			st.Intent = append(st.Intent, "status:absent")
		case 1:
			s.Status = sp("")
			st.Intent = append(st.Intent, "status:empty-value")
		case 2:
			s.Status = sp(saml.StatusRequester)
			st.Intent = append(st.Intent, "status:requester")
		case 3:
			s.Status = sp(saml.StatusResponder)
			st.Intent = append(st.Intent, "status:responder")
		case 4:
			s.Status = sp(strings.ToLower(saml.StatusSuccess))
			st.Intent = append(st.Intent, "status:lower-case")
		case 5:
			s.Status = sp("Success")
			st.Intent = append(st.Intent, "status:suffix-only")
		case 6:
			s.Status = sp(saml.StatusRequester)
			s.StatusNested = saml.StatusSuccess
			st.Intent = append(st.Intent, "status:requester-with-nested-success")
		case 7:
			s.NoStatusCode = true
			st.Intent = append(st.Intent, "status:no-status-code")
		default:
			st.Wire = append(st.Wire, c18Op{Op: "set-status", Val: saml.StatusResponder})
			st.Intent = append(st.Intent, "status:responder(on-wire)")
		}
		if s.Status != nil {
			// an IdP that does not report success usually says why: a message, details in a vocabulary of its own
			if g.Bool(0.4) {
				s.StatusMsg = sp(Pick(g, "session not found", "logout failed at a session participant", ""))
				st.Intent = append(st.Intent, "status:+message")
			}
			if g.Bool(0.4) {
				s.StatusDetail = Pick(g, "empty", "one", "one", "two")
				st.Intent = append(st.Intent, "status:+detail-"+s.StatusDetail)
			}
		}
	case "root":
		s.Root = Pick(g, "LogoutRequest", "Response", "wrong-ns", "no-ns")
		st.Intent = append(st.Intent, "root:"+s.Root)
		if g.Bool(0.4) {
			// ... a message of another kind that the IdP did sign, and behind it a logout response that nobody signed
			st.Beside = append(st.Beside, c18Beside{At: "after", Kind: "right-response"})
			st.Intent = append(st.Intent, "beside-root:right-response@after")
		}
	case "beside":
		// the byte string holds more than one document's worth: another element, a logout response nobody signed (reporting failure, or
		// with every field right), or text, before or after the root element. Not a well-formed document, whatever the first element says.
		b := c18Beside{At: []string{"after", "before"}[g.PickW(7, 3)], Kind: []string{"element", "failure-response", "right-response", "text"}[g.PickW(3, 2, 3, 3)]}
		st.Beside = append(st.Beside, b)
		st.Intent = append(st.Intent, "beside-root:"+b.Kind+"@"+b.At)
	}
}

// ---------------------------------------------------------------- model (the statement)

type c18Model struct {
	k          c18Knobs
	shadowID   bool   // an unused namespace prefix called ID was declared on the root in flight
	wellFormed bool   // a samlp:LogoutResponse document in the encoding of the entry point
	malformed  string // why not
	dest       *string
	issuer     *string
	status     *string // top-level StatusCode Value; nil: no Status / no StatusCode
	issueMode  string
	issueMs    int64
	signer     int
	sigDirect  int // Signature elements that are children of the root
	sigMoved   bool
	edited     bool // the signed content as delivered differs from what was signed
	structural bool // elements were added, moved or removed after signing (never undone by a later op)
	signed     c18Content
	corruptSV  bool          // SignatureValue damaged
	corruptDV  bool          // DigestValue damaged
	keyInfo    string        // own | none | keyvalue | cert:<j>
	noDoc      bool          // the input is not built from a response document at all
	noise      bool          // byte-level damage at drawn positions: may or may not hit meaningful bytes
	effective  []bool        // per wire op: did it change the document
	foreign    []*c18Foreign // elements of a foreign namespace among the root's children (signed with the rest, or added in flight)
	besideRoot bool          // an element or text was put beside the root element in flight
}

// namesakeWithKeyInfo: a foreign element called Signature that has a child called KeyInfo naming no certificate is among the root's children.
func (m *c18Model) namesakeWithKeyInfo() bool {
	for _, f := range m.foreign {
		if f.Name == "Signature" && (f.Inner == "keyinfo-text" || f.Inner == "keyinfo-keyvalue") {
			return true
		}
	}
	return false
}

func c18Eq(a *string, b string) bool { return a != nil && *a == b }

func c18Same(a, b *string) bool {
	if a == nil || b == nil {
		return a == nil && b == nil
	}
	return *a == *b
}

// c18Content is the signed content of a response as far as Mallory's field edits can change it.
type c18Content struct {
	dest, issuer, status *string
	issueMode            string
	issueMs              int64
	attrs                [4]*string // ID, Version, InResponseTo, Consent
}

var c18AttrIdx = map[string]int{"ID": 0, "Version": 1, "InResponseTo": 2, "Consent": 3}

func (a c18Content) equal(b c18Content) bool {
	for i := range a.attrs {
		if !c18Same(a.attrs[i], b.attrs[i]) {
			return false
		}
	}
	return c18Same(a.dest, b.dest) && c18Same(a.issuer, b.issuer) && c18Same(a.status, b.status) && a.issueMode == b.issueMode && a.issueMs == b.issueMs
}

func (m *c18Model) content(attrs [4]*string) c18Content {
	return c18Content{dest: m.dest, issuer: m.issuer, status: m.status, issueMode: m.issueMode, issueMs: m.issueMs, attrs: attrs}
}

func c18Trusted(k c18Knobs, key int) bool {
	switch k.Trust {
	case "md2":
		return key == 0 || key == 1
	default: // md1, md1+enc (key 3 is published for encryption only), pinned (key 0 pinned), fingerprint (key 0)
		return key == 0
	}
}

// c18Run evaluates spec + wire ops abstractly. It decides which ops are effective
// (the builder applies exactly those) and what the document says as delivered.
func c18Run(k c18Knobs, st *c18Step) *c18Model {
	m := &c18Model{k: k, wellFormed: true, signer: -1, keyInfo: "own"}
	s := st.Resp
	switch st.Shape {
	case "logout-response":
	case "noise":
		m.noise = true
	case "truncated-base64", "wrong-encoding", "bad-base64":
		m.wellFormed, m.malformed = false, st.Shape
	case "truncated-xml":
		m.wellFormed, m.malformed = false, st.Shape
		if s == nil {
			m.noDoc = true
			return m
		}
	default:
		m.wellFormed, m.malformed, m.noDoc = false, st.Shape, true
		return m
	}
	if s == nil {
		m.wellFormed, m.malformed, m.noDoc = false, "no-document", true
		return m
	}
	if s.Root != "" {
		m.wellFormed, m.malformed = false, "root:"+s.Root
	}
	m.dest, m.issuer = s.Destination, s.Issuer
	if s.Status != nil && !s.NoStatusCode {
		m.status = s.Status
	}
	hasStatusCode := s.Status != nil && !s.NoStatusCode
	m.issueMode, m.issueMs = s.IssueMode, s.IssueMs
	m.signer = s.SignKey
	if s.SignKey >= 0 {
		m.sigDirect = 1
	}
	attrs := [4]*string{sp(s.ID), sp("2.0"), nil, nil}
	if s.InResponseTo != "" {
		attrs[2] = sp(s.InResponseTo)
	}
	m.signed = m.content(attrs)
	if s.Foreign != nil {
		// part of what the IdP signs; says nothing about any clause of the statement (it is neither the response's signature, nor its
		// issuer, nor its status: those are elements of the XML-DSig and SAML namespaces)
		m.foreign = append(m.foreign, s.Foreign)
	}
	for _, op := range st.Wire {
		eff := false
		switch op.Op {
		case "strip-sig":
			if m.sigDirect > 0 {
				m.sigDirect, eff = 0, true
			}
		case "move-sig":
			if m.sigDirect == 1 {
				m.sigDirect, m.sigMoved, m.structural, eff = 0, true, true, true
			}
		case "set-attr":
			if op.Arg == "Destination" {
				if !c18Eq(m.dest, op.Val) {
					m.dest, eff = sp(op.Val), true
				}
			} else if i, ok := c18AttrIdx[op.Arg]; ok && !c18Eq(attrs[i], op.Val) {
				attrs[i], eff = sp(op.Val), true
			}
		case "declare-unused-ns":
			// nothing the statement speaks about changes: not the signed content, not an attribute of the response
			eff = true
			if op.Arg == "ID" {
				// the XML-DSig library (goxmldsig, a dependency) resolves the Reference by the first attribute called ID in any
				// namespace: a prefix of that name makes it miss the element and the response is refused - fail-closed, not ours to judge
				m.shadowID = true
			}
		case "remove-attr":
			if op.Arg == "Destination" && m.dest != nil {
				m.dest, eff = nil, true
			}
		case "set-issuer":
			if !c18Eq(m.issuer, op.Val) {
				if m.issuer == nil {
					m.structural = true // a new element is created
				}
				m.issuer, eff = sp(op.Val), true
			}
		case "remove-issuer":
			if m.issuer != nil {
				m.issuer, m.structural, eff = nil, true, true
			}
		case "set-status":
			if hasStatusCode && !c18Eq(m.status, op.Val) {
				m.status, eff = sp(op.Val), true
			}
		case "set-issue-instant":
			if m.issueMode != "" || m.issueMs != op.Ms {
				m.issueMode, m.issueMs, eff = "", op.Ms, true
			}
		case "add-child":
			m.structural, eff = true, true
		case "add-foreign-child":
			// not a Signature of the response (sigDirect counts XML-DSig elements); the signed content is no longer what was signed
			if op.Foreign != nil {
				m.foreign = append(m.foreign, op.Foreign)
				m.structural, eff = true, true
			}
		case "add-sig":
			m.sigDirect++
			m.structural, eff = true, true
		case "corrupt-sigvalue":
			if m.sigDirect == 1 && m.signer >= 0 && !m.corruptSV {
				m.corruptSV, eff = true, true
			}
		case "corrupt-digest":
			if m.sigDirect == 1 && m.signer >= 0 && !m.corruptDV {
				m.corruptDV, eff = true, true
			}
		case "signature-object-rebinds-prefix":
			// a ds:Object is added to the Signature element in flight (of a Signature's children the signature commits to SignedInfo and
			// SignatureValue only); inside it an element binds the prefix the root uses to another namespace - for itself, as XML scoping has it
			if m.sigDirect == 1 && m.signer >= 0 {
				eff = true
			}
		case "keyinfo-none", "keyinfo-keyvalue", "keyinfo-x509ref":
			if m.sigDirect == 1 && m.signer >= 0 && m.keyInfo != strings.TrimPrefix(op.Op, "keyinfo-") {
				m.keyInfo, eff = strings.TrimPrefix(op.Op, "keyinfo-"), true
			}
		case "keyinfo-add-cert":
			if m.sigDirect == 1 && m.signer >= 0 && m.keyInfo == "own" && op.Arg != fmt.Sprint(m.signer) {
				m.keyInfo, eff = "cert:+"+op.Arg, true
			}
		case "keyinfo-cert":
			if m.sigDirect == 1 && m.signer >= 0 && m.keyInfo == "own" && op.Arg != fmt.Sprint(m.signer) {
				m.keyInfo, eff = "cert:"+op.Arg, true
			}
		}
		m.effective = append(m.effective, eff)
	}
	m.edited = m.structural || !m.signed.equal(m.content(attrs))
	if st.Shape == "logout-response" {
		for _, b := range st.Beside {
			if !b.legal() {
				// an element or text beside the root: the byte string is not a well-formed XML document (production 1: prolog, ONE element, Misc*)
				m.wellFormed, m.besideRoot = false, true
				if m.malformed == "" {
					m.malformed = "content-beside-root"
				}
			}
		}
	}
	return m
}

const (
	c18OK = iota
	c18Open
	c18Bad
)

// sigClause: does the document as delivered carry an enveloped signature, child of the
// root, verifying under a trusted IdP certificate?
func (m *c18Model) sigClause() (int, string) {
	switch {
	case m.signer < 0 && m.sigDirect == 0:
		return c18Bad, "unsigned"
	case m.sigMoved:
		return c18Bad, "signature-not-child-of-root"
	case m.sigDirect == 0:
		return c18Bad, "signature-stripped"
	case m.sigDirect > 1 || m.signer < 0:
		return c18Bad, "foreign-signature-element"
	case m.edited:
		return c18Bad, "edited-after-signing"
	case m.corruptSV || m.corruptDV:
		return c18Bad, "signature-corrupted"
	case !c18Trusted(m.k, m.signer):
		// a pinned certificate is THE IdP certificate ("IDPCertificate to use as idp public certificate"): what the metadata
		// lists beside it is not trusted (the same reading as in the C01 profile)
		return c18Bad, "untrusted-key"
	}
	// signed by a trusted key, intact
	switch {
	case strings.HasPrefix(m.keyInfo, "cert:"):
		return c18Open, "keyinfo-names-another-certificate"
	case m.keyInfo != "own" && m.k.Trust == "fingerprint":
		return c18Open, "fingerprint-trust-without-certificate"
	case m.keyInfo != "own" && m.k.Verifier:
		// how a signature that names no certificate is matched to one of several trusted certificates is then the application's verifier's business
		return c18Open, "custom-verifier-without-certificate"
	}
	return c18OK, ""
}

func (m *c18Model) freshClause(now int64) (int, string) {
	if m.issueMode != "" {
		return c18Bad, "issue-instant-" + m.issueMode
	}
	age := now - m.issueMs
	switch {
	case age < m.k.MaxIssueDelayMs:
		return c18OK, ""
	case age == m.k.MaxIssueDelayMs:
		return c18Open, "age-equals-MaxIssueDelay"
	}
	return c18Bad, "expired"
}

// verdict returns expectation, the violated clauses (sorted), and open regions.
func (m *c18Model) verdict(now int64) (expect string, bad []string, open []string) {
	if !m.wellFormed {
		bad = append(bad, "malformed")
	}
	if m.noDoc {
		return "REJECT", bad, nil
	}
	if c, why := m.sigClause(); c == c18Bad {
		bad = append(bad, "signature")
	} else if c == c18Open {
		open = append(open, why)
	}
	if !c18Eq(m.dest, c18SLO(m.k)) {
		bad = append(bad, "destination")
	}
	if !c18Eq(m.issuer, m.k.IDPEntity) {
		bad = append(bad, "issuer")
	}
	c, why := m.freshClause(now)
	if lat := m.k.VerifierLatMs; m.k.Verifier && lat > 0 {
		// "no longer than MaxIssueDelay ago": ago from which instant between the call and its return, the statement does not say. While the
		// application's verifier takes its time the age grows; a response whose age passes the bound meanwhile is neither demanded nor forbidden.
		if c2, _ := m.freshClause(now + lat); c2 != c {
			c, why = c18Open, "age-passes-MaxIssueDelay-while-the-application-verifier-answers"
		}
	}
	if c == c18Bad {
		bad = append(bad, "freshness")
	} else if c == c18Open {
		open = append(open, why)
	}
	if !c18Eq(m.status, saml.StatusSuccess) {
		bad = append(bad, "status")
	}
	if m.noise {
		open = append(open, "byte-noise-on-a-valid-response")
	}
	if m.shadowID && m.signer >= 0 {
		open = append(open, "unused-namespace-prefix-named-like-the-id-attribute")
	}
	sort.Strings(bad)
	sort.Strings(open)
	switch {
	case len(bad) > 0:
		return "REJECT", bad, open
	case len(open) > 0:
		return "DONT_CARE", bad, open
	}
	return "VALID", nil, nil
}

// ---------------------------------------------------------------- foreign IdP + Mallory (builder)

// c18FindSig returns the first XML-DSig Signature among the children of root.
func c18FindSig(root *etree.Element) *etree.Element {
	for _, c := range root.ChildElements() {
		if c.Tag == "Signature" && c.NamespaceURI() == c18DsigNS {
			return c
		}
	}
	return nil
}

// c18ForeignElement renders f: every element in it belongs to the vendor namespace.
func c18ForeignElement(k c18Knobs, f *c18Foreign) *etree.Element {
	pfx := firstNonEmpty(f.Prefix, "x")
	q := func(local string) string { return pfx + ":" + local }
	var x *etree.Element
	if pfx == "none" {
		q = func(local string) string { return local }
		x = etree.NewElement(f.Name)
		x.CreateAttr("xmlns", c18VendorNS)
	} else {
		x = etree.NewElement(q(f.Name))
		x.CreateAttr("xmlns:"+pfx, c18VendorNS)
	}
	switch f.Inner {
	case "text":
		x.SetText("device-7")
	case "keyinfo-text":
		x.CreateElement(q("KeyInfo")).SetText("device-7")
	case "keyinfo-keyvalue":
		rk := x.CreateElement(q("KeyInfo")).CreateElement(q("KeyValue")).CreateElement(q("RSAKeyValue"))
		rk.CreateElement(q("Modulus")).SetText("AQAB")
		rk.CreateElement(q("Exponent")).SetText("AQAB")
	case "keyinfo-cert":
		host := x
		if f.Name != "KeyInfo" {
			host = x.CreateElement(q("KeyInfo"))
		}
		host.CreateElement(q("X509Data")).CreateElement(q("X509Certificate")).SetText(rsaKeys[0].CertB64())
	case "right-issuer":
		x.SetText(k.IDPEntity)
	case "success":
		x.CreateElement(q("StatusCode")).CreateAttr("Value", saml.StatusSuccess)
	}
	return x
}

// c18PlaceForeign inserts x among the children of root.
func c18PlaceForeign(root, x *etree.Element, at string) {
	idx := -1
	switch at {
	case "first":
		idx = 0
	case "before-sig":
		if sig := c18FindSig(root); sig != nil {
			idx = sig.Index()
		}
	case "after-sig":
		if sig := c18FindSig(root); sig != nil {
			idx = sig.Index() + 1
		}
	case "after-issuer":
		if is := c18Child(root, "Issuer"); is != nil {
			idx = is.Index() + 1
		}
	}
	if idx < 0 {
		root.AddChild(x)
	} else {
		root.InsertChildAt(idx, x)
	}
}

func c18Child(root *etree.Element, tag string) *etree.Element {
	for _, c := range root.ChildElements() {
		if c.Tag == tag && c.NamespaceURI() != c18VendorNS {
			return c
		}
	}
	return nil
}

func c18FlipB64(el *etree.Element) {
	if el == nil {
		return
	}
	t := el.Text()
	if t == "" {
		return
	}
	c := byte('A')
	if t[0] == 'A' {
		c = 'B'
	}
	el.SetText(string(c) + t[1:])
}

// c18Build renders, signs and (per the model's effective ops) edits the document.
func c18Build(k c18Knobs, st *c18Step, m *c18Model, t0 time.Time) []byte {
	s := st.Resp
	lr := &saml.LogoutResponse{ID: s.ID, InResponseTo: s.InResponseTo, Version: "2.0", IssueInstant: t0.Add(ms(s.IssueMs)).UTC()}
	if s.Destination != nil {
		lr.Destination = *s.Destination
	}
	if s.Issuer != nil {
		lr.Issuer = &saml.Issuer{Format: firstNonEmpty(s.IssuerFormat, "urn:oasis:names:tc:SAML:2.0:nameid-format:entity"), Value: *s.Issuer}
	}
	if s.Status != nil {
		lr.Status = saml.Status{StatusCode: saml.StatusCode{Value: *s.Status}}
		if s.StatusNested != "" {
			lr.Status.StatusCode.StatusCode = &saml.StatusCode{Value: s.StatusNested}
		}
		if s.StatusMsg != nil {
			lr.Status.StatusMessage = &saml.StatusMessage{Value: *s.StatusMsg}
		}
		if s.StatusDetail != "" {
			d := &saml.StatusDetail{}
			if s.StatusDetail == "one" || s.StatusDetail == "two" {
				c := etree.NewElement("v:Cause")
				c.CreateAttr("xmlns:v", c18VendorNS)
				c.SetText("session not found")
				d.Children = append(d.Children, c)
			}
			if s.StatusDetail == "two" {
				c := etree.NewElement("v:Participant")
				c.CreateAttr("xmlns:v", c18VendorNS)
				c.CreateAttr("entity", c18OtherSP)
				d.Children = append(d.Children, c)
			}
			lr.Status.StatusDetail = d
		}
	}
	el := lr.Element()
	if is := c18Child(el, "Issuer"); is != nil && s.Issuer != nil && s.IssuerSplit > 0 && s.IssuerSplit < len(*s.Issuer) {
		is.SetText((*s.Issuer)[:s.IssuerSplit])
		is.CreateComment(" c ")
		is.CreateText((*s.Issuer)[s.IssuerSplit:])
	}
	rewriteTimes(el, s.TimeForm)
	switch s.IssueMode {
	case "absent":
		el.RemoveAttr("IssueInstant")
	case "empty":
		el.CreateAttr("IssueInstant", "")
	case "garbage":
		el.CreateAttr("IssueInstant", "yesterday at noon")
	case "ancient-wrap":
		at := t0.Add(ms(s.IssueRefMs)).Add(math.MinInt64).Add(math.MinInt64).Add(-30 * time.Second)
		el.CreateAttr("IssueInstant", at.UTC().Format("2006-01-02T15:04:05.999999999Z"))
	case "year-1700":
		el.CreateAttr("IssueInstant", "1700-01-01T00:00:00Z")
	case "year-1000":
		el.CreateAttr("IssueInstant", "1000-06-15T12:00:00Z")
	case "year-0001":
		el.CreateAttr("IssueInstant", "0001-01-01T00:00:00Z")
	}
	if s.Destination != nil && *s.Destination == "" {
		el.CreateAttr("Destination", "")
	}
	if stEl := c18Child(el, "Status"); stEl != nil {
		if s.Status == nil {
			el.RemoveChild(stEl)
		} else if s.NoStatusCode {
			for _, c := range stEl.ChildElements() {
				if c.Tag == "StatusCode" {
					stEl.RemoveChild(c)
				}
			}
		}
	}
	switch s.Root {
	case "LogoutRequest", "Response":
		el.Tag = s.Root
	case "wrong-ns":
		el.CreateAttr("xmlns:samlp", c18ProtoNS+":x")
	case "no-ns":
		el.Space = ""
	}
	if s.Foreign != nil {
		c18PlaceForeign(el, c18ForeignElement(k, s.Foreign), s.Foreign.At)
	}
	if s.Pretty && s.IssuerSplit == 0 {
		el.IndentWithSettings(&etree.IndentSettings{Spaces: 2})
	}
	if s.SignKey >= 0 {
		el = signEnveloped(rsaKeys[s.SignKey], s.SigMethod, el)
	}
	// re-parse so that every node has proper parent links before Mallory works on it
	doc := etree.NewDocument()
	if err := doc.ReadFromBytes(elBytes(el)); err != nil {
		panic(fmt.Sprintf("harness: own document does not parse: %v", err))
	}
	root := doc.Root()
	if sig := c18FindSig(root); sig != nil {
		switch s.SigPlace {
		case "":
			root.RemoveChild(sig)
			idx := 0
			if is := c18Child(root, "Issuer"); is != nil {
				idx = is.Index() + 1
			}
			root.InsertChildAt(idx, sig)
		case "first":
			root.RemoveChild(sig)
			root.InsertChildAt(0, sig)
		}
	}
	for i, op := range st.Wire {
		if i >= len(m.effective) || !m.effective[i] {
			continue
		}
		sig := c18FindSig(root)
		switch op.Op {
		case "strip-sig":
			for sig != nil {
				root.RemoveChild(sig)
				sig = c18FindSig(root)
			}
		case "move-sig":
			root.RemoveChild(sig)
			var host *etree.Element
			switch op.Arg {
			case "status":
				host = c18Child(root, "Status")
			case "issuer":
				host = c18Child(root, "Issuer")
			case "status-code":
				if se := c18Child(root, "Status"); se != nil {
					host = c18Child(se, "StatusCode")
				}
			}
			if host == nil {
				host = root.CreateElement("samlp:Extensions")
			}
			host.AddChild(sig)
		case "set-attr":
			root.CreateAttr(op.Arg, op.Val)
		case "declare-unused-ns":
			v := op.Val
			if v == "@delivery" {
				v = lexicalForm(t0.Add(ms(st.DelayMs)), 0)
			}
			root.CreateAttr("xmlns:"+op.Arg, v)
		case "remove-attr":
			root.RemoveAttr(op.Arg)
		case "set-issuer":
			is := c18Child(root, "Issuer")
			if is == nil {
				is = etree.NewElement("saml:Issuer")
				root.InsertChildAt(0, is)
			}
			for _, c := range append([]etree.Token(nil), is.Child...) {
				is.RemoveChild(c)
			}
			is.SetText(op.Val)
		case "remove-issuer":
			if is := c18Child(root, "Issuer"); is != nil {
				root.RemoveChild(is)
			}
		case "set-status":
			if se := c18Child(root, "Status"); se != nil {
				if sc := c18Child(se, "StatusCode"); sc != nil {
					sc.CreateAttr("Value", op.Val)
				}
			}
		case "set-issue-instant":
			root.CreateAttr("IssueInstant", lexicalForm(t0.Add(ms(op.Ms)), s.TimeForm))
		case "add-child":
			x := etree.NewElement("samlp:Extensions")
			x.CreateElement("saml:Note").SetText("n")
			if op.Arg == "first" {
				root.InsertChildAt(0, x)
			} else {
				root.AddChild(x)
			}
		case "add-foreign-child":
			c18PlaceForeign(root, c18ForeignElement(k, op.Foreign), op.Foreign.At)
		case "add-sig":
			var x *etree.Element
			if op.Arg == "copy" && sig != nil {
				x = sig.Copy()
			} else {
				x = etree.NewElement("ds:Signature")
				x.CreateAttr("xmlns:ds", "http://www.w3.org/2000/09/xmldsig#")
			}
			root.InsertChildAt(0, x)
		case "corrupt-sigvalue":
			c18FlipB64(sig.FindElement("./SignatureValue"))
		case "corrupt-digest":
			c18FlipB64(sig.FindElement("./SignedInfo/Reference/DigestValue"))
		case "keyinfo-none":
			if ki := c18Child(sig, "KeyInfo"); ki != nil {
				sig.RemoveChild(ki)
			}
		case "keyinfo-keyvalue":
			if ki := c18Child(sig, "KeyInfo"); ki != nil {
				for _, c := range ki.ChildElements() {
					ki.RemoveChild(c)
				}
				rk := ki.CreateElement(ki.Space + ":KeyValue").CreateElement(ki.Space + ":RSAKeyValue")
				rk.CreateElement(ki.Space + ":Modulus").SetText("AQAB")
				rk.CreateElement(ki.Space + ":Exponent").SetText("AQAB")
			}
		case "signature-object-rebinds-prefix":
			obj := sig.CreateElement(sig.Space + ":Object")
			pfx := root.Space
			if pfx == "" {
				pfx = "samlp"
			}
			x := obj.CreateElement(pfx + ":x")
			x.CreateAttr("xmlns:"+pfx, "urn:example:elsewhere")
		case "keyinfo-x509ref":
			// the certificate is identified by reference inside X509Data (XML-DSig 4.4.4), not embedded
			if c := sig.FindElement("./KeyInfo/X509Data/X509Certificate"); c != nil {
				xd := c.Parent()
				xd.RemoveChild(c)
				switch op.Val {
				case "ski":
					xd.CreateElement(xd.Space + ":X509SKI").SetText("MTIzNDU2Nzg5MDEyMzQ1Njc4OTA=")
				case "subject":
					xd.CreateElement(xd.Space + ":X509SubjectName").SetText("CN=idp.example.com")
				default:
					is := xd.CreateElement(xd.Space + ":X509IssuerSerial")
					is.CreateElement(xd.Space + ":X509IssuerName").SetText("CN=idp.example.com")
					is.CreateElement(xd.Space + ":X509SerialNumber").SetText("1")
				}
			}
		case "keyinfo-add-cert":
			j := 0
			fmt.Sscan(op.Arg, &j)
			if c := sig.FindElement("./KeyInfo/X509Data/X509Certificate"); c != nil && j >= 0 && j < len(rsaKeys) {
				xd := c.Parent()
				extra := etree.NewElement(c.Space + ":X509Certificate")
				extra.SetText(rsaKeys[j].CertB64())
				switch op.Val {
				case "before":
					xd.InsertChildAt(c.Index(), extra)
				case "own-x509data":
					xd2 := etree.NewElement(xd.Space + ":X509Data")
					xd2.AddChild(extra)
					xd.Parent().AddChild(xd2)
				default:
					xd.AddChild(extra)
				}
			}
		case "keyinfo-cert":
			j := 0
			fmt.Sscan(op.Arg, &j)
			if c := sig.FindElement("./KeyInfo/X509Data/X509Certificate"); c != nil && j >= 0 && j < len(rsaKeys) {
				c.SetText(rsaKeys[j].CertB64())
			}
		}
	}
	out, err := doc.WriteToBytes()
	if err != nil {
		panic(err)
	}
	return out
}

// c18BesideBytes renders what is put before and after the root element in flight.
func c18BesideBytes(k c18Knobs, st *c18Step, t0 time.Time) (before, after []byte) {
	unsigned := func(status string) []byte {
		lr := &saml.LogoutResponse{ID: "id-lr-beside", InResponseTo: "id-logout-req", Version: "2.0", IssueInstant: t0.Add(ms(st.DelayMs)).UTC(),
			Destination: c18SLO(k), Issuer: &saml.Issuer{Format: "urn:oasis:names:tc:SAML:2.0:nameid-format:entity", Value: k.IDPEntity},
			Status: saml.Status{StatusCode: saml.StatusCode{Value: status}}}
		return elBytes(lr.Element())
	}
	var decl []byte
	for _, b := range st.Beside {
		var x []byte
		switch b.Kind {
		case "whitespace":
			x = []byte("\n  \t\r\n")
		case "comment":
			x = []byte("<!-- relayed by gateway 7 -->")
		case "pi":
			x = []byte(`<?gateway-trace id="7"?>`)
		case "xml-decl":
			if b.At == "before" && decl == nil {
				decl = []byte(`<?xml version="1.0" encoding="UTF-8"?>`)
			}
			continue
		case "element":
			x = []byte(`<x:Note xmlns:x="` + c18VendorNS + `">n</x:Note>`)
		case "failure-response":
			x = unsigned(saml.StatusResponder)
		case "right-response":
			x = unsigned(saml.StatusSuccess)
		case "text":
			x = []byte("SAMLResponse ends here")
		}
		if b.At == "before" {
			before = append(before, x...)
		} else {
			after = append(after, x...)
		}
	}
	return append(decl, before...), after
}

func c18Deflate(b []byte) []byte {
	var buf bytes.Buffer
	w, _ := flate.NewWriter(&buf, flate.DefaultCompression)
	_, _ = w.Write(b)
	_ = w.Close()
	return buf.Bytes()
}

var c18BombCache = map[int][]byte{}

// c18Bomb is a raw-deflate stream that inflates to mb MiB (pure function of mb; cached per process).
func c18Bomb(mb int) []byte {
	if b, ok := c18BombCache[mb]; ok {
		return b
	}
	var buf bytes.Buffer
	w, _ := flate.NewWriter(&buf, flate.BestSpeed)
	chunk := bytes.Repeat([]byte("<a>"), (1<<20)/3+1)[:1<<20]
	for i := 0; i < mb; i++ {
		_, _ = w.Write(chunk)
	}
	_ = w.Close()
	c18BombCache[mb] = buf.Bytes()
	return c18BombCache[mb]
}

// c18Payload returns the value of the SAMLResponse parameter for this delivery.
func c18Payload(k c18Knobs, st *c18Step, m *c18Model, t0 time.Time) string {
	redirect := st.Entry == "redirect" || st.Entry == "req-get"
	var raw []byte
	switch st.Shape {
	case "rootless-comment":
		raw = []byte("<!-- x -->")
	case "empty":
		return ""
	case "whitespace":
		raw = []byte(" \n\t ")
	case "xml-decl-only":
		raw = []byte(`<?xml version="1.0" encoding="UTF-8"?>`)
	case "pi-only":
		raw = []byte(`<?xml version="1.0"?><?pi x?><!-- c -->`)
	case "non-xml-text":
		raw = []byte("SAMLResponse is not XML at all & never was")
	case "binary":
		raw = []byte{0x00, 0x01, 0xff, 0xfe, 0x3c, 0x00, 0x80, 0x7f, 0x1f, 0x8b, 0x08}
	case "unclosed-root":
		raw = []byte(`<samlp:LogoutResponse xmlns:samlp="` + c18ProtoNS + `" ID="id-x" Version="2.0">`)
	case "bomb":
		return base64.StdEncoding.EncodeToString(c18Bomb(st.BombMB))
	default:
		if st.Resp == nil {
			return ""
		}
		raw = c18Build(k, st, m, t0)
		if st.Shape == "logout-response" && len(st.Beside) > 0 {
			before, after := c18BesideBytes(k, st, t0)
			raw = append(append(before, raw...), after...)
		}
		if st.Shape == "truncated-xml" {
			raw = raw[:len(raw)*2/3]
		}
		for _, h := range st.Noise {
			if len(raw) == 0 {
				break
			}
			pos := int(int64(h.PosPPM) * int64(len(raw)) / 1_000_000)
			switch h.Kind {
			case "del":
				raw = append(raw[:pos:pos], raw[pos+1:]...)
			case "ins":
				raw = append(raw[:pos:pos], append([]byte{h.Byte}, raw[pos:]...)...)
			default:
				raw = append([]byte(nil), raw...)
				raw[pos] = h.Byte
			}
		}
	}
	if st.Encoding == "swap" {
		redirect = !redirect
	}
	if redirect {
		raw = c18Deflate(raw)
	}
	b64 := base64.StdEncoding.EncodeToString(raw)
	switch {
	case strings.HasPrefix(st.Encoding, "trunc:"):
		n := 0
		fmt.Sscan(strings.TrimPrefix(st.Encoding, "trunc:"), &n)
		if n > len(b64) {
			n = len(b64)
		}
		b64 = b64[:len(b64)-n]
	case st.Encoding == "badchar":
		if len(b64) > 8 {
			b64 = b64[:7] + "!" + b64[8:]
		}
	}
	return b64
}

// ---------------------------------------------------------------- the SP under test

func c18NewSP(k c18Knobs) *saml.ServiceProvider {
	const idpBase = "https://idp.example.com"
	var signing []KeyPair
	var enc *KeyPair
	switch k.Trust {
	case "md2":
		signing = []KeyPair{rsaKeys[0], rsaKeys[1]}
	case "md1+enc":
		signing = []KeyPair{rsaKeys[0]}
		enc = &rsaKeys[3]
	case "pinned":
		signing = []KeyPair{rsaKeys[1]} // superseded by the pinned certificate
	case "fingerprint":
		signing = nil
	case "old+md1":
		signing = []KeyPair{rsaOld, rsaKeys[0]}
	case "ec+md1":
		signing = []KeyPair{ecKeys[0], rsaKeys[0]}
	default:
		signing = []KeyPair{rsaKeys[0]}
	}
	md := idpMetadataFor(k.IDPEntity, idpBase+"/sso", idpBase+"/slo", signing, enc, k.UseAttr)
	spv := newSP(k.SPBase, rsaKeys[1], "", md)
	if k.Verifier {
		spv.SignatureVerifier = passVerifier{}
		if k.VerifierLatMs > 0 {
			spv.SignatureVerifier = c18SlowVerifier{ms(k.VerifierLatMs)}
		}
	}
	switch k.Trust {
	case "pinned":
		c := rsaKeys[0].CertB64()
		spv.IDPCertificate = &c
	case "fingerprint":
		sum := sha256.Sum256(rsaKeys[0].Cert.Raw)
		parts := make([]string, len(sum))
		for i, b := range sum {
			parts[i] = fmt.Sprintf("%02X", b)
		}
		fp, alg := strings.Join(parts, ":"), c18FPAlg
		spv.IDPCertificateFingerprint = &fp
		spv.IDPCertificateFingerprintAlgorithm = &alg
	}
	return spv
}

// c18SlowVerifier is an application-supplied saml.SignatureVerifier that takes (simulated) time before it answers what the library
// itself would answer: one that fetches the IdP's current keys, or asks an HSM.
type c18SlowVerifier struct{ d time.Duration }

func (v c18SlowVerifier) VerifySignature(ctx *dsig.ValidationContext, el *etree.Element) error {
	advance(v.d)
	return passVerifier{}.VerifySignature(ctx, el)
}

func c18Request(k c18Knobs, st *c18Step, payload string, dest *string) *http.Request {
	slo := c18SLO(k)
	if st.URLFromDest && dest != nil {
		// an absolute-form request target chosen by the sender: the URL the message claims to be for
		if u, err := url.Parse(*dest); err == nil && u.IsAbs() && u.Host != "" && u.RawQuery == "" && u.Fragment == "" {
			slo = *dest
		}
	}
	if st.Entry == "req-get" {
		q := url.Values{}
		q.Set("SAMLResponse", payload)
		if st.RelayState != "" {
			q.Set("RelayState", st.RelayState)
		}
		if st.QuerySig {
			q.Set("SigAlg", dsig.RSASHA256SignatureMethod)
			q.Set("Signature", base64.StdEncoding.EncodeToString([]byte("detached signature bytes")))
		}
		return httptest.NewRequest("GET", slo+"?"+q.Encode(), nil)
	}
	f := url.Values{}
	f.Set("SAMLResponse", payload)
	if st.RelayState != "" {
		f.Set("RelayState", st.RelayState)
	}
	return postRequest(slo, f)
}

// ---------------------------------------------------------------- execution

func c18PanicShape(st *c18Step, m *c18Model, bad []string) string {
	switch st.Shape {
	case "rootless-comment", "empty", "whitespace", "xml-decl-only", "pi-only":
		return "rootless-document"
	case "logout-response":
		if len(bad) == 1 && bad[0] == "issuer" && m.issuer == nil {
			return "signed-without-issuer"
		}
		if len(bad) == 0 {
			return "valid-response"
		}
		return "logout-response-failing-" + strings.Join(bad, "+")
	}
	return st.Shape
}

func execLogout(t *testing.T, p *Plan) *Result {
	res := newResult()
	k := decode[c18Knobs](p.Knobs)
	saml.MaxIssueDelay = ms(k.MaxIssueDelayMs)
	saml.MaxClockSkew = ms(k.MaxClockSkewMs)
	installRand(p)
	spv := c18NewSP(k)
	start := time.Now()
	if k.Verifier && k.VerifierLatMs > 0 {
		// whatever is still waiting for the application's verifier when the run ends (a library may hand the validation to a goroutine of
		// its own and come back before it) gets the time to finish: the bubble's clock stops when the run returns
		defer advance(ms(k.VerifierLatMs))
	}

	for si, raw := range p.Steps {
		st := decode[c18Step](raw)
		if st.Kind != "deliver" {
			continue
		}
		m := c18Run(k, &st)
		t0 := time.Now()
		payload := c18Payload(k, &st, m, t0) // foreign IdP issues, Mallory edits
		advance(ms(st.DelayMs))              // the network delays
		expect, bad, open := m.verdict(st.DelayMs)

		var err error
		var before, after runtime.MemStats
		if st.Shape == "bomb" {
			runtime.ReadMemStats(&before)
		}
		pan := guard(func() {
			switch st.Entry {
			case "form":
				err = spv.ValidateLogoutResponseForm(payload)
			case "redirect":
				err = spv.ValidateLogoutResponseRedirect(payload)
			default:
				err = spv.ValidateLogoutResponseRequest(c18Request(k, &st, payload, m.dest))
			}
		})
		observed := "ERROR"
		if pan != nil {
			observed = "PANIC"
		} else if err == nil {
			observed = "VALID"
		}

		// ---- abstract log
		res.logf("step %d entry=%s shape=%s trust=%s signer=%d time_form=%d sig_place=%q intent=%v violated=%v open=%v expect=%s observed=%s",
			si, st.Entry, st.Shape, k.Trust, m.signer, c18TimeForm(&st), c18SigPlace(&st), st.Intent, bad, open, expect, observed)

		// ---- reach counters
		if st.Shape == "logout-response" && len(bad) <= 1 {
			res.Nontrivial = true
			key := "valid"
			if len(bad) == 1 {
				key = "only:" + bad[0]
			} else if len(open) > 0 {
				key = "open:" + open[0]
			}
			res.Extra["lattice:"+key+"/"+st.Entry]++
			for _, l := range st.Intent {
				res.Extra["near-miss:"+l]++
			}
		}
		for i, op := range st.Wire {
			if i < len(m.effective) && m.effective[i] {
				res.fire("tamper:" + op.Op)
			}
		}
		if st.Shape == "logout-response" || st.Resp != nil {
			if st.DelayMs > 0 && m.issueMode == "" {
				c0, _ := m.freshClause(0)
				c1, _ := m.freshClause(st.DelayMs)
				d := st.DelayMs - m.issueMs - k.MaxIssueDelayMs
				if c0 != c1 || (d <= k.MaxIssueDelayMs/2 && -d <= k.MaxIssueDelayMs/2) {
					res.fire("delay")
				}
			}
			if m.issueMode == "" && m.issueMs > st.DelayMs {
				res.probe("issue-instant-in-the-future")
			}
			if c18Eq(m.dest, c18OtherSP+"/saml/slo") || c18Eq(m.issuer, c18OtherTenant) {
				res.fire("misdeliver")
			}
		}
		switch st.Shape {
		case "bomb":
			res.fire("bomb")
		case "truncated-xml", "truncated-base64":
			res.fire("truncate")
		case "wrong-encoding", "bad-base64", "binary", "non-xml-text", "noise":
			res.fire("corrupt")
		case "rootless-comment", "empty", "whitespace", "xml-decl-only", "pi-only":
			res.probe("rootless-document")
		}
		if expect == "VALID" {
			res.probe("valid-response-delivered")
			if m.signer == 1 {
				res.probe("valid-signed-by-second-metadata-cert")
			}
			if m.keyInfo != "own" {
				res.probe("valid-without-certificate-in-keyinfo")
			}
			if st.Resp != nil && st.Resp.IssuerSplit > 0 {
				res.probe("valid-with-comment-inside-issuer-text")
			}
		}
		if len(bad) == 1 && bad[0] == "issuer" && m.issuer == nil && st.Shape == "logout-response" {
			res.probe("signed-without-issuer")
		}
		for _, f := range m.foreign {
			res.probe("foreign-namesake:" + f.Name)
		}
		if st.Shape == "logout-response" {
			for _, b := range st.Beside {
				res.fire("tamper:beside-root")
				res.probe("beside-root:" + b.Kind + "@" + b.At)
			}
			if m.besideRoot && len(bad) == 1 {
				res.probe("content-beside-root-of-an-otherwise-valid-response")
			}
			if len(st.Beside) > 0 && !m.besideRoot && expect == "VALID" {
				res.probe("valid-with-miscellany-beside-root")
			}
			if m.besideRoot && st.Resp != nil && (st.Resp.Root == "LogoutRequest" || st.Resp.Root == "Response") {
				res.probe("other-signed-message-with-unsigned-logout-response-beside")
			}
			if r := st.Resp; r != nil && (r.StatusMsg != nil || r.StatusDetail != "") && r.Status != nil {
				what := "status-message"
				if r.StatusDetail != "" {
					what = "status-detail-" + r.StatusDetail
				}
				if expect == "VALID" {
					res.probe("valid-with-" + what)
				} else if len(bad) == 1 && bad[0] == "status" {
					res.probe("only-status-fails-with-" + what)
				}
			}
			if k.Verifier && k.VerifierLatMs > 0 {
				res.probe("application-verifier-with-latency")
				if k.VerifierLatMs > 1000 && (st.Entry == "req-get" || st.Entry == "req-post") && m.sigDirect >= 1 && expect == "REJECT" {
					res.probe("invalid-response-through-request-entry-with-verifier-latency-over-1s")
				}
			}
		}
		if len(m.foreign) > 0 && st.Shape == "logout-response" {
			if m.sigDirect >= 1 && m.keyInfo != "own" && !strings.HasPrefix(m.keyInfo, "cert:") && m.namesakeWithKeyInfo() {
				res.probe("foreign-signature-namesake-with-keyinfo-beside-signature-naming-no-certificate")
			}
			if expect == "VALID" {
				res.probe("valid-with-signed-foreign-namesake")
			}
		}

		// ---- decision
		if pan != nil {
			res.logf("panic: %s", short(fmt.Sprint(pan), 120))
			res.violate(si, "panic", "C18/panic/"+c18PanicShape(&st, m, bad), expect+" (an error, never a panic)", observed, short(fmt.Sprint(pan), 200))
			return res
		}
		switch expect {
		case "DONT_CARE":
			for _, o := range open {
				res.dontcare(o)
			}
			if m.noise {
				res.Extra["noise-outcome:"+observed]++
			}
		case "VALID":
			if err != nil {
				sig := "C18/rejected-valid/valid-response"
				if len(m.foreign) > 0 {
					sig = "C18/rejected-valid/foreign-namesake-among-the-signed-children"
					if m.keyInfo != "own" {
						sig += "+no-certificate-in-keyinfo"
					}
				} else if m.keyInfo != "own" {
					sig = "C18/rejected-valid/no-certificate-in-keyinfo"
					if k.Trust == "md2" {
						sig += "-with-several-trusted-certs"
					}
				}
				res.violate(si, "rejected-valid", sig, expect, observed, short(privErr(err), 200))
				return res
			}
		case "REJECT":
			if err == nil {
				res.violate(si, "accepted-invalid", "C18/accepted-invalid/"+strings.Join(bad, "+"), expect, observed, fmt.Sprintf("intent=%v entry=%s trust=%s", st.Intent, st.Entry, k.Trust))
				return res
			}
		}
		if st.Shape == "bomb" {
			runtime.ReadMemStats(&after)
			alloc := after.TotalAlloc - before.TotalAlloc
			if alloc >= uint64(st.BombMB)<<20 {
				res.logf("bomb materialised")
				res.violate(si, "resource", "C18/bomb-inflated", "refused without inflating the whole stream", fmt.Sprintf("allocated at least the inflated size (%d MiB)", st.BombMB), "")
				return res
			}
			res.probe("bomb-refused")
		}
	}
	res.SimMillis = time.Since(start).Milliseconds()
	return res
}

func c18TimeForm(st *c18Step) int {
	if st.Resp != nil {
		return st.Resp.TimeForm
	}
	return 0
}

func c18SigPlace(st *c18Step) string {
	if st.Resp != nil {
		return st.Resp.SigPlace
	}
	return ""
}

// ---------------------------------------------------------------- simplification

func simplifyLogout(p *Plan) []*Plan {
	var out []*Plan
	k := decode[c18Knobs](p.Knobs)
	with := func(i int, f func(s *c18Step)) {
		c := p.Clone()
		s2 := decode[c18Step](p.Steps[i])
		f(&s2)
		c.Steps[i] = mustJSON(s2)
		out = append(out, c)
	}
	for i, raw := range p.Steps {
		st := decode[c18Step](raw)
		for j := range st.Wire {
			with(i, func(s *c18Step) { s.Wire = append(append([]c18Op{}, s.Wire[:j]...), s.Wire[j+1:]...) })
		}
		if len(st.Noise) > 1 {
			for j := range st.Noise {
				with(i, func(s *c18Step) { s.Noise = append(append([]c18Hit{}, s.Noise[:j]...), s.Noise[j+1:]...) })
			}
		}
		for j := range st.Beside {
			with(i, func(s *c18Step) { s.Beside = append(append([]c18Beside{}, s.Beside[:j]...), s.Beside[j+1:]...) })
		}
		if st.Entry != "form" && st.Shape != "bomb" {
			with(i, func(s *c18Step) { s.Entry = "form"; s.QuerySig = false })
		}
		if st.RelayState != "" {
			with(i, func(s *c18Step) { s.RelayState = "" })
		}
		if st.QuerySig {
			with(i, func(s *c18Step) { s.QuerySig = false })
		}
		if st.BombMB > 50 {
			with(i, func(s *c18Step) { s.BombMB = 50 })
		}
		if r := st.Resp; r != nil {
			if r.TimeForm != 0 {
				with(i, func(s *c18Step) { s.Resp.TimeForm = 0 })
			}
			if r.SigPlace != "" {
				with(i, func(s *c18Step) { s.Resp.SigPlace = "" })
			}
			if r.SigMethod != "" {
				with(i, func(s *c18Step) { s.Resp.SigMethod = "" })
			}
			if r.StatusNested != "" && c18Eq(r.Status, saml.StatusSuccess) {
				with(i, func(s *c18Step) { s.Resp.StatusNested = "" })
			}
			if r.InResponseTo != "" {
				with(i, func(s *c18Step) { s.Resp.InResponseTo = "" })
			}
			if r.IssuerSplit != 0 {
				with(i, func(s *c18Step) { s.Resp.IssuerSplit = 0 })
			}
			if r.StatusMsg != nil {
				with(i, func(s *c18Step) { s.Resp.StatusMsg = nil })
			}
			if r.StatusDetail != "" {
				with(i, func(s *c18Step) { s.Resp.StatusDetail = "" })
			}
			// repair one clause at a time
			if !c18Eq(r.Destination, c18SLO(k)) {
				with(i, func(s *c18Step) { s.Resp.Destination = sp(c18SLO(k)) })
			}
			if !c18Eq(r.Issuer, k.IDPEntity) {
				with(i, func(s *c18Step) { s.Resp.Issuer = sp(k.IDPEntity) })
			}
			if !c18Eq(r.Status, saml.StatusSuccess) || r.NoStatusCode {
				with(i, func(s *c18Step) {
					s.Resp.Status = sp(saml.StatusSuccess)
					s.Resp.NoStatusCode = false
					s.Resp.StatusNested = ""
				})
			}
			if r.IssueMode != "" || r.IssueMs != st.DelayMs {
				with(i, func(s *c18Step) { s.Resp.IssueMode = ""; s.Resp.IssueMs = s.DelayMs })
			}
			if r.SignKey != 0 {
				with(i, func(s *c18Step) { s.Resp.SignKey = 0 })
			}
			if r.Root != "" {
				with(i, func(s *c18Step) { s.Resp.Root = "" })
			}
		}
		if st.DelayMs > 0 {
			// deliver at once, keeping the age of the response
			with(i, func(s *c18Step) {
				if s.Resp != nil {
					s.Resp.IssueMs -= s.DelayMs
				}
				for j := range s.Wire {
					if s.Wire[j].Op == "set-issue-instant" {
						s.Wire[j].Ms -= s.DelayMs
					}
				}
				s.DelayMs = 0
			})
		}
	}
	// default knobs (fields that depend on them are carried along)
	if k.Trust != "md1" {
		c := p.Clone()
		k2 := k
		k2.Trust = "md1"
		c.Knobs = mustJSON(k2)
		out = append(out, c)
	}
	if k.VerifierLatMs != 0 {
		c := p.Clone()
		k2 := k
		k2.VerifierLatMs = 0
		c.Knobs = mustJSON(k2)
		out = append(out, c)
	}
	if k.Verifier && k.VerifierLatMs == 0 {
		c := p.Clone()
		k2 := k
		k2.Verifier = false
		c.Knobs = mustJSON(k2)
		out = append(out, c)
	}
	if k.MaxClockSkewMs != 180_000 {
		c := p.Clone()
		k2 := k
		k2.MaxClockSkewMs = 180_000
		c.Knobs = mustJSON(k2)
		out = append(out, c)
	}
	if k.UseAttr != "signing" {
		c := p.Clone()
		k2 := k
		k2.UseAttr = "signing"
		c.Knobs = mustJSON(k2)
		out = append(out, c)
	}
	if k.MaxIssueDelayMs != 90_000 {
		c := p.Clone()
		k2 := k
		k2.MaxIssueDelayMs = 90_000
		c.Knobs = mustJSON(k2)
		shift := k.MaxIssueDelayMs - k2.MaxIssueDelayMs // keeps every margin to the freshness bound
		for i, raw := range p.Steps {
			s2 := decode[c18Step](raw)
			if s2.Resp != nil {
				s2.Resp.IssueMs += shift
			}
			for j := range s2.Wire {
				if s2.Wire[j].Op == "set-issue-instant" {
					s2.Wire[j].Ms += shift
				}
			}
			c.Steps[i] = mustJSON(s2)
		}
		out = append(out, c)
	}
	return out
}

func init() {
	register(&Profile{
		ID: "C18", Name: "logout", Level: "exploration",
		Rule: "each run: 1-3 deliveries to a real ServiceProvider (trust: metadata with 1 or 2 signing certs, +encryption-only cert, pinned cert, fingerprint; MaxIssueDelay/MaxClockSkew, SP base URL, IdP entity ID drawn per run) through ValidateLogoutResponseForm / Redirect / Request(GET|POST) of a foreign-IdP LogoutResponse that starts valid and gets 0-4 defects drawn from {signature: never signed, untrusted key, encryption-only key, untrusted key naming the trusted cert, stripped, moved under a child, field/attribute/child edited after signing, second Signature, corrupted value; destination: absent, empty, ACS URL, other SP, prefix/truncation/query/slash/host variants; issuer: absent, empty, other tenant, near misses, name extended behind an XML comment; freshness: age at MaxIssueDelay -1ms/+1ms/half/x10/far/edge via delivery delay on the bubble clock, IssueInstant absent/empty/garbage, re-dated on the wire; status: absent, empty, Requester, Responder, case/suffix near misses, nested Success; other root element} plus ~10% malformed inputs (rootless, empty, non-XML, truncated XML/base64, wrong encoding for the entry point, 1-3 byte substitutions/deletions/insertions in a valid response, deflate bomb 50-300 MiB); non-trivial = a LogoutResponse document violating at most one clause of the statement (the oracle has to discriminate on exactly that clause); distinct = distinct abstract event log (entry, trust, signer, lexical form, defect labels, violated clauses, expectation, outcome); KeyInfo may carry further certificates beside the signer's (the trusted one beside an untrusted signer's, a stranger's beside the trusted signer's); the host time zone differs per run; an extension element of a foreign namespace that shares a local name the checks look for (Signature holding KeyInfo / KeyValue / the trusted X509Certificate, Issuer holding the right name, Status holding Success, KeyInfo) among the root's children - signed by the IdP with the rest (changes nothing), or added in flight (the signed content is no longer what was signed), often beside a Signature whose KeyInfo names no certificate; a run that does not come back within the driver's wall-clock bound is re-executed alone and reported (no return is not an error); Status may carry a StatusMessage and a StatusDetail (empty, or with one or two elements of the IdP's own vocabulary) beside its StatusCode - with Success (changes nothing) and, more often, with the non-Success codes (an IdP that refuses says why; the status clause fails all the same); content put beside the root element in flight, before or after it: white space, a comment, a processing instruction, an XML declaration in front (legal there: verdict unchanged) or another element, a LogoutResponse nobody signed (reporting failure, or with every field right), text (not a well-formed document: error) - also behind a LogoutRequest / Response the IdP did sign; the application's SignatureVerifier may take 20 ms - 45 s of simulated time to answer (the verdict is the same; a response whose age passes MaxIssueDelay meanwhile is don't-care)",
		Gen:  genLogout, Exec: execLogout, Simplify: simplifyLogout,
		RunsQuick: 6000, RunsThorough: 600000,
		Assumptions: []string{
			"well-formed is XML 1.0 well-formed: prolog, one root element, then only white space, comments and processing instructions; a byte string with a second element or text beside the root is not a document and yields an error whatever its first element says",
			"time can pass inside a validation only where the simulation lets it: in the application's SignatureVerifier (sleep on the bubble clock); processor time of the library's own code is invisible to the bubble clock, so a bound on real elapsed time is not exercised by document size",
			"instants are exact milliseconds; age exactly equal to MaxIssueDelay is a declared don't-care",
			"the freshness check reads time.Now(); in the bubble this is the simulated clock, and no SP clock skew is modelled for this path",
			"a Signature element that is not a child of the root element is not an enveloped signature of the response (SAML schema position)",
			"signing keys are RSA-2048 (fixtures); signature methods RSA-SHA1/256/512",
			"trusted-key signatures whose KeyInfo names a different certificate and KeyInfo-less signatures under fingerprint-only trust are declared don't-care; under a pinned certificate the metadata's certificates are not trusted",
			"byte noise on a valid response is checked for totality only (error or valid are both admitted, a panic is a violation): whether a drawn byte position carries meaning is not decidable from the plan",
			"a deflate bomb counts as inflated when the call allocates at least the inflated size (runtime.MemStats.TotalAlloc)",
			"an element of another namespace is not the response's Signature, Issuer or Status whatever its local name; signed by the IdP among the root's children it leaves every clause as it is (the profile already expects valid for signatures outside their schema position: well-formed is not schema-valid)",
			"a call that has not returned after the driver's wall-clock bound (60 s for runs that take milliseconds), again when re-executed alone in a fresh process, is reported as not returning; the bubble's clock cannot observe a spin",
		},
		Components: map[string][]string{
			"real": {"saml.ServiceProvider.ValidateLogoutResponseRequest/Form/Redirect", "validateSignature", "goxmldsig (verification)", "etree", "xml-roundtrip-validator", "saferFlateReader", "encoding/xml unmarshal of saml.LogoutResponse"},
			"stub": {"foreign IdP SLO endpoint (saml.LogoutResponse.Element() + goxmldsig signing)", "Mallory (document edits after signing)", "network delay (bubble clock)"},
		},
	})
}
