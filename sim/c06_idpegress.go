package samlsim

import (
	"crypto"
	"crypto/x509"
	"encoding/base64"
	"errors"
	"fmt"
	"io"
	"net/http"
	"net/http/httptest"
	"os"
	"regexp"
	"sort"
	"strconv"
	"strings"
	"testing"
	"time"

	"github.com/beevik/etree"
	"github.com/crewjam/saml"
	"github.com/crewjam/saml/xmlenc"
	dsig "github.com/russellhaering/goxmldsig"
	"github.com/russellhaering/goxmldsig/etreeutils"
)

// C06 — every response the IdP emits is signed and scoped to one SP, request and moment
// (profile `idp-egress`).
//
// A monitor on every emission of the real library IdP (ServeSSO, ServeIDPInitiated, and the
// NewIdpAuthnRequest/Validate/MakeAssertion/PostBinding sequence), across registry shapes,
// sessions, IdP signing configurations and positions of the IdP clock relative to the
// request's IssueInstant. What every field must be is computed from the model (request as
// the SP issued it, registry, session, IdP clock), never from the emitted XML.

const (
	c06IdPBase   = "https://idp.example.com"
	c06IdPEntity = c06IdPBase + "/metadata"
	c06IdPSSO    = c06IdPBase + "/sso"
	c06EvilACS   = "https://evil.example.net/acs"
	c06Bearer    = "urn:oasis:names:tc:SAML:2.0:cm:bearer"
	c06TimeForm  = "2006-01-02T15:04:05.999Z07:00"
	c06DsigNS    = "http://www.w3.org/2000/09/xmldsig#"
)

func c06SPBase(i int) string { return fmt.Sprintf("https://sp%d.example.com", i) }
func c06Entity(i int) string { return c06SPBase(i) + "/saml/metadata" }
func c06EntityOtherCase(i int) string {
	return fmt.Sprintf("https://SP%d.Example.COM/saml/metadata", i)
}
func c06Locs(i int) []string {
	b := c06SPBase(i)
	// the third one needs escaping wherever it is written into markup
	return []string{b + "/saml/acs", b + "/saml/acs2", b + "/index.php?option=com_saml&task=acs", b + "/alt/acs"}
}

// c06ExtLocs: registered locations that are another registered location (the first or the third of c06Locs) followed by more text -
// a further path segment, a trailing slash, a query string, a matrix parameter, a further query parameter, and an extension of an
// extension. Two endpoints whose locations relate like that are two endpoints all the same.
func c06ExtLocs(i int) []string {
	b := c06SPBase(i)
	return []string{b + "/saml/acs/partner", b + "/saml/acs/", b + "/saml/acs?tenant=7", b + "/saml/acs;v=2", b + "/saml/acs/partner/eu",
		b + "/index.php?option=com_saml&task=acs&tenant=2", b + "/saml/acs#return"}
}

type c06ACS struct {
	B   string `json:"b"`
	Loc string `json:"loc"`
	Idx int    `json:"idx"`
	Def *bool  `json:"def,omitempty"`
	// ResponseLocation attribute of the element (legal on any endpoint type, meaningless for an ACS): never a place to send an assertion to
	RLoc string `json:"response_location,omitempty"`
}

type c06ReqAttr struct {
	Name     string   `json:"name"`
	Friendly string   `json:"friendly,omitempty"`
	Format   string   `json:"format"`
	Listed   []string `json:"listed_values,omitempty"` // AttributeValue children of the RequestedAttribute in the SP's metadata
}

type c06AttrSvc struct {
	Def   *bool        `json:"def,omitempty"`
	Attrs []c06ReqAttr `json:"attrs"`
}

type c06Desc struct {
	ACS      []c06ACS     `json:"acs"`
	AttrSvcs []c06AttrSvc `json:"attr_svcs,omitempty"`
	EncKey   string       `json:"enc_key,omitempty"` // "" none | encryption | unspecified | signing
}

type c06SP struct {
	Descs []c06Desc `json:"descs"`
	// NameIDFormats: what the provider's metadata says it prefers (NameIDFormat elements of every role). A preference of the
	// provider's; the identifier an assertion carries, Format included, is the session's
	NameIDFormats []string `json:"nameid_formats,omitempty"`
}

type c06Sess struct {
	Empty  []string `json:"empty,omitempty"` // session fields left empty
	Groups int      `json:"groups"`
	Custom int      `json:"custom"`
	Format string   `json:"nameid_format,omitempty"`
	// ExpiresInMs > 0: the session ends this long after the simulated clock's start (else a day later): a session close to its
	// end is a session all the same, and what is issued for it lives as long as for any other
	ExpiresInMs int64 `json:"expires_in_ms,omitempty"`
}

type c06Knobs struct {
	ValidDurMs      int64     `json:"idp_valid_duration_ms,omitempty"` // IdentityProvider.ValidDuration (metadata validity; says nothing about assertions); 0: unset
	MaxIssueDelayMs int64     `json:"MaxIssueDelay_ms"`
	MaxClockSkewMs  int64     `json:"MaxClockSkew_ms"`
	SPs             []c06SP   `json:"sps"`
	Sessions        []c06Sess `json:"sessions"`
	KeyMode         string    `json:"key_mode"` // key | signer
	SigMethod       string    `json:"sig_method"`
	Intermediates   int       `json:"intermediates"`
	Registry        string    `json:"registry"` // exact | casefold
}

type c06Step struct {
	Kind       string `json:"kind"` // sso | lib | idp_initiated
	SP         int    `json:"sp"`
	Session    int    `json:"session"`
	Binding    string `json:"binding"`
	Ask        string `json:"ask"` // url | index | index+url | neither
	AskIdx     int    `json:"ask_idx,omitempty"`
	AskURL     string `json:"ask_url,omitempty"`
	IssuerCase bool   `json:"issuer_other_case,omitempty"`
	SPSkewMs   int64  `json:"sp_skew_ms"`
	IdPSkewMs  int64  `json:"idp_skew_ms"`
	DelayMs    int64  `json:"delay_ms"`
	Clock      string `json:"clock_class"`
	Relay      string `json:"relay"`
	// Reconf: before this emission the operator changes the signature method on the SAME IdentityProvider object
	// ("keep": no change; "default": unset; else a method URI) and optionally switches between Key and crypto.Signer
	SPZoneMin  int    `json:"sp_clock_zone_minutes,omitempty"` // the SP's clock reports local time at this UTC offset (0: UTC)
	ClientGone bool   `json:"client_gone,omitempty"`           // the browser has gone: every Write of the reply fails (sso / idp_initiated)
	Reconf     string `json:"reconfigure_sig_method,omitempty"`
	ReconfMode string `json:"reconfigure_key_mode,omitempty"` // "" | key | signer
	// SignFault (kind lib, external signer): the n-th signing operation of this emission fails (1: the assertion's, 2: the response's);
	// the application then asks the same request object for its form once more
	SignFault int `json:"signer_fails_at,omitempty"`
	// ReqSubject: the (unsigned) request carries <saml:Subject><saml:NameID> naming this principal: a wish of the requester, never the authenticated identity
	ReqSubject string `json:"request_subject_nameid,omitempty"`
	// ReqPolicy: the request's NameIDPolicy/@Format ("-": the SP leaves its AuthnNameIDFormat unset): the requester's wish; how the session's
	// principal is labelled is a matter of the session
	ReqPolicy string `json:"request_nameid_policy,omitempty"`
	// IdPSubMsUs: the IdP's clock stands this many microseconds past a whole millisecond (0: on one). The instants a response states
	// have millisecond resolution; which neighbouring millisecond states the moment is the IdP's choice, made once per response
	IdPSubMsUs int64 `json:"idp_clock_sub_ms_us,omitempty"`
}

// ---------------------------------------------------------------- registry / sessions

func c06RequestedAttribute(ra c06ReqAttr) saml.RequestedAttribute {
	out := saml.RequestedAttribute{Attribute: saml.Attribute{Name: ra.Name, FriendlyName: ra.Friendly, NameFormat: ra.Format}}
	for _, v := range ra.Listed {
		// values the SP's metadata lists as acceptable (saml-metadata 2.4.4.2); they say nothing about any user
		out.Values = append(out.Values, saml.AttributeValue{Type: "xs:string", Value: v})
	}
	return out
}

// c06GoneWriter is the ResponseWriter of a connection whose client has gone away: every Write fails.
type c06GoneWriter struct{ h http.Header }

func (g *c06GoneWriter) Header() http.Header { return g.h }
func (g *c06GoneWriter) WriteHeader(int)     {}
func (g *c06GoneWriter) Write([]byte) (int, error) {
	return 0, errors.New("write: broken pipe (injected)")
}

// c06Registry is a provider registry whose lookup is exact or case-insensitive (e.g. a database collation).
type c06Registry struct {
	m        map[string]*saml.EntityDescriptor
	casefold bool
}

func (r *c06Registry) GetServiceProvider(_ *http.Request, id string) (*saml.EntityDescriptor, error) {
	if r.casefold {
		id = strings.ToLower(id)
	}
	if md, ok := r.m[id]; ok {
		return md, nil
	}
	return nil, os.ErrNotExist
}

// c06Signer hides the concrete key type: an "external signer".
// Its fault: the failAt-th Sign call since arm() returns an error (an HSM that is briefly unreachable).
type c06Signer struct {
	k crypto.Signer
	f *c06SignFault
}

type c06SignFault struct{ calls, failAt, fired int }

func (s c06Signer) arm(failAt int)           { s.f.calls, s.f.failAt = 0, failAt }
func (s c06Signer) Public() crypto.PublicKey { return s.k.Public() }
func (s c06Signer) Sign(r io.Reader, digest []byte, opts crypto.SignerOpts) ([]byte, error) {
	s.f.calls++
	if s.f.calls == s.f.failAt {
		s.f.fired++
		return nil, errors.New("signer: device unreachable (injected)")
	}
	return s.k.Sign(r, digest, opts)
}

func c06BindingURI(b string) string {
	switch b {
	case "post":
		return saml.HTTPPostBinding
	case "redirect":
		return saml.HTTPRedirectBinding
	case "artifact":
		return saml.HTTPArtifactBinding
	}
	return "urn:example:bindings:unknown"
}

func c06Descriptor(i int, m *c06SP) *saml.EntityDescriptor {
	ed := &saml.EntityDescriptor{EntityID: c06Entity(i)}
	for _, d := range m.Descs {
		sd := saml.SPSSODescriptor{SSODescriptor: saml.SSODescriptor{RoleDescriptor: saml.RoleDescriptor{ProtocolSupportEnumeration: "urn:oasis:names:tc:SAML:2.0:protocol"}}}
		for _, f := range m.NameIDFormats {
			sd.NameIDFormats = append(sd.NameIDFormats, saml.NameIDFormat(f))
		}
		if d.EncKey != "" {
			use := d.EncKey
			if use == "unspecified" {
				use = ""
			}
			sd.KeyDescriptors = []saml.KeyDescriptor{{Use: use, KeyInfo: saml.KeyInfo{X509Data: saml.X509Data{X509Certificates: []saml.X509Certificate{{Data: rsaKeys[1+i].CertB64()}}}}}}
		}
		for _, a := range d.ACS {
			ep := saml.IndexedEndpoint{Binding: c06BindingURI(a.B), Location: a.Loc, Index: a.Idx}
			if a.RLoc != "" {
				rl := a.RLoc
				ep.ResponseLocation = &rl
			}
			if a.Def != nil {
				v := *a.Def
				ep.IsDefault = &v
			}
			sd.AssertionConsumerServices = append(sd.AssertionConsumerServices, ep)
		}
		for n, s := range d.AttrSvcs {
			as := saml.AttributeConsumingService{Index: n}
			if s.Def != nil {
				v := *s.Def
				as.IsDefault = &v
			}
			for _, ra := range s.Attrs {
				as.RequestedAttributes = append(as.RequestedAttributes, c06RequestedAttribute(ra))
			}
			sd.AttributeConsumingServices = append(sd.AttributeConsumingServices, as)
		}
		ed.SPSSODescriptors = append(ed.SPSSODescriptors, sd)
	}
	return ed
}

var c06SessFields = []string{"index", "subjectid", "username", "email", "cn", "sn", "givenname", "affiliation", "eppn"}

// c06Session builds session n: every string is a marker unique to (field, n).
func c06Session(n int, s *c06Sess) (*saml.Session, []string) {
	empty := map[string]bool{}
	for _, f := range s.Empty {
		empty[f] = true
	}
	var own []string
	mk := func(f string) string {
		if empty[f] {
			return ""
		}
		v := marker(f, n)
		own = append(own, v)
		return v
	}
	ses := &saml.Session{
		ID: marker("sid", n), CreateTime: time.Date(1999, 12, 31, 23, 0, 0, 0, time.UTC), ExpireTime: time.Date(2000, 1, 2, 0, 0, 0, 0, time.UTC),
		NameID: mk("nameid"), NameIDFormat: s.Format,
		Index: mk("index"), SubjectID: mk("subjectid"), UserName: mk("username"), UserEmail: mk("email"), UserCommonName: mk("cn"),
		UserSurname: mk("sn"), UserGivenName: mk("givenname"), UserScopedAffiliation: mk("affiliation"), EduPersonPrincipalName: mk("eppn"),
	}
	if s.ExpiresInMs > 0 {
		ses.ExpireTime = time.Date(2000, 1, 1, 0, 0, 0, 0, time.UTC).Add(ms(s.ExpiresInMs))
	}
	own = append(own, ses.ID)
	for j := 0; j < s.Groups; j++ {
		v := marker("grp", n*10+j)
		ses.Groups = append(ses.Groups, v)
		own = append(own, v)
	}
	for j := 0; j < s.Custom; j++ {
		at := saml.Attribute{Name: fmt.Sprintf("urn:example:custom%d", j), NameFormat: "urn:oasis:names:tc:SAML:2.0:attrname-format:uri"}
		for q := 0; q <= j; q++ {
			v := marker("cust", n*100+j*10+q)
			at.Values = append(at.Values, saml.AttributeValue{Type: "xs:string", Value: v})
			own = append(own, v)
		}
		ses.CustomAttributes = append(ses.CustomAttributes, at)
	}
	return ses, own
}

// ---------------------------------------------------------------- generation

var c06ReqAttrNames = []c06ReqAttr{
	{Name: "email", Format: "urn:oasis:names:tc:SAML:2.0:attrname-format:basic"},
	{Name: "e-mail.address", Friendly: "Mail", Format: "urn:oasis:names:tc:SAML:2.0:attrname-format:unspecified"},
	{Name: "cn", Format: "urn:oasis:names:tc:SAML:2.0:attrname-format:basic"},
	{Name: "given_name", Format: "urn:oasis:names:tc:SAML:2.0:attrname-format:basic"},
	{Name: "surname", Format: "urn:oasis:names:tc:SAML:2.0:attrname-format:unspecified"},
	{Name: "uid", Friendly: "User", Format: "urn:oasis:names:tc:SAML:2.0:attrname-format:basic"},
	{Name: "urn:oid:2.5.4.3", Format: "urn:oasis:names:tc:SAML:2.0:attrname-format:uri"},
	{Name: "department", Format: "urn:oasis:names:tc:SAML:2.0:attrname-format:basic"},
	{Name: "department", Format: "urn:oasis:names:tc:SAML:2.0:attrname-format:basic"},
	{Name: "zQwanted1Qz", Format: "urn:oasis:names:tc:SAML:2.0:attrname-format:basic"},
	{Name: "zQwanted2Qz", Friendly: "Role", Format: "urn:oasis:names:tc:SAML:2.0:attrname-format:unspecified"},
}

var c06MarkerRe = regexp.MustCompile(`^zQ([a-z]+)\d+Qz$`)

func c06GenSP(g *Rng, i int) c06SP {
	m := c06SP{}
	if g.Bool(0.35) {
		m.NameIDFormats = [][]string{{"urn:oasis:names:tc:SAML:1.1:nameid-format:emailAddress"}, {"urn:oasis:names:tc:SAML:2.0:nameid-format:persistent", "urn:oasis:names:tc:SAML:1.1:nameid-format:emailAddress"},
			{"urn:oasis:names:tc:SAML:1.1:nameid-format:unspecified"}, {"urn:oasis:names:tc:SAML:2.0:nameid-format:transient"}}[g.Intn(4)]
	}
	nd := 1 + g.PickW(7, 3)
	locs := c06Locs(i)
	// some providers register endpoints whose locations extend one another
	nested := g.Bool(0.4)
	ext := c06ExtLocs(i)
	perm := []int{0, 1, 2, 3, 4, 5, 6, 7, 8}
	for j := len(perm) - 1; j > 0; j-- {
		q := g.Intn(j + 1)
		perm[j], perm[q] = perm[q], perm[j]
	}
	next := 0
	hasPost := false
	for d := 0; d < nd; d++ {
		desc := c06Desc{ACS: []c06ACS{}}
		na := 1 + g.PickW(3, 4, 3, 2)
		if d > 0 {
			na = g.PickW(1, 3, 2)
		}
		for a := 0; a < na && next < len(perm); a++ {
			e := c06ACS{B: []string{"post", "redirect", "artifact", "unknown"}[g.PickW(14, 2, 2, 1)], Loc: locs[g.PickW(4, 3, 2, 2)], Idx: perm[next]}
			if g.Bool(0.25) {
				e.Idx = next // many real deployments number positionally
			}
			if nested && g.Bool(0.55) {
				e.Loc = ext[g.Intn(len(ext))]
			}
			if g.Bool(0.12) {
				e.RLoc = Pick(g, "https://collector.example.net/slo-return", locs[len(locs)-1]+"/return")
			}
			next++
			switch g.PickW(6, 3, 1) {
			case 1:
				t := true
				e.Def = &t
			case 2:
				f := false
				e.Def = &f
			}
			if e.B == "post" {
				hasPost = true
			}
			desc.ACS = append(desc.ACS, e)
		}
		// unique indices (positional overrides may collide with the permutation)
		desc.EncKey = []string{"", "encryption", "unspecified", "signing"}[g.PickW(5, 3, 1, 1)]
		ns := g.PickW(5, 3, 2)
		for s := 0; s < ns; s++ {
			svc := c06AttrSvc{}
			if g.Bool(0.4) {
				t := s == ns-1
				svc.Def = &t
			}
			nr := 1 + g.Intn(4)
			for r := 0; r < nr; r++ {
				ra := c06ReqAttrNames[g.Intn(len(c06ReqAttrNames))]
				if g.Bool(0.3) {
					ra.Listed = [][]string{{"admin"}, {"admin", "operator", "auditor"}, {"zqlistedqz"}}[g.Intn(3)]
				}
				svc.Attrs = append(svc.Attrs, ra)
			}
			desc.AttrSvcs = append(desc.AttrSvcs, svc)
		}
		m.Descs = append(m.Descs, desc)
	}
	// make indices unique
	seen := map[int]bool{}
	free := 20
	for d := range m.Descs {
		for a := range m.Descs[d].ACS {
			if seen[m.Descs[d].ACS[a].Idx] {
				m.Descs[d].ACS[a].Idx = free
				free++
			}
			seen[m.Descs[d].ACS[a].Idx] = true
		}
	}
	if !hasPost && g.Bool(0.9) {
		m.Descs[0].ACS[0].B = "post"
	}
	return m
}

func c06Flatten(m *c06SP) []c06ACS {
	var out []c06ACS
	for _, d := range m.Descs {
		out = append(out, d.ACS...)
	}
	return out
}

func genEgress(g *Rng, tier string) *Plan {
	k := c06Knobs{
		MaxIssueDelayMs: Pick(g, int64(1000), 7000, 90_000, 660_000, 7_200_000),
		MaxClockSkewMs:  Pick(g, int64(0), 1000, 180_000, 1_020_000),
		KeyMode:         Pick(g, "key", "key", "signer", "both"),
		SigMethod:       Pick(g, "", "", dsig.RSASHA1SignatureMethod, dsig.RSASHA256SignatureMethod, dsig.RSASHA256SignatureMethod, dsig.RSASHA384SignatureMethod, dsig.RSASHA512SignatureMethod),
		Intermediates:   g.PickW(6, 2, 2),
		Registry:        Pick(g, "exact", "exact", "casefold"),
		ValidDurMs:      Pick(g, int64(0), 0, 1000, 3_600_000, 172_800_000),
	}
	nsp := 1 + g.PickW(4, 4, 2)
	for i := 0; i < nsp; i++ {
		k.SPs = append(k.SPs, c06GenSP(g, i))
	}
	nses := 2 + g.Intn(2)
	for i := 0; i < nses; i++ {
		s := c06Sess{Groups: g.PickW(4, 3, 3), Custom: g.PickW(5, 3, 2)}
		for _, f := range c06SessFields {
			if g.Bool(0.2) {
				s.Empty = append(s.Empty, f)
			}
		}
		if g.Bool(0.3) {
			s.Format = Pick(g, "urn:oasis:names:tc:SAML:1.1:nameid-format:emailAddress", "urn:oasis:names:tc:SAML:2.0:nameid-format:persistent",
				"urn:oasis:names:tc:SAML:2.0:nameid-format:transient", "urn:oasis:names:tc:SAML:2.0:nameid-format:transient", "urn:oasis:names:tc:SAML:1.1:nameid-format:unspecified",
				"urn:oasis:names:tc:SAML:2.0:nameid-format:entity", "urn:oasis:names:tc:SAML:2.0:nameid-format:kerberos")
		}
		if g.Bool(0.2) {
			s.ExpiresInMs = Pick(g, int64(30_000), 5_000, 100_000, k.MaxIssueDelayMs+2_000, 600_000)
		}
		if g.Bool(0.2) {
			s.Empty = append(s.Empty, "nameid") // a session provider that identifies the user through attributes only
		}
		k.Sessions = append(k.Sessions, s)
	}
	p := &Plan{Knobs: mustJSON(k)}
	n := 1 + g.PickW(2, 4, 3, 1)
	mid, mcs := k.MaxIssueDelayMs, k.MaxClockSkewMs
	for i := 0; i < n; i++ {
		st := c06Step{Kind: []string{"sso", "lib", "idp_initiated"}[g.PickW(5, 3, 2)], SP: g.Intn(nsp), Session: g.Intn(nses), Binding: Pick(g, "redirect", "post"), Relay: "rs" + strconv.Itoa(i)}
		if g.Bool(0.15) {
			st.Relay = ""
		}
		flat := c06Flatten(&k.SPs[st.SP])
		pick := func() c06ACS {
			// prefer POST endpoints: only they can carry a response
			var posts []c06ACS
			for _, a := range flat {
				if a.B == "post" {
					posts = append(posts, a)
				}
			}
			if len(posts) > 0 && g.Bool(0.85) {
				return posts[g.Intn(len(posts))]
			}
			return flat[g.Intn(len(flat))]
		}
		switch g.PickW(30, 25, 30, 15) {
		case 0:
			st.Ask, st.AskURL = "url", pick().Loc
		case 1:
			st.Ask, st.AskIdx = "index", pick().Idx
		case 2:
			st.Ask, st.AskIdx = "index+url", pick().Idx
			st.AskURL = Pick(g, c06Locs(st.SP)[0], pick().Loc, flat[g.Intn(len(flat))].Loc, c06EvilACS)
		default:
			st.Ask = "neither"
		}
		st.IssuerCase = k.Registry == "casefold" && g.Bool(0.5)
		// clock position of the IdP relative to the request's IssueInstant (age must stay inside the freshness window)
		var age int64
		switch g.PickW(20, 10, 10, 10, 10, 10, 10, 10, 10) {
		case 0:
			age, st.Clock = 0, "same-instant"
		case 1:
			age, st.Clock = 1, "after+1ms"
		case 2:
			age, st.Clock = mcs-1, "after-skew-1ms"
		case 3:
			age, st.Clock = mcs+1, "after-skew+1ms"
		case 4:
			age, st.Clock = mid/2, "after-half-delay"
		case 5:
			age, st.Clock = mid-1, "after-delay-1ms"
		case 6:
			age, st.Clock = -1, "before-1ms"
		case 7:
			age, st.Clock = -mid/2, "before-half-delay"
		default:
			age, st.Clock = 2*mcs+7, "after-2skew"
		}
		if age >= mid || age <= -mid {
			age, st.Clock = mid/3, "after-third-delay"
		}
		st.IdPSkewMs = Pick(g, int64(0), 0, 1000, -1000, mcs/2, -mcs/2, 250_000, -250_000)
		st.SPSkewMs = Pick(g, int64(0), 0, 0, 500, -500)
		st.DelayMs = age - st.IdPSkewMs + st.SPSkewMs
		if st.DelayMs < 0 {
			st.IdPSkewMs, st.DelayMs = age+st.SPSkewMs, 0
		}
		if g.Bool(0.25) {
			st.SPZoneMin = Pick(g, 120, -300, 330, -570, 840)
		}
		if g.Bool(0.3) {
			// the IdP's clock is not on a millisecond boundary (no real clock ever is); biased to the middle and the ends of the millisecond
			st.IdPSubMsUs = Pick(g, int64(1), 250, 499, 500, 501, 730, 999)
		}
		if st.Kind != "lib" && g.Bool(0.08) {
			st.ClientGone = true
		}
		if st.Kind == "lib" && g.Bool(0.3) {
			st.SignFault = 1 + g.Intn(2) // takes effect when the IdP signs through an external signer
		}
		if st.Kind != "idp_initiated" {
			st.ReqPolicy = Pick(g, "", "", "-", "urn:oasis:names:tc:SAML:1.1:nameid-format:emailAddress", "urn:oasis:names:tc:SAML:2.0:nameid-format:persistent",
				"urn:oasis:names:tc:SAML:1.1:nameid-format:X509SubjectName", "urn:oasis:names:tc:SAML:2.0:nameid-format:transient", "urn:oasis:names:tc:SAML:1.1:nameid-format:unspecified")
		}
		if st.Kind != "idp_initiated" && g.Bool(0.2) {
			st.ReqSubject = Pick(g, "admin@example.com", marker("nameid", (st.Session+1)%nses))
		}
		if len(p.Steps) > 0 && g.Bool(0.2) {
			// an operator reconfigures the live IdP object between two emissions
			st.Reconf = Pick(g, "default", dsig.RSASHA1SignatureMethod, dsig.RSASHA256SignatureMethod, dsig.RSASHA384SignatureMethod, dsig.RSASHA512SignatureMethod)
			st.ReconfMode = Pick(g, "", "", "key", "signer", "both")
		}
		p.Steps = append(p.Steps, mustJSON(st))
	}
	return p
}

// ---------------------------------------------------------------- the model

type c06Expect struct {
	selected   []c06ACS // what the chain index → URL → default/first browser-binding yields (one entry unless locations repeat)
	mode       string
	encDesc    string // key descriptor use of the descriptor holding the selected endpoint
	reqURL     string
	requestID  string
	issuance   time.Time
	audience   string
	own, other []string
}

// c06Select applies the statement's chain to a request that names registered things only.
func c06Select(m *c06SP, ask string, idx int, u string) (sel []c06ACS, mode string, desc int) {
	desc = -1
	find := func(ok func(a c06ACS) bool) bool {
		for d, dd := range m.Descs {
			for _, a := range dd.ACS {
				if ok(a) {
					sel, desc = []c06ACS{a}, d
					return true
				}
			}
		}
		return false
	}
	switch ask {
	case "index", "index+url":
		if find(func(a c06ACS) bool { return a.Idx == idx }) {
			return sel, "index", desc
		}
	case "url":
		// several entries may share a location: any of them is "the requested URL"
		for d, dd := range m.Descs {
			for _, a := range dd.ACS {
				if a.Loc == u {
					sel = append(sel, a)
					if desc < 0 {
						desc = d
					}
				}
			}
		}
		if len(sel) > 0 {
			return sel, "url", desc
		}
	case "neither":
		br := func(a c06ACS) bool { return a.B == "post" || a.B == "redirect" }
		if find(func(a c06ACS) bool { return a.Def != nil && *a.Def && br(a) }) {
			return sel, "default", desc
		}
		if find(br) {
			return sel, "first-browser", desc
		}
	}
	return nil, "none", -1
}

// ---------------------------------------------------------------- independent verification

func c06ChildNS(el *etree.Element, ns, tag string) *etree.Element {
	c, err := etreeutils.NSFindOneChild(el, ns, tag)
	if err != nil {
		return nil
	}
	return c
}

// c06Verify validates the enveloped signature of el under cert with a validation context of
// the monitor's own and returns the SignatureMethod algorithm. "" + nil error never happens.
func c06Verify(el *etree.Element, cert *x509.Certificate) (string, error) {
	var sig *etree.Element
	for _, c := range el.ChildElements() {
		if c.Tag == "Signature" {
			sig = c
		}
	}
	if sig == nil {
		return "", fmt.Errorf("no Signature child")
	}
	algo := ""
	if sm := sig.FindElement("./SignedInfo/SignatureMethod"); sm != nil {
		algo = sm.SelectAttrValue("Algorithm", "")
	}
	ctx, err := etreeutils.NSBuildParentContext(el)
	if err != nil {
		return algo, err
	}
	ctx, err = ctx.SubContext(el)
	if err != nil {
		return algo, err
	}
	det, err := etreeutils.NSDetatch(ctx, el)
	if err != nil {
		return algo, err
	}
	vc := dsig.NewDefaultValidationContext(&dsig.MemoryX509CertificateStore{Roots: []*x509.Certificate{cert}})
	vc.IdAttribute = "ID"
	if _, err := vc.Validate(det); err != nil {
		return algo, err
	}
	return algo, nil
}

func c06ParseTime(s string) (time.Time, bool) {
	t, err := time.Parse(c06TimeForm, s)
	return t, err == nil
}

// c06SameMs: got states want at millisecond resolution - it is want itself when want is a whole millisecond, else one of the two
// whole milliseconds around it.
func c06SameMs(got, want time.Time) bool {
	d := got.Sub(want)
	return d > -time.Millisecond && d < time.Millisecond
}

// c06FirstAt is the position (document order) of the first registered endpoint at loc.
func c06FirstAt(m *c06SP, loc string) int {
	for n, a := range c06Flatten(m) {
		if a.Loc == loc {
			return n
		}
	}
	return -1
}

func c06Short(method string) string {
	if i := strings.LastIndexAny(method, "#"); i >= 0 {
		return method[i+1:]
	}
	if method == "" {
		return "unset"
	}
	return method
}

// ---------------------------------------------------------------- execution

func execEgress(t *testing.T, p *Plan) *Result {
	res := newResult()
	k := decode[c06Knobs](p.Knobs)
	saml.MaxIssueDelay = ms(k.MaxIssueDelayMs)
	saml.MaxClockSkew = ms(k.MaxClockSkewMs)
	installRand(p)
	start := time.Now()

	reg := &c06Registry{m: map[string]*saml.EntityDescriptor{}, casefold: k.Registry == "casefold"}
	for i := range k.SPs {
		reg.m[c06Entity(i)] = c06Descriptor(i, &k.SPs[i])
	}
	idpKey := rsaKeys[0]
	signFault := &c06SignFault{}
	idp := &saml.IdentityProvider{Certificate: idpKey.Cert, Logger: nullLog{}, MetadataURL: mustURL(c06IdPEntity), SSOURL: mustURL(c06IdPSSO),
		ServiceProviderProvider: reg, SignatureMethod: k.SigMethod}
	if k.ValidDurMs > 0 {
		vd := ms(k.ValidDurMs)
		idp.ValidDuration = &vd
	}
	switch k.KeyMode {
	case "signer":
		idp.Signer = c06Signer{idpKey.Key, signFault}
	case "both":
		// the deployment moved to an external signer and left the previous private key configured: "if signer is set, use it instead of the private key"
		idp.Signer, idp.Key = c06Signer{idpKey.Key, signFault}, rsaKeys[4].Key
	default:
		idp.Key = idpKey.Key
	}
	for i := 0; i < k.Intermediates && i < 2; i++ {
		idp.Intermediates = append(idp.Intermediates, rsaKeys[3+i].Cert)
	}
	wantAlgo := k.SigMethod
	if wantAlgo == "" {
		wantAlgo = dsig.RSASHA1SignatureMethod // the documented default when no method is configured
	}
	idpMD := idpMetadataFor(c06IdPEntity, c06IdPSSO, "", []KeyPair{idpKey}, nil, "signing")

	var sessions []*saml.Session
	var strs [][]string
	for n := range k.Sessions {
		s, own := c06Session(n, &k.Sessions[n])
		sessions = append(sessions, s)
		strs = append(strs, own)
	}

	nameFmt := map[int]string{} // session without a format of its own -> the NameID Format first seen
	type c06Obs struct {
		label string
		has   map[string]bool
	}
	labelOf := map[string][]c06Obs{} // attribute name -> which session field its values carried, and which fields that session had at all
	for si, raw := range p.Steps {
		st := decode[c06Step](raw)
		if st.SP < 0 || st.SP >= len(k.SPs) || st.Session < 0 || st.Session >= len(sessions) {
			continue
		}
		if st.Reconf != "" && st.Reconf != "keep" || st.ReconfMode != "" {
			if st.Reconf != "" && st.Reconf != "keep" {
				k.SigMethod = st.Reconf
				if st.Reconf == "default" {
					k.SigMethod = ""
				}
				idp.SignatureMethod = k.SigMethod
				wantAlgo = k.SigMethod
				if wantAlgo == "" {
					wantAlgo = dsig.RSASHA1SignatureMethod
				}
			}
			switch st.ReconfMode {
			case "both":
				k.KeyMode = "both"
				idp.Signer, idp.Key = c06Signer{idpKey.Key, signFault}, rsaKeys[4].Key
			case "signer":
				k.KeyMode = "signer"
				idp.Signer, idp.Key = c06Signer{idpKey.Key, signFault}, nil
			case "key":
				k.KeyMode = "key"
				idp.Signer, idp.Key = nil, idpKey.Key
			}
			res.fire("idp-reconfigured")
			res.logf("step %d the IdP object is reconfigured: method=%s mode=%s", si, c06Short(k.SigMethod), k.KeyMode)
		}
		meta := &k.SPs[st.SP]
		exp := &c06Expect{audience: c06Entity(st.SP), own: strs[st.Session]}
		for n := range strs {
			if n != st.Session {
				exp.other = append(exp.other, strs[n]...)
			}
		}
		idp.SessionProvider = fixedSession{sessions[st.Session]}

		var hr *http.Request
		desc := -1
		if st.Kind == "idp_initiated" {
			// the IdP's own choice: an HTTP-POST endpoint of the registered provider
			for d, dd := range meta.Descs {
				for _, a := range dd.ACS {
					if a.B == "post" {
						exp.selected = append(exp.selected, a)
						if desc < 0 {
							desc = d
						}
					}
				}
			}
			exp.mode = "idp-initiated"
			advance(ms(st.DelayMs))
			hr = httptest.NewRequest("GET", c06IdPBase+"/launch/"+strconv.Itoa(st.SP), nil)
		} else {
			// ---- the real SP issues a request naming its ACS the way the step says
			ent := ""
			if st.IssuerCase {
				ent = c06EntityOtherCase(st.SP)
			}
			spv := newSP(c06SPBase(st.SP), rsaKeys[1+st.SP], ent, idpMD)
			switch st.ReqPolicy {
			case "":
			case "-":
				spv.AuthnNameIDFormat = ""
			default:
				spv.AuthnNameIDFormat = saml.NameIDFormat(st.ReqPolicy)
			}
			var wireErr error
			var pan any
			var zone *time.Location
			if st.SPZoneMin != 0 {
				zone = time.FixedZone("", st.SPZoneMin*60)
				res.fire("sp-clock-zoned")
			}
			atZone(ms(st.SPSkewMs), zone, func() {
				pan = guard(func() {
					b := saml.HTTPRedirectBinding
					if st.Binding == "post" {
						b = saml.HTTPPostBinding
					}
					ar, err := spv.MakeAuthenticationRequest(spv.GetSSOBindingLocation(b), b, saml.HTTPPostBinding)
					if err != nil {
						wireErr = err
						return
					}
					switch st.Ask {
					case "url":
						ar.AssertionConsumerServiceURL = st.AskURL
					case "index":
						ar.AssertionConsumerServiceURL, ar.AssertionConsumerServiceIndex = "", strconv.Itoa(st.AskIdx)
					case "index+url":
						ar.AssertionConsumerServiceURL, ar.AssertionConsumerServiceIndex = st.AskURL, strconv.Itoa(st.AskIdx)
					case "neither":
						ar.AssertionConsumerServiceURL = ""
					}
					if st.ReqSubject != "" {
						ar.Subject = &saml.Subject{NameID: &saml.NameID{Format: "urn:oasis:names:tc:SAML:1.1:nameid-format:emailAddress", Value: st.ReqSubject}}
					}
					exp.requestID, exp.reqURL = ar.ID, ar.AssertionConsumerServiceURL
					if st.Binding == "post" {
						f := parseForm(string(ar.Post(st.Relay)))
						if f == nil {
							wireErr = fmt.Errorf("no form")
							return
						}
						hr = postRequest(f.Action, f.Fields)
					} else {
						u, err := ar.Redirect(st.Relay, spv)
						if err != nil {
							wireErr = err
							return
						}
						hr = redirectRequest(u)
					}
				})
			})
			if pan != nil || wireErr != nil || exp.requestID == "" {
				res.Excluded = "SP could not issue a request (C12's business)"
				res.logf("step %d issue failed: %v %v", si, pan, wireErr)
				return res
			}
			exp.selected, exp.mode, desc = c06Select(meta, st.Ask, st.AskIdx, st.AskURL)
			advance(ms(st.DelayMs))
			if exp.mode == "none" && st.Ask != "neither" {
				// the request names an index/URL that is not registered (only minimised plans get here):
				// C05 leaves the selection open there, so this monitor has no expected endpoint
				res.dontcare("request-names-unregistered-endpoint")
				res.logf("step %d %s ask=%s names an unregistered endpoint: skipped", si, st.Kind, st.Ask)
				continue
			}
		}
		if desc >= 0 {
			exp.encDesc = meta.Descs[desc].EncKey
		}
		idpSkew := ms(st.IdPSkewMs) + time.Duration(st.IdPSubMsUs)*time.Microsecond
		exp.issuance = time.Now().Add(idpSkew)
		postable := false
		allPost := len(exp.selected) > 0
		for _, a := range exp.selected {
			if a.B == "post" {
				postable = true
			} else {
				allPost = false
			}
		}

		// ---- the real IdP
		var emitted *htmlForm
		var raw2 string
		clientGone := false
		retried := false
		code := 0
		pan := any(nil)
		at(idpSkew, func() {
			pan = guard(func() {
				switch st.Kind {
				case "sso", "idp_initiated":
					w := httptest.NewRecorder()
					if st.ClientGone {
						// the reply cannot be delivered; whatever the IdP does with the failed write must not leak into later replies
						gone := &c06GoneWriter{h: http.Header{}}
						if st.Kind == "sso" {
							idp.ServeSSO(gone, hr)
						} else {
							idp.ServeIDPInitiated(gone, hr, c06Entity(st.SP), st.Relay)
						}
						clientGone = true
						return
					}
					if st.Kind == "sso" {
						idp.ServeSSO(w, hr)
					} else {
						ent := c06Entity(st.SP)
						if st.IssuerCase {
							ent = c06EntityOtherCase(st.SP)
						}
						idp.ServeIDPInitiated(w, hr, ent, st.Relay)
					}
					code = w.Code
					raw2 = w.Body.String()
					if f := parseForm(raw2); code == 200 && f != nil && len(f.Fields["SAMLResponse"]) > 0 {
						emitted = f
					}
				case "lib":
					signFault.calls, signFault.failAt = 0, 0
					if st.SignFault > 0 && idp.Signer != nil {
						signFault.failAt = st.SignFault
					}
					req, form, err := libIssue(idp, hr, sessions[st.Session], nil)
					if err != nil && signFault.fired > 0 && signFault.failAt > 0 && req != nil && strings.HasPrefix(err.Error(), "binding:") {
						// nothing was emitted; the device is back and the application retries on the request object it holds
						signFault.failAt = 0
						retried = true
						form, err = req.PostBinding()
					}
					signFault.failAt, signFault.fired = 0, 0
					if err == nil {
						code = 200
						emitted = &htmlForm{Action: form.URL, Method: "post", NForms: 1, Fields: map[string][]string{"SAMLResponse": {form.SAMLResponse}, "RelayState": {form.RelayState}}}
					} else {
						code = 500
						if strings.HasPrefix(err.Error(), "parse:") || strings.HasPrefix(err.Error(), "validate:") { // libIssue's own stage labels
							code = 400
						}
					}
				}
			})
		})
		head := fmt.Sprintf("step %d %s %s ask=%s sp%d sess%d clock=%s key=%s method=%s chain=%d reg=%s case=%v enc=%s select(%s)=%s", si, st.Kind, st.Binding, st.Ask, st.SP, st.Session, st.Clock,
			k.KeyMode, c06Short(k.SigMethod), k.Intermediates, k.Registry, st.IssuerCase, exp.encDesc, exp.mode, c06Set(exp.selected))
		if st.IdPSubMsUs != 0 {
			head += fmt.Sprintf(" idp-clock=+%dus past a millisecond", st.IdPSubMsUs)
			res.fire("idp-clock-between-milliseconds")
		}
		if st.Clock != "same-instant" {
			res.fire("delay")
		}
		if st.IdPSkewMs != 0 || st.SPSkewMs != 0 {
			res.fire("clock_skew")
		}
		if retried {
			res.fire("signer-error+retry-on-same-request")
			head += " (signer failed once; retried)"
		}
		if clientGone && pan == nil {
			res.fire("client-gone")
			res.logf("%s observed=CLIENT_GONE (reply could not be written)", head)
			continue
		}
		if pan != nil {
			res.logf("%s observed=PANIC", head)
			res.Excluded = "panic (reported under C09)"
			res.logf("panic: %s", short(fmt.Sprint(pan), 80))
			return res
		}
		if emitted == nil {
			res.logf("%s observed=NO_EMISSION(HTTP_%d)", head, code)
			if allPost {
				res.violate(si, "no-emission", "C06/no-emission/"+st.Kind+"/"+exp.mode, "a POST form to "+c06Set(exp.selected), fmt.Sprintf("HTTP_%d", code), "a validated request whose selected endpoint is an HTTP-POST ACS was not answered")
				return res
			}
			res.probe("no-emission-for-non-post-endpoint")
			continue
		}
		res.Nontrivial = true
		bad := func(class, sig, want, got, detail string) *Result {
			res.logf("%s observed=EMITTED action=%s VIOLATION %s", head, emitted.Action, sig)
			res.violate(si, class, "C06/"+sig, want, got, detail)
			return res
		}
		// ---- form level
		if !postable {
			return bad("emitted-to-wrong-endpoint", "form/no-post-endpoint-selected", "no emission (selected endpoint "+c06Set(exp.selected)+" is not HTTP-POST)", "form to "+emitted.Action, "")
		}
		okAction := false
		for _, a := range exp.selected {
			if a.B == "post" && a.Loc == emitted.Action {
				okAction = true
			}
		}
		if !okAction {
			return bad("emitted-to-wrong-endpoint", "form/action/"+c06Origin(emitted.Action, exp, meta), c06Set(exp.selected), emitted.Action, "form action is not the selected registered ACS location")
		}
		if !strings.EqualFold(emitted.Method, "post") || emitted.NForms != 1 {
			return bad("not-a-post-form", "form/method", "one form, method=post", fmt.Sprintf("%d forms, method=%q", emitted.NForms, emitted.Method), "")
		}
		if len(emitted.Fields["SAMLResponse"]) != 1 || emitted.Fields.Get("RelayState") != st.Relay {
			return bad("not-a-post-form", "form/fields", "one SAMLResponse, RelayState="+st.Relay, fmt.Sprintf("%d SAMLResponse, RelayState=%q", len(emitted.Fields["SAMLResponse"]), emitted.Fields.Get("RelayState")), "")
		}
		xmlb, err := base64.StdEncoding.DecodeString(emitted.Fields.Get("SAMLResponse"))
		if err != nil {
			return bad("malformed-response", "response/base64", "base64", "undecodable", "")
		}
		doc := etree.NewDocument()
		if err := doc.ReadFromBytes(xmlb); err != nil || doc.Root() == nil || doc.Root().Tag != "Response" {
			return bad("malformed-response", "response/xml", "a Response document", "unparsable or other root", "")
		}
		root := doc.Root()
		action := emitted.Action
		// ---- response level
		if got := root.SelectAttrValue("Destination", ""); got != action {
			return bad("wrong-scope", "response/destination/"+c06Origin(got, exp, meta), action, got, "Response Destination differs from the selected registered ACS location")
		}
		if got := root.SelectAttrValue("InResponseTo", ""); got != exp.requestID || (exp.requestID == "" && root.SelectAttr("InResponseTo") != nil) {
			return bad("wrong-scope", "response/in-response-to", c06IRT(exp.requestID), c06IRT(got), "")
		}
		if is := c06ChildNS(root, "urn:oasis:names:tc:SAML:2.0:assertion", "Issuer"); is == nil || is.Text() != c06IdPEntity {
			return bad("wrong-scope", "response/issuer", c06IdPEntity, c06Text(is), "")
		}
		// the moment the response says it was issued at: the IdP's clock, to the millisecond (either neighbouring one when the clock
		// stands between two)
		respIssued, ok := c06ParseTime(root.SelectAttrValue("IssueInstant", ""))
		if !ok || !c06SameMs(respIssued, exp.issuance) {
			return bad("wrong-moment", "response/issue-instant", "issuance", c06Rel(respIssued, ok, exp.issuance, k), "the response's IssueInstant is not the moment of issuance")
		}
		algo, err := c06Verify(root, idpKey.Cert)
		if err != nil {
			return bad("signature", "response/signature/"+c06SigErr(err), "enveloped signature verifying under the IdP certificate", "invalid", "")
		}
		if algo != wantAlgo {
			return bad("signature", "response/signature-method", c06Short(wantAlgo), c06Short(algo), "")
		}
		// ---- assertion (decrypt with the SP's key first if needed)
		var asEl *etree.Element
		encrypted := false
		if ea := c06ChildNS(root, "urn:oasis:names:tc:SAML:2.0:assertion", "EncryptedAssertion"); ea != nil {
			encrypted = true
			ed := c06ChildNS(ea, "http://www.w3.org/2001/04/xmlenc#", "EncryptedData")
			if ed == nil {
				return bad("malformed-response", "assertion/encrypted-without-data", "EncryptedData", "none", "")
			}
			var plain []byte
			var derr error
			if pp := guard(func() { plain, derr = xmlenc.Decrypt(rsaKeys[1+st.SP].Key, ed) }); pp != nil || derr != nil {
				return bad("malformed-response", "assertion/undecryptable", "assertion decryptable with the registered SP key", "decryption failed", "")
			}
			ad := etree.NewDocument()
			if err := ad.ReadFromBytes(plain); err != nil || ad.Root() == nil {
				return bad("malformed-response", "assertion/plaintext-xml", "an Assertion", "unparsable", "")
			}
			asEl = ad.Root()
			res.probe("encrypted-assertion-decrypted")
		} else {
			asEl = c06ChildNS(root, "urn:oasis:names:tc:SAML:2.0:assertion", "Assertion")
		}
		if asEl == nil || asEl.Tag != "Assertion" {
			return bad("malformed-response", "assertion/missing", "one Assertion", "none", "")
		}
		algo, err = c06Verify(asEl, idpKey.Cert)
		if err != nil {
			return bad("signature", "assertion/signature/"+c06SigErr(err), "enveloped signature verifying under the IdP certificate", "invalid", "")
		}
		if algo != wantAlgo {
			return bad("signature", "assertion/signature-method", c06Short(wantAlgo), c06Short(algo), "")
		}
		if is := asEl.SelectElement("Issuer"); is == nil || is.Text() != c06IdPEntity {
			return bad("wrong-scope", "assertion/issuer", c06IdPEntity, c06Text(is), "")
		}
		asIssued, ok := c06ParseTime(asEl.SelectAttrValue("IssueInstant", ""))
		if !ok || !c06SameMs(asIssued, exp.issuance) {
			return bad("wrong-moment", "assertion/issue-instant", "issuance", c06Rel(asIssued, ok, exp.issuance, k), "the assertion's IssueInstant is not the moment of issuance")
		}
		sub := asEl.SelectElement("Subject")
		if sub == nil {
			return bad("wrong-scope", "assertion/no-subject", "Subject", "none", "")
		}
		nid := sub.SelectElement("NameID")
		if nid == nil || nid.Text() != sessions[st.Session].NameID {
			return bad("wrong-identity", "assertion/nameid", "session "+strconv.Itoa(st.Session)+" name id", c06Text(nid), "")
		}
		// the label on the name identifier: the session's when it has one; otherwise whatever the IdP uses, but the same for
		// every request of this run (it is the session's principal that is labelled, not the requester's wish)
		gotFmt := nid.SelectAttrValue("Format", "")
		if sf := sessions[st.Session].NameIDFormat; sf != "" {
			if gotFmt != sf {
				return bad("wrong-identity", "assertion/nameid-format", sf, gotFmt, "")
			}
		} else if prev, seen := nameFmt[st.Session]; seen && prev != gotFmt {
			return bad("wrong-identity", "assertion/nameid-format-follows-request", prev+" (as for this session's other request)", gotFmt, "request policy "+st.ReqPolicy)
		} else {
			if seen {
				res.probe("nameid-format-compared-across-requests")
			}
			nameFmt[st.Session] = gotFmt
		}
		var bearer *etree.Element
		for _, sc := range sub.SelectElements("SubjectConfirmation") {
			if sc.SelectAttrValue("Method", "") == c06Bearer {
				bearer = sc.SelectElement("SubjectConfirmationData")
			}
		}
		if bearer == nil {
			return bad("wrong-scope", "confirmation/missing", "bearer SubjectConfirmationData", "none", "")
		}
		if got := bearer.SelectAttrValue("Recipient", ""); got != action {
			return bad("wrong-scope", "confirmation/recipient/"+c06Origin(got, exp, meta), action, got, "bearer Recipient differs from the selected registered ACS location")
		}
		if got := bearer.SelectAttrValue("InResponseTo", ""); got != exp.requestID || (exp.requestID == "" && bearer.SelectAttr("InResponseTo") != nil) {
			return bad("wrong-scope", "confirmation/in-response-to", c06IRT(exp.requestID), c06IRT(got), "")
		}
		wantNOA := exp.issuance.Add(ms(k.MaxIssueDelayMs))
		gotNOA, ok := c06ParseTime(bearer.SelectAttrValue("NotOnOrAfter", ""))
		if !ok || !c06SameMs(gotNOA, wantNOA) {
			return bad("wrong-moment", "confirmation/not-on-or-after", "issuance+MaxIssueDelay", c06Rel(gotNOA, ok, exp.issuance, k), "")
		}
		// ... and by the document's own account of its moment: a receiver has nothing but the document, and the tolerance is a whole
		// number of milliseconds, so the distance is exact whichever millisecond the IdP took for a clock between two
		for _, stated := range []struct {
			who string
			t   time.Time
		}{{"response", respIssued}, {"assertion", asIssued}} {
			if !gotNOA.Equal(stated.t.Add(ms(k.MaxIssueDelayMs))) {
				return bad("wrong-moment", "confirmation/not-on-or-after/by-"+stated.who+"-issue-instant", "the "+stated.who+"'s IssueInstant+MaxIssueDelay",
					c06Rel(gotNOA, true, stated.t, k)+" (relative to the "+stated.who+"'s IssueInstant)", fmt.Sprintf("the confirmation expires %d ms after the %s's IssueInstant, MaxIssueDelay is %d ms", gotNOA.Sub(stated.t).Milliseconds(), stated.who, k.MaxIssueDelayMs))
			}
		}
		cond := asEl.SelectElement("Conditions")
		if cond == nil {
			return bad("wrong-scope", "conditions/missing", "Conditions", "none", "")
		}
		gotNB, ok := c06ParseTime(cond.SelectAttrValue("NotBefore", ""))
		if !ok || !gotNB.After(exp.issuance.Add(-ms(k.MaxClockSkewMs)-time.Millisecond)) {
			return bad("wrong-moment", "conditions/not-before", ">= issuance-MaxClockSkew", c06Rel(gotNB, ok, exp.issuance, k), "")
		}
		for _, stated := range []struct {
			who string
			t   time.Time
		}{{"response", respIssued}, {"assertion", asIssued}} {
			if gotNB.Before(stated.t.Add(-ms(k.MaxClockSkewMs))) {
				return bad("wrong-moment", "conditions/not-before/by-"+stated.who+"-issue-instant", ">= the "+stated.who+"'s IssueInstant-MaxClockSkew",
					c06Rel(gotNB, true, stated.t, k)+" (relative to the "+stated.who+"'s IssueInstant)", fmt.Sprintf("the Conditions open %d ms before the %s's IssueInstant, MaxClockSkew is %d ms", stated.t.Sub(gotNB).Milliseconds(), stated.who, k.MaxClockSkewMs))
			}
		}
		nAud := 0
		for _, ar := range cond.SelectElements("AudienceRestriction") {
			for _, au := range ar.SelectElements("Audience") {
				nAud++
				if au.Text() != exp.audience {
					return bad("wrong-scope", "conditions/audience", exp.audience, au.Text(), "audience is not the registered entity ID")
				}
			}
		}
		if nAud == 0 {
			return bad("wrong-scope", "conditions/no-audience", exp.audience, "none", "")
		}
		// ---- identity: only this session's strings
		nvals := 0
		reqAttr := false
		for _, as := range asEl.SelectElements("AttributeStatement") {
			for _, at := range as.SelectElements("Attribute") {
				if !strings.HasPrefix(at.SelectAttrValue("Name", ""), "urn:") {
					reqAttr = true
				}
				name := at.SelectAttrValue("Name", "")
				for _, v := range at.SelectElements("AttributeValue") {
					nvals++
					if v.Text() != "" && !c06Has(exp.own, v.Text()) { // an empty value (empty session field) carries nobody's data
						return bad("wrong-identity", "attributes/foreign-value", "a string of session "+strconv.Itoa(st.Session), short(v.Text(), 40), "attribute "+name)
					}
					// an attribute is a (name, field) pair of the session: whatever field a name stands for, it stands for the same one
					// in every emission of the run, and a name nobody has ever heard of stands for none
					if m := c06MarkerRe.FindStringSubmatch(v.Text()); m != nil {
						if strings.HasPrefix(name, "zQwanted") {
							return bad("wrong-identity", "attributes/unknown-name-answered", "no attribute named "+name+" (the session has none)", name+"="+short(v.Text(), 40), "")
						}
						has := map[string]bool{}
						for _, o := range exp.own {
							if om := c06MarkerRe.FindStringSubmatch(o); om != nil {
								has[om[1]] = true
							}
						}
						for _, prev := range labelOf[name] {
							// a name may fall back to a second field when the first is empty (eduPersonPrincipalName -> mail is documented);
							// no order of preference explains two sessions that both have both fields and are described by different ones
							if prev.label != m[1] && prev.has[m[1]] && has[prev.label] {
								return bad("wrong-identity", "attributes/name-stands-for-two-fields", "attribute "+name+" carries the session's "+prev.label+" as before", "the session's "+m[1], "both sessions have both fields")
							}
							if prev.label != m[1] {
								res.dontcare("attribute-falls-back-to-another-field")
							}
						}
						labelOf[name] = append(labelOf[name], c06Obs{m[1], has})
					}
				}
			}
		}
		asText := c06Serialize(asEl)
		if m := containsAny(string(xmlb)+asText+raw2, exp.other); m != "" {
			return bad("wrong-identity", "leak/other-session-marker", "no string of another session", m, "")
		}
		res.logf("%s observed=EMITTED action=%s encrypted=%v attrs=%d ok", head, action, encrypted, nvals)
		// ---- probes
		if st.Kind == "idp_initiated" {
			res.probe("idp-initiated-emission")
		} else if exp.reqURL != action {
			res.probe("selected-endpoint-differs-from-request-url")
			if exp.reqURL != "" {
				res.probe("selected-by-index-while-request-names-another-url")
			}
		}
		if exp.mode == "url" {
			for n, a := range c06Flatten(meta) {
				if a.Loc != action && strings.HasPrefix(action, a.Loc) {
					res.probe("request-url-extends-another-registered-location")
					if n < c06FirstAt(meta, action) {
						res.probe("request-url-extends-a-location-registered-before-it")
					}
					break
				}
			}
		}
		if st.IdPSubMsUs != 0 {
			res.probe("emission-with-idp-clock-between-milliseconds")
			if st.IdPSubMsUs >= 500 {
				res.probe("emission-with-idp-clock-in-second-half-of-a-millisecond")
			}
		}
		if reqAttr {
			res.probe("requested-attribute-emitted")
		}
		if st.IssuerCase {
			res.probe("request-issuer-differs-from-registered-entity-id")
		}
		if desc > 0 {
			res.probe("endpoint-of-second-descriptor")
		}
		res.probe("method:" + c06Short(k.SigMethod) + "/" + k.KeyMode)
		res.probe("clock:" + st.Clock)
		res.Extra["emissions"]++
	}
	res.SimMillis = time.Since(start).Milliseconds()
	return res
}

func c06Serialize(el *etree.Element) string {
	d := etree.NewDocument()
	d.SetRoot(el.Copy())
	s, _ := d.WriteToString()
	return s
}

func c06Set(s []c06ACS) string {
	var out []string
	for _, a := range s {
		out = append(out, fmt.Sprintf("%s %s idx=%d", a.B, a.Loc, a.Idx))
	}
	sort.Strings(out)
	return "{" + strings.Join(out, " | ") + "}"
}

func c06IRT(id string) string {
	if id == "" {
		return "absent"
	}
	return "request-id" // the random ID itself never enters the log
}

func c06Text(el *etree.Element) string {
	if el == nil {
		return "<absent>"
	}
	return short(el.Text(), 80)
}

// c06SigErr classifies a verification failure without quoting library wording beyond a coarse class.
func c06SigErr(err error) string {
	if err != nil && strings.Contains(err.Error(), "no Signature child") {
		return "unsigned"
	}
	return "does-not-verify"
}

// c06Origin says where a wrong location came from (signature of the violation).
func c06Origin(loc string, exp *c06Expect, m *c06SP) string {
	switch {
	case loc == "":
		return "empty"
	case loc == exp.reqURL:
		return "taken-from-request-url"
	}
	for _, a := range c06Flatten(m) {
		if a.Loc == loc {
			return "other-registered-endpoint"
		}
	}
	return "elsewhere"
}

// c06Rel renders an instant relative to issuance and the tolerances (abstract: no raw timestamps).
func c06Rel(t time.Time, ok bool, issuance time.Time, k c06Knobs) string {
	if !ok {
		return "unparsable"
	}
	d := t.Sub(issuance).Milliseconds()
	switch d {
	case k.MaxIssueDelayMs:
		return "issuance+MaxIssueDelay"
	case k.MaxClockSkewMs:
		return "issuance+MaxClockSkew"
	case -k.MaxClockSkewMs:
		return "issuance-MaxClockSkew"
	case 0:
		return "issuance"
	}
	if d < -k.MaxClockSkewMs {
		return "earlier than issuance-MaxClockSkew"
	}
	if d < 0 {
		return "before issuance"
	}
	return "after issuance (neither tolerance)"
}

// ---------------------------------------------------------------- simplification

func simplifyEgress(p *Plan) []*Plan {
	var out []*Plan
	for i, raw := range p.Steps {
		st := decode[c06Step](raw)
		mod := func(f func(s *c06Step)) {
			c := p.Clone()
			s2 := decode[c06Step](raw)
			f(&s2)
			c.Steps[i] = mustJSON(s2)
			out = append(out, c)
		}
		if st.Kind == "sso" {
			mod(func(s *c06Step) { s.Kind = "lib" })
		}
		if st.IdPSkewMs != 0 || st.SPSkewMs != 0 {
			mod(func(s *c06Step) {
				d := s.DelayMs + s.IdPSkewMs - s.SPSkewMs
				if d >= 0 {
					s.DelayMs, s.IdPSkewMs, s.SPSkewMs = d, 0, 0
				}
			})
		}
		if st.DelayMs != 0 {
			mod(func(s *c06Step) { s.DelayMs, s.Clock = 0, "simplified" })
		}
		if st.IdPSubMsUs != 0 {
			mod(func(s *c06Step) { s.IdPSubMsUs = 0 })
		}
		if st.Binding == "post" {
			mod(func(s *c06Step) { s.Binding = "redirect" })
		}
		if st.IssuerCase {
			mod(func(s *c06Step) { s.IssuerCase = false })
		}
		if st.Session != 0 {
			mod(func(s *c06Step) { s.Session = 0 })
		}
	}
	k := decode[c06Knobs](p.Knobs)
	km := func(f func(k2 *c06Knobs)) {
		k2 := decode[c06Knobs](p.Knobs)
		f(&k2)
		c := p.Clone()
		c.Knobs = mustJSON(k2)
		out = append(out, c)
	}
	if k.KeyMode != "key" {
		km(func(k2 *c06Knobs) { k2.KeyMode = "key" })
	}
	if k.SigMethod != "" {
		km(func(k2 *c06Knobs) { k2.SigMethod = "" })
	}
	if k.Intermediates != 0 {
		km(func(k2 *c06Knobs) { k2.Intermediates = 0 })
	}
	for si := range k.SPs {
		for di := range k.SPs[si].Descs {
			d := k.SPs[si].Descs[di]
			if d.EncKey != "" {
				km(func(k2 *c06Knobs) { k2.SPs[si].Descs[di].EncKey = "" })
			}
			if len(d.AttrSvcs) > 0 {
				km(func(k2 *c06Knobs) { k2.SPs[si].Descs[di].AttrSvcs = nil })
			}
			for ai := range d.ACS {
				km(func(k2 *c06Knobs) {
					a := k2.SPs[si].Descs[di].ACS
					k2.SPs[si].Descs[di].ACS = append(append([]c06ACS{}, a[:ai]...), a[ai+1:]...)
				})
			}
		}
	}
	for n := range k.Sessions {
		if k.Sessions[n].Groups > 0 || k.Sessions[n].Custom > 0 {
			km(func(k2 *c06Knobs) { k2.Sessions[n].Groups, k2.Sessions[n].Custom = 0, 0 })
		}
	}
	return out
}

func init() {
	register(&Profile{
		ID: "C06", Name: "idp-egress", Level: "exploration",
		Rule: "each run: one library IdP configured with {private key | crypto.Signer wrapper} x signature method {unset, rsa-sha1/256/384/512} x 0-2 intermediates, a registry (exact or case-insensitive lookup) of 1-3 hand-built SP metadata documents (1-2 SPSSODescriptors, 1-4 ACS endpoints with POST/Redirect/Artifact/unknown bindings, non-positional unique indices, isDefault flags, repeated locations, attribute-consuming services with requested attributes, key descriptor encryption/unspecified/signing/none) and 2-3 sessions whose every string is a unique marker; 1-4 emissions via ServeSSO, the NewIdpAuthnRequest..PostBinding sequence, or ServeIDPInitiated, where the real SP's request names its ACS by registered URL, by index, by index plus a disagreeing URL, or not at all, in either binding, and the IdP's skewed clock sits {at, 1ms/half/just-inside MaxIssueDelay after, around MaxClockSkew after, before} the request's IssueInstant with tolerances drawn per run; every emitted form is parsed with an HTML5 parser and checked field by field against the model, signatures with the monitor's own goxmldsig validation context, encrypted assertions after decrypting with the SP key; non-trivial = the run contains at least one emission (every check then discriminates between the model's values and any other); distinct = distinct abstract event log (entry, binding, ask mode, clock class, signing config, registry lookup, encryption, selected endpoint, outcome); registered ACS elements may carry a ResponseLocation attribute; with an external signer the n-th signing operation of an emission may fail, after which the application asks the same request object for its form again (whatever that emits is checked like any emission); requests may carry a Subject naming a principal and sessions may have no NameID (the assertion names the session's principal only); registered locations may extend one another (a further path segment, a trailing slash, a query string, a matrix parameter, a further query parameter, a fragment) and a request may name any of them by URL; the IdP's clock may stand between two milliseconds (1-999 us past one), the IssueInstant of response and assertion being compared with the clock and every window with both of them",
		Gen:  genEgress, Exec: execEgress, Simplify: simplifyEgress,
		RunsQuick: 4000, RunsThorough: 300000,
		Assumptions: []string{
			"issuance = the IdP's clock when it receives the request; the instants a response states have millisecond resolution, so for a clock standing between two milliseconds either neighbour states the moment",
			"the IssueInstant of the response and of the assertion state the moment of issuance; the distances the statement names (MaxClockSkew, MaxIssueDelay: whole milliseconds) hold exactly against what the document itself gives as its moment, at both levels",
			"signature method unset means rsa-sha1 (the documented default)",
			"the selected endpoint is what the C05 chain yields (requested index, else requested URL, else default/first browser-binding); only requests that name registered things are generated here",
			"an endpoint that is selected but is not HTTP-POST yields no emission (not an alarm); a selected HTTP-POST endpoint must be answered",
			"IdP-initiated: any HTTP-POST endpoint of the registered provider is an acceptable selection",
			"'registered SP's entity ID' = the entityID of the metadata document the registry returns (the registry may match the request issuer case-insensitively)",
			"whether the assertion is encrypted is C08's business; the monitor decrypts when it is",
		},
		Components: map[string][]string{
			"real": {"saml.ServiceProvider.MakeAuthenticationRequest, AuthnRequest.Redirect/Post", "IdentityProvider.ServeSSO / ServeIDPInitiated", "NewIdpAuthnRequest, Validate, DefaultAssertionMaker, MakeAssertionEl, MakeResponse, PostBinding, WriteResponse", "goxmldsig signing (key store or crypto.Signer)", "xmlenc encryption (IdP) and decryption (monitor)", "html/template"},
			"stub": {"registry (hand-built EntityDescriptors, exact/case-insensitive lookup)", "session provider (fixed session per step)", "network delay / clock skew (bubble clock)", "browser (x/net/html form parser)", "monitor: etree field extraction + own goxmldsig validation context"},
		},
	})
}

func c06Has(xs []string, s string) bool {
	for _, x := range xs {
		if x == s {
			return true
		}
	}
	return false
}
