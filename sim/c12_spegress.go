package samlsim

import (
	"bytes"
	"compress/flate"
	"crypto"
	"crypto/ecdsa"
	"crypto/rsa"
	"crypto/x509"
	"encoding/base64"
	"encoding/hex"
	"errors"
	"fmt"
	"io"
	"math/big"
	"net/http"
	"net/http/httptest"
	"net/url"
	"strings"
	"syscall"
	"testing"
	"time"
	"unicode/utf8"

	"github.com/beevik/etree"
	"github.com/crewjam/saml"
	"github.com/crewjam/saml/samlsp"
	xrv "github.com/mattermost/xml-roundtrip-validator"
	dsig "github.com/russellhaering/goxmldsig"
)

// C12 — SP outbound messages survive their binding encodings; relay state intact (profile `sp-egress`).
//
// Simulator dimensions: multi-party (real SP / real middleware -> browser stub -> real library IdP, and a
// stub SLO consumer for the logout messages, which have no consumer in the repository) and the
// randomness seam (saml.RandReader is a recording, plan-derived byte stream; message creation is
// re-executed on a different stream and on streams that differ in exactly one byte).

// ---------------------------------------------------------------- plan

type c12Knobs struct {
	KeyKind      string `json:"sp_key"`           // rsa | ec
	SigMethod    string `json:"signature_method"` // "" = requests are not signed
	SSOQuery     string `json:"idp_sso_query"`    // query string already present in the IdP's SSO endpoint URLs
	SLOQuery     string `json:"idp_slo_query"`
	SLOFrag      string `json:"idp_slo_fragment,omitempty"` // fragment the IdP's single-logout endpoint URLs end in (a single-page portal routing on it), "#..." or ""
	NameIDFormat string `json:"authn_nameid_format"`        // "" (unset) or a format URN
	ForceAuthn   *bool  `json:"force_authn"`
	ReqCtx       bool   `json:"requested_authn_context"`
	ReqCtxCmp    string `json:"requested_authn_context_comparison,omitempty"` // "" (left unset: the schema default is exact), exact, minimum, maximum, better
	EntityID     string `json:"entity_id"`                                    // "" = unset (metadata URL is the entity ID)
	AltStream    uint64 `json:"alt_rand_stream"`
	SensStep     int    `json:"sensitivity_step"`           // creation whose ID is probed byte by byte (-1: none)
	ShortReads   int    `json:"rand_short_reads,omitempty"` // the configured random source returns at most this many bytes per Read (0: fills the buffer)
	// RandFault: during creation number RandFaultStep the configured random source fails: "temporary-xN" N reads in a row return
	// EAGAIN (an error that reports Temporary()), "eof", "error-once". No message is fine; a message must still carry a fresh ID.
	RandFault     string `json:"rand_fault,omitempty"`
	RandFaultStep int    `json:"rand_fault_at_creation,omitempty"`
	// SPURL: the URL the SP is deployed at, "" = https://sp.example.com. Its metadata, ACS and SLO URLs follow from it, so it is the
	// "configured ACS URL" dimension: an explicit port (the scheme's default or another), plain http, an IPv6 literal as host.
	SPURL string `json:"sp_url,omitempty"`
}

// c12SPURLs are deployment URLs for the SP; each is spelled the way net/url writes it back (checked when the world is built), so
// that "the configured ACS URL" is one text whichever way it is obtained.
var c12SPURLs = []c12Named{
	{"https-port-443", "https://sp.example.com:443"}, {"https-port-8443", "https://sp.example.com:8443"},
	{"http-port-80", "http://sp.example.com:80"}, {"http-no-port", "http://sp.example.com"}, {"http-port-8080", "http://sp.example.com:8080"},
	{"ipv6-port-443", "https://[2001:db8::1]:443"}, {"ipv6-no-port", "https://[2001:db8::1]"}, {"ipv4-port-443", "https://192.0.2.7:443"},
}

// Queries an IdP endpoint URL may carry already. The second list uses names the bindings give a meaning to (a deep link such as
// /slo?tenant=acme&RelayState=%2Fportal is a legal Location): there the statement decides between "the endpoint's own parameters
// stay" and "a single SAMLRequest/SAMLResponse, the RelayState as a single parameter" in favour of the latter.
var c12EndpointQueries = []string{"tenant=a&x=1", "t=a%26b+c&flag"}
var c12ReservedQueries = []string{"tenant=acme&RelayState=%2Fportal", "SAMLRequest=none&SAMLResponse=none", "RelayState=old+one&x=1", "SAMLResponse=none&tenant=a&SAMLRequest=none"}

func c12UsesReserved(q string) bool {
	for _, e := range c12ParseQuery(q) {
		if c12Reserved[e.name] {
			return true
		}
	}
	return false
}

func c12SPURLClass(u string) string {
	for _, c := range c12SPURLs {
		if c.s == u {
			return c.class
		}
	}
	return "other"
}

func (k c12Knobs) spBase() string {
	if k.SPURL != "" {
		return k.SPURL
	}
	return spBase
}

type c12Step struct {
	Kind        string `json:"kind"`
	RelayState  string `json:"relay_state"`
	RSClass     string `json:"relay_state_class,omitempty"` // generator's label (evidence only)
	NameID      string `json:"name_id,omitempty"`
	NIDClass    string `json:"name_id_class,omitempty"`
	ReqID       string `json:"request_id,omitempty"`
	RIDClass    string `json:"request_id_class,omitempty"`
	Custom      bool   `json:"custom_relay_state_func,omitempty"`              // middleware: RelayStateFunc returns RelayState
	Target      string `json:"target,omitempty"`                               // middleware: URL the browser asked for
	RespBinding string `json:"response_binding,omitempty"`                     // MakeAuthenticationRequest's resultBinding: post | artifact
	Carry       bool   `json:"browser_still_holds_tracking_cookies,omitempty"` // middleware: the browser asks again (reload, second tab) and presents the tracking cookies of the earlier starts
}

const (
	c12IdPBase = "https://idp.example.com"
	c12Proto   = "urn:oasis:names:tc:SAML:2.0:protocol"
	c12Asrt    = "urn:oasis:names:tc:SAML:2.0:assertion"
	c12CtxRef  = "urn:oasis:names:tc:SAML:2.0:ac:classes:PasswordProtectedTransport"
)

type c12Named struct{ class, s string }

func c12Rep(s string, n int) string { // exactly n bytes made of s repeated (s is ASCII)
	return strings.Repeat(s, n/len(s)+1)[:n]
}

// single characters / short sequences probed one at a time inside "a?b"
var c12Chars = []c12Named{
	{"amp", "&"}, {"eq", "="}, {"hash", "#"}, {"plus", "+"}, {"pct", "%"}, {"pct41", "%41"}, {"pctzz", "%zz"},
	{"semi", ";"}, {"qmark", "?"}, {"slash", "/"}, {"space", " "}, {"dquote", "\""}, {"squote", "'"},
	{"lt", "<"}, {"gt", ">"}, {"tab", "\t"}, {"lf", "\n"}, {"cr", "\r"}, {"crlf", "\r\n"},
	{"latin1", "é"}, {"cjk", "日本"}, {"emoji", "😀"}, {"backslash", "\\"}, {"colon", ":"}, {"comma", ","},
	{"at", "@"}, {"tilde", "~"}, {"star", "*"}, {"brace", "{}"}, {"pipe", "|"},
}

var c12Composite = []c12Named{
	{"inject-sigalg", "x&SigAlg=evil&Signature=AAAA"},
	{"inject-samlrequest", "a&SAMLRequest=zzz"},
	{"inject-relaystate", "a&RelayState=b"},
	{"fragment", "a#frag&x=1"},
	{"mixed-url", "a+b c%41%zz"},
	{"query-like", "q=1&r=2;s=3"},
	{"url", "https://sp.example.com/app?x=1&y=2#top"},
	{"html", "\"'<>&amp;</form><input name=\"RelayState\" value=\"evil\">"},
	{"script", "</script><script>alert(1)</script>"},
	{"nonascii", "é日本😀ü"},
	{"two-lines", "line1\r\nline2"},
	{"padded", "  padded  "},
	{"leading-eq", "=a"},
	{"json", "{\"return\":\"/a?b=c\"}"},
}

var c12Plain = []c12Named{{"plain", "relayState"}, {"plain", "abc123"}, {"plain", "x"}, {"plain", "app-page_1"}}

var c12Alphabet = []string{"a", "b", "Z", "0", "9", "-", "_", ".", "&", "=", "#", "+", "%", " ", "\"", "'", "<", ">", ";", "?", "/", "é", "日", "😀", "\n", "\r", "\t", "%2", "~", ":"}

// cookie-name-safe ("token") characters for relay states that go through the middleware's RelayStateFunc
var c12TokenChars = []c12Named{
	{"tok-amp", "&"}, {"tok-hash", "#"}, {"tok-plus", "+"}, {"tok-pct", "%"}, {"tok-pct41", "%41"}, {"tok-squote", "'"},
	{"tok-bang", "!"}, {"tok-dollar", "$"}, {"tok-star", "*"}, {"tok-caret", "^"}, {"tok-backtick", "`"}, {"tok-pipe", "|"}, {"tok-tilde", "~"}, {"tok-dot", "."},
}
var c12TokenAlphabet = []string{"a", "b", "Z", "0", "9", "-", "_", ".", "&", "#", "+", "%", "'", "!", "$", "*", "^", "`", "|", "~"}

// c12DrawString draws one workload string. purpose: "relay" (may be empty), "nameid", "reqid", "token".
func c12DrawString(g *Rng, purpose string, breaking int) c12Named {
	if purpose == "token" {
		switch g.PickW(4, 5, 2, 3) {
		case 0:
			return Pick(g, c12Plain...)
		case 1:
			c := Pick(g, c12TokenChars...)
			return c12Named{c.class, "a" + c.s + "b"}
		case 2:
			n := Pick(g, 79, 80, 81, 200)
			return c12Named{fmt.Sprintf("tok-len%d", n), c12Rep("tok-", n)}
		default:
			n := 1 + g.Intn(16)
			var b strings.Builder
			for i := 0; i < n; i++ {
				b.WriteString(Pick(g, c12TokenAlphabet...))
			}
			return c12Named{"tok-random", b.String()}
		}
	}
	// breaking: weight of the hostile classes relative to 10 for plain/length classes
	switch g.PickW(10, 3*breaking, 2*breaking, 8, breaking, 2) {
	case 0:
		return Pick(g, c12Plain...)
	case 1:
		c := Pick(g, c12Chars...)
		return c12Named{c.class, "a" + c.s + "b"}
	case 2:
		return Pick(g, c12Composite...)
	case 3:
		n := Pick(g, 79, 80, 81, 500)
		switch g.PickW(3, 1, 1) {
		case 0:
			return c12Named{fmt.Sprintf("len%d", n), c12Rep("abcdefghij", n)}
		case 1: // multi-byte characters straddling the 80-byte mark
			return c12Named{fmt.Sprintf("len%d-utf8", n+1), c12Rep("x", n-39) + strings.Repeat("é", 20)}
		default:
			return c12Named{fmt.Sprintf("len%d-hostile", n), c12Rep("ab&c=d+e%20 ", n)}
		}
	case 4:
		n := 1 + g.Intn(20)
		var b strings.Builder
		for i := 0; i < n; i++ {
			b.WriteString(Pick(g, c12Alphabet...))
		}
		return c12Named{"random", b.String()}
	default:
		if purpose == "relay" {
			return c12Named{"empty", ""}
		}
		return c12Named{"plain", "x"}
	}
}

var c12Kinds = []string{
	"authn-redirect", "authn-post", "authn-make-redirect", "authn-make-post", "mw-redirect", "mw-post",
	"lreq-redirect", "lreq-post", "lreq-make-redirect", "lreq-make-post",
	"lresp-redirect", "lresp-post", "lresp-make-redirect", "lresp-make-post", "artifact-resolve",
}
var c12KindW = []int{14, 10, 7, 5, 8, 5, 10, 7, 3, 2, 9, 6, 3, 2, 3}

func genSPEgress(g *Rng, tier string) *Plan {
	k := c12Knobs{
		SSOQuery: Pick(g, "", "", "tenant=a&x=1", "t=a%26b+c&flag"),
		SLOQuery: Pick(g, "", "", "tenant=a&x=1", "t=a%26b+c&flag"),
		SLOFrag:  Pick(g, "", "", "", "#/slo", "#/portal?view=slo"),
		NameIDFormat: Pick(g, "", string(saml.UnspecifiedNameIDFormat), string(saml.TransientNameIDFormat), string(saml.EmailAddressNameIDFormat), string(saml.PersistentNameIDFormat),
			"urn:oasis:names:tc:SAML:1.1:nameid-format:X509SubjectName", "urn:oasis:names:tc:SAML:1.1:nameid-format:WindowsDomainQualifiedName", "urn:oasis:names:tc:SAML:2.0:nameid-format:kerberos", "urn:example:deployment:employee-number"),
		ReqCtx:     g.Bool(0.4),
		ReqCtxCmp:  Pick(g, "exact", "exact", "", "", "minimum", "maximum", "better"),
		EntityID:   Pick(g, "", "", "https://sp.example.com/entity", "https://sp.example.com/entity?a=1&b=2", "urn:example:sp:é<1>"),
		AltStream:  100 + uint64(g.Intn(1000)),
		ShortReads: Pick(g, 0, 0, 0, 0, 1, 7, 8),
		RandFault:  Pick(g, "", "", "", "", "", "temporary-x1", "temporary-x2", "temporary-x3", "temporary-x5", "temporary-x12", "eof", "error-once"), RandFaultStep: g.Intn(3),
		SensStep: -1,
	}
	switch g.Intn(3) {
	case 1:
		v := true
		k.ForceAuthn = &v
	case 2:
		v := false
		k.ForceAuthn = &v
	}
	if g.Bool(0.25) {
		k.KeyKind = "ec"
		k.SigMethod = Pick(g, "", dsig.ECDSASHA256SignatureMethod)
	} else {
		k.KeyKind = "rsa"
		k.SigMethod = Pick(g, "", "", dsig.RSASHA1SignatureMethod, dsig.RSASHA256SignatureMethod)
	}
	if g.Bool(0.3) {
		k.SPURL = Pick(g, c12SPURLs...).s
	}
	if g.Bool(0.3) {
		k.SLOQuery = Pick(g, c12ReservedQueries...)
	}
	base := k.spBase()
	p := &Plan{}
	n := 1 + g.PickW(4, 3, 2, 1)
	for i := 0; i < n; i++ {
		st := c12Step{Kind: c12Kinds[g.PickW(c12KindW...)]}
		switch {
		case strings.HasPrefix(st.Kind, "mw-"):
			st.Target = Pick(g, base+"/app", base+"/app/page?x=1&y=%C3%A9", base+"/")
			if g.Bool(0.55) {
				st.Custom = true
				s := c12DrawString(g, "token", 0)
				st.RelayState, st.RSClass = s.s, s.class
			} else {
				st.RSClass = "default-index"
			}
			if g.Bool(0.4) && i+1 < 4 {
				// the user reloads the page (or a second tab opens) before logging in: same URL, the first start's cookies presented
				p.Steps = append(p.Steps, mustJSON(st))
				st.Carry = true
				i++
				n++
			}
		case st.Kind == "artifact-resolve":
			s := c12DrawString(g, "reqid", 2)
			st.ReqID, st.RIDClass = s.s, s.class
		default:
			breaking := 6
			if strings.HasPrefix(st.Kind, "authn-") && strings.HasSuffix(st.Kind, "redirect") {
				breaking = 3 // the unescaped-RelayState defect of the pinned tree ends a run; keep most runs going
			}
			s := c12DrawString(g, "relay", breaking)
			st.RelayState, st.RSClass = s.s, s.class
			if strings.HasPrefix(st.Kind, "authn-make-") {
				st.RespBinding = Pick(g, "post", "post", "artifact")
			}
			if strings.HasPrefix(st.Kind, "lreq-") {
				s := c12DrawString(g, "nameid", 6)
				st.NameID, st.NIDClass = s.s, s.class
			}
			if strings.HasPrefix(st.Kind, "lresp-") {
				s := c12DrawString(g, "reqid", 4)
				st.ReqID, st.RIDClass = s.s, s.class
			}
		}
		p.Steps = append(p.Steps, mustJSON(st))
	}
	if g.Bool(0.6) {
		k.SensStep = g.Intn(n)
	}
	p.Knobs = mustJSON(k)
	return p
}

// ---------------------------------------------------------------- randomness seam

// c12Reader records every byte the library draws; it can flip exactly one byte of the stream.
type c12Reader struct {
	src    io.Reader
	pos    int
	flipAt int // absolute stream offset of the byte to alter, -1: none
	buf    []byte
}

// c12MaxRead: an io.Reader may return fewer bytes than asked for; the run's knob says how few.
var c12MaxRead int

// c12Fail: the next n reads of the configured random source fail with err.
var c12Fail struct {
	n   int
	err error
}

func c12ArmRandFault(kind string) {
	c12Fail.n, c12Fail.err = 0, nil
	switch {
	case strings.HasPrefix(kind, "temporary-x"):
		fmt.Sscanf(kind, "temporary-x%d", &c12Fail.n)
		c12Fail.err = syscall.EAGAIN
	case kind == "eof":
		c12Fail.n, c12Fail.err = 1, io.EOF
	case kind == "error-once":
		c12Fail.n, c12Fail.err = 1, errors.New("sim: entropy device unavailable")
	}
}

func (r *c12Reader) Read(p []byte) (int, error) {
	if c12Fail.n > 0 {
		c12Fail.n--
		return 0, c12Fail.err
	}
	if c12MaxRead > 0 && len(p) > c12MaxRead {
		p = p[:c12MaxRead]
	}
	n, err := r.src.Read(p)
	for i := 0; i < n; i++ {
		if r.pos+i == r.flipAt {
			p[i] ^= 0xA5
		}
	}
	r.buf = append(r.buf, p[:n]...)
	r.pos += n
	return n, err
}

func (r *c12Reader) mark() int { return len(r.buf) }

// c12Stream opens the plan-derived stream `stream` positioned at offset `skip`.
func c12Stream(p *Plan, stream uint64, skip int, flipAt int) *c12Reader {
	d := newDetReader(p.Seed, p.Run, stream)
	if skip > 0 {
		_, _ = io.ReadFull(d, make([]byte, skip))
	}
	return &c12Reader{src: d, pos: skip, flipAt: flipAt}
}

// ---------------------------------------------------------------- world

type c12World struct {
	k      c12Knobs
	kp     KeyPair
	sp     *saml.ServiceProvider
	idpMD  *saml.EntityDescriptor
	sso    map[string]string // binding URN -> IdP SSO location
	slo    map[string]string
	entity string
	acs    string // the configured ACS URL, as text
	reg    mapSPP
	jar    []*http.Cookie // the browser's cookies after the most recent middleware start
	// one IdP object for the run's login round trips (ServeSSO sees the run's requests one after another, each of them twice)
	serving *saml.IdentityProvider
	login   c12Login
}

const c12LoginForm = "<html>login form</html>"

// c12Login is the IdP's session provider: no session yet -> it answers with a login form itself, as the bundled server does.
type c12Login struct{ loggedIn bool }

func (l *c12Login) GetSession(w http.ResponseWriter, _ *http.Request, _ *saml.IdpAuthnRequest) *saml.Session {
	if !l.loggedIn {
		_, _ = io.WriteString(w, c12LoginForm)
		return nil
	}
	return &saml.Session{ID: "sid", NameID: "user@example.com", UserName: "user", CreateTime: time.Now(), ExpireTime: time.Now().Add(time.Hour), Index: "idx"}
}

func c12WithQuery(u, q string) string {
	if q == "" {
		return u
	}
	return u + "?" + q
}

func c12BuildWorld(k c12Knobs) *c12World {
	w := &c12World{k: k}
	if k.KeyKind == "ec" {
		w.kp = ecKeys[0]
	} else {
		w.kp = rsaKeys[1]
	}
	w.sso = map[string]string{
		saml.HTTPRedirectBinding: c12WithQuery(c12IdPBase+"/sso/redirect", k.SSOQuery),
		saml.HTTPPostBinding:     c12WithQuery(c12IdPBase+"/sso/post", k.SSOQuery),
	}
	w.slo = map[string]string{
		saml.HTTPRedirectBinding: c12WithQuery(c12IdPBase+"/slo/redirect", k.SLOQuery) + k.SLOFrag,
		saml.HTTPPostBinding:     c12WithQuery(c12IdPBase+"/slo/post", k.SLOQuery) + k.SLOFrag,
	}
	md := idpMetadataFor(idpEntity, "", "", []KeyPair{rsaKeys[0]}, nil, "signing")
	md.IDPSSODescriptors[0].SingleSignOnServices = []saml.Endpoint{
		{Binding: saml.HTTPRedirectBinding, Location: w.sso[saml.HTTPRedirectBinding]},
		{Binding: saml.HTTPPostBinding, Location: w.sso[saml.HTTPPostBinding]},
	}
	md.IDPSSODescriptors[0].SingleLogoutServices = []saml.Endpoint{
		{Binding: saml.HTTPRedirectBinding, Location: w.slo[saml.HTTPRedirectBinding]},
		{Binding: saml.HTTPPostBinding, Location: w.slo[saml.HTTPPostBinding]},
	}
	w.idpMD = md
	w.sp = newSP(k.spBase(), w.kp, k.EntityID, md)
	w.acs = k.spBase() + "/saml/acs"
	if w.sp.AcsURL.String() != w.acs {
		panic("harness: the SP URL " + k.spBase() + " is not spelled the way net/url writes it")
	}
	c12Configure(w.sp, k)
	w.entity = spEntityID(w.sp)
	w.reg = mapSPP{}
	return w
}

func c12Configure(sp *saml.ServiceProvider, k c12Knobs) {
	sp.SignatureMethod = k.SigMethod
	sp.AuthnNameIDFormat = saml.NameIDFormat(k.NameIDFormat)
	if k.ForceAuthn != nil {
		v := *k.ForceAuthn
		sp.ForceAuthn = &v
	} else {
		sp.ForceAuthn = nil
	}
	if k.ReqCtx {
		sp.RequestedAuthnContext = &saml.RequestedAuthnContext{Comparison: k.ReqCtxCmp, AuthnContextClassRef: c12CtxRef}
	} else {
		sp.RequestedAuthnContext = nil
	}
}

func (w *c12World) middleware(st c12Step) (*samlsp.Middleware, error) {
	opts := samlsp.Options{
		EntityID: w.k.EntityID, URL: mustURL(w.k.spBase()), Key: w.kp.Key, Certificate: w.kp.Cert, IDPMetadata: w.idpMD,
		SignRequest: w.k.SigMethod != "", ForceAuthn: w.k.ForceAuthn != nil && *w.k.ForceAuthn,
	}
	if w.k.ReqCtx {
		opts.RequestedAuthnContext = &saml.RequestedAuthnContext{Comparison: w.k.ReqCtxCmp, AuthnContextClassRef: c12CtxRef}
	}
	if st.Custom {
		rs := st.RelayState
		opts.RelayStateFunc = func(http.ResponseWriter, *http.Request) string { return rs }
	}
	m, err := samlsp.New(opts)
	if err != nil || m == nil {
		return nil, err
	}
	c12Configure(&m.ServiceProvider, w.k)
	if st.Kind == "mw-post" {
		m.Binding = saml.HTTPPostBinding
	}
	return m, nil
}

// c12MergeCookies is the browser's jar after a reply: a cookie set again replaces the one of that name.
func c12MergeCookies(held, set []*http.Cookie) []*http.Cookie {
	var out []*http.Cookie
	for _, h := range held {
		replaced := false
		for _, c := range set {
			if c.Name == h.Name {
				replaced = true
			}
		}
		if !replaced {
			out = append(out, h)
		}
	}
	for _, c := range set {
		if c.MaxAge >= 0 && c.Value != "" {
			out = append(out, c)
		}
	}
	return out
}

func c12BindingURN(s string) string {
	if s == "artifact" {
		return saml.HTTPArtifactBinding
	}
	return saml.HTTPPostBinding
}

// ---------------------------------------------------------------- emission (the real SP)

type c12Emission struct {
	msg      string // authn | lreq | lresp | artres
	binding  string // redirect | post | none
	site     string // signature component
	dest     string // location the statement says the message is for
	wireURL  string // redirect binding: the URL handed to the browser
	wireHTML string // POST binding: the HTML handed to the browser
	rawHTML  []byte // the very slice the SP returned (not copied): must still read the same at the end of the run
	givenID  string // ID the API exposed to the caller ("" if it did not)
	expectRS string
	rsKnown  bool // false: the relay state is the middleware's own random index (read from its tracking cookie)
	bareNL   bool // POST binding and the relay state holds a CR or LF outside a CRLF pair (declared don't-care: compared modulo newline normalisation)
	respBind []string
	cookies  []*http.Cookie
	mw       *samlsp.Middleware
	tracked  *samlsp.TrackedRequest
	err      error
	pan      any
	drawn    []byte
	status   int
}

func c12MsgSite(msg, binding string) string {
	switch msg {
	case "authn":
		return binding + "-authn"
	case "lreq":
		return binding + "-logout-request"
	case "lresp":
		return binding + "-logout-response"
	}
	return "artifact-resolve"
}

// arriving is the relay state the peer must receive (see bareNL).
func (em *c12Emission) arriving() string {
	if em.bareNL {
		return c12SubmitValue(em.expectRS)
	}
	return em.expectRS
}

// c12Emit lets the real SP create one message and returns what it put on the wire.
func (w *c12World) emit(st c12Step, rd *c12Reader) *c12Emission {
	em := &c12Emission{expectRS: st.RelayState, rsKnown: true}
	parts := strings.Split(st.Kind, "-")
	bind := parts[len(parts)-1]
	bURN := saml.HTTPRedirectBinding
	if bind == "post" {
		bURN = saml.HTTPPostBinding
	}
	em.binding = bind
	sp := w.sp
	mark := rd.mark()
	var u *url.URL
	var html []byte
	switch parts[0] {
	case "authn":
		em.msg, em.dest = "authn", w.sso[bURN]
		if parts[1] == "make" {
			em.respBind = []string{c12BindingURN(st.RespBinding)}
			em.pan = guard(func() {
				var req *saml.AuthnRequest
				req, em.err = sp.MakeAuthenticationRequest(sp.GetSSOBindingLocation(bURN), bURN, em.respBind[0])
				if em.err != nil || req == nil {
					return
				}
				em.givenID = req.ID
				if bind == "redirect" {
					u, em.err = req.Redirect(st.RelayState, sp)
				} else {
					html = req.Post(st.RelayState)
				}
			})
		} else {
			// the response binding is the SP's choice: any binding its own metadata offers at the ACS URL
			em.pan = guard(func() {
				for _, d := range sp.Metadata().SPSSODescriptors {
					for _, acs := range d.AssertionConsumerServices {
						if acs.Location == sp.AcsURL.String() {
							em.respBind = append(em.respBind, acs.Binding)
						}
					}
				}
				if bind == "redirect" {
					u, em.err = sp.MakeRedirectAuthenticationRequest(st.RelayState)
				} else {
					html, em.err = sp.MakePostAuthenticationRequest(st.RelayState)
				}
			})
		}
	case "mw":
		em.msg, em.dest = "authn", w.sso[bURN]
		var m *samlsp.Middleware
		em.pan = guard(func() { m, em.err = w.middleware(st) })
		if em.pan != nil || em.err != nil || m == nil {
			break
		}
		em.mw = m
		em.respBind = []string{m.ResponseBinding}
		h := m.RequireAccount(http.HandlerFunc(func(rw http.ResponseWriter, _ *http.Request) { rw.WriteHeader(http.StatusTeapot) }))
		var carried []*http.Cookie
		if st.Carry {
			carried = w.jar
		}
		rep := deliver(h, "GET", st.Target, "", "", carried)
		em.pan, em.status = rep.Panic, rep.Code
		em.cookies = c12MergeCookies(carried, rep.Cookies)
		w.jar = em.cookies
		if rep.Panic != nil {
			break
		}
		if bind == "redirect" {
			if rep.Code != http.StatusFound {
				em.err = fmt.Errorf("middleware answered %d instead of a redirect", rep.Code)
				break
			}
			em.wireURL = rep.Header.Get("Location")
		} else {
			if rep.Code != http.StatusOK {
				em.err = fmt.Errorf("middleware answered %d instead of a form", rep.Code)
				break
			}
			em.wireHTML = rep.Body
		}
		// what the SP believes it handed out: read back through its own request tracker
		probe, _ := http.NewRequest("GET", sp.AcsURL.String(), nil)
		for _, c := range rep.Cookies {
			probe.AddCookie(&http.Cookie{Name: c.Name, Value: c.Value})
		}
		var trs []samlsp.TrackedRequest
		if p := guard(func() { trs = m.RequestTracker.GetTrackedRequests(probe) }); p != nil {
			em.pan = p
			break
		}
		if len(trs) == 0 && len(carried) > 0 {
			// no new tracking state was handed out: what the SP tracks for this start is among what the browser presented
			for _, c := range carried {
				probe.AddCookie(&http.Cookie{Name: c.Name, Value: c.Value})
			}
			if p := guard(func() { trs = m.RequestTracker.GetTrackedRequests(probe) }); p != nil {
				em.pan = p
				break
			}
		}
		if len(trs) == 1 {
			em.tracked = &trs[0]
			em.givenID = trs[0].SAMLRequestID
			if !st.Custom {
				em.expectRS = trs[0].Index
			}
		}
		if !st.Custom {
			em.rsKnown = em.tracked != nil
		}
	case "lreq":
		em.msg, em.dest = "lreq", w.slo[bURN]
		if parts[1] == "make" {
			em.pan = guard(func() {
				var req *saml.LogoutRequest
				req, em.err = sp.MakeLogoutRequest(sp.GetSLOBindingLocation(bURN), st.NameID)
				if em.err != nil || req == nil {
					return
				}
				em.givenID = req.ID
				if bind == "redirect" {
					u = req.Redirect(st.RelayState)
				} else {
					html = req.Post(st.RelayState)
				}
			})
		} else {
			em.pan = guard(func() {
				if bind == "redirect" {
					u, em.err = sp.MakeRedirectLogoutRequest(st.NameID, st.RelayState)
				} else {
					html, em.err = sp.MakePostLogoutRequest(st.NameID, st.RelayState)
				}
			})
		}
	case "lresp":
		em.msg, em.dest = "lresp", w.slo[bURN]
		if parts[1] == "make" {
			em.pan = guard(func() {
				var resp *saml.LogoutResponse
				resp, em.err = sp.MakeLogoutResponse(sp.GetSLOBindingLocation(bURN), st.ReqID)
				if em.err != nil || resp == nil {
					return
				}
				em.givenID = resp.ID
				if bind == "redirect" {
					u = resp.Redirect(st.RelayState)
				} else {
					html = resp.Post(st.RelayState)
				}
			})
		} else {
			em.pan = guard(func() {
				if bind == "redirect" {
					u, em.err = sp.MakeRedirectLogoutResponse(st.ReqID, st.RelayState)
				} else {
					html, em.err = sp.MakePostLogoutResponse(st.ReqID, st.RelayState)
				}
			})
		}
	case "artifact":
		em.msg, em.binding = "artres", "none"
		em.pan = guard(func() {
			var req *saml.ArtifactResolve
			req, em.err = sp.MakeArtifactResolveRequest(st.ReqID)
			if req != nil {
				em.givenID = req.ID
			}
		})
	}
	if u != nil {
		em.wireURL = u.String()
	}
	if html != nil {
		em.wireHTML = string(html)
		em.rawHTML = html
	}
	em.site = c12MsgSite(em.msg, em.binding)
	if em.binding == "post" && c12SubmitValue(em.expectRS) != em.expectRS {
		em.bareNL = true
	}
	em.drawn = append([]byte(nil), rd.buf[mark:]...)
	return em
}

// ---------------------------------------------------------------- browser stub

// c12BrowserURL is what a browser does with the URL it is redirected to (URL standard): TAB/CR/LF are
// removed, everything after the first '#' is a fragment and is never sent, and the characters a URL query
// cannot carry (space, quotes, angle brackets, controls, non-ASCII) are percent-encoded as UTF-8.
func c12BrowserURL(loc string) (reqURL, fragment string, repaired, stripped bool) {
	var b strings.Builder
	for i := 0; i < len(loc); i++ {
		switch loc[i] {
		case '\t', '\n', '\r':
			stripped = true
		default:
			b.WriteByte(loc[i])
		}
	}
	s := strings.Trim(b.String(), " ")
	if i := strings.IndexByte(s, '#'); i >= 0 {
		s, fragment = s[:i], s[i+1:]
	}
	q := strings.IndexByte(s, '?')
	if q < 0 {
		return s, fragment, false, stripped
	}
	var o strings.Builder
	o.WriteString(s[:q+1])
	for i := q + 1; i < len(s); i++ {
		c := s[i]
		if c <= 0x20 || c >= 0x7f || c == '"' || c == '<' || c == '>' || c == '\'' {
			fmt.Fprintf(&o, "%%%02X", c)
			repaired = true
		} else {
			o.WriteByte(c)
		}
	}
	return o.String(), fragment, repaired, stripped
}

// c12SubmitValue is the newline normalisation a browser applies to form values on submission (HTML standard).
func c12SubmitValue(v string) string {
	v = strings.ReplaceAll(v, "\r\n", "\n")
	v = strings.ReplaceAll(v, "\r", "\n")
	return strings.ReplaceAll(v, "\n", "\r\n")
}

type c12Param struct {
	name, value string
	bad         bool // a percent-escape that does not decode
	used        bool
}

// c12ParseQuery splits a raw query exactly as application/x-www-form-urlencoded is defined: on '&' only.
func c12ParseQuery(raw string) []c12Param {
	var out []c12Param
	for _, piece := range strings.Split(raw, "&") {
		if piece == "" {
			continue
		}
		n, v, _ := strings.Cut(piece, "=")
		var p c12Param
		var e1, e2 error
		p.name, e1 = url.QueryUnescape(n)
		p.value, e2 = url.QueryUnescape(v)
		if e1 != nil || e2 != nil {
			p.bad = true
			if e1 != nil {
				p.name = n
			}
			if e2 != nil {
				p.value = v
			}
		}
		out = append(out, p)
	}
	return out
}

type c12Problem struct{ sym, expected, observed, detail string }

func c12Names(ps []c12Param) string {
	var ns []string
	for _, p := range ps {
		ns = append(ns, p.name)
	}
	return strings.Join(ns, ",")
}

// c12Reserved are the parameter names the bindings give a meaning to.
var c12Reserved = map[string]bool{"SAMLRequest": true, "SAMLResponse": true, "RelayState": true, "SigAlg": true, "Signature": true}

// c12CheckParams decides the parameter-level part of the statement: the endpoint's own parameters are
// still there, exactly one message parameter, RelayState as a single parameter with the given bytes,
// nothing else (SigAlg/Signature only where a signature may be carried).
//
// An endpoint whose own query uses one of the bindings' names: the statement wants a single message parameter (which has to
// decode to the message) and the given relay state as a single RelayState parameter, so the endpoint's own parameter of the
// message's name, and its own RelayState when a relay state is given, cannot stay beside them. When no relay state is given the
// statement does not say whose the endpoint's RelayState is: kept or left out, either is taken (note, counted as don't-care).
// The endpoint's parameters under the remaining reserved names (the other message name, SigAlg, Signature) are not judged.
func c12CheckParams(ps []c12Param, endpoint []c12Param, msgParam string, rsKnown bool, rs string, allowSig bool) (payload, note string, p *c12Problem) {
	var ownRS []string
	for _, e := range endpoint {
		if e.name == msgParam {
			continue
		}
		if e.name == "RelayState" {
			ownRS = append(ownRS, e.value)
			continue
		}
		found := false
		for i := range ps {
			if !ps[i].used && !ps[i].bad && ps[i].name == e.name && ps[i].value == e.value {
				ps[i].used, found = true, true
				break
			}
		}
		if !found && !c12Reserved[e.name] {
			return "", "", &c12Problem{"endpoint-query-altered", "the IdP endpoint's own parameter " + e.name + "=" + e.value, "parameters " + c12Names(ps), ""}
		}
	}
	counts := map[string]int{}
	var rsVals []string
	for _, q := range ps {
		if q.used {
			continue
		}
		if q.bad {
			return "", "", &c12Problem{"malformed-escape", "every parameter percent-decodes", fmt.Sprintf("parameter %q=%q does not decode", q.name, q.value), ""}
		}
		counts[q.name]++
		switch q.name {
		case msgParam:
			payload = q.value
		case "RelayState":
			rsVals = append(rsVals, q.value)
		case "SigAlg", "Signature":
			if !allowSig {
				return "", "", &c12Problem{"injected-parameter", "no " + q.name + " parameter", "parameters " + c12Names(ps), ""}
			}
		default:
			return "", "", &c12Problem{"injected-parameter", "only " + msgParam + " and RelayState beside the endpoint's own parameters", fmt.Sprintf("extra parameter %q", q.name), "parameters " + c12Names(ps)}
		}
	}
	if counts[msgParam] != 1 {
		return "", "", &c12Problem{"message-parameter-count", "exactly one " + msgParam, fmt.Sprintf("%d", counts[msgParam]), "parameters " + c12Names(ps)}
	}
	for _, n := range []string{"RelayState", "SigAlg", "Signature"} {
		if counts[n] > 1 {
			return "", "", &c12Problem{"duplicate-parameter", "at most one " + n, fmt.Sprintf("%d", counts[n]), "parameters " + c12Names(ps)}
		}
	}
	if rsKnown {
		switch {
		case rs == "" && len(rsVals) == 1 && rsVals[0] != "":
			own := false
			for _, v := range ownRS {
				own = own || v == rsVals[0]
			}
			if !own {
				return "", "", &c12Problem{"relaystate-altered", "no or empty RelayState", fmt.Sprintf("%q", rsVals[0]), ""}
			}
			note = "no-relay-state-given:endpoint's-own-RelayState-kept"
		case rs != "" && len(rsVals) == 0:
			return "", "", &c12Problem{"relaystate-dropped", fmt.Sprintf("RelayState=%q (%d bytes)", short(rs, 40), len(rs)), "no RelayState parameter", ""}
		case rs != "" && rsVals[0] != rs:
			return "", "", &c12Problem{"relaystate-altered", fmt.Sprintf("RelayState=%q", short(rs, 60)), fmt.Sprintf("%q", short(rsVals[0], 60)), ""}
		}
	}
	return payload, note, nil
}

// ---------------------------------------------------------------- stub consumer: decode the wire form

type c12Decoded struct {
	root       *etree.Element
	xml        []byte
	id         string
	hr         *http.Request // request as the peer receives it (authn requests go to the real IdP)
	rawQuery   string
	repaired   bool
	note       string // a reading the statement leaves open was met (see c12CheckParams)
	haveSig    bool
	sigPrefixB string // the query up to, not including, "&Signature="
	sigA       string // SAMLRequest=..&RelayState=..&SigAlg=.. assembled from the raw octets
	sigAlg     string
	sigB64     string
}

func c12Inflate(b []byte) ([]byte, error) {
	return io.ReadAll(io.LimitReader(flate.NewReader(bytes.NewReader(b)), 10<<20))
}

func c12RawPiece(rawQuery, name string) (string, bool) {
	for _, piece := range strings.Split(rawQuery, "&") {
		if strings.HasPrefix(piece, name+"=") {
			return piece, true
		}
	}
	return "", false
}

// c12Decode recovers the message from the wire form or says why it cannot.
func (w *c12World) decode(em *c12Emission) (*c12Decoded, *c12Problem) {
	d := &c12Decoded{}
	msgParam := "SAMLRequest"
	if em.msg == "lresp" {
		msgParam = "SAMLResponse"
	}
	destU, err := url.Parse(em.dest)
	if err != nil {
		panic("harness: bad destination " + em.dest)
	}
	endpoint := c12ParseQuery(destU.RawQuery)
	var payload string
	switch em.binding {
	case "redirect":
		if em.wireURL == "" {
			return nil, &c12Problem{"no-url", "a redirect URL", "none", ""}
		}
		reqURL, fragment, repaired, stripped := c12BrowserURL(em.wireURL)
		d.repaired = repaired
		base, rawQuery, _ := strings.Cut(reqURL, "?")
		d.rawQuery = rawQuery
		ps := c12ParseQuery(rawQuery)
		var prob *c12Problem
		want, wantFrag := em.dest, ""
		if i := strings.IndexByte(want, '#'); i >= 0 {
			want, wantFrag = want[:i], want[i+1:] // the endpoint's own fragment stays at the end of the URL, behind the query
		}
		if i := strings.IndexByte(want, '?'); i >= 0 {
			want = want[:i]
		}
		switch {
		case base != want:
			prob = &c12Problem{"wrong-endpoint", want, base, ""}
		case fragment != wantFrag:
			prob = &c12Problem{"fragment", "no fragment (a fragment never reaches the IdP)", fmt.Sprintf("fragment %q", short(fragment, 60)), "parameters " + c12Names(ps)}
		default:
			payload, d.note, prob = c12CheckParams(ps, endpoint, msgParam, em.rsKnown, em.expectRS, em.msg == "authn")
			if prob == nil && stripped {
				prob = &c12Problem{"raw-newline-in-url", "a URL without raw TAB/CR/LF", "the browser removed them", ""}
			}
		}
		if prob != nil {
			// Name the cause when it is visible on the wire: the relay state sits there verbatim although it needed escaping.
			if em.rsKnown && em.expectRS != "" && url.QueryEscape(em.expectRS) != em.expectRS && strings.Contains(em.wireURL, "RelayState="+em.expectRS) {
				prob = &c12Problem{"relaystate-not-escaped", fmt.Sprintf("RelayState=%q as one parameter", short(em.expectRS, 60)),
					prob.sym + ": " + prob.observed, "the relay state appears unescaped in the URL; " + prob.detail}
			}
			return nil, prob
		}
		hr, err := http.NewRequest("GET", reqURL, nil)
		if err != nil {
			return nil, &c12Problem{"unusable-url", "a URL a browser can request", err.Error(), ""}
		}
		d.hr = hr
		if raw, ok := c12RawPiece(rawQuery, "Signature"); ok {
			d.haveSig = true
			d.sigPrefixB = rawQuery[:strings.Index(rawQuery, raw)]
			d.sigPrefixB = strings.TrimSuffix(d.sigPrefixB, "&")
			var parts []string
			for _, n := range []string{msgParam, "RelayState", "SigAlg"} {
				if piece, ok := c12RawPiece(rawQuery, n); ok {
					parts = append(parts, piece)
				}
			}
			d.sigA = strings.Join(parts, "&")
			for _, q := range ps {
				if q.name == "SigAlg" {
					d.sigAlg = q.value
				}
				if q.name == "Signature" {
					d.sigB64 = q.value
				}
			}
		}
	case "post":
		if em.wireHTML == "" {
			return nil, &c12Problem{"no-form", "an HTML form", "none", ""}
		}
		f := parseForm(em.wireHTML)
		if f == nil || f.NForms != 1 {
			n := 0
			if f != nil {
				n = f.NForms
			}
			return nil, &c12Problem{"form-count", "exactly one form", fmt.Sprintf("%d", n), ""}
		}
		if !strings.EqualFold(f.Method, "post") {
			return nil, &c12Problem{"form-method", "post", f.Method, ""}
		}
		if f.Action != em.dest {
			return nil, &c12Problem{"form-action", em.dest, f.Action, ""}
		}
		var ps []c12Param
		names := sortedKeys(f.Fields)
		sub := url.Values{}
		for _, n := range names {
			for _, v := range f.Fields[n] {
				v = c12SubmitValue(v)
				ps = append(ps, c12Param{name: n, value: v})
				sub.Add(n, v)
			}
		}
		var prob *c12Problem
		payload, _, prob = c12CheckParams(ps, nil, msgParam, em.rsKnown, em.arriving(), false)
		if prob != nil {
			return nil, prob
		}
		d.hr = postRequest(f.Action, sub)
	}
	raw, err := base64.StdEncoding.DecodeString(payload)
	if err != nil {
		return nil, &c12Problem{"base64", msgParam + " is standard base64", "does not decode", ""}
	}
	if em.binding == "redirect" {
		raw, err = c12Inflate(raw)
		if err != nil {
			return nil, &c12Problem{"inflate", msgParam + " inflates", "does not inflate", ""}
		}
	}
	if err := xrv.Validate(bytes.NewReader(raw)); err != nil {
		return nil, &c12Problem{"xml-malformed", "well-formed XML", "rejected by the round-trip validator", ""}
	}
	doc := etree.NewDocument()
	if err := doc.ReadFromBytes(raw); err != nil || doc.Root() == nil {
		return nil, &c12Problem{"xml-malformed", "well-formed XML", "does not parse", ""}
	}
	d.root, d.xml = doc.Root(), raw
	d.id = d.root.SelectAttrValue("ID", "")
	return d, nil
}

func c12Child(el *etree.Element, ns, tag string) *etree.Element {
	for _, c := range el.ChildElements() {
		if c.Tag == tag && c.NamespaceURI() == ns {
			return c
		}
	}
	return nil
}

// c12CRtoLF is the line-end normalisation every XML parser applies to raw CR / CRLF.
func c12CRtoLF(s string) string {
	return strings.ReplaceAll(strings.ReplaceAll(s, "\r\n", "\n"), "\r", "\n")
}

func c12Bool(s string) (bool, bool) {
	switch s {
	case "true", "1":
		return true, true
	case "false", "0", "":
		return false, true
	}
	return false, false
}

// c12CheckMessage compares the recovered message with what was configured and given.
func (w *c12World) checkMessage(em *c12Emission, d *c12Decoded, st c12Step) *c12Problem {
	root := d.root
	wantTag := map[string]string{"authn": "AuthnRequest", "lreq": "LogoutRequest", "lresp": "LogoutResponse"}[em.msg]
	if root.Tag != wantTag || root.NamespaceURI() != c12Proto {
		return &c12Problem{"root-element", "{" + c12Proto + "}" + wantTag, "{" + root.NamespaceURI() + "}" + root.Tag, ""}
	}
	if d.id == "" {
		return &c12Problem{"id", "a message ID", "none", ""}
	}
	if em.givenID != "" && d.id != em.givenID {
		return &c12Problem{"id", "the ID the SP handed to its caller", "a different ID on the wire", ""}
	}
	if v := root.SelectAttrValue("Version", ""); v != "2.0" {
		return &c12Problem{"version", "2.0", v, ""}
	}
	if _, err := time.Parse(time.RFC3339Nano, root.SelectAttrValue("IssueInstant", "")); err != nil {
		return &c12Problem{"issue-instant", "an instant", root.SelectAttrValue("IssueInstant", ""), ""}
	}
	if v := root.SelectAttrValue("Destination", ""); v != em.dest {
		return &c12Problem{"destination", em.dest, v, ""}
	}
	iss := c12Child(root, c12Asrt, "Issuer")
	if iss == nil || iss.Text() != w.entity {
		got := "<none>"
		if iss != nil {
			got = iss.Text()
		}
		return &c12Problem{"issuer", w.entity, got, ""}
	}
	switch em.msg {
	case "authn":
		if v := root.SelectAttrValue("AssertionConsumerServiceURL", ""); v != w.acs {
			return &c12Problem{"acs-url", w.acs, v, ""}
		}
		pb := root.SelectAttrValue("ProtocolBinding", "")
		okPB := false
		for _, b := range em.respBind {
			okPB = okPB || b == pb
		}
		if !okPB {
			return &c12Problem{"protocol-binding", strings.Join(em.respBind, " or "), pb, ""}
		}
		pol := c12Child(root, c12Proto, "NameIDPolicy")
		format := ""
		if pol != nil {
			format = pol.SelectAttrValue("Format", "")
		}
		switch w.k.NameIDFormat {
		case "": // nothing configured: the statement fixes nothing
		case string(saml.UnspecifiedNameIDFormat):
			if format != "" && format != w.k.NameIDFormat {
				return &c12Problem{"nameid-policy", "no format or " + w.k.NameIDFormat, format, ""}
			}
		default:
			if format != w.k.NameIDFormat {
				return &c12Problem{"nameid-policy", w.k.NameIDFormat, format, ""}
			}
		}
		fa, ok := c12Bool(root.SelectAttrValue("ForceAuthn", ""))
		wantFA := w.k.ForceAuthn != nil && *w.k.ForceAuthn
		if !ok || fa != wantFA {
			return &c12Problem{"force-authn", fmt.Sprint(wantFA), root.SelectAttrValue("ForceAuthn", "<absent>"), ""}
		}
		rac := c12Child(root, c12Proto, "RequestedAuthnContext")
		if w.k.ReqCtx {
			ref := (*etree.Element)(nil)
			if rac != nil {
				ref = c12Child(rac, c12Asrt, "AuthnContextClassRef")
			}
			cmp := ""
			if rac != nil {
				cmp = rac.SelectAttrValue("Comparison", "")
			}
			// an unset comparison may travel as an absent or empty attribute or as the schema default
			okCmp := cmp == w.k.ReqCtxCmp || (w.k.ReqCtxCmp == "" && cmp == "exact")
			if rac == nil || ref == nil || ref.Text() != c12CtxRef || !okCmp {
				return &c12Problem{"requested-authn-context", w.k.ReqCtxCmp + " " + c12CtxRef, "absent or different", ""}
			}
		} else if rac != nil {
			return &c12Problem{"requested-authn-context", "none", "present", ""}
		}
	case "lreq":
		nid := c12Child(root, c12Asrt, "NameID")
		if nid == nil {
			return &c12Problem{"nameid", fmt.Sprintf("%q", st.NameID), "<none>", ""}
		}
		if nid.Text() != st.NameID {
			if c12CRtoLF(st.NameID) == nid.Text() {
				return &c12Problem{"xml/cr-read-back-as-lf", fmt.Sprintf("%q", short(st.NameID, 60)), fmt.Sprintf("%q", short(nid.Text(), 60)), "NameID of the LogoutRequest, " + em.site}
			}
			return &c12Problem{"nameid", fmt.Sprintf("%q", short(st.NameID, 60)), fmt.Sprintf("%q", short(nid.Text(), 60)), ""}
		}
		format := nid.SelectAttrValue("Format", "")
		switch w.k.NameIDFormat {
		case "":
		case string(saml.UnspecifiedNameIDFormat):
			if format != "" && format != w.k.NameIDFormat {
				return &c12Problem{"nameid-format", "no format or " + w.k.NameIDFormat, format, ""}
			}
		default:
			if format != w.k.NameIDFormat {
				return &c12Problem{"nameid-format", w.k.NameIDFormat, format, ""}
			}
		}
	case "lresp":
		if v := root.SelectAttrValue("InResponseTo", ""); v != st.ReqID {
			if c12CRtoLF(st.ReqID) == v {
				return &c12Problem{"xml/cr-read-back-as-lf", fmt.Sprintf("%q", short(st.ReqID, 60)), fmt.Sprintf("%q", short(v, 60)), "InResponseTo of the LogoutResponse, " + em.site}
			}
			return &c12Problem{"in-response-to", fmt.Sprintf("%q", short(st.ReqID, 60)), fmt.Sprintf("%q", short(v, 60)), ""}
		}
		stEl := c12Child(root, c12Proto, "Status")
		code := (*etree.Element)(nil)
		if stEl != nil {
			code = c12Child(stEl, c12Proto, "StatusCode")
		}
		if code == nil || code.SelectAttrValue("Value", "") != saml.StatusSuccess {
			return &c12Problem{"status", saml.StatusSuccess, "absent or different", ""}
		}
	}
	return nil
}

// ---------------------------------------------------------------- signatures (observed, see Assumptions)

func c12Hash(alg string) crypto.Hash {
	switch {
	case strings.HasSuffix(alg, "sha1"):
		return crypto.SHA1
	case strings.HasSuffix(alg, "sha256"):
		return crypto.SHA256
	case strings.HasSuffix(alg, "sha384"):
		return crypto.SHA384
	case strings.HasSuffix(alg, "sha512"):
		return crypto.SHA512
	}
	return 0
}

func c12VerifyString(cert *x509.Certificate, alg, content string, sig []byte) bool {
	h := c12Hash(alg)
	if h == 0 || !h.Available() {
		return false
	}
	hh := h.New()
	hh.Write([]byte(content))
	digest := hh.Sum(nil)
	switch pub := cert.PublicKey.(type) {
	case *rsa.PublicKey:
		return rsa.VerifyPKCS1v15(pub, h, digest, sig) == nil
	case *ecdsa.PublicKey:
		if ecdsa.VerifyASN1(pub, digest, sig) {
			return true
		}
		if len(sig)%2 == 0 && len(sig) > 0 {
			r := new(big.Int).SetBytes(sig[:len(sig)/2])
			s := new(big.Int).SetBytes(sig[len(sig)/2:])
			return ecdsa.Verify(pub, digest, r, s)
		}
	}
	return false
}

func c12VerifyEmbedded(root *etree.Element, cert *x509.Certificate) (present, valid bool) {
	if c12Child(root, "http://www.w3.org/2000/09/xmldsig#", "Signature") == nil {
		return false, false
	}
	ctx := dsig.NewDefaultValidationContext(&dsig.MemoryX509CertificateStore{Roots: []*x509.Certificate{cert}})
	var err error
	if p := guard(func() { _, err = ctx.Validate(root.Copy()) }); p != nil {
		return true, false
	}
	return true, err == nil
}

// ---------------------------------------------------------------- execution

type c12Created struct {
	step  int
	id    string
	start int // stream offset where this creation began
	drawn int
}

func c12Hostile(s string) bool {
	if len(s) > 80 {
		return true
	}
	for i := 0; i < len(s); i++ {
		c := s[i]
		if !(c >= 'a' && c <= 'z' || c >= 'A' && c <= 'Z' || c >= '0' && c <= '9' || c == '-' || c == '_') {
			return true
		}
	}
	return false
}

func execSPEgress(t *testing.T, p *Plan) *Result {
	res := newResult()
	k := decode[c12Knobs](p.Knobs)
	installRand(p)
	c12MaxRead = k.ShortReads
	defer func() { c12MaxRead = 0 }()
	if k.ShortReads > 0 {
		res.fire("rand:short-reads")
	}
	rd := c12Stream(p, 1, 0, -1)
	saml.RandReader = rd
	w := c12BuildWorld(k)
	var handedOut []*c12Emission // every POST form the SP returned, kept alive while later messages are created
	defer func() {
		for _, em := range handedOut {
			if res.Violation == nil && string(em.rawHTML) != em.wireHTML {
				res.logf("a POST form returned earlier changed after later messages were created (%s)", em.site)
				res.violate(0, "not-recoverable", "C12/"+em.site+"/returned-form-changed-later", "the bytes handed to the caller stay what they were", "altered by a later message creation", "")
			}
		}
	}()
	steps := make([]c12Step, len(p.Steps))
	for i, raw := range p.Steps {
		steps[i] = decode[c12Step](raw)
		if !utf8.ValidString(steps[i].RelayState+steps[i].NameID+steps[i].ReqID) || strings.ContainsRune(steps[i].RelayState+steps[i].NameID+steps[i].ReqID, 0) {
			res.dontcare("not-utf8-or-nul")
			res.logf("step %d outside the statement (not UTF-8 text without NUL)", i)
			return res
		}
	}
	if k.SSOQuery != "" || k.SLOQuery != "" {
		res.probe("idp-endpoint-with-query")
	}
	res.logf("config key=%s sig=%q sso?%q slo?%q format=%q force=%s ctx=%v entity=%q", k.KeyKind, k.SigMethod, k.SSOQuery, k.SLOQuery, k.NameIDFormat, c12PB(k.ForceAuthn), k.ReqCtx, k.EntityID)
	if k.SPURL != "" {
		res.logf("config sp-url=%q", k.SPURL)
	}

	var created []c12Created
	for si, st := range steps {
		if c12Hostile(st.RelayState) || c12Hostile(st.NameID) || c12Hostile(st.ReqID) || k.SSOQuery != "" || k.SLOQuery != "" || k.SPURL != "" {
			res.Nontrivial = true
		}
		start := rd.pos
		faulted := k.RandFault != "" && si == k.RandFaultStep
		if faulted {
			c12ArmRandFault(k.RandFault)
			res.fire("rand:" + k.RandFault)
		}
		em := w.emit(st, rd)
		c12Fail.n = 0
		if em.rawHTML != nil {
			handedOut = append(handedOut, em)
		}
		if faulted && (em.pan != nil || em.err != nil) {
			res.logf("step %d %s: the random source failed (%s) and no message was produced", si, st.Kind, k.RandFault)
			res.dontcare("random-source-failed:no-message")
			continue
		}
		if em.pan != nil {
			res.logf("step %d %s: PANIC in the SP", si, st.Kind)
			res.Excluded = "panic (reported under C09)"
			return res
		}
		tag := fmt.Sprintf("step %d %s rs=%q[%s]", si, st.Kind, short(st.RelayState, 48), st.RSClass)
		if st.NameID != "" {
			tag += fmt.Sprintf(" nameid=%q[%s]", short(st.NameID, 48), st.NIDClass)
		}
		if st.ReqID != "" {
			tag += fmt.Sprintf(" reqid=%q[%s]", short(st.ReqID, 48), st.RIDClass)
		}
		if em.err != nil {
			res.logf("%s: SP returned an error", tag)
			res.violate(si, "not-emitted", "C12/"+em.site+"/api-error", "a message", "error", em.err.Error())
			return res
		}
		if em.msg == "artres" {
			res.logf("%s: created, drew %d bytes", tag, len(em.drawn))
			if em.givenID == "" {
				res.violate(si, "id-not-fresh", "C12/artifact-resolve/no-id", "an ID", "none", "")
				return res
			}
			created = append(created, c12Created{si, em.givenID, start, len(em.drawn)})
			continue
		}
		if strings.HasPrefix(st.Kind, "mw-") {
			if em.tracked == nil {
				res.logf("%s: middleware left no readable tracking state", tag)
				if st.Custom {
					// the relay state is used as a cookie name; see DESIGN §4 C12 (limitation of custom RelayStateFunc)
					res.dontcare("middleware-tracking-cookie-unreadable")
				} else {
					res.violate(si, "not-emitted", "C12/middleware/no-tracked-request", "one tracked request", "none", "")
					return res
				}
			}
			if st.Custom {
				res.probe("middleware-custom-relaystate")
			}
		}
		d, prob := w.decode(em)
		if prob == nil {
			prob = w.checkMessage(em, d, st)
		}
		if prob != nil {
			c12Count(res, em.site, st, prob.sym)
			res.logf("%s: NOT RECOVERABLE (%s) expected %s observed %s", tag, prob.sym, prob.expected, prob.observed)
			sig := "C12/" + em.site + "/" + prob.sym
			if strings.HasPrefix(prob.sym, "xml/") {
				sig = "C12/" + prob.sym // one cause at every site: named by the symptom alone, site in the detail
			}
			res.violate(si, "not-recoverable", sig, prob.expected, prob.observed, prob.detail)
			return res
		}
		if em.bareNL {
			res.dontcare("post-form-bare-newline(compared modulo CRLF normalisation)")
		}
		if d.repaired {
			res.probe("redirect-url-needed-browser-repair")
		}
		if d.note != "" {
			res.dontcare(d.note)
		}
		if em.binding == "redirect" && em.msg != "authn" && c12UsesReserved(k.SLOQuery) {
			res.probe("logout-redirect-to-endpoint-whose-query-uses-reserved-names")
			if st.RelayState != "" {
				res.probe("logout-redirect-to-endpoint-whose-query-uses-reserved-names:relay-state-given")
			}
		}
		if em.binding == "redirect" && em.msg == "authn" && c12UsesReserved(k.SSOQuery) {
			res.probe("authn-redirect-to-endpoint-whose-query-uses-reserved-names")
		}
		if em.msg == "authn" && k.SPURL != "" {
			res.probe("authn-request-of-sp-at:" + c12SPURLClass(k.SPURL))
		}
		if len(st.RelayState) > 80 && em.binding == "redirect" && em.msg != "authn" {
			res.probe("relaystate>80-on-logout-redirect")
		}
		if len(st.RelayState) > 80 && em.msg == "authn" {
			res.probe("relaystate>80-on-authn")
		}
		created = append(created, c12Created{si, d.id, start, len(em.drawn)})
		line := tag + ": recovered"

		// signatures: outside the statement; observed and counted, decisive only when a signature is present and verifies under no reading
		if d.haveSig {
			sig, err := base64.StdEncoding.DecodeString(d.sigB64)
			okA := err == nil && c12VerifyString(w.kp.Cert, d.sigAlg, d.sigA, sig)
			okB := err == nil && c12VerifyString(w.kp.Cert, d.sigAlg, d.sigPrefixB, sig)
			switch {
			case d.sigAlg != k.SigMethod:
				res.violate(si, "not-recoverable", "C12/"+em.site+"/sigalg", k.SigMethod, d.sigAlg, "")
				return res
			case okA:
				res.Extra["query-signature:over-SAMLRequest&RelayState&SigAlg"]++
				line += " qsig=spec"
			case okB:
				res.Extra["query-signature:over-whole-query-including-endpoint-parameters"]++
				line += " qsig=whole-query"
			default:
				res.logf("%s: query signature verifies under no reading", tag)
				sym, detail := "query-signature-unverifiable", ""
				if em.rsKnown && em.expectRS != "" && url.QueryEscape(em.expectRS) != em.expectRS && strings.Contains(em.wireURL, "RelayState="+em.expectRS) {
					sym, detail = "relaystate-not-escaped", "the relay state appears unescaped in the URL; the signature was made over octets the browser has to percent-encode"
					c12Count(res, em.site, st, "query-signature")
				}
				res.violate(si, "not-recoverable", "C12/"+em.site+"/"+sym, "a signature over the octets that reach the IdP", "does not verify", detail)
				return res
			}
		} else if k.SigMethod != "" && em.msg == "authn" && em.binding == "redirect" {
			res.Extra["query-signature:absent-though-configured"]++
			line += " qsig=absent"
		}
		if present, valid := c12VerifyEmbedded(d.root, w.kp.Cert); present {
			if valid {
				res.Extra["embedded-signature:valid"]++
				line += " xmlsig=valid"
			} else {
				res.Extra["embedded-signature:invalid:"+em.site]++
				line += " xmlsig=INVALID"
			}
		} else if k.SigMethod != "" && !(em.msg == "authn" && em.binding == "redirect") {
			res.Extra["embedded-signature:absent-though-configured:"+em.site]++
			line += " xmlsig=absent"
		}

		// the real library IdP must parse and validate every authentication request
		if em.msg == "authn" {
			// the SP is registered at the IdP with its own metadata
			regSP := w.sp
			if em.mw != nil {
				regSP = &em.mw.ServiceProvider
			}
			if pan := guard(func() { w.reg[w.entity] = regSP.Metadata() }); pan != nil {
				res.logf("%s; PANIC in Metadata()", line)
				res.Excluded = "panic (reported under C09)"
				return res
			}
			bURN := saml.HTTPRedirectBinding
			if em.binding == "post" {
				bURN = saml.HTTPPostBinding
			}
			idp := newIdP(c12IdPBase, rsaKeys[0], w.reg)
			idp.SSOURL = mustURL(w.sso[bURN])
			var ireq *saml.IdpAuthnRequest
			var perr, verr error
			pan := guard(func() {
				ireq, perr = saml.NewIdpAuthnRequest(idp, d.hr)
				if perr == nil {
					verr = ireq.Validate()
				}
			})
			if pan != nil {
				res.logf("%s; IdP PANIC", line)
				res.Excluded = "panic (reported under C09)"
				return res
			}
			if perr != nil || verr != nil {
				stage, e := "parse", perr
				if perr == nil {
					stage, e = "validate", verr
				}
				res.logf("%s; IdP REJECT at %s", line, stage)
				res.violate(si, "idp-rejected", "C12/"+em.site+"/idp-"+stage, "the library IdP accepts the request", "REJECT", e.Error())
				return res
			}
			if em.rsKnown && d.note == "" && ireq.RelayState != em.arriving() { // d.note: no relay state given, the endpoint's own one travels
				c12Count(res, em.site, st, "relaystate")
				res.logf("%s; IdP ACCEPT but relay state differs", line)
				sym := "idp-relaystate-altered"
				if url.QueryEscape(em.expectRS) != em.expectRS && strings.Contains(em.wireURL, "RelayState="+em.expectRS) {
					sym = "relaystate-not-escaped"
				}
				res.violate(si, "not-recoverable", "C12/"+em.site+"/"+sym, fmt.Sprintf("%q", short(em.expectRS, 60)), fmt.Sprintf("%q", short(ireq.RelayState, 60)),
					"the wire form splits into the right parameters, but the library IdP's query parser recovers something else")
				return res
			}
			rq := ireq.Request
			switch {
			case rq.ID != d.id:
				prob = &c12Problem{"idp-parsed-id", "the ID on the wire", "another", ""}
			case rq.Issuer == nil || rq.Issuer.Value != w.entity:
				prob = &c12Problem{"idp-parsed-issuer", w.entity, "another", ""}
			case rq.Destination != em.dest:
				prob = &c12Problem{"idp-parsed-destination", em.dest, rq.Destination, ""}
			case rq.AssertionConsumerServiceURL != w.acs:
				prob = &c12Problem{"idp-parsed-acs-url", w.acs, rq.AssertionConsumerServiceURL, ""}
			}
			if prob != nil {
				res.logf("%s; IdP ACCEPT but parsed %s differs", line, prob.sym)
				res.violate(si, "not-recoverable", "C12/"+em.site+"/"+prob.sym, prob.expected, prob.observed, "")
				return res
			}
			line += "; IdP ACCEPT relay=same"

			// login round trip at the SSO endpoint: the request arrives, the user is shown a login form, and the very same request
			// arrives again with the credentials (the form carries it back). It is as valid the second time as the first.
			if w.serving == nil {
				w.serving = newIdP(c12IdPBase, rsaKeys[0], w.reg)
				w.serving.SessionProvider = &w.login
			}
			w.serving.SSOURL = mustURL(w.sso[bURN])
			present := func(loggedIn bool) (*httptest.ResponseRecorder, any) {
				var r *http.Request
				if d.hr.Method == "POST" {
					r = postRequest(d.hr.URL.String(), d.hr.PostForm)
				} else {
					r = httptest.NewRequest("GET", d.hr.URL.String(), nil)
				}
				w.login.loggedIn = loggedIn
				rec := httptest.NewRecorder()
				return rec, guard(func() { w.serving.ServeSSO(rec, r) })
			}
			rec1, pan1 := present(false)
			rec2, pan2 := present(true)
			if pan1 != nil || pan2 != nil {
				res.Excluded = "panic (reported under C09)"
				return res
			}
			switch {
			case rec1.Code != 200 || rec1.Body.String() != c12LoginForm:
				res.logf("%s; ServeSSO answered %d to the first presentation", line, rec1.Code)
				res.violate(si, "idp-rejected", "C12/"+em.site+"/idp-servesso-first-presentation", "the session provider's login form", fmt.Sprintf("status %d", rec1.Code), short(rec1.Body.String(), 200))
				return res
			case rec2.Code != 200 || !strings.Contains(rec2.Body.String(), "SAMLResponse"):
				res.logf("%s; ServeSSO answered %d to the same request presented again after the login form", line, rec2.Code)
				res.violate(si, "idp-rejected", "C12/"+em.site+"/idp-servesso-second-presentation", "the request is validated again and answered", fmt.Sprintf("status %d", rec2.Code), short(rec2.Body.String(), 200))
				return res
			}
			res.probe("login-round-trip-through-servesso")

			// return leg: the form the IdP sends back carries the relay state; through the middleware the flow ends at the original URL
			var hr2 *http.Request
			if em.binding == "redirect" {
				hr2, _ = http.NewRequest("GET", d.hr.URL.String(), nil)
			} else {
				_ = d.hr.ParseForm()
				hr2 = postRequest(d.hr.URL.String(), d.hr.PostForm)
			}
			var form saml.IdpAuthnRequestForm
			var ierr error
			sess := &saml.Session{ID: "sess", NameID: "user@example.com", UserName: "user", UserEmail: "user@example.com", Index: "idx",
				CreateTime: time.Now(), ExpireTime: time.Now().Add(time.Hour)}
			pan = guard(func() { _, form, ierr = libIssue(idp, hr2, sess, nil) })
			switch {
			case pan != nil:
				res.logf("%s; IdP PANIC while answering", line)
				res.Excluded = "panic (reported under C09)"
				return res
			case ierr != nil:
				res.probe("idp-answer-failed:" + k.KeyKind + "-key(other properties)")
				line += "; IdP could not answer"
			default:
				if em.rsKnown && d.note == "" && form.RelayState != em.arriving() {
					res.logf("%s; IdP answer carries another relay state", line)
					res.violate(si, "not-recoverable", "C12/idp-return/relaystate-altered", fmt.Sprintf("%q", short(em.expectRS, 60)), fmt.Sprintf("%q", short(form.RelayState, 60)), "")
					return res
				}
				res.probe("idp-return-leg-completed")
				line += "; answer relay=same"
				if em.mw != nil && em.tracked != nil {
					fields := url.Values{"SAMLResponse": {form.SAMLResponse}}
					if form.RelayState != "" {
						fields.Set("RelayState", form.RelayState)
					}
					rep := deliver(em.mw, "POST", form.URL, fields.Encode(), formCT, em.cookies)
					tu, _ := url.Parse(st.Target)
					loc := rep.Header.Get("Location")
					switch {
					case rep.Panic != nil:
						res.logf("%s; ACS PANIC", line)
						res.Excluded = "panic (reported under C09)"
						return res
					case rep.Code == http.StatusFound && (loc == st.Target || (tu != nil && loc == tu.RequestURI())):
						res.probe("middleware-flow-returned-to-original-url")
						line += "; flow ended at the original URL"
					default:
						res.logf("%s; flow did not return (%d)", line, rep.Code)
						res.violate(si, "flow-not-completed", "C12/middleware/flow-did-not-return-to-original-url", "302 to "+st.Target, fmt.Sprintf("%d %s", rep.Code, loc), "")
						return res
					}
				}
			}
		}
		c12Count(res, em.site, st, "")
		res.logf("%s", line)
	}

	// ---- ID freshness over the run's whole creation sequence
	c12Freshness(p, w, steps, created, res)
	return res
}

// c12Count keeps the per-class outcome table (evidence only).
func c12Count(res *Result, site string, st c12Step, sym string) {
	switch {
	case sym == "":
		res.Extra["relay:"+site+":"+st.RSClass+":ok"]++
		if st.NIDClass != "" {
			res.Extra["nameid:"+site+":"+st.NIDClass+":ok"]++
		}
		if st.RIDClass != "" {
			res.Extra["reqid:"+site+":"+st.RIDClass+":ok"]++
		}
	case sym == "nameid" || sym == "xml/cr-read-back-as-lf" && st.NIDClass != "":
		res.Extra["nameid:"+site+":"+st.NIDClass+":broken"]++
	case sym == "in-response-to" || sym == "xml/cr-read-back-as-lf":
		res.Extra["reqid:"+site+":"+st.RIDClass+":broken"]++
	default:
		res.Extra["relay:"+site+":"+st.RSClass+":broken("+sym+")"]++
	}
}

func c12PB(b *bool) string {
	if b == nil {
		return "unset"
	}
	return fmt.Sprint(*b)
}

// c12IDOf re-creates message `st` on reader rd and returns its ID ("" if it cannot be recovered).
func (w *c12World) idOf(st c12Step, rd *c12Reader) (string, any) {
	saml.RandReader = rd
	em := w.emit(st, rd)
	if em.pan != nil {
		return "", em.pan
	}
	if em.err != nil {
		return "", nil
	}
	if em.msg == "artres" {
		return em.givenID, nil
	}
	em.rsKnown = false // only the ID is wanted here
	d, prob := w.decode(em)
	if prob != nil || d == nil {
		return em.givenID, nil
	}
	return d.id, nil
}

func c12ContainsEncoding(id string, drawn []byte) bool {
	for i := 0; i+16 <= len(drawn); i++ {
		lower := hex.EncodeToString(drawn[i : i+16])
		if strings.Contains(id, lower) || strings.Contains(id, strings.ToUpper(lower)) {
			return true
		}
	}
	for _, enc := range []*base64.Encoding{base64.RawStdEncoding, base64.RawURLEncoding} {
		for i := 0; i+18 <= len(drawn); i += 3 {
			if strings.Contains(id, enc.EncodeToString(drawn[i:i+18])) {
				return true
			}
		}
	}
	return false
}

func c12Freshness(p *Plan, w *c12World, steps []c12Step, created []c12Created, res *Result) bool {
	k := w.k
	seen := map[string]int{}
	for _, c := range created {
		site := steps[c.step].Kind
		if c.drawn < 16 {
			res.logf("freshness step %d: %d random bytes drawn during creation", c.step, c.drawn)
			res.violate(c.step, "id-not-fresh", "C12/id/fewer-than-128-bits-drawn", ">= 16 bytes drawn from the configured random source during the creation", fmt.Sprintf("%d", c.drawn), site)
			return true
		}
		if prev, dup := seen[c.id]; dup {
			res.logf("freshness step %d: same ID as step %d", c.step, prev)
			res.violate(c.step, "id-not-fresh", "C12/id/repeated", "pairwise distinct IDs", "repeat", site)
			return true
		}
		seen[c.id] = c.step
	}
	// second pass: the same creation sequence on a different byte stream must change every ID
	alt := c12Stream(p, k.AltStream, 0, -1)
	for _, c := range created {
		id2, pan := w.idOf(steps[c.step], alt)
		if pan != nil {
			res.Excluded = "panic (reported under C09)"
			return true
		}
		if id2 == "" {
			continue // not recoverable on the other stream (relay-state independent); nothing to compare
		}
		if _, dup := seen[id2]; dup {
			res.logf("freshness step %d: ID unchanged/colliding on a different random stream", c.step)
			res.violate(c.step, "id-not-fresh", "C12/id/independent-of-random-source", "a different ID when the random source yields different bytes", "same ID", steps[c.step].Kind)
			return true
		}
		seen[id2] = c.step
	}
	res.logf("freshness: %d creations, each drew >= 16 bytes, IDs pairwise distinct, all change with the stream", len(created))
	// third pass: byte-by-byte sensitivity of one creation's ID
	for _, c := range created {
		if c.step != k.SensStep {
			continue
		}
		st := steps[c.step]
		ctl, pan := w.idOf(st, c12Stream(p, 1, c.start, -1))
		if pan != nil {
			res.Excluded = "panic (reported under C09)"
			return true
		}
		if ctl != c.id {
			// the ID has inputs beside the random bytes; fall back to the structural measure
			res.probe("id-control-rerun-differs")
			rd := c12Stream(p, 1, c.start, -1)
			_, _ = w.idOf(st, rd)
			if !c12ContainsEncoding(c.id, rd.buf) {
				res.logf("sensitivity step %d: ID neither reproducible from nor containing the drawn bytes", c.step)
				res.violate(c.step, "id-not-fresh", "C12/id/not-derived-from-128-random-bits", "an ID embedding >= 16 drawn bytes", "no such embedding", st.Kind)
				return true
			}
			continue
		}
		sensitive := 0
		limit := c.drawn
		if limit > 64 {
			limit = 64
		}
		for j := 0; j < limit && sensitive < 16; j++ {
			idj, pan := w.idOf(st, c12Stream(p, 1, c.start, c.start+j))
			if pan != nil {
				res.Excluded = "panic (reported under C09)"
				return true
			}
			if idj != c.id {
				sensitive++
			}
		}
		res.probe("id-sensitivity-measured")
		res.logf("sensitivity step %d %s: >=%d of the drawn bytes each change the ID", c.step, st.Kind, sensitive)
		if sensitive < 16 {
			res.violate(c.step, "id-not-fresh", "C12/id/not-derived-from-128-random-bits", "the ID depends on >= 16 of the bytes drawn during its creation", fmt.Sprintf("depends on %d", sensitive), st.Kind)
			return true
		}
	}
	return false
}

// ---------------------------------------------------------------- minimisation

func c12Shorter(s string) []string {
	if s == "" {
		return nil
	}
	out := []string{"", "a"}
	rs := []rune(s)
	if len(rs) > 1 {
		out = append(out, string(rs[:len(rs)/2]), string(rs[len(rs)/2:]))
	}
	if len(rs) <= 16 {
		for i := range rs {
			out = append(out, string(rs[:i])+string(rs[i+1:]))
		}
	}
	return out
}

func simplifySPEgress(p *Plan) []*Plan {
	var out []*Plan
	k := decode[c12Knobs](p.Knobs)
	withK := func(f func(*c12Knobs)) {
		k2 := k
		f(&k2)
		c := p.Clone()
		c.Knobs = mustJSON(k2)
		out = append(out, c)
	}
	if k.SensStep >= 0 {
		withK(func(k *c12Knobs) { k.SensStep = -1 })
	}
	if k.SigMethod != "" {
		withK(func(k *c12Knobs) { k.SigMethod = "" })
	}
	if k.KeyKind != "rsa" {
		withK(func(k *c12Knobs) { k.KeyKind = "rsa"; k.SigMethod = "" })
	}
	if k.SSOQuery != "" {
		withK(func(k *c12Knobs) { k.SSOQuery = "" })
	}
	if k.SLOFrag != "" {
		withK(func(k *c12Knobs) { k.SLOFrag = "" })
	}
	if k.SLOQuery != "" {
		withK(func(k *c12Knobs) { k.SLOQuery = "" })
	}
	if k.NameIDFormat != "" {
		withK(func(k *c12Knobs) { k.NameIDFormat = "" })
	}
	if k.ForceAuthn != nil {
		withK(func(k *c12Knobs) { k.ForceAuthn = nil })
	}
	if k.ReqCtx {
		withK(func(k *c12Knobs) { k.ReqCtx = false })
	}
	if k.EntityID != "" {
		withK(func(k *c12Knobs) { k.EntityID = "" })
	}
	if k.SPURL != "" {
		// the SP moves to the default URL, and the URLs the browser asks it for move with it
		c := p.Clone()
		k2 := k
		k2.SPURL = ""
		c.Knobs = mustJSON(k2)
		for i, raw := range c.Steps {
			st := decode[c12Step](raw)
			if strings.HasPrefix(st.Target, k.SPURL) {
				st.Target = spBase + strings.TrimPrefix(st.Target, k.SPURL)
				c.Steps[i] = mustJSON(st)
			}
		}
		out = append(out, c)
	}
	for i, raw := range p.Steps {
		st := decode[c12Step](raw)
		put := func(f func(*c12Step)) {
			s2 := st
			f(&s2)
			c := p.Clone()
			c.Steps[i] = mustJSON(s2)
			out = append(out, c)
		}
		if !strings.HasPrefix(st.Kind, "mw-") || st.Custom {
			for _, s := range c12Shorter(st.RelayState) {
				s := s
				if strings.HasPrefix(st.Kind, "mw-") && s == "" {
					continue
				}
				put(func(x *c12Step) { x.RelayState = s; x.RSClass = "minimised" })
			}
		}
		for _, s := range c12Shorter(st.NameID) {
			s := s
			put(func(x *c12Step) { x.NameID = s; x.NIDClass = "minimised" })
		}
		for _, s := range c12Shorter(st.ReqID) {
			s := s
			put(func(x *c12Step) { x.ReqID = s; x.RIDClass = "minimised" })
		}
		if strings.Contains(st.Kind, "-make-") {
			put(func(x *c12Step) { x.Kind = strings.Replace(x.Kind, "-make-", "-", 1); x.RespBinding = "" })
		}
		if st.Target != "" && st.Target != k.spBase()+"/app" {
			put(func(x *c12Step) { x.Target = k.spBase() + "/app" })
		}
	}
	return out
}

func init() {
	register(&Profile{
		ID: "C12", Name: "sp-egress", Level: "exploration",
		Rule: "each run: one SP configuration (RSA/ECDSA key, unsigned or rsa-sha1/rsa-sha256/ecdsa-sha256, IdP SSO and SLO endpoint URLs without/with a query string (30% of runs: an SLO endpoint whose own query uses SAMLRequest/SAMLResponse/RelayState), SP deployed at https://sp.example.com or (30%) at a URL with an explicit default or other port, plain http, an IPv6/IPv4 literal host, 5 name-ID-format settings, ForceAuthn unset/true/false, RequestedAuthnContext set/unset, entity ID unset/URL/URL-with-query/URN-with-XML-metacharacters) and 1-4 message creations drawn from 15 kinds (AuthnRequest via MakeRedirect/MakePost/MakeAuthenticationRequest+Redirect/Post and via samlsp.Middleware.RequireAccount; LogoutRequest and LogoutResponse via the Make* and Make*+Redirect/Post builders; ArtifactResolve) with relay state / name ID / request ID drawn from plain, single metacharacter (& = # + % %41 %zz ; ? / space quotes <> TAB LF CR CRLF non-ASCII ...), composite injection strings, 79/80/81/500-byte, and random strings; every wire form is taken through a browser stub to the real library IdP (authn) or a stub SLO consumer (logout); the whole creation sequence is re-executed on a different random stream and one creation on streams differing in a single byte. non-trivial = some string is not [A-Za-z0-9_-]{0,80} or an endpoint carries a query string; distinct = distinct abstract event log (configuration, kinds, strings, outcome per stage); 40% of middleware starts are followed by a reload of the same URL that presents the first start's tracking cookies (every start must carry its own fresh ID)",
		Gen:  genSPEgress, Exec: execSPEgress, Simplify: simplifySPEgress,
		RunsQuick: 4000, RunsThorough: 400000,
		Assumptions: []string{
			"text = valid UTF-8 without NUL; of the C0 controls only TAB, LF, CR are generated",
			"the redirect URL reaches the IdP through a browser that follows the URL standard: TAB/CR/LF are removed, the part after '#' is not sent, space/quotes/<>/non-ASCII in the query are percent-encoded by the browser (counted as probe redirect-url-needed-browser-repair, not a violation)",
			"a browser normalises newlines in form values to CRLF on submission, so a relay state holding a CR or LF outside a CRLF pair cannot survive any POST form byte-for-byte: declared DONT_CARE (post-form-bare-newline), compared modulo that normalisation; CRLF pairs must survive",
			"IdP SSO endpoint query strings do not themselves use the reserved names SAMLRequest/SAMLResponse/RelayState/SigAlg/Signature (the pinned tree's AuthnRequest.Redirect appends to the endpoint's raw query, so such an endpoint ends up with two parameters of a name: known, DESIGN 13.2); single-logout endpoint queries do use SAMLRequest/SAMLResponse/RelayState: the URL must then carry a single message parameter that decodes to the message and, when a relay state is given, a single RelayState with the given bytes; when none is given the endpoint's own RelayState may stay or go (DONT_CARE no-relay-state-given:endpoint's-own-RelayState-kept); the endpoint's parameter under the other message name is not judged",
			"XML is read with the repository's own parser family (encoding/xml via etree after xml-roundtrip-validator): raw TAB/LF inside attributes are kept (a fully conformant parser would fold them to spaces), CR becomes LF",
			"signatures are outside the statement: a query signature is decisive only if present and verifying under neither reading (over SAMLRequest&RelayState&SigAlg, or over the whole query before &Signature); embedded XML signatures are only counted",
			"ID derivation measure: >= 16 bytes drawn from saml.RandReader during the creation; the ID changes when the stream changes; for one creation per run, flipping single drawn bytes changes the ID for >= 16 byte positions (if the ID is not reproducible from the bytes alone: it must embed hex/base64 of >= 16 drawn bytes)",
			"a failing random source (temporary errors N times in a row, EOF, a plain error) may end in no message at all (randomBytes panics by design); a message that is produced all the same must carry a fresh ID like any other",
		},
		Components: map[string][]string{
			"real": {"saml.ServiceProvider.Make{Redirect,Post}AuthenticationRequest / MakeAuthenticationRequest + AuthnRequest.Redirect/Post", "samlsp.New + Middleware.RequireAccount/HandleStartAuthFlow + CookieRequestTracker + Middleware.ServeHTTP (ACS)", "saml.ServiceProvider.Make{Redirect,Post}Logout{Request,Response}, MakeLogoutRequest/Response + Redirect/Post, MakeArtifactResolveRequest", "saml.NewIdpAuthnRequest + IdpAuthnRequest.Validate + DefaultAssertionMaker + PostBinding (library IdP)", "saml.RandReader seam", "html/template, etree, xml-roundtrip-validator, goxmldsig"},
			"stub": {"browser (URL-standard redirect handling, HTML5 form parsing via x/net/html, CRLF normalisation on submit)", "SLO consumer for LogoutRequest/LogoutResponse wire forms (query split, base64, inflate, XML checks) — the repository has no consumer for these", "signature verifiers for the redirect query string (observation only)"},
		},
	})
}
