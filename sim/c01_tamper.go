package samlsim

import (
	"bytes"
	"crypto/rsa"
	"crypto/sha1"
	"crypto/sha256"
	"encoding/base64"
	"fmt"
	"io"
	"math/big"
	"net/http"
	"net/http/httptest"
	"net/url"
	"sort"
	"strconv"
	"strings"
	"testing"
	"time"

	"github.com/beevik/etree"
	"github.com/crewjam/saml"
)

// C01 — the SP returns an assertion only if a trusted IdP key signed its content (profile `tamper`).
//
// Simulator dimension: a party on the transport (Mallory). A foreign IdP holding the trusted
// signing key(s) issues genuine responses; Mallory applies 0-3 operators of a tampering grammar
// to the XML in flight (or sends whole messages signed with keys the SP does not trust as signing
// roots); the real SP parses what arrives through one of its three entry points.
//
// Oracle (from the statement): `Genuine` is the set of assertions a trusted *signing* key covered
// at issuance (own signature, or the signature of the enclosing Response/ArtifactResponse). An
// assertion is *covered in the delivered message* when the delivered document still contains,
// unchanged up to what XML canonicalisation ignores (comments, namespace declarations that are not
// used, attribute order, CDATA vs text, the KeyInfo of the unit's own signature), one of the signed
// units that covered it. Whatever the SP returns must be, field by field, the content of a covered
// member of Genuine. Rejections are never alarms, except for an untampered delivery of a genuine,
// validly signed response, which must be accepted.

const (
	c01DsigNS  = "http://www.w3.org/2000/09/xmldsig#"
	c01AsrtNS  = "urn:oasis:names:tc:SAML:2.0:assertion"
	c01ProtNS  = "urn:oasis:names:tc:SAML:2.0:protocol"
	c01EvilNS  = "urn:evil:ns"
	c01EntRef  = "ZQENTREFQZ"
	c01SPKey   = 1 // rsaKeys[1] is the SP's key pair
	c01FPAlgo  = "http://www.w3.org/2001/04/xmlenc#sha256"
	c01ReqID   = "id-req"
	c01ResolID = "id-resolve"
)

type c01Knobs struct {
	Trust    string `json:"trust"`     // md1 | md1-nouse | md2 | md2-nouse | pinned | fingerprint
	EncDecoy bool   `json:"enc_decoy"` // IdP metadata additionally lists rsa4 with use="encryption"; Mallory holds its private key
	// Hooks: the application installs permissive ValidateAudienceRestriction / ValidateRequestID hooks (both accept everything):
	// what remains between a forged document and acceptance is the signature alone
	Hooks bool `json:"permissive_validation_hooks,omitempty"`
	// DupCert: the metadata lists the first trusted signing certificate a second time (in a descriptor without use)
	DupCert bool `json:"metadata_lists_certificate_twice,omitempty"`
	// AADecoy: the metadata has an AttributeAuthorityDescriptor whose signing key is rsa4 (Mallory holds it): a key of another role of the entity
	AADecoy bool `json:"attribute_authority_decoy,omitempty"`
	// Verifier: the application installs a saml.SignatureVerifier (one that validates exactly like the library)
	Verifier bool `json:"custom_signature_verifier,omitempty"`
	// SKITwin: the IdP's certificate (key 0) carries a SubjectKeyIdentifier, as openssl-made ones do, and Mallory's own certificate
	// (key 2, self-signed, her key) copies its subject and that identifier. Which certificate is which is decided by its bytes.
	SKITwin bool `json:"mallory_copied_subject_and_key_identifier,omitempty"`
	// Lapsed: every certificate the IdP has ever published (keys 0 and 3) lapsed before the simulated clock starts. Nothing such an
	// IdP signs has to be accepted; what nobody trusted signed must not be, as always
	Lapsed bool `json:"idp_certificates_all_lapsed,omitempty"`
	// FPWritten (fingerprint trust only): how the operator wrote the fingerprint of key 0's certificate into the configuration - ""
	// is the notation the library itself prints (upper-case octets joined by colons); the others (c01FPStyles) are what certificate
	// viewers and command line tools show, or slips of the hand. Whatever the library makes of such a string, it denotes the
	// certificate of key 0 or no certificate at all: what key 0 signed MAY then be refused, what nobody trusted signed must be
	FPWritten string `json:"fingerprint_written_as,omitempty"`
}

// c01FPStyles: the ways a fingerprint gets written other than in the library's own notation
var c01FPStyles = []string{"lower-case", "no-colons", "lower-case-spaces", "openssl-output-line", "openssl-output-line-newline",
	"algorithm-prefix", "left-to-right-mark-spaces", "empty", "odd-length-truncated", "first-20-octets", "sha1-of-certificate", "0x-prefix",
	"trailing-colon", "equals-sign-only"}

// c01WriteFingerprint renders the fingerprint of kp's certificate the way the plan says the operator wrote it.
func c01WriteFingerprint(kp KeyPair, style string) string {
	canon := c01Fingerprint(kp)
	switch style {
	case "lower-case":
		return strings.ToLower(canon)
	case "no-colons":
		return strings.ReplaceAll(canon, ":", "")
	case "lower-case-spaces":
		return strings.ToLower(strings.ReplaceAll(canon, ":", " "))
	case "openssl-output-line":
		return "sha256 Fingerprint=" + canon
	case "openssl-output-line-newline":
		return "SHA256 Fingerprint=" + canon + "\n"
	case "algorithm-prefix":
		return "sha256:" + strings.ToLower(strings.ReplaceAll(canon, ":", ""))
	case "left-to-right-mark-spaces":
		return "\u200e" + strings.ToLower(strings.ReplaceAll(canon, ":", " "))
	case "empty":
		return ""
	case "odd-length-truncated":
		return canon[:len(canon)-1]
	case "first-20-octets":
		return canon[:20*3-1]
	case "sha1-of-certificate":
		sum := sha1.Sum(kp.Cert.Raw)
		parts := make([]string, len(sum))
		for i, b := range sum {
			parts[i] = fmt.Sprintf("%02X", b)
		}
		return strings.Join(parts, ":")
	case "0x-prefix":
		return "0x" + strings.ReplaceAll(canon, ":", "")
	case "trailing-colon":
		return canon + ":"
	case "equals-sign-only":
		return "=" + canon
	}
	return canon
}

type c01Op struct {
	Op      string `json:"op"`
	Target  string `json:"target,omitempty"` // R | A0 | A1 | AR | F
	Variant int    `json:"variant,omitempty"`
	Pos     string `json:"pos,omitempty"`
	IDMode  string `json:"id_mode,omitempty"`
	Field   string `json:"field,omitempty"`
	Key     int    `json:"key,omitempty"` // Mallory's signing key: 2 (own) or 4 (the encryption-use key of the metadata); 0: unsigned
	Mode    string `json:"mode,omitempty"`
	// Decoy (resign, forge-sibling with a key): before Mallory signs the element she puts into it, as content of her own, an element
	// whose local name is Signature but which is not an XML-DSig Signature, holding KeyInfo/X509Data/X509Certificate with the
	// certificate the SP trusts (it is public). 0: none; else 1 + 3*position + namespace: position 0 first child, 1 after the Issuer
	// and before her real signature, 2 last child; namespace 0 a foreign one (prefix x), 1 the SAML assertion namespace, 2 a
	// foreign one bound to the prefix ds
	Decoy int `json:"decoy_signature_element,omitempty"`
}

type c01Step struct {
	Kind      string   `json:"kind"`                                   // deliver
	Entry     string   `json:"entry"`                                  // xml | post | artifact
	ViaHTTP   bool     `json:"artifact_resolved_over_https,omitempty"` // entry artifact: the browser brings SAMLart and the SP fetches the ArtifactResponse over its (https) back-channel
	Base      string   `json:"base"`                                   // genuine | untrusted
	Spec      RespSpec `json:"response"`
	ArtSign   bool     `json:"artifact_signed,omitempty"`
	ArtKey    int      `json:"artifact_key,omitempty"`
	EncID     bool     `json:"subject_identified_by_encrypted_id,omitempty"` // the IdP identifies the subject by a saml:EncryptedID (the NameID encrypted to the SP) instead of a NameID in clear
	InheritNS bool     `json:"inherit_ns,omitempty"`                         // plaintext assertions rely on a namespace declaration of the Response element
	Prefix    int      `json:"prefix_style,omitempty"`                       // assertions use: 0 the saml: prefix, 1 the default namespace, 2 the saml2: prefix
	Ops       []c01Op  `json:"ops"`
	Retrust   string   `json:"retrust,omitempty"` // before this delivery the SP's IdP metadata is replaced (key roll-over / retirement) by this trust configuration
	// Spent: the IdP's assertions of this step are genuine and honestly signed but of no use any more: "expired" (issued two days
	// ago, valid for a day), "other-request" (confirmations answer a request of yesterday), "other-audience" (issued to another SP).
	// Nothing obliges the SP to accept them; what Mallory forges next to them is written to be current in every such respect, so
	// that the signature is all that stands between her assertion and acceptance
	Spent string `json:"genuine_assertions_spent,omitempty"`
	// IdPKeyInfo: what the IdP's own signatures say about their key: "" the certificate (X509Data), "none" nothing at all (no KeyInfo,
	// as IdPs do whose partners know the certificate from metadata), "key-value" the bare public key. An SP that knows the
	// certificates (metadata, pinned) can check such signatures, by trying each; one that knows a fingerprint only has nothing to
	// compare it with. Either MAY refuse; in no case does a signature that names no certificate widen what is trusted
	IdPKeyInfo string `json:"idp_signatures_name,omitempty"`
}

// c01RootKeys: keys that are a trusted signing root in some configuration of a run
func c01RootKey(key int) bool { return key == 0 || key == 3 }

// ---------------------------------------------------------------- generation

// fingerprint-listed: the SP knows the IdP by the fingerprint of key 0's certificate while the IdP metadata it also holds lists the
// certificates of keys 0 and 3 (a retired key still published): the fingerprint decides, key 3 is nobody
var c01Trusts = []string{"md1", "md1-nouse", "md2", "md2-nouse", "pinned", "fingerprint", "fingerprint-listed"}

func c01TrustedKeys(trust string) []int {
	if strings.HasPrefix(trust, "md2") {
		return []int{0, 3}
	}
	return []int{0}
}

func c01IsTrusted(trust string, key int) bool {
	for _, k := range c01TrustedKeys(trust) {
		if k == key {
			return true
		}
	}
	return false
}

func c01GenOp(g *Rng, st *c01Step, k c01Knobs) c01Op {
	na := len(st.Spec.Assertions)
	asrt := func() string { return fmt.Sprintf("A%d", g.Intn(na)) }
	anyT := func() string {
		if st.Entry == "artifact" {
			return Pick(g, "R", asrt(), "AR", "R", asrt())
		}
		return Pick(g, "R", asrt())
	}
	mkey := func() int {
		if k.EncDecoy && g.Bool(0.5) {
			return 4
		}
		return Pick(g, 2, 2, 2, 4)
	}
	idm := func() string {
		return Pick(g, "same", "same", "edited", "fresh", "fresh", "fresh-Id", "fresh-id", "fresh-nsID")
	}
	fld := func() string { return Pick(g, "nameid", "nameid", "attr", "issuer", "audience") }
	decoy := func(key int) int {
		if key != 0 && g.Bool(0.35) {
			return 1 + g.Intn(9)
		}
		return 0
	}
	weights := []int{8, 8, 9, 3, 12, 10, 7, 10, 8, 5, 9, 9, 8, 4, 5, 4, 6, 11}
	if strings.HasPrefix(k.Trust, "fingerprint") {
		// known by fingerprint, the SP takes the root certificate from the message: what the KeyInfo says, and who signed, matters most
		weights[7] += 4
		weights[8] += 10
	}
	switch g.PickW(weights...) {
	case 17:
		// content in clear inside a Signature element of the message, outside SignedInfo: the enveloped-signature transform takes
		// the whole Signature out before digesting, so every signature stands; nothing in there was signed by anybody
		op := c01Op{Op: "plant-in-signature", Target: Pick(g, asrt(), asrt(), asrt(), anyT())}
		op.Variant = g.PickW(6, 2, 2)                                                                                                                // directly in the Signature | in a ds:Object | in the ds:KeyInfo
		op.Mode = Pick(g, "", "after-empty-nested-signature", "after-empty-nested-signature", "after-empty-nested-signature", "in-nested-signature") // what precedes / surrounds it
		op.Pos = Pick(g, "", "", "signature-moved-last")                                                                                             // where the unit's Signature stands among its children is not signed either
		op.Field = Pick(g, "subject", "attrs", "all", "all")
		return op
	case 16:
		if g.Bool(0.4) {
			return c01Op{Op: "plant-encrypted", Target: asrt(), Variant: g.Intn(4)}
		}
		return c01Op{Op: "declare-unused-ns", Target: asrt(), Variant: g.Intn(len(c01NSDecls) + 3)}
	case 0:
		return c01Op{Op: "strip-sig", Target: anyT()}
	case 1:
		return c01Op{Op: "edit", Target: asrt(), Field: Pick(g, "nameid", "nameid", "attr", "audience-add", "noa", "session")}
	case 2:
		return c01Op{Op: "comment", Target: asrt(), Field: fld(), Variant: g.Intn(12)}
	case 3:
		return c01Op{Op: "cdata", Target: asrt(), Field: fld(), Variant: g.Intn(12)}
	case 4:
		op := c01Op{Op: "forge-sibling", Target: asrt(), Pos: Pick(g, "before", "before", "after", "first", "last"), IDMode: idm(), Key: Pick(g, 0, 0, 0, mkey())}
		op.Decoy = decoy(op.Key)
		return op
	case 5:
		return c01Op{Op: "move-genuine", Target: asrt(), Mode: Pick(g, "move", "copy"), Pos: Pick(g, "ext", "wrapper", "object", "forged-child", "advice", "status-detail")}
	case 6:
		return c01Op{Op: "wrap-response", Variant: g.Intn(5), IDMode: idm()}
	case 7:
		op := c01Op{Op: "resign", Target: Pick(g, anyT(), anyT(), "F"), Key: mkey(), Variant: g.PickW(6, 2, 3, 2, 1, 2)}
		op.Decoy = decoy(op.Key)
		return op
	case 8:
		return c01Op{Op: "keyinfo", Target: anyT(), Variant: g.Intn(9)}
	case 9:
		return c01Op{Op: "dup-sig", Target: anyT(), Variant: g.Intn(5), Key: mkey()}
	case 10:
		return c01Op{Op: "sig-transplant", Target: asrt(), Variant: g.Intn(8)}
	case 11:
		return c01Op{Op: "ns-trick", Target: asrt(), Variant: g.Intn(8), Field: Pick(g, "saml", "samlp", "ds", "xs", "xsi", "")}
	case 12:
		return c01Op{Op: "encrypt-wrap", Target: asrt(), Variant: g.Intn(6)}
	case 13:
		return c01Op{Op: "doctype", Variant: g.Intn(8)}
	case 14:
		return c01Op{Op: "splice", Target: asrt(), Variant: g.Intn(6)}
	default:
		return c01Op{Op: "remove-part", Target: asrt(), Field: Pick(g, "audience", "attrs", "authn", "confirmation", "nameid")}
	}
}

func genTamper(g *Rng, tier string) *Plan {
	k := c01Knobs{Trust: c01Trusts[g.PickW(30, 10, 15, 5, 15, 20, 10)]}
	k.EncDecoy = g.Bool(0.45)
	k.Hooks = g.Bool(0.2)
	k.DupCert = strings.HasPrefix(k.Trust, "md") && g.Bool(0.3)
	k.AADecoy = g.Bool(0.3)
	k.Verifier = g.Bool(0.12)
	k.SKITwin = g.Bool(0.15)
	k.Lapsed = !k.SKITwin && g.Bool(0.1)
	if strings.HasPrefix(k.Trust, "fingerprint") && g.Bool(0.4) {
		k.FPWritten = Pick(g, c01FPStyles...)
	}
	p := &Plan{Knobs: mustJSON(k)}
	n := 1 + g.PickW(5, 3, 2)
	rotateAt, cur := -1, k.Trust
	if strings.HasPrefix(k.Trust, "md") && g.Bool(0.35) {
		if n < 2 {
			n = 2
		}
		rotateAt = 1 + g.Intn(n-1)
	}
	for i := 0; i < n; i++ {
		st := c01Step{Kind: "deliver", Entry: Pick(g, "xml", "xml", "post", "artifact", "artifact"), Base: "genuine"}
		if i == rotateAt {
			cur = map[string]string{"md1": "md2", "md1-nouse": "md2-nouse", "md2": "md1", "md2-nouse": "md1-nouse"}[cur]
			st.Retrust = cur
		}
		if g.Bool(0.10) {
			st.Base = "untrusted"
		}
		signKey := 0
		if (strings.HasPrefix(cur, "md2") || rotateAt >= 0 || k.Trust == "pinned" || k.Trust == "fingerprint-listed") && g.Bool(0.4) {
			signKey = 3 // trusted under md2; retired (or not yet introduced) under md1; listed in the metadata but excluded by a pinned certificate
		}
		if st.Base == "untrusted" {
			signKey = Pick(g, 2, 4)
			if k.EncDecoy && g.Bool(0.6) {
				signKey = 4
			}
		}
		layout := g.PickW(3, 3, 3, 1) // 0: Response signed, 1: Assertion signed, 2: both, 3: neither
		if st.Base == "untrusted" && layout == 3 {
			layout = g.Intn(3)
		}
		spec := RespSpec{ID: fmt.Sprintf("id-resp-%d", i), Issuer: sp(idpEntity), Destination: spBase + "/saml/acs",
			InResponseTo: c01ReqID, Status: saml.StatusSuccess, Sign: layout == 0 || layout == 2, SignKey: signKey}
		na := 1 + g.PickW(4, 1)
		for j := 0; j < na; j++ {
			a := AsrtSpec{ID: fmt.Sprintf("id-as-%d-%d", i, j), Issuer: idpEntity, NameID: marker("user", i*10+j),
				Audiences: []string{spBase + "/saml/metadata"}, Sign: layout == 1 || layout == 2, SignKey: signKey,
				SessionIndex: fmt.Sprintf("si-%d-%d", i, j), NotBefore: i64(-1000), NotOnOrAfter: i64(3_600_000),
				Confs: []ConfSpec{{NotOnOrAfter: i64(3_600_000), Recipient: spBase + "/saml/acs", InResponseTo: c01ReqID}},
				Attrs: []AttrSpec{{Name: "uid", Values: []string{marker("uid", i*10+j)}}, {Name: "groups", Friendly: "g", Values: []string{marker("grp", i*10+j), "staff"}}}}
			if g.Bool(0.2) {
				// principals and values that differ from others only in white space: what was signed is what must come back
				a.NameID = fmt.Sprintf(Pick(g, " %s", "%s ", "%s\u00a0", "\u2003%s", "%s\n", "\t%s\t", "  %s  "), a.NameID)
				a.Attrs[0].Values[0] = fmt.Sprintf(Pick(g, " %s", "%s ", "%s\u00a0", "\n%s\n"), a.Attrs[0].Values[0])
			}
			if g.Bool(0.35) {
				a.Encrypt, a.EncryptTo = true, c01SPKey
			}
			spec.Assertions = append(spec.Assertions, a)
		}
		if g.Bool(0.2) {
			spec.Pretty = true
			for ai := range spec.Assertions {
				spec.Assertions[ai].Pretty = true
			}
		}
		if g.Bool(0.12) {
			st.Spent = Pick(g, "expired", "other-request", "other-audience")
			for ai := range spec.Assertions {
				a := &spec.Assertions[ai]
				switch st.Spent {
				case "expired":
					a.IssueMs = -2 * 86_400_000
					a.NotBefore, a.NotOnOrAfter = i64(-2*86_400_000), i64(-86_400_000)
					a.Confs[0].NotOnOrAfter = i64(-86_400_000)
				case "other-request":
					a.Confs[0].InResponseTo = "id-req-yesterday"
				default:
					a.Audiences = []string{"https://other-sp.example.org/saml/metadata"}
				}
			}
		}
		st.Spec = spec
		if st.Entry == "artifact" && g.Bool(0.5) {
			st.ArtSign, st.ArtKey = true, signKey
		}
		st.ViaHTTP = st.Entry == "artifact" && g.Bool(0.5)
		st.InheritNS = g.Bool(0.2)
		st.EncID = g.Bool(0.12)
		st.Prefix = g.PickW(6, 2, 2)
		if g.Bool(0.15) {
			st.IdPKeyInfo = Pick(g, "none", "none", "key-value")
		}
		nops := g.PickW(20, 35, 30, 15)
		if st.Base == "untrusted" {
			nops = g.PickW(60, 30, 10)
		}
		st.Ops = []c01Op{}
		for q := 0; q < nops; q++ {
			st.Ops = append(st.Ops, c01GenOp(g, &st, k))
		}
		if st.Spent != "" && g.Bool(0.6) {
			st.Ops = append(st.Ops, c01Op{Op: "forge-sibling", Target: "A0", Pos: Pick(g, "after", "last", "before"), IDMode: Pick(g, "same", "same", "fresh"), Key: Pick(g, 0, 0, 2)})
		}
		if st.EncID && g.Bool(0.6) {
			// an SP that reads EncryptedIDs must read the signed one
			st.Ops = append(st.Ops, c01Op{Op: "plant-encrypted", Target: "A0", Variant: g.Intn(4)})
		}
		p.Steps = append(p.Steps, mustJSON(st))
	}
	return p
}

// ---------------------------------------------------------------- the world of one run

type c01Genuine struct {
	Label string
	A     *saml.Assertion
	Alt   *saml.Assertion // a second reading of the same signed content (EncryptedID decrypted), nil if there is none
}

type c01Unit struct {
	Kind   string // AR | R | A
	ID     string
	Norm   string
	Covers []int
	Key    int // index of the signing key; whether it is a trusted root is judged at delivery time (trust can be rotated)
}

type c01World struct {
	trust      string
	genuine    []c01Genuine
	units      []c01Unit
	blobs      map[string]*etree.Element // ciphertext key -> plaintext root as the holder of the SP key will see it
	poolAsrts  []*etree.Element          // plaintext signed assertions Mallory saw earlier in the run
	poolResps  []*etree.Element          // signed responses Mallory saw earlier in the run
	poolBlobs  []*etree.Element          // EncryptedAssertion elements Mallory saw earlier in the run
	evil       int
	mallorySaw int
}

// ---------------------------------------------------------------- namespace-resolved normal form

func c01Resolve(e *etree.Element, prefix string) string {
	for ; e != nil; e = e.Parent() {
		for _, a := range e.Attr {
			if prefix == "" {
				if a.Space == "" && a.Key == "xmlns" {
					return a.Value
				}
			} else if a.Space == "xmlns" && a.Key == prefix {
				return a.Value
			}
		}
	}
	return ""
}

func c01IsDsig(e *etree.Element, tag string) bool {
	return e.Tag == tag && c01Resolve(e, e.Space) == c01DsigNS
}

// c01Norms renders the information a signature over e commits to (exclusive c14n without comments,
// empty prefix list): resolved names, prefixes, attributes, text, processing instructions. e is a
// signed unit: its own enveloped Signature is removed by the enveloped-signature transform wherever
// among e's children it stands (its position is not signed content), its SignedInfo and SignatureValue
// are committed to by the signature itself, its KeyInfo by nothing. One rendering per child Signature
// (a second Signature child is content to the first).
func c01Norms(e *etree.Element) []string {
	var out []string
	for _, c := range e.ChildElements() {
		if c01IsDsig(c, "Signature") {
			var b strings.Builder
			c01NormInto(&b, e, c, false)
			b.WriteString("|SIG|")
			c01NormInto(&b, c, nil, true)
			out = append(out, b.String())
		}
	}
	if out == nil {
		var b strings.Builder
		c01NormInto(&b, e, nil, false)
		out = append(out, b.String())
	}
	return out
}

func c01NormInto(b *strings.Builder, e *etree.Element, skip *etree.Element, ownSig bool) {
	b.WriteString("<{" + c01Resolve(e, e.Space) + "}" + e.Space + ":" + e.Tag)
	var attrs []string
	for _, a := range e.Attr {
		if a.Space == "xmlns" || (a.Space == "" && a.Key == "xmlns") {
			continue
		}
		ns := ""
		if a.Space != "" {
			ns = c01Resolve(e, a.Space)
		}
		attrs = append(attrs, " {"+ns+"}"+a.Space+":"+a.Key+"="+strconv.Quote(a.Value))
	}
	sort.Strings(attrs)
	for _, a := range attrs {
		b.WriteString(a)
	}
	b.WriteString(">")
	text := ""
	flush := func() {
		if text != "" {
			b.WriteString("T" + strconv.Quote(text))
			text = ""
		}
	}
	for _, c := range e.Child {
		switch v := c.(type) {
		case *etree.CharData:
			text += v.Data
		case *etree.Comment:
		case *etree.Element:
			if v == skip || (ownSig && !c01IsDsig(v, "SignedInfo") && !c01IsDsig(v, "SignatureValue")) {
				continue // of a Signature's own children the signature commits to SignedInfo and SignatureValue; KeyInfo, Object, ... are anybody's
			}
			flush()
			c01NormInto(b, v, nil, false)
		case *etree.ProcInst:
			flush()
			b.WriteString("?" + v.Target + " " + v.Inst)
		case *etree.Directive:
			flush()
			b.WriteString("!" + v.Data)
		}
	}
	flush()
	b.WriteString("</>")
}

func c01All(e *etree.Element, out *[]*etree.Element) {
	*out = append(*out, e)
	for _, c := range e.ChildElements() {
		c01All(c, out)
	}
}

func c01CipherKey(blob *etree.Element) string {
	var all []*etree.Element
	c01All(blob, &all)
	var parts []string
	for _, e := range all {
		if e.Tag == "CipherValue" {
			parts = append(parts, strings.TrimSpace(e.Text()))
		}
	}
	if len(parts) == 0 {
		return ""
	}
	return strings.Join(parts, "|")
}

func c01Parse(b []byte) *etree.Document {
	doc := etree.NewDocument()
	if err := doc.ReadFromBytes(b); err != nil || doc.Root() == nil {
		return nil
	}
	return doc
}

func c01Reparse(el *etree.Element) *etree.Element {
	doc := c01Parse(elBytes(el.Copy()))
	if doc == nil {
		return nil
	}
	return doc.Root()
}

// covered computes which members of Genuine are still covered by an intact signed unit in root
// (transitively through ciphertexts whose plaintext the simulator knows).
func (w *c01World) covered(root *etree.Element, depth int, into map[int]bool) {
	if root == nil || depth > 3 {
		return
	}
	var all []*etree.Element
	c01All(root, &all)
	cache := map[*etree.Element][]string{}
	for _, e := range all {
		id := ""
		for _, a := range e.Attr {
			if a.Space == "" && a.Key == "ID" {
				id = a.Value
			}
		}
		for _, u := range w.units {
			if u.ID != id || !c01IsTrusted(w.trust, u.Key) {
				continue
			}
			want := map[string]string{"AR": "ArtifactResponse", "R": "Response", "A": "Assertion"}[u.Kind]
			if e.Tag != want {
				continue
			}
			n, ok := cache[e]
			if !ok {
				n = c01Norms(e)
				cache[e] = n
			}
			for _, one := range n {
				if one == u.Norm {
					for _, gi := range u.Covers {
						into[gi] = true
					}
				}
			}
		}
		if e.Tag == "EncryptedAssertion" {
			if pt, ok := w.blobs[c01CipherKey(e)]; ok {
				w.covered(pt, depth+1, into)
			}
		}
	}
}

// ---------------------------------------------------------------- content comparison (identity-bearing fields)

func c01Content(a *saml.Assertion) string {
	if a == nil {
		return "<nil>"
	}
	var b strings.Builder
	tm := func(t time.Time) string {
		if t.IsZero() {
			return "-"
		}
		return strconv.FormatInt(t.UnixMilli(), 10)
	}
	fmt.Fprintf(&b, "issuer=%q", a.Issuer.Value)
	if a.Subject == nil {
		b.WriteString(" subject=<nil>")
	} else {
		if a.Subject.NameID == nil {
			b.WriteString(" nameid=<nil>")
		} else {
			fmt.Fprintf(&b, " nameid=%q/%q/%q/%q", a.Subject.NameID.Value, a.Subject.NameID.Format, a.Subject.NameID.NameQualifier, a.Subject.NameID.SPNameQualifier)
		}
		for _, c := range a.Subject.SubjectConfirmations {
			fmt.Fprintf(&b, " conf[%q", c.Method)
			if c.NameID != nil {
				fmt.Fprintf(&b, " nameid=%q", c.NameID.Value)
			}
			if d := c.SubjectConfirmationData; d != nil {
				fmt.Fprintf(&b, " rcpt=%q irt=%q nb=%s noa=%s addr=%q", d.Recipient, d.InResponseTo, tm(d.NotBefore), tm(d.NotOnOrAfter), d.Address)
			}
			b.WriteString("]")
		}
	}
	if a.Conditions == nil {
		b.WriteString(" conditions=<nil>")
	} else {
		fmt.Fprintf(&b, " cond[nb=%s noa=%s", tm(a.Conditions.NotBefore), tm(a.Conditions.NotOnOrAfter))
		for _, ar := range a.Conditions.AudienceRestrictions {
			fmt.Fprintf(&b, " aud=%q", ar.Audience.Value)
		}
		if a.Conditions.OneTimeUse != nil {
			b.WriteString(" onetime")
		}
		if a.Conditions.ProxyRestriction != nil {
			b.WriteString(" proxy")
		}
		b.WriteString("]")
	}
	for _, s := range a.AuthnStatements {
		ref := ""
		if s.AuthnContext.AuthnContextClassRef != nil {
			ref = s.AuthnContext.AuthnContextClassRef.Value
		}
		fmt.Fprintf(&b, " authn[at=%s si=%q ref=%q", tm(s.AuthnInstant), s.SessionIndex, ref)
		if s.SessionNotOnOrAfter != nil {
			fmt.Fprintf(&b, " snoa=%s", tm(*s.SessionNotOnOrAfter))
		}
		b.WriteString("]")
	}
	for _, st := range a.AttributeStatements {
		b.WriteString(" attrs[")
		for _, at := range st.Attributes {
			fmt.Fprintf(&b, " %q/%q=", at.Name, at.FriendlyName)
			for _, v := range at.Values {
				fmt.Fprintf(&b, "%q,", v.Value)
				if v.NameID != nil {
					fmt.Fprintf(&b, "nameid(%q),", v.NameID.Value)
				}
			}
		}
		b.WriteString("]")
	}
	return b.String()
}

// ---------------------------------------------------------------- issuance (foreign IdP or Mallory's own IdP)

type c01Msg struct {
	w      *c01World
	st     *c01Step
	si     int
	t0     time.Time
	doc    *etree.Document
	ar     *etree.Element   // ArtifactResponse, artifact entry only
	vis    *etree.Element   // the element at the position the SP reads as the Response
	gresp  *etree.Element   // the response element the IdP issued
	gas    []*etree.Element // issued assertion containers (Assertion | EncryptedAssertion) by spec index
	forged []*etree.Element
	prolog string
	epilog string
	entRef bool
}

func c01ChildByTag(e *etree.Element, tag string) *etree.Element {
	if e == nil {
		return nil
	}
	for _, c := range e.ChildElements() {
		if c.Tag == tag {
			return c
		}
	}
	return nil
}

func (w *c01World) issue(st *c01Step, si int, t0 time.Time) *c01Msg {
	s := &st.Spec
	r := &saml.Response{ID: s.ID, InResponseTo: s.InResponseTo, Version: "2.0", IssueInstant: t0.UTC(),
		Destination: s.Destination, Status: saml.Status{StatusCode: saml.StatusCode{Value: s.Status}}}
	if s.Issuer != nil {
		r.Issuer = &saml.Issuer{Format: "urn:oasis:names:tc:SAML:2.0:nameid-format:entity", Value: *s.Issuer}
	}
	el := r.Element()
	bare := func(signed *etree.Element, key int) {
		if st.IdPKeyInfo == "" {
			return
		}
		for _, sg := range c01Sigs(signed) {
			c01KeyInfoEdit(sg, c01If(st.IdPKeyInfo == "key-value", 1, 0), key)
		}
	}
	for i := range s.Assertions {
		a := &s.Assertions[i]
		ael := a.toAssertion(t0).Element()
		if st.EncID {
			if sub := c01ChildByTag(ael, "Subject"); sub != nil {
				if nid := c01ChildByTag(sub, "NameID"); nid != nil {
					nid.CreateAttr("xmlns:saml", c01AsrtNS)
					eid := encryptElAs(nid, rsaKeys[c01SPKey], "saml:EncryptedID")
					idx := nid.Index()
					sub.RemoveChild(nid)
					sub.InsertChildAt(idx, eid)
				}
			}
		}
		c01Restyle(ael, st.Prefix)
		if a.Sign {
			ael = placeSignature(signEnveloped(rsaKeys[a.SignKey], "", ael))
			bare(ael, a.SignKey)
		}
		if a.Encrypt {
			pt := c01Reparse(ael)
			blob := encryptAssertionEl(ael, rsaKeys[a.EncryptTo])
			w.blobs[c01CipherKey(blob)] = pt
			el.AddChild(blob)
		} else {
			if st.InheritNS {
				decl := []string{"xmlns:saml", "xmlns", "xmlns:saml2"}[st.Prefix%3]
				if ael.RemoveAttr(decl) != nil {
					el.CreateAttr(decl, c01AsrtNS)
				}
			}
			el.AddChild(ael)
		}
	}
	if s.Sign {
		el = placeSignature(signEnveloped(rsaKeys[s.SignKey], "", el))
		bare(el, s.SignKey)
	}
	var body []byte
	if st.Entry == "artifact" {
		var kp *KeyPair
		if st.ArtSign {
			kp = &rsaKeys[st.ArtKey]
		}
		body = wrapArtifactResponse(el, "id-art-"+strconv.Itoa(si), c01ResolFor(st), idpEntity, saml.StatusSuccess, t0, kp)
	} else {
		body = elBytes(el)
	}
	m := &c01Msg{w: w, st: st, si: si, t0: t0, doc: c01Parse(body)}
	if m.doc == nil {
		panic("harness: issued message does not parse")
	}
	if st.Entry == "artifact" {
		m.ar = c01ChildByTag(c01ChildByTag(m.doc.Root(), "Body"), "ArtifactResponse")
		m.vis = c01ChildByTag(m.ar, "Response")
		if st.ArtSign && m.ar != nil {
			bare(m.ar, st.ArtKey)
		}
	} else {
		m.vis = m.doc.Root()
	}
	m.gresp = m.vis
	for _, c := range m.gresp.ChildElements() {
		if c.Tag == "Assertion" || c.Tag == "EncryptedAssertion" {
			m.gas = append(m.gas, c)
		}
	}
	if len(m.gas) != len(s.Assertions) {
		panic("harness: issued assertions not found")
	}

	// ---- bookkeeping of what the trusted signing keys covered (Genuine) and of the signed units
	var idx []int
	for i := range s.Assertions {
		a := &s.Assertions[i]
		covered := (a.Sign && c01RootKey(a.SignKey)) || (s.Sign && c01RootKey(s.SignKey)) ||
			(st.Entry == "artifact" && st.ArtSign && c01RootKey(st.ArtKey))
		if !covered {
			idx = append(idx, -1)
			continue
		}
		ga := a.toAssertion(t0)
		var alt *saml.Assertion
		if st.EncID && ga.Subject != nil && ga.Subject.NameID != nil {
			// what was signed identifies the subject by an EncryptedID: a library that does not read it hands over no NameID, one that
			// decrypts it hands over the identifier inside - both are what the signature covers
			alt = a.toAssertion(t0)
			ga.Subject.NameID = nil
		}
		w.genuine = append(w.genuine, c01Genuine{Label: fmt.Sprintf("s%da%d", si, i), A: ga, Alt: alt})
		idx = append(idx, len(w.genuine)-1)
	}
	var all []int
	for _, gi := range idx {
		if gi >= 0 {
			all = append(all, gi)
		}
	}
	for i := range s.Assertions {
		a := &s.Assertions[i]
		if a.Sign && c01RootKey(a.SignKey) {
			src := m.gas[i]
			if a.Encrypt {
				src = w.blobs[c01CipherKey(m.gas[i])]
			}
			w.units = append(w.units, c01Unit{Kind: "A", ID: a.ID, Norm: c01Norms(src)[0], Covers: []int{idx[i]}, Key: a.SignKey})
		}
	}
	if s.Sign && c01RootKey(s.SignKey) {
		w.units = append(w.units, c01Unit{Kind: "R", ID: s.ID, Norm: c01Norms(m.gresp)[0], Covers: all, Key: s.SignKey})
	}
	if m.ar != nil && st.ArtSign && c01RootKey(st.ArtKey) {
		w.units = append(w.units, c01Unit{Kind: "AR", ID: "id-art-" + strconv.Itoa(si), Norm: c01Norms(m.ar)[0], Covers: all, Key: st.ArtKey})
	}
	return m
}

// capture: what Mallory keeps from the message she saw on the wire (before she altered it).
func (m *c01Msg) capture() {
	if len(c01Sigs(m.gresp)) > 0 {
		c := m.gresp.Copy()
		c01EnsureNS(c, m.gresp)
		m.w.poolResps = append(m.w.poolResps, c)
	}
	for _, a := range m.gas {
		if a.Tag == "Assertion" && len(c01Sigs(a)) > 0 {
			c := a.Copy()
			c01EnsureNS(c, a)
			m.w.poolAsrts = append(m.w.poolAsrts, c)
		}
		if a.Tag == "EncryptedAssertion" {
			c := a.Copy()
			c01EnsureNS(c, a)
			m.w.poolBlobs = append(m.w.poolBlobs, c)
		}
	}
}

// c01EnsureNS declares on the detached copy c every prefix its root element uses and orig resolved through its ancestors.
func c01EnsureNS(c, orig *etree.Element) {
	if c.Space != "" && c01Resolve(c, c.Space) == "" {
		if ns := c01Resolve(orig, c.Space); ns != "" {
			c.CreateAttr("xmlns:"+c.Space, ns)
		}
	}
	// descendants of a SAML element use the saml prefix as well
	if c01Resolve(c, "saml") == "" {
		if ns := c01Resolve(orig, "saml"); ns != "" {
			c.CreateAttr("xmlns:saml", ns)
		}
	}
}

// c01Restyle rewrites a freshly built assertion to another, equivalent namespace style.
func c01Restyle(el *etree.Element, style int) {
	if style%3 == 0 {
		return
	}
	np := []string{"saml", "", "saml2"}[style%3]
	var all []*etree.Element
	c01All(el, &all)
	for _, e := range all {
		if e.Space == "saml" {
			e.Space = np
		}
		for i := range e.Attr {
			if e.Attr[i].Space == "xmlns" && e.Attr[i].Key == "saml" {
				if np == "" {
					e.Attr[i].Space, e.Attr[i].Key = "", "xmlns"
				} else {
					e.Attr[i].Key = np
				}
			}
		}
	}
}

func c01QN(space, tag string) string {
	if space == "" {
		return tag
	}
	return space + ":" + tag
}

func c01Sigs(e *etree.Element) []*etree.Element {
	var out []*etree.Element
	if e == nil {
		return nil
	}
	for _, c := range e.ChildElements() {
		if c01IsDsig(c, "Signature") {
			out = append(out, c)
		}
	}
	return out
}

// ---------------------------------------------------------------- Mallory's operators

func (m *c01Msg) target(t string) *etree.Element {
	switch {
	case t == "R":
		return m.gresp
	case t == "AR":
		return m.ar
	case t == "F":
		if len(m.forged) > 0 {
			return m.forged[len(m.forged)-1]
		}
		return nil
	case strings.HasPrefix(t, "A"):
		i, _ := strconv.Atoi(t[1:])
		if i < len(m.gas) {
			return m.gas[i]
		}
	}
	return nil
}

func (m *c01Msg) asrtIndex(t string) int {
	if strings.HasPrefix(t, "A") {
		i, _ := strconv.Atoi(t[1:])
		if i < len(m.st.Spec.Assertions) {
			return i
		}
	}
	return 0
}

func (m *c01Msg) plain(t string) *etree.Element {
	e := m.target(t)
	if e != nil && e.Tag == "Assertion" {
		return e
	}
	return nil
}

func (m *c01Msg) inDoc(e *etree.Element) bool {
	for ; e != nil; e = e.Parent() {
		if e == &m.doc.Element {
			return true
		}
	}
	return false
}

// replace puts n where old is and keeps the tracked pointers.
func (m *c01Msg) replace(old, n *etree.Element) bool {
	p := old.Parent()
	if p == nil {
		return false
	}
	idx := old.Index()
	p.RemoveChildAt(idx)
	p.InsertChildAt(idx, n)
	if m.vis == old {
		m.vis = n
	}
	if m.gresp == old {
		m.gresp = n
	}
	if m.ar == old {
		m.ar = n
	}
	for i := range m.gas {
		if m.gas[i] == old {
			m.gas[i] = n
		}
	}
	for i := range m.forged {
		if m.forged[i] == old {
			m.forged[i] = n
		}
	}
	return true
}

func (m *c01Msg) forge(base int, idMode string) *etree.Element {
	specs := m.st.Spec.Assertions
	spec := specs[base%len(specs)]
	n := m.w.evil
	m.w.evil++
	genuineID := spec.ID
	spec.NameID = marker("evil", n)
	spec.Attrs = []AttrSpec{{Name: "uid", Values: []string{marker("eviluid", n)}}, {Name: "groups", Friendly: "g", Values: []string{"admin"}}}
	spec.SessionIndex = "si-evil"
	spec.Sign, spec.Encrypt = false, false
	if m.st.Spent != "" {
		spec.IssueMs, spec.NotBefore, spec.NotOnOrAfter = 0, i64(-1000), i64(3_600_000)
		spec.Audiences = []string{spBase + "/saml/metadata"}
		spec.Confs = []ConfSpec{{NotOnOrAfter: i64(3_600_000), Recipient: spBase + "/saml/acs", InResponseTo: c01ReqID}}
	}
	switch idMode {
	case "same":
	case "edited":
		spec.ID += "x"
	default:
		spec.ID = fmt.Sprintf("id-forged-%d", n)
	}
	el := spec.toAssertion(m.t0).Element()
	switch idMode {
	case "fresh-Id":
		el.CreateAttr("Id", genuineID)
	case "fresh-id":
		el.CreateAttr("id", genuineID)
	case "fresh-nsID":
		el.CreateAttr("xmlns:x", c01EvilNS)
		el.CreateAttr("x:ID", genuineID)
	}
	m.forged = append(m.forged, el)
	return el
}

// c01TrySign signs a detached copy of el (existing signatures removed) with one of Mallory's keys. decoy: see c01Op.Decoy.
func c01TrySign(el *etree.Element, key int, decoy ...int) (out *etree.Element) {
	defer func() {
		if recover() != nil {
			out = nil
		}
	}()
	c := el.Copy()
	c01EnsureNS(c, el)
	if c01Resolve(c, "samlp") == "" {
		c.CreateAttr("xmlns:samlp", c01ProtNS)
	}
	for _, s := range c01Sigs(c) {
		c.RemoveChild(s)
	}
	dv := 0
	if len(decoy) > 0 && decoy[0] > 0 {
		dv = decoy[0]
		d := c01DecoySignature((dv - 1) % 3)
		switch ((dv - 1) / 3) % 3 {
		case 0:
			c.InsertChildAt(0, d)
		case 1:
			idx := 0
			if is := c01ChildByTag(c, "Issuer"); is != nil {
				idx = is.Index() + 1
			}
			c.InsertChildAt(idx, d)
		default:
			c.AddChild(d)
		}
	}
	out = placeSignature(signEnveloped(rsaKeys[key], "", c))
	if dv > 0 && ((dv-1)/3)%3 == 1 {
		// her real signature follows the decoy (where a signature stands among the children is not signed content)
		sigs := c01Sigs(out)
		var d *etree.Element
		for _, ch := range out.ChildElements() {
			if ch.Tag == "Signature" && !c01IsDsig(ch, "Signature") {
				d = ch
			}
		}
		if len(sigs) == 1 && d != nil {
			out.RemoveChild(sigs[0])
			out.InsertChildAt(d.Index()+1, sigs[0])
		}
	}
	return out
}

// c01DecoySignature builds an element with local name Signature that is not an XML-DSig Signature; in it, where a path that goes by
// local names finds it, the certificate of key 0 (public: it is in the IdP's metadata and in every message the IdP signs).
func c01DecoySignature(ns int) *etree.Element {
	pfx, uri := "x", c01EvilNS
	switch ns {
	case 1:
		pfx, uri = "saml", c01AsrtNS
	case 2:
		pfx, uri = "ds", c01EvilNS
	}
	d := etree.NewElement(pfx + ":Signature")
	d.CreateAttr("xmlns:"+pfx, uri)
	d.CreateElement(pfx + ":KeyInfo").CreateElement(pfx + ":X509Data").CreateElement(pfx + ":X509Certificate").SetText(rsaKeys[0].CertB64())
	return d
}

func c01CertEl(sig *etree.Element) *etree.Element {
	return c01ChildByTag(c01ChildByTag(c01ChildByTag(sig, "KeyInfo"), "X509Data"), "X509Certificate")
}

func c01RSAKeyValue(prefix string, key int) *etree.Element {
	pub := rsaKeys[key].Cert.PublicKey.(*rsa.PublicKey)
	kv := etree.NewElement(prefix + ":KeyValue")
	r := kv.CreateElement(prefix + ":RSAKeyValue")
	r.CreateElement(prefix + ":Modulus").SetText(base64.StdEncoding.EncodeToString(pub.N.Bytes()))
	r.CreateElement(prefix + ":Exponent").SetText(base64.StdEncoding.EncodeToString(big.NewInt(int64(pub.E)).Bytes()))
	return kv
}

// keyInfoEdit applies a KeyInfo variant to signature sig; mk is Mallory's key.
func c01KeyInfoEdit(sig *etree.Element, variant, mk int) bool {
	ki := c01ChildByTag(sig, "KeyInfo")
	if ki == nil {
		return false
	}
	x := c01ChildByTag(ki, "X509Data")
	cert := c01ChildByTag(x, "X509Certificate")
	pfx := ki.Space
	mkEl := func(tag, text string) *etree.Element {
		e := etree.NewElement(pfx + ":" + tag)
		if pfx == "" {
			e = etree.NewElement(tag)
		}
		if text != "" {
			e.SetText(text)
		}
		return e
	}
	switch variant {
	case 0: // drop KeyInfo
		sig.RemoveChild(ki)
	case 1: // RSAKeyValue only (Mallory's public key)
		if pfx == "" {
			return false
		}
		for _, c := range ki.ChildElements() {
			ki.RemoveChild(c)
		}
		ki.AddChild(c01RSAKeyValue(pfx, mk))
	case 2: // certificate replaced by Mallory's
		if cert == nil {
			return false
		}
		cert.SetText(rsaKeys[mk].CertB64())
	case 3: // Mallory's certificate first, the original second
		if cert == nil {
			return false
		}
		x.InsertChildAt(cert.Index(), mkEl("X509Certificate", rsaKeys[mk].CertB64()))
	case 4: // the original first, Mallory's second
		if cert == nil {
			return false
		}
		x.AddChild(mkEl("X509Certificate", rsaKeys[mk].CertB64()))
	case 5: // a second X509Data with Mallory's certificate in front
		if x == nil {
			return false
		}
		x2 := mkEl("X509Data", "")
		x2.AddChild(mkEl("X509Certificate", rsaKeys[mk].CertB64()))
		ki.InsertChildAt(x.Index(), x2)
	case 6: // decoy X509Data in a foreign namespace carrying the trusted certificate, real one carries Mallory's
		if cert == nil {
			return false
		}
		d := etree.NewElement("e:X509Data")
		d.CreateAttr("xmlns:e", c01EvilNS)
		d.CreateElement("e:X509Certificate").SetText(rsaKeys[0].CertB64())
		ki.InsertChildAt(x.Index(), d)
		cert.SetText(rsaKeys[mk].CertB64())
	case 7: // empty certificate element
		if cert == nil {
			return false
		}
		cert.SetText("")
	default: // names the other trusted certificate / the trusted one (a lie when Mallory signed)
		if cert == nil {
			return false
		}
		if strings.TrimSpace(cert.Text()) == rsaKeys[0].CertB64() {
			cert.SetText(rsaKeys[3].CertB64())
		} else {
			cert.SetText(rsaKeys[0].CertB64())
		}
	}
	return true
}

func (m *c01Msg) fieldEl(a *etree.Element, field string) *etree.Element {
	var all []*etree.Element
	c01All(a, &all)
	want := map[string]string{"nameid": "NameID", "attr": "AttributeValue", "issuer": "Issuer", "audience": "Audience"}[field]
	for _, e := range all[1:] {
		if e.Tag == want && c01Resolve(e, e.Space) != c01DsigNS {
			return e
		}
	}
	return nil
}

func c01ClearChildren(e *etree.Element) {
	for len(e.Child) > 0 {
		e.RemoveChildAt(0)
	}
}

// visInsertIndex is the child index in vis where an assertion placed "first" goes (after Issuer/Signature/Status).
func (m *c01Msg) insertAt(pos string, ref *etree.Element, n *etree.Element) {
	v := m.vis
	switch pos {
	case "before":
		if ref != nil && ref.Parent() == v {
			v.InsertChildAt(ref.Index(), n)
			return
		}
		fallthrough
	case "first":
		idx := 0
		for _, c := range v.ChildElements() {
			if c.Tag == "Issuer" || c.Tag == "Signature" || c.Tag == "Status" || c.Tag == "Extensions" {
				idx = c.Index() + 1
			}
		}
		v.InsertChildAt(idx, n)
	case "after":
		if ref != nil && ref.Parent() == v {
			v.InsertChildAt(ref.Index()+1, n)
			return
		}
		v.AddChild(n)
	default:
		v.AddChild(n)
	}
}

func (m *c01Msg) lastForged(base int) *etree.Element {
	if len(m.forged) > 0 && m.inDoc(m.forged[len(m.forged)-1]) {
		return m.forged[len(m.forged)-1]
	}
	f := m.forge(base, "fresh")
	m.insertAt("before", m.gas[base%len(m.gas)], f)
	return f
}

func (m *c01Msg) mEncrypt(el *etree.Element) *etree.Element {
	c := el.Copy()
	c01EnsureNS(c, el)
	pt := c01Reparse(c)
	if pt == nil {
		return nil
	}
	blob := encryptAssertionEl(c, rsaKeys[c01SPKey])
	m.w.blobs[c01CipherKey(blob)] = pt
	return blob
}

// c01NSDecls: (element, prefix, "namespace URI") - declarations nobody uses, named after attributes of that element
var c01NSDecls = [][3]string{
	{"NameID", "Format", "urn:oasis:names:tc:SAML:1.1:nameid-format:emailAddress"},
	{"NameID", "NameQualifier", "zQevilnqQz"},
	{"Attribute", "Name", "zQevilattrQz"},
	{"Attribute", "FriendlyName", "role"},
	{"AuthnStatement", "SessionIndex", "zQevilsessionQz"},
	{"SubjectConfirmationData", "Recipient", "https://evil.example.com/acs"},
	{"SubjectConfirmationData", "NotOnOrAfter", "2099-01-01T00:00:00Z"},
	{"Conditions", "NotOnOrAfter", "2099-01-01T00:00:00Z"},
	{"SubjectConfirmation", "Method", "urn:oasis:names:tc:SAML:2.0:cm:sender-vouches"},
}

// apply executes one operator; it reports whether the message changed.
func (m *c01Msg) apply(op c01Op) bool {
	ai := m.asrtIndex(op.Target)
	mk := op.Key
	if mk != 2 && mk != 4 {
		mk = 2
	}
	switch op.Op {
	case "strip-sig":
		t := m.target(op.Target)
		if t == nil || t.Tag == "EncryptedAssertion" {
			return false
		}
		sigs := c01Sigs(t)
		for _, s := range sigs {
			t.RemoveChild(s)
		}
		return len(sigs) > 0

	case "edit":
		a := m.plain(op.Target)
		if a == nil {
			return false
		}
		n := m.w.evil
		m.w.evil++
		switch op.Field {
		case "nameid", "attr":
			e := m.fieldEl(a, op.Field)
			if e == nil {
				return false
			}
			e.SetText(marker("evil", n))
		case "audience-add":
			c := c01ChildByTag(a, "Conditions")
			if c == nil {
				return false
			}
			c.CreateElement(c01QN(a.Space, "AudienceRestriction")).CreateElement(c01QN(a.Space, "Audience")).SetText("https://evil.example.com/metadata")
		case "noa":
			c := c01ChildByTag(a, "Conditions")
			if c == nil {
				return false
			}
			c.CreateAttr("NotOnOrAfter", m.t0.Add(2*time.Hour).UTC().Format("2006-01-02T15:04:05.999Z07:00"))
		default:
			s := c01ChildByTag(a, "AuthnStatement")
			if s == nil {
				return false
			}
			s.CreateAttr("SessionIndex", "si-evil")
		}
		return true

	case "comment", "cdata":
		a := m.plain(op.Target)
		if a == nil {
			return false
		}
		e := m.fieldEl(a, op.Field)
		if e == nil {
			return false
		}
		text := e.Text()
		if text == "" {
			return false
		}
		k := op.Variant % (len(text) + 1)
		c01ClearChildren(e)
		if op.Op == "comment" {
			if k > 0 {
				e.AddChild(etree.NewText(text[:k]))
			}
			e.AddChild(etree.NewComment("x"))
			if k < len(text) {
				e.AddChild(etree.NewText(text[k:]))
			}
		} else {
			e.AddChild(etree.NewCData(text[:k]))
			e.AddChild(etree.NewCData(text[k:]))
		}
		return true

	case "forge-sibling":
		f := m.forge(ai, op.IDMode)
		if op.Key == 2 || op.Key == 4 {
			if s := c01TrySign(f, op.Key, op.Decoy); s != nil {
				m.forged[len(m.forged)-1] = s
				f = s
			}
		}
		m.insertAt(op.Pos, m.gas[ai%len(m.gas)], f)
		return true

	case "move-genuine":
		a := m.target(op.Target)
		if a == nil || !m.inDoc(a) {
			return false
		}
		item := a
		if op.Mode == "copy" {
			item = a.Copy()
			c01EnsureNS(item, a)
		} else {
			c01EnsureNS(a, a)
		}
		var dest *etree.Element
		switch op.Pos {
		case "ext":
			dest = etree.NewElement("samlp:Extensions")
			dest.CreateAttr("xmlns:samlp", c01ProtNS)
			m.insertAt("first", nil, dest)
		case "wrapper":
			dest = etree.NewElement("w:Wrapper")
			dest.CreateAttr("xmlns:w", c01EvilNS)
			m.vis.AddChild(dest)
		case "object":
			f := m.lastForged(ai)
			sigs := c01Sigs(f)
			var sig *etree.Element
			if len(sigs) > 0 {
				sig = sigs[0]
			} else {
				sig = etree.NewElement("ds:Signature")
				sig.CreateAttr("xmlns:ds", c01DsigNS)
				f.InsertChildAt(1, sig)
			}
			dest = etree.NewElement("ds:Object")
			dest.CreateAttr("xmlns:ds", c01DsigNS)
			sig.AddChild(dest)
		case "forged-child":
			dest = m.lastForged(ai)
		case "advice":
			f := m.lastForged(ai)
			dest = etree.NewElement("saml:Advice")
			dest.CreateAttr("xmlns:saml", c01AsrtNS)
			f.AddChild(dest)
		default:
			st := c01ChildByTag(m.vis, "Status")
			if st == nil {
				return false
			}
			dest = etree.NewElement("samlp:StatusDetail")
			dest.CreateAttr("xmlns:samlp", c01ProtNS)
			st.AddChild(dest)
		}
		for p := dest; p != nil; p = p.Parent() {
			if p == item {
				return true // would create a cycle; the destination was created inside the item
			}
		}
		dest.AddChild(item)
		return true

	case "wrap-response":
		r := m.gresp
		if r == nil || !m.inDoc(r) {
			return false
		}
		f := etree.NewElement("samlp:Response")
		f.CreateAttr("xmlns:samlp", c01ProtNS)
		f.CreateAttr("xmlns:saml", c01AsrtNS)
		for _, a := range r.Attr {
			if a.Space == "" && a.Key != "xmlns" {
				f.CreateAttr(a.Key, a.Value)
			}
		}
		genuineID := r.SelectAttrValue("ID", "")
		switch op.IDMode {
		case "same":
		case "edited":
			f.CreateAttr("ID", genuineID+"x")
		default:
			f.CreateAttr("ID", fmt.Sprintf("id-forged-resp-%d", m.w.evil))
			switch op.IDMode {
			case "fresh-Id":
				f.CreateAttr("Id", genuineID)
			case "fresh-id":
				f.CreateAttr("id", genuineID)
			}
		}
		if is := c01ChildByTag(r, "Issuer"); is != nil {
			f.AddChild(is.Copy())
		}
		if st := c01ChildByTag(r, "Status"); st != nil {
			f.AddChild(st.Copy())
		}
		fa := m.forge(0, "fresh")
		switch op.Variant {
		case 3, 4: // forged response as a sibling before / after the genuine one
			f.AddChild(fa)
			p := r.Parent()
			if p == nil || p == &m.doc.Element {
				// a document has one root: nest instead
				m.replace(r, f)
				f.AddChild(r)
				m.gresp = r
				m.vis = f
				return true
			}
			if op.Variant == 3 {
				p.InsertChildAt(r.Index(), f)
			} else {
				p.InsertChildAt(r.Index()+1, f)
			}
			return true
		}
		wasVis := m.vis == r
		m.replace(r, f)
		m.gresp = r
		if wasVis {
			m.vis = f
		}
		switch op.Variant {
		case 0: // genuine response nested as last child, forged assertion in front
			f.AddChild(fa)
			f.AddChild(r)
		case 1: // genuine response inside Extensions
			ext := etree.NewElement("samlp:Extensions")
			f.InsertChildAt(1, ext)
			ext.AddChild(r)
			f.AddChild(fa)
		default: // a copy of the genuine signature on the forged response, the genuine response inside its Object
			sigs := c01Sigs(r)
			sig := etree.NewElement("ds:Signature")
			sig.CreateAttr("xmlns:ds", c01DsigNS)
			if len(sigs) > 0 {
				sig = sigs[0].Copy()
			}
			f.InsertChildAt(1, sig)
			obj := etree.NewElement("ds:Object")
			obj.CreateAttr("xmlns:ds", c01DsigNS)
			sig.AddChild(obj)
			obj.AddChild(r)
			f.AddChild(fa)
		}
		return true

	case "resign":
		t := m.target(op.Target)
		if t == nil || t.Tag == "EncryptedAssertion" || !m.inDoc(t) {
			return false
		}
		s := c01TrySign(t, mk, op.Decoy)
		if s == nil {
			return false
		}
		if !m.replace(t, s) {
			return false
		}
		sig := c01Sigs(s)
		if len(sig) == 1 {
			switch op.Variant {
			case 1:
				c01KeyInfoEdit(sig[0], 8, mk) // names the trusted certificate
			case 2:
				if c := c01CertEl(sig[0]); c != nil { // Mallory's first, the trusted second
					c.Parent().AddChild(func() *etree.Element {
						e := etree.NewElement(c.FullTag())
						e.SetText(rsaKeys[0].CertB64())
						return e
					}())
				}
			case 3:
				if c := c01CertEl(sig[0]); c != nil { // the trusted first, Mallory's second
					e := etree.NewElement(c.FullTag())
					e.SetText(rsaKeys[0].CertB64())
					c.Parent().InsertChildAt(c.Index(), e)
				}
			case 4:
				c01KeyInfoEdit(sig[0], 0, mk)
			case 5:
				c01KeyInfoEdit(sig[0], 1, mk)
			}
		}
		return true

	case "keyinfo":
		t := m.target(op.Target)
		if t == nil || t.Tag == "EncryptedAssertion" {
			return false
		}
		sigs := c01Sigs(t)
		if len(sigs) == 0 {
			return false
		}
		return c01KeyInfoEdit(sigs[0], op.Variant, mk)

	case "dup-sig":
		t := m.target(op.Target)
		if t == nil || t.Tag == "EncryptedAssertion" {
			return false
		}
		sigs := c01Sigs(t)
		if len(sigs) == 0 {
			return false
		}
		switch op.Variant {
		case 0:
			t.InsertChildAt(sigs[0].Index()+1, sigs[0].Copy())
		case 1:
			t.AddChild(sigs[0].Copy())
		case 2, 3:
			s := c01TrySign(t, mk)
			if s == nil {
				return false
			}
			ms := c01Sigs(s)
			if len(ms) == 0 {
				return false
			}
			if op.Variant == 2 {
				t.InsertChildAt(sigs[0].Index(), ms[0].Copy())
			} else {
				t.InsertChildAt(sigs[0].Index()+1, ms[0].Copy())
			}
		default:
			kids := t.ChildElements()
			kids[len(kids)-1].AddChild(sigs[0].Copy())
		}
		return true

	case "sig-transplant":
		if op.Variant >= 6 { // response level
			r := m.gresp
			sigs := c01Sigs(r)
			if r == nil || len(sigs) == 0 || !m.inDoc(r) {
				return false
			}
			idm := "same"
			if op.Variant == 7 {
				idm = "fresh"
			}
			return m.apply(c01Op{Op: "wrap-response", Variant: 2, IDMode: idm})
		}
		a := m.plain(op.Target)
		if a == nil || !m.inDoc(a) {
			return false
		}
		sigs := c01Sigs(a)
		if len(sigs) == 0 {
			return false
		}
		idm := "fresh"
		switch op.Variant {
		case 1, 2, 4:
			idm = "same"
		case 5:
			idm = "fresh-Id"
		}
		f := m.forge(ai, idm)
		p := a.Parent()
		p.InsertChildAt(a.Index(), f)
		var sig *etree.Element
		if op.Variant == 2 || op.Variant == 3 {
			sig = sigs[0] // moved
		} else {
			sig = sigs[0].Copy()
		}
		f.InsertChildAt(1, sig)
		switch op.Variant {
		case 3:
			obj := etree.NewElement("ds:Object")
			obj.CreateAttr("xmlns:ds", c01DsigNS)
			sig.AddChild(obj)
			c01EnsureNS(a, a)
			obj.AddChild(a)
		case 4:
			c01EnsureNS(a, a)
			f.AddChild(a)
		}
		return true

	case "plant-encrypted":
		// Mallory encrypts an identifier or an attribute of her choosing to the SP's public certificate and plants it where no
		// signature covers it: anybody can encrypt to a public key; only what a trusted signature covers counts
		nid := etree.NewElement("saml:NameID")
		nid.CreateAttr("xmlns:saml", c01AsrtNS)
		nid.CreateAttr("Format", "urn:oasis:names:tc:SAML:1.1:nameid-format:emailAddress")
		evil := marker("evil", m.w.evil)
		m.w.evil++
		nid.SetText(evil)
		at := etree.NewElement("saml:Attribute")
		at.CreateAttr("xmlns:saml", c01AsrtNS)
		at.CreateAttr("Name", "role")
		at.CreateElement("saml:AttributeValue").SetText("admin-" + evil)
		switch op.Variant {
		case 0, 1:
			// a Subject with an EncryptedID early in the document (protocol extensions of the unsigned Response / a Status detail)
			ext := etree.NewElement("samlp:Extensions")
			ext.CreateAttr("xmlns:samlp", "urn:oasis:names:tc:SAML:2.0:protocol")
			ext.CreateAttr("xmlns:saml", c01AsrtNS)
			ext.CreateElement("saml:Subject").AddChild(encryptElAs(nid, rsaKeys[c01SPKey], "saml:EncryptedID"))
			if op.Variant == 0 {
				m.vis.InsertChildAt(0, ext)
			} else {
				m.vis.AddChild(ext)
			}
			return true
		default:
			// inside the assertion's own Signature element (which the enveloped-signature transform takes out before digesting)
			a := m.plain(op.Target)
			if a == nil {
				return false
			}
			sigs := c01Sigs(a)
			if len(sigs) == 0 {
				return false
			}
			obj := sigs[0].CreateElement(sigs[0].Space + ":Object")
			obj.CreateAttr("xmlns:saml", c01AsrtNS)
			if op.Variant == 2 {
				obj.AddChild(encryptElAs(at, rsaKeys[c01SPKey], "saml:EncryptedAttribute"))
			} else {
				obj.CreateElement("saml:Subject").AddChild(encryptElAs(nid, rsaKeys[c01SPKey], "saml:EncryptedID"))
			}
			return true
		}

	case "plant-in-signature":
		// Mallory writes content in clear into a Signature element of the message, outside SignedInfo (the enveloped-signature
		// transform removes the whole Signature element before the digest is taken: KeyInfo, Object and anything else in there is
		// anybody's). Every signature stands; what she wrote was signed by nobody and must not come back
		t := m.target(op.Target)
		if t == nil || t.Tag == "EncryptedAssertion" || !m.inDoc(t) {
			return false
		}
		sigs := c01Sigs(t)
		if len(sigs) == 0 {
			return false
		}
		sig := sigs[0]
		pfx := sig.Space
		dsEl := func(tag string) *etree.Element {
			e := etree.NewElement(c01QN(pfx, tag))
			if pfx != "" && c01Resolve(sig, pfx) != c01DsigNS {
				e.CreateAttr("xmlns:"+pfx, c01DsigNS)
			}
			return e
		}
		var content []*etree.Element
		if t.Tag == "Assertion" {
			n := m.w.evil
			m.w.evil++
			evil := marker("evil", n)
			sub := etree.NewElement("saml:Subject")
			sub.CreateAttr("xmlns:saml", c01AsrtNS)
			nid := sub.CreateElement("saml:NameID")
			nid.CreateAttr("NameQualifier", "zQevilnqQz")
			nid.SetText(evil)
			sc := sub.CreateElement("saml:SubjectConfirmation")
			sc.CreateAttr("Method", "urn:oasis:names:tc:SAML:2.0:cm:bearer")
			scd := sc.CreateElement("saml:SubjectConfirmationData")
			scd.CreateAttr("Recipient", spBase+"/saml/acs")
			scd.CreateAttr("InResponseTo", c01ReqID)
			scd.CreateAttr("NotOnOrAfter", m.t0.Add(2*time.Hour).UTC().Format("2006-01-02T15:04:05.999Z07:00"))
			ats := etree.NewElement("saml:AttributeStatement")
			ats.CreateAttr("xmlns:saml", c01AsrtNS)
			at := ats.CreateElement("saml:Attribute")
			at.CreateAttr("Name", "groups")
			at.CreateElement("saml:AttributeValue").SetText("admin-" + evil)
			cond := etree.NewElement("saml:Conditions")
			cond.CreateAttr("xmlns:saml", c01AsrtNS)
			cond.CreateAttr("NotOnOrAfter", m.t0.Add(48*time.Hour).UTC().Format("2006-01-02T15:04:05.999Z07:00"))
			cond.CreateElement("saml:AudienceRestriction").CreateElement("saml:Audience").SetText(spBase + "/saml/metadata")
			aus := etree.NewElement("saml:AuthnStatement")
			aus.CreateAttr("xmlns:saml", c01AsrtNS)
			aus.CreateAttr("AuthnInstant", m.t0.UTC().Format("2006-01-02T15:04:05.999Z07:00"))
			aus.CreateAttr("SessionIndex", "si-evil")
			switch op.Field {
			case "subject":
				content = []*etree.Element{sub}
			case "attrs":
				content = []*etree.Element{ats}
			default:
				content = []*etree.Element{sub, cond, aus, ats}
			}
		} else {
			// a Response or ArtifactResponse signature: a whole assertion of hers
			content = []*etree.Element{m.forge(ai, "fresh")}
		}
		if op.Pos == "signature-moved-last" {
			t.RemoveChild(sig)
			t.AddChild(sig)
		}
		var holder *etree.Element
		switch op.Variant % 3 {
		case 0:
			holder = sig
		case 1:
			holder = dsEl("Object")
			sig.AddChild(holder)
		default:
			holder = c01ChildByTag(sig, "KeyInfo")
			if holder == nil {
				holder = dsEl("KeyInfo")
				sig.AddChild(holder)
			}
		}
		switch op.Mode {
		case "after-empty-nested-signature":
			holder.AddChild(dsEl("Signature"))
		case "in-nested-signature":
			inner := dsEl("Signature")
			holder.AddChild(inner)
			holder = inner
		}
		for _, c := range content {
			holder.AddChild(c)
		}
		return true

	case "declare-unused-ns":
		// exclusive canonicalisation leaves declarations nobody uses out of the signed octets: every signature stands, nothing the
		// message says changes
		if v := op.Variant; v >= len(c01NSDecls) {
			// ... or an element outside every signature uses a prefix called like an attribute of the root elements (a decoder that
			// re-declares the document's prefixes on what it decodes meets it there)
			pfx := []string{"ID", "IssueInstant", "Version"}[(v-len(c01NSDecls))%3]
			e := etree.NewElement(pfx + ":Trailer")
			e.CreateAttr("xmlns:"+pfx, []string{"id-evil", "2099-01-01T00:00:00Z", "1.1"}[(v-len(c01NSDecls))%3])
			m.vis.AddChild(e)
			return true
		}
		a := m.plain(op.Target)
		if a == nil {
			return false
		}
		d := c01NSDecls[op.Variant]
		var all []*etree.Element
		c01All(a, &all)
		n := 0
		for _, e := range all {
			if e.Tag == d[0] {
				e.CreateAttr("xmlns:"+d[1], d[2])
				n++
			}
		}
		return n > 0

	case "ns-trick":
		ref := m.gas[ai%len(m.gas)]
		switch op.Variant {
		case 0: // saml prefix bound to a foreign namespace on a forged assertion
			f := m.forge(ai, "fresh")
			f.CreateAttr("xmlns:saml", c01EvilNS)
			m.insertAt("before", ref, f)
		case 1: // same local name in a foreign default namespace
			f := m.forge(ai, "same")
			c01Unprefix(f)
			f.CreateAttr("xmlns", c01EvilNS)
			m.insertAt("before", ref, f)
		case 2: // forged assertion through the default namespace
			f := m.forge(ai, "fresh")
			c01Unprefix(f)
			f.CreateAttr("xmlns", c01AsrtNS)
			m.insertAt("before", ref, f)
		case 3: // trailing element rebinding a prefix in use
			pfx := op.Field
			if pfx == "" {
				e := etree.NewElement("Trailer")
				e.CreateAttr("xmlns", c01EvilNS)
				m.vis.AddChild(e)
				return true
			}
			e := etree.NewElement(pfx + ":Trailer")
			e.CreateAttr("xmlns:"+pfx, c01EvilNS)
			m.vis.AddChild(e)
		case 4: // the same, at the end of the outermost element
			pfx := op.Field
			if pfx == "" {
				pfx = "saml"
			}
			e := etree.NewElement(pfx + ":Trailer")
			e.CreateAttr("xmlns:"+pfx, c01EvilNS)
			if m.ar != nil {
				m.ar.AddChild(e)
			} else {
				m.vis.AddChild(e)
			}
		case 5: // default namespace declared on the response, unprefixed forged assertion
			m.vis.CreateAttr("xmlns", c01AsrtNS)
			f := m.forge(ai, "same")
			c01Unprefix(f)
			m.insertAt("before", ref, f)
		case 6: // forged assertion whose Signature element lives in a foreign namespace under the ds prefix
			f := m.forge(ai, "same")
			sig := etree.NewElement("ds:Signature")
			sig.CreateAttr("xmlns:ds", c01EvilNS)
			ki := sig.CreateElement("ds:KeyInfo")
			ki.CreateElement("ds:X509Data").CreateElement("ds:X509Certificate").SetText(rsaKeys[0].CertB64())
			f.InsertChildAt(1, sig)
			m.insertAt("before", ref, f)
		default: // forged element carrying the genuine assertion, local name Assertion, prefix rebinding inside
			f := m.forge(ai, "fresh")
			f.Space = "evil"
			f.CreateAttr("xmlns:evil", c01AsrtNS)
			m.insertAt("after", ref, f)
		}
		return true

	case "encrypt-wrap":
		ref := m.gas[ai%len(m.gas)]
		switch op.Variant {
		case 0, 1:
			f := m.forge(ai, c01If(op.Variant == 0, "same", "fresh"))
			blob := m.mEncrypt(f)
			if blob == nil {
				return false
			}
			m.insertAt(c01If(op.Variant == 0, "before", "after"), ref, blob)
		case 2:
			a := m.plain(op.Target)
			if a == nil || !m.inDoc(a) {
				return false
			}
			blob := m.mEncrypt(a)
			if blob == nil {
				return false
			}
			m.replace(a, blob)
		case 3:
			if len(m.w.poolAsrts) == 0 {
				return false
			}
			blob := m.mEncrypt(m.w.poolAsrts[len(m.w.poolAsrts)-1])
			if blob == nil {
				return false
			}
			m.insertAt("before", ref, blob)
		case 4:
			if len(m.forged) == 0 || !m.inDoc(m.forged[len(m.forged)-1]) {
				return false
			}
			f := m.forged[len(m.forged)-1]
			blob := m.mEncrypt(f)
			if blob == nil {
				return false
			}
			m.replace(f, blob)
		default:
			a := m.plain(op.Target)
			if a == nil {
				return false
			}
			f := m.forge(ai, "same")
			c := a.Copy()
			c01EnsureNS(c, a)
			f.AddChild(c)
			blob := m.mEncrypt(f)
			if blob == nil {
				return false
			}
			m.insertAt("before", ref, blob)
		}
		return true

	case "doctype":
		switch op.Variant {
		case 0:
			m.prolog = `<?xml version="1.0" encoding="UTF-8"?>` + "\n"
		case 1:
			m.prolog = `<!DOCTYPE r [<!ENTITY x "zqevilentqz">]>`
		case 2:
			m.prolog = `<!DOCTYPE r [<!ENTITY x "zqevilentqz">]>`
			f := m.forge(0, "same")
			if e := m.fieldEl(f, "nameid"); e != nil {
				e.SetText(c01EntRef)
				m.entRef = true
			}
			m.insertAt("before", m.gas[0], f)
		case 3:
			m.prolog = "<!-- x --><?evil x?>"
		case 4:
			m.epilog = "<!-- trailing -->"
		case 5:
			m.prolog = `<!DOCTYPE r SYSTEM "http://evil.example.com/x.dtd">`
		case 6:
			m.prolog = `<!DOCTYPE r [<!ENTITY a '>'><!-- > --> ]>`
		default:
			m.prolog = `<!DOCTYPE r [<!ENTITY lt "&#60;saml:Assertion>">]>`
		}
		return true

	case "splice":
		ref := m.gas[ai%len(m.gas)]
		switch op.Variant {
		case 0, 1, 2:
			if len(m.w.poolAsrts) == 0 {
				return false
			}
			c := m.w.poolAsrts[(op.Variant+len(m.w.poolAsrts)-1)%len(m.w.poolAsrts)].Copy()
			switch op.Variant {
			case 0:
				m.insertAt("after", ref, c)
			case 1:
				m.insertAt("before", ref, c)
			default:
				if !m.inDoc(ref) {
					return false
				}
				m.replace(ref, c)
			}
		case 3:
			if len(m.w.poolBlobs) == 0 {
				return false
			}
			m.insertAt("before", ref, m.w.poolBlobs[len(m.w.poolBlobs)-1].Copy())
		case 4:
			if len(m.w.poolResps) == 0 || !m.inDoc(m.vis) {
				return false
			}
			c := m.w.poolResps[len(m.w.poolResps)-1].Copy()
			m.replace(m.vis, c)
		default:
			if len(m.w.poolResps) == 0 {
				return false
			}
			src := m.w.poolResps[len(m.w.poolResps)-1]
			a := c01ChildByTag(src, "Assertion")
			if a == nil {
				return false
			}
			c := a.Copy()
			c01EnsureNS(c, a)
			m.insertAt("before", ref, c)
		}
		return true

	case "remove-part":
		a := m.plain(op.Target)
		if a == nil {
			return false
		}
		var all []*etree.Element
		c01All(a, &all)
		want := map[string]string{"audience": "AudienceRestriction", "attrs": "AttributeStatement", "authn": "AuthnStatement", "confirmation": "SubjectConfirmation", "nameid": "NameID"}[op.Field]
		for _, e := range all[1:] {
			if e.Tag == want && e.Parent() != nil {
				e.Parent().RemoveChild(e)
				return true
			}
		}
		return false
	}
	return false
}

func c01If[T any](c bool, a, b T) T {
	if c {
		return a
	}
	return b
}

// c01Unprefix removes the saml prefix from el and its SAML descendants (they then live in the default namespace in scope).
func c01Unprefix(el *etree.Element) {
	var all []*etree.Element
	c01All(el, &all)
	for _, e := range all {
		if e.Space == "saml" {
			e.Space = ""
		}
	}
	el.RemoveAttr("xmlns:saml")
}

func (m *c01Msg) bytes() []byte {
	b, err := m.doc.WriteToBytes()
	if err != nil {
		panic(err)
	}
	s := string(b)
	if m.entRef {
		s = strings.ReplaceAll(s, c01EntRef, "&x;")
	}
	return []byte(m.prolog + s + m.epilog)
}

// ---------------------------------------------------------------- execution

func c01Fingerprint(kp KeyPair) string {
	sum := sha256.Sum256(kp.Cert.Raw)
	parts := make([]string, len(sum))
	for i, b := range sum {
		parts[i] = fmt.Sprintf("%02X", b)
	}
	return strings.Join(parts, ":")
}

func c01NewSP(k c01Knobs) *saml.ServiceProvider {
	var enc *KeyPair
	if k.EncDecoy {
		enc = &rsaKeys[4]
	}
	use := "signing"
	if strings.HasSuffix(k.Trust, "-nouse") {
		use = ""
	}
	var signing []KeyPair
	for _, i := range c01TrustedKeys(k.Trust) {
		signing = append(signing, rsaKeys[i])
	}
	if k.Trust == "pinned" {
		signing = []KeyPair{rsaKeys[3]} // the metadata lists another certificate: pinning must exclude it
	}
	if k.Trust == "fingerprint-listed" {
		signing = []KeyPair{rsaKeys[0], rsaKeys[3]}
	}
	md := idpMetadataFor(idpEntity, idpSSO, idpSLO, signing, enc, use)
	cert := func(kp KeyPair, use string) saml.KeyDescriptor {
		return saml.KeyDescriptor{Use: use, KeyInfo: saml.KeyInfo{X509Data: saml.X509Data{X509Certificates: []saml.X509Certificate{{Data: kp.CertB64()}}}}}
	}
	if k.DupCert && len(signing) > 0 {
		md.IDPSSODescriptors[0].KeyDescriptors = append(md.IDPSSODescriptors[0].KeyDescriptors, cert(signing[0], ""))
	}
	if k.AADecoy {
		md.AttributeAuthorityDescriptors = []saml.AttributeAuthorityDescriptor{{
			RoleDescriptor:    saml.RoleDescriptor{ProtocolSupportEnumeration: "urn:oasis:names:tc:SAML:2.0:protocol", KeyDescriptors: []saml.KeyDescriptor{cert(rsaKeys[4], "signing")}},
			AttributeServices: []saml.Endpoint{{Binding: saml.SOAPBinding, Location: "https://idp.example.com/attributes"}}}}
	}
	md.IDPSSODescriptors[0].ArtifactResolutionServices = []saml.Endpoint{{Binding: saml.SOAPBinding, Location: "https://idp.example.com/artifact"}}
	spv := newSP(spBase, rsaKeys[c01SPKey], "", md)
	switch k.Trust {
	case "pinned":
		s := rsaKeys[0].CertB64()
		spv.IDPCertificate = &s
	case "fingerprint", "fingerprint-listed":
		fp, algo := c01WriteFingerprint(rsaKeys[0], k.FPWritten), c01FPAlgo
		spv.IDPCertificateFingerprint = &fp
		spv.IDPCertificateFingerprintAlgorithm = &algo
	}
	if k.Verifier {
		spv.SignatureVerifier = passVerifier{}
	}
	if k.Hooks {
		spv.ValidateAudienceRestriction = func(*saml.Assertion) error { return nil }
		spv.ValidateRequestID = func(saml.Response, []string) error { return nil }
	}
	return spv
}

// c01Sevens is the random source while an artifact is resolved over HTTP; c01ResolFor is the ArtifactResolve ID it leads to.
type c01Sevens struct{}

func (c01Sevens) Read(p []byte) (int, error) {
	for i := range p {
		p[i] = 7
	}
	return len(p), nil
}

func c01ResolFor(st *c01Step) string {
	if st.ViaHTTP {
		return "id-" + strings.Repeat("07", 20)
	}
	return c01ResolID
}

// c01Back is the artifact resolution service: it answers every ArtifactResolve with the (possibly tampered) envelope.
type c01Back struct{ body []byte }

func (b c01Back) RoundTrip(r *http.Request) (*http.Response, error) {
	return &http.Response{StatusCode: 200, Status: "200 OK", Body: io.NopCloser(bytes.NewReader(b.body)), Header: http.Header{}, Request: r}, nil
}

func c01OpName(op c01Op) string {
	s := op.Op
	switch op.Op {
	case "edit", "comment", "cdata", "remove-part":
		s += ":" + op.Field
	case "forge-sibling":
		s += ":" + op.Pos + "/" + op.IDMode
		if op.Key != 0 {
			s += fmt.Sprintf("/k%d", op.Key)
		}
		if op.Decoy != 0 && op.Key != 0 {
			s += fmt.Sprintf("/decoy%d", op.Decoy)
		}
	case "plant-in-signature":
		s += fmt.Sprintf(":%s/v%d/%s", c01TargetClass(op.Target), op.Variant%3, op.Field)
		if op.Mode != "" {
			s += "/" + op.Mode
		}
		if op.Pos != "" {
			s += "/" + op.Pos
		}
	case "move-genuine":
		s += ":" + op.Mode + ">" + op.Pos
	case "wrap-response":
		s += fmt.Sprintf(":%d/%s", op.Variant, op.IDMode)
	case "resign":
		s += fmt.Sprintf(":%s/k%d/v%d", c01TargetClass(op.Target), op.Key, op.Variant)
		if op.Decoy != 0 {
			s += fmt.Sprintf("/decoy%d", op.Decoy)
		}
	case "keyinfo", "dup-sig":
		s += fmt.Sprintf(":%s/v%d", c01TargetClass(op.Target), op.Variant)
	case "strip-sig":
		s += ":" + c01TargetClass(op.Target)
	case "ns-trick":
		s += fmt.Sprintf(":v%d", op.Variant)
		if op.Variant == 3 || op.Variant == 4 {
			s += "/" + op.Field
		}
	default:
		s += fmt.Sprintf(":v%d", op.Variant)
	}
	return s
}

func c01TargetClass(t string) string {
	if strings.HasPrefix(t, "A") && t != "AR" {
		return "A"
	}
	return t
}

func execTamper(t *testing.T, p *Plan) *Result {
	res := newResult()
	k := decode[c01Knobs](p.Knobs)
	if k.Trust == "" {
		k.Trust = "md1"
	}
	installRand(p)
	if k.Lapsed {
		idp0, idp3 := rsaKeys[0], rsaKeys[3]
		rsaKeys[0], rsaKeys[3] = rsaOld, rsaOld2
		defer func() { rsaKeys[0], rsaKeys[3] = idp0, idp3 }()
		res.probe("idp-certificates-all-lapsed")
	}
	if k.SKITwin && !k.Lapsed {
		idp0, mal2 := rsaKeys[0], rsaKeys[2]
		rsaKeys[0], rsaKeys[2] = rsaSKI, rsaSKIMal
		defer func() { rsaKeys[0], rsaKeys[2] = idp0, mal2 }()
		res.probe("mallory-copied-subject-and-key-identifier")
	}
	if !strings.HasPrefix(k.Trust, "fingerprint") {
		k.FPWritten = ""
	}
	if k.FPWritten != "" {
		res.probe("fingerprint-written-as:" + k.FPWritten)
	}
	spv := c01NewSP(k)
	w := &c01World{trust: k.Trust, blobs: map[string]*etree.Element{}}
	start := time.Now()

	for si, raw := range p.Steps {
		st := decode[c01Step](raw)
		if st.Kind != "deliver" || len(st.Spec.Assertions) == 0 {
			continue
		}
		if st.Entry != "artifact" {
			st.ArtSign = false
		}
		if st.Retrust != "" && strings.HasPrefix(k.Trust, "md") && strings.HasPrefix(st.Retrust, "md") {
			// metadata refresh on the same SP object: a signing key is added or retired
			k.Trust = st.Retrust
			w.trust = st.Retrust
			spv.IDPMetadata = c01NewSP(k).IDPMetadata
			res.fire("trust-rotation:" + st.Retrust)
			res.logf("step %d trust configuration replaced by %s", si, st.Retrust)
		}
		t0 := time.Now()
		m := w.issue(&st, si, t0)
		m.capture()

		// ---- Mallory
		var fired, names []string
		for _, op := range st.Ops {
			name := c01OpName(op)
			if m.apply(op) {
				fired = append(fired, name)
				names = append(names, name)
				res.fire("tamper:" + op.Op)
				if op.Op == "plant-in-signature" {
					res.probe("planted-in-signature:" + []string{"directly", "in-object", "in-keyinfo"}[op.Variant%3] + c01If(op.Mode != "", "/"+op.Mode, ""))
				}
				if op.Decoy != 0 && (op.Op == "resign" || (op.Op == "forge-sibling" && op.Key != 0)) {
					res.probe("mallory-signed-with-decoy-signature-element:" + []string{"first", "before-real-signature", "last"}[((op.Decoy-1)/3)%3])
				}
			} else {
				names = append(names, name+"(noop)")
			}
		}
		body := m.bytes()
		advance(time.Second)

		// ---- oracle, from the statement and the plan only
		cov := map[int]bool{}
		if d := c01Parse(body); d != nil {
			w.covered(d.Root(), 0, cov)
		}
		var covLabels []string
		for gi := range w.genuine {
			if cov[gi] {
				covLabels = append(covLabels, w.genuine[gi].Label)
			}
		}
		sort.Strings(covLabels)
		issuedCovered := 0
		for gi := range w.genuine {
			if strings.HasPrefix(w.genuine[gi].Label, fmt.Sprintf("s%da", si)) && cov[gi] {
				issuedCovered++
			}
		}
		expect := "MAY_REJECT"
		switch {
		case len(fired) == 0 && issuedCovered > 0:
			expect = "MUST_ACCEPT"
		case len(covLabels) == 0:
			expect = "MUST_REJECT"
		}
		if st.Spent != "" {
			res.probe("genuine-assertions-spent:" + st.Spent)
			if expect == "MUST_ACCEPT" {
				expect = "MAY_REJECT" // honestly signed, and no longer (or never) of use to this SP for this request
			}
		}
		if st.IdPKeyInfo != "" && (st.Spec.Sign || st.ArtSign || c01AnySigned(&st)) {
			res.probe("idp-signatures-name-no-certificate:" + st.IdPKeyInfo)
			if expect == "MUST_ACCEPT" {
				// The statement is an "only if"; that untampered genuine messages are accepted is demanded only where the IdP names its
				// certificate, to keep the check from being vacuous. An SP that knows the IdP by a fingerprint has nothing to compare
				// with, one that trusts several certificates would have to try each: whether it does is left open
				expect = "DONT_CARE"
				res.dontcare("idp-signatures-name-no-certificate")
			}
		}
		if expect == "MUST_ACCEPT" && k.FPWritten != "" {
			// The statement is an "only if". A fingerprint that is not written the way the library writes fingerprints denotes the
			// certificate of key 0 or nothing: whether the SP reads it as the former is left open, that it names no other key is not
			expect = "DONT_CARE"
			res.dontcare("fingerprint-not-in-library-notation")
		}
		if expect == "MUST_ACCEPT" && st.InheritNS && st.Prefix%3 == 1 && c01AnyPlain(&st) {
			// The statement is an "only if"; acceptance of untampered genuine responses is required here only to keep
			// the check from being vacuous. Whether an assertion that inherits a *default* namespace declaration from the
			// Response element has to be accepted is left open by the statement.
			expect = "DONT_CARE"
			res.dontcare("genuine-assertion-inherits-default-namespace")
		}

		// ---- the real SP
		var as *saml.Assertion
		var err error
		pan := guard(func() {
			switch st.Entry {
			case "post":
				form := url.Values{"SAMLResponse": {base64.StdEncoding.EncodeToString(body)}}
				r := httptest.NewRequest("POST", spv.AcsURL.String(), strings.NewReader(form.Encode()))
				r.Header.Set("Content-Type", formCT)
				_ = r.ParseForm()
				as, err = spv.ParseResponse(r, []string{c01ReqID})
			case "artifact":
				if st.ViaHTTP {
					// the ArtifactResolve ID is drawn from the randomness seam: a fixed stream makes it the ID the envelope was issued for
					old := saml.RandReader
					saml.RandReader = c01Sevens{}
					spv.HTTPClient = &http.Client{Transport: c01Back{body}}
					r := httptest.NewRequest("GET", spv.AcsURL.String()+"?SAMLart="+url.QueryEscape(c02Artifact), nil)
					_ = r.ParseForm()
					as, err = spv.ParseResponse(r, []string{c01ReqID})
					saml.RandReader = old
					break
				}
				as, err = spv.ParseXMLArtifactResponse(body, []string{c01ReqID}, c01ResolID, spv.AcsURL)
			default:
				as, err = spv.ParseXMLResponse(body, []string{c01ReqID}, spv.AcsURL)
			}
		})
		observed := "REJECT"
		matched := -1
		uncovered := -1
		if pan != nil {
			observed = "PANIC"
		} else if as != nil && err == nil {
			got := c01Content(as)
			for gi := range w.genuine {
				if c01Content(w.genuine[gi].A) == got || (w.genuine[gi].Alt != nil && c01Content(w.genuine[gi].Alt) == got) {
					if cov[gi] {
						matched = gi
						break
					}
					uncovered = gi
				}
			}
			switch {
			case matched >= 0:
				observed = "ACCEPT(genuine:" + w.genuine[matched].Label + ")"
			case uncovered >= 0:
				observed = "ACCEPT(unsigned-copy-of:" + w.genuine[uncovered].Label + ")"
			default:
				nid := "<none>"
				if as.Subject != nil && as.Subject.NameID != nil {
					nid = as.Subject.NameID.Value
				}
				observed = "ACCEPT(other-content nameid=" + strconv.Quote(nid) + ")"
			}
		}
		res.logf("step %d %s trust=%s decoy=%v base=%s layout=%s inherit=%v style=%d ops=%v covered=%v expect=%s observed=%s",
			si, st.Entry, k.Trust, k.EncDecoy, st.Base, c01Layout(&st), st.InheritNS, st.Prefix%3, names, covLabels, expect, observed)
		res.Extra["cfg:"+st.Entry+"/"+k.Trust+"/"+c01Layout(&st)]++
		if len(fired) > 0 || st.Base == "untrusted" || issuedCovered == 0 {
			res.Nontrivial = true
		}
		if st.Base == "untrusted" {
			res.fire("untrusted-signer")
		}
		if pan != nil {
			res.Excluded = "panic (reported under C09)"
			res.logf("panic: %s", short(fmt.Sprint(pan), 80))
			return res
		}
		opsSig := strings.Join(fired, "+")
		if opsSig == "" {
			opsSig = "untampered"
		}
		if st.Base == "untrusted" {
			opsSig = fmt.Sprintf("untrusted-signer-k%d+", st.Spec.SignKey) + opsSig
		}
		if as != nil && err == nil {
			switch {
			case matched >= 0:
				if len(fired) > 0 {
					res.probe("accepted-genuine-after-tamper")
				} else {
					res.probe("accepted-untampered")
				}
				if !strings.HasPrefix(w.genuine[matched].Label, fmt.Sprintf("s%da", si)) {
					res.probe("accepted-genuine-captured-in-earlier-step")
				}
			case uncovered >= 0:
				res.violate(si, "returned-content-without-trusted-signature", "C01/unsigned-content/"+opsSig,
					"REJECT, or an assertion whose covering trusted signature is intact in the delivered message", observed,
					"trust="+k.Trust+" layout="+c01Layout(&st)+": content equals "+w.genuine[uncovered].Label+" but no signed unit covering it is intact")
				return res
			default:
				res.violate(si, "returned-content-never-signed", "C01/other-content/"+opsSig,
					"REJECT, or the content of a covered genuine assertion", observed, "trust="+k.Trust+" layout="+c01Layout(&st)+" returned: "+short(c01Content(as), 400))
				return res
			}
		} else {
			if expect == "MUST_ACCEPT" && k.Lapsed {
				res.dontcare("idp-certificates-all-lapsed") // nothing such an IdP signs has to be accepted
			} else if expect == "MUST_ACCEPT" {
				res.violate(si, "genuine-untampered-rejected", "C01/genuine-rejected/"+st.Entry+"/"+c01Layout(&st)+c01If(st.InheritNS, "/inherit-ns", "")+fmt.Sprintf("/style%d", st.Prefix%3),
					"ACCEPT", observed, "trust="+k.Trust+": "+privErr(err))
				return res
			}
			if len(covLabels) > 0 && len(fired) > 0 {
				res.probe("strict-refusal-although-covered")
			}
			if expect == "MUST_REJECT" {
				res.probe("rejected-uncovered")
			}
			if expect == "DONT_CARE" {
				res.probe("dont-care-region-rejected")
			}
			if st.IdPKeyInfo != "" && len(fired) == 0 && issuedCovered > 0 && st.Spent == "" {
				res.probe("untampered-genuine-naming-no-certificate-rejected:" + c01If(len(c01TrustedKeys(k.Trust)) > 1, "several-trusted-certificates", "one-trusted-certificate"))
			}
		}
	}
	res.SimMillis = time.Since(start).Milliseconds()
	return res
}

func c01AnySigned(st *c01Step) bool {
	for _, a := range st.Spec.Assertions {
		if a.Sign {
			return true
		}
	}
	return false
}

func c01AnyPlain(st *c01Step) bool {
	for _, a := range st.Spec.Assertions {
		if !a.Encrypt {
			return true
		}
	}
	return false
}

func c01Layout(st *c01Step) string {
	l := layoutOf(&st.Spec)
	if st.Entry == "artifact" {
		if st.ArtSign {
			l = "W" + l
		} else {
			l = "w" + l
		}
	}
	if l == "" {
		l = "-"
	}
	return l
}

// ---------------------------------------------------------------- simplification

func simplifyTamper(p *Plan) []*Plan {
	var out []*Plan
	mod := func(i int, f func(s *c01Step) bool) {
		s := decode[c01Step](p.Steps[i])
		if f(&s) {
			c := p.Clone()
			c.Steps[i] = mustJSON(s)
			out = append(out, c)
		}
	}
	for i, raw := range p.Steps {
		st := decode[c01Step](raw)
		for q := range st.Ops {
			q := q
			mod(i, func(s *c01Step) bool { s.Ops = append(append([]c01Op{}, s.Ops[:q]...), s.Ops[q+1:]...); return true })
		}
		if len(st.Spec.Assertions) > 1 {
			mod(i, func(s *c01Step) bool { s.Spec.Assertions = s.Spec.Assertions[:1]; return true })
		}
		for j, a := range st.Spec.Assertions {
			j := j
			if a.Encrypt {
				mod(i, func(s *c01Step) bool { s.Spec.Assertions[j].Encrypt = false; return true })
			}
		}
		if st.Entry != "xml" {
			mod(i, func(s *c01Step) bool { s.Entry = "xml"; s.ArtSign = false; return true })
		}
		if st.InheritNS {
			mod(i, func(s *c01Step) bool { s.InheritNS = false; return true })
		}
		if st.IdPKeyInfo != "" {
			mod(i, func(s *c01Step) bool { s.IdPKeyInfo = ""; return true })
		}
		if st.Prefix != 0 {
			mod(i, func(s *c01Step) bool { s.Prefix = 0; return true })
		}
		if st.ArtSign {
			mod(i, func(s *c01Step) bool { s.ArtSign = false; return true })
		}
		for q, op := range st.Ops {
			q := q
			if op.Decoy != 0 {
				mod(i, func(s *c01Step) bool { s.Ops[q].Decoy = 0; return true })
			}
			if op.Variant != 0 && (op.Op == "comment" || op.Op == "cdata") {
				mod(i, func(s *c01Step) bool { s.Ops[q].Variant = 1; return s.Ops[q].Variant != op.Variant })
			}
		}
	}
	k := decode[c01Knobs](p.Knobs)
	if k.EncDecoy {
		c := p.Clone()
		k2 := k
		k2.EncDecoy = false
		c.Knobs = mustJSON(k2)
		out = append(out, c)
	}
	if k.FPWritten != "" {
		c := p.Clone()
		k2 := k
		k2.FPWritten = ""
		c.Knobs = mustJSON(k2)
		out = append(out, c)
	}
	if k.Trust != "md1" {
		usesKey3 := false
		for _, raw := range p.Steps {
			st := decode[c01Step](raw)
			if st.Spec.SignKey == 3 || st.ArtKey == 3 {
				usesKey3 = true
			}
		}
		if !usesKey3 {
			c := p.Clone()
			k2 := k
			k2.Trust = "md1"
			c.Knobs = mustJSON(k2)
			out = append(out, c)
		}
	}
	return out
}

func init() {
	register(&Profile{
		ID: "C01", Name: "tamper", Level: "exploration",
		Rule: "each run: one SP trust configuration (IdP metadata with 1-2 signing certs, use=signing or omitted, optionally a distinct use=encryption cert whose private key Mallory holds; pinned certificate; certificate fingerprint) and 1-3 deliveries. Each delivery: a foreign-IdP response (1-2 assertions) in a signing layout {Response, Assertion, both, neither} x plaintext/encrypted x {xml, post, artifact (ArtifactResponse signed/unsigned)} x own/inherited namespace declarations, or a whole message signed only by a key that is not a trusted signing root; Mallory applies 0-3 operators of the tampering grammar (strip/duplicate/transplant signatures, edit or remove signed fields, comment/CDATA injection, forged siblings with same/edited/fresh/variant IDs, moving or copying signed elements into Extensions/Object/Advice/StatusDetail/wrappers/forged parents, forged enclosing or sibling Responses, re-signing with her own or the encryption-use key with KeyInfo variants, KeyInfo edits, namespace prefix rebinding and default-namespace tricks, encryption of forged/genuine/captured assertions to the SP certificate, DOCTYPE/prolog tricks, splicing fragments captured earlier in the run, content in clear planted inside a Signature element outside SignedInfo - directly, in an Object or in the KeyInfo, after an empty nested Signature or inside one, the Signature left in place or moved last -, Mallory-signed elements that carry a non-DSig element named Signature holding the trusted certificate); the IdP's own signatures name their certificate, nothing at all, or the bare public key; under fingerprint trust the fingerprint may be written in a notation other than the library's (case, separators, a tool's output line, truncations, another digest, empty). Non-trivial = at least one operator changed the message, or the signer is untrusted, or the layout carries no trusted signature; distinct = distinct abstract event log (entry, trust, layout, operators with variants, covered set, expectation, outcome).",
		Gen:  genTamper, Exec: execTamper, Simplify: simplifyTamper,
		RunsQuick: 4000, RunsThorough: 400000,
		Assumptions: []string{
			"seeded sample of an operator grammar (<= 3 operators per message); not coverage-guided fuzzing and not a proof over all byte strings: a wrapping shape outside the grammar is not explored",
			"Mallory never holds a trusted signing key and cannot read ciphertexts addressed to the SP; ciphertexts are only moved, copied, replaced or created, never partially modified (ciphertext malleability is C08/C11)",
			"a signed unit counts as intact when the delivered document contains it unchanged up to what exclusive canonicalisation without comments ignores (comments, unused namespace declarations, attribute order, CDATA vs text) and up to the KeyInfo of the unit's own signature",
			"all other validity conditions (instants, audience, recipient, destination, InResponseTo, status) are kept satisfied so that signature trust is the only thing decided; replaying a fragment captured earlier in the run is not a C01 matter",
			"the foreign IdP signs with RSA-SHA256, exclusive c14n, enveloped signatures, as the library's own IdP does",
		},
		Components: map[string][]string{
			"real": {"saml.ServiceProvider.ParseXMLResponse/ParseResponse/ParseXMLArtifactResponse", "goxmldsig (validation)", "xmlenc (decrypt)", "etree", "xml-roundtrip-validator", "encoding/xml"},
			"stub": {"foreign IdP (library schema types + goxmldsig signing + xmlenc encryption)", "Mallory (operator grammar on the etree of the message in flight; own keys rsa2, rsa4)"},
		},
	})
}
