package samlsim

import (
	"bytes"
	"encoding/base64"
	"fmt"
	"io"
	"net/http"
	"net/http/httptest"
	"net/url"
	"regexp"
	"strings"
	"testing"
	"time"

	"github.com/beevik/etree"
	"github.com/crewjam/saml"
)

// C04 — the SP accepts only responses to requests it has outstanding (profile `replay`).
//
// Simulator dimension: histories. Flows are started (request IDs become outstanding),
// answered, completed (ID retired by the caller), responses are duplicated by the
// network and delivered again, delivered while only another flow is outstanding, pushed
// unsolicited; on the artifact back-channel the resolver answers this, the previous or
// another ArtifactResolve.

type rpKnobs struct {
	AllowIDPInitiated bool `json:"allow_idp_initiated"`
	CustomValidator   bool `json:"custom_request_id_validator"`
}

type rpStep struct {
	Kind string `json:"kind"` // start | answer | deliver | retire
	Flow int    `json:"flow,omitempty"`
	// answer: how the IdP fills InResponseTo at the Response and at each confirmation
	RespIRT  string   `json:"resp_irt,omitempty"` // match | other | empty | near | prev
	ConfIRTs []string `json:"conf_irts,omitempty"`
	Layout   int      `json:"layout,omitempty"`
	Encrypt  bool     `json:"encrypt,omitempty"`
	Pretty   bool     `json:"pretty_printed,omitempty"`
	NoDest   bool     `json:"no_destination,omitempty"` // unsigned Response without a Destination attribute (legal: Destination is optional)
	Methods  []string `json:"conf_methods,omitempty"`   // per confirmation: "" = bearer, else the method URN
	// answer: unused namespace declarations called InResponseTo are added in flight to the Response and to every confirmation's data,
	// reading this flow's request ID ("match") or somebody else's ("other"): they say nothing about what the message answers
	NSIRT string `json:"unused_ns_named_in_response_to,omitempty"`
	// answer: the IdP itself writes extension attributes x:InResponseTo (a foreign namespace) on the Response and on every
	// confirmation's data before signing, reading this flow's request ID ("match") or somebody else's ("other")
	QIRT string `json:"foreign_ns_attribute_in_response_to,omitempty"`
	// deliver
	Resp  int    `json:"resp,omitempty"`
	Entry string `json:"entry,omitempty"` // xml | post | artifact
	Set   string `json:"outstanding,omitempty"`
	// artifact correlation: this | previous | other | empty
	ArtIRT string `json:"artifact_irt,omitempty"`
	// deliver (xml | post): the serialiser on the way spells the first character of every InResponseTo value as a numeric character
	// reference (&#105;d-... for id-...): the same attribute value, the same signed content
	Respell bool `json:"irt_spelt_with_character_reference,omitempty"`
}

var rpSets = []string{"live", "live", "live", "empty", "only-this", "only-other", "empty-string", "empty-string+live", "near", "all-ever",
	// every outstanding ID listed twice, in two orders (an application that appends on every redirect and never de-duplicates)
	"live-repeated", "live-repeated"}

func genReplay(g *Rng, tier string) *Plan {
	k := rpKnobs{AllowIDPInitiated: g.Bool(0.12), CustomValidator: g.Bool(0.1)}
	p := &Plan{Knobs: mustJSON(k)}
	var steps []rpStep
	nflows, nresps := 0, 0
	n := 4 + g.Intn(9)
	for i := 0; i < n; i++ {
		switch c := g.PickW(4, 5, 8, 2); {
		case c == 0 || nflows == 0:
			steps = append(steps, rpStep{Kind: "start"})
			nflows++
		case c == 1 || nresps == 0:
			st := rpStep{Kind: "answer", Flow: g.Intn(nflows), RespIRT: "match", Layout: g.Intn(3), Encrypt: g.Bool(0.15)}
			if g.Bool(0.35) {
				st.RespIRT = Pick(g, "other", "empty", "near", "prev", "resolve-id", "case")
			}
			for q, nc := 0, g.PickW(1, 6, 2); q < nc; q++ { // 0, 1 or 2 subject confirmations
				c := "match"
				if g.Bool(0.25) {
					c = Pick(g, "other", "empty", "near", "case", "nodata")
				}
				if st.RespIRT == "resolve-id" {
					c = "resolve-id" // an IdP that stamps the artifact-resolution request's ID on everything it returns
				}
				st.ConfIRTs = append(st.ConfIRTs, c)
				st.Methods = append(st.Methods, []string{"", "urn:oasis:names:tc:SAML:2.0:cm:holder-of-key", "urn:oasis:names:tc:SAML:2.0:cm:sender-vouches", "urn:example:cm:none"}[g.PickW(14, 2, 2, 1)])
			}
			if st.Layout == 1 && g.Bool(0.4) {
				st.NoDest = true
			}
			st.Pretty = g.Bool(0.25)
			if g.Bool(0.15) {
				st.NSIRT = Pick(g, "match", "match", "other")
			}
			if g.Bool(0.12) {
				st.QIRT = Pick(g, "match", "match", "other")
			}
			steps = append(steps, st)
			nresps++
		case c == 2:
			st := rpStep{Kind: "deliver", Resp: g.Intn(nresps), Entry: Pick(g, "xml", "xml", "post", "artifact", "artifact"), Set: Pick(g, rpSets...), ArtIRT: "this", Respell: g.Bool(0.2)}
			if st.Entry == "artifact" && g.Bool(0.4) {
				st.ArtIRT = Pick(g, "previous", "other", "empty", "near", "case")
			}
			steps = append(steps, st)
		default:
			steps = append(steps, rpStep{Kind: "retire", Flow: g.Intn(nflows)})
		}
	}
	for _, s := range steps {
		p.Steps = append(p.Steps, mustJSON(s))
	}
	return p
}

// rpTransport is the artifact-resolution back-channel: it sees the ArtifactResolve the SP sends
// and answers with the envelope the plan prescribes.
type rpTransport struct {
	lazy     func(resolveID string) *etree.Element // when set: the resolver mints the inner Response knowing the ArtifactResolve ID
	respEl   *etree.Element
	mode     string
	prevID   string
	seenID   string
	lastBody string
}

func (t *rpTransport) RoundTrip(r *http.Request) (*http.Response, error) {
	b, _ := io.ReadAll(r.Body)
	t.lastBody = string(b)
	doc := etree.NewDocument()
	_ = doc.ReadFromBytes(b)
	id := ""
	if ar := doc.FindElement("//ArtifactResolve"); ar != nil {
		id = ar.SelectAttrValue("ID", "")
	}
	t.seenID = id
	irt := id
	switch t.mode {
	case "previous":
		irt = t.prevID
		if irt == "" {
			irt = "id-never-issued"
		}
	case "other":
		irt = "id-some-other-resolve"
	case "empty":
		irt = ""
	case "near":
		irt = id + "0"
	case "case":
		irt = strings.ToUpper(id)
		if irt == id {
			irt = "ID" + id[2:]
		}
	}
	inner := t.respEl
	if t.lazy != nil {
		inner = t.lazy(id)
	}
	body := wrapArtifactResponse(inner, "id-art", irt, idpEntity, saml.StatusSuccess, time.Now(), nil)
	return &http.Response{StatusCode: 200, Status: "200 OK", Body: io.NopCloser(bytes.NewReader(body)), Header: http.Header{}, Request: r}, nil
}

var c04IRTAttr = regexp.MustCompile(`InResponseTo="([^"&])`)

// c04Respell writes the first character of each InResponseTo value as a decimal or hexadecimal character reference.
func c04Respell(b []byte) []byte {
	n := 0
	return c04IRTAttr.ReplaceAllFunc(b, func(m []byte) []byte {
		n++
		c := m[len(m)-1]
		if n%2 == 0 {
			return []byte(fmt.Sprintf(`InResponseTo="&#x%X;`, c))
		}
		return []byte(fmt.Sprintf(`InResponseTo="&#%d;`, c))
	})
}

func execReplay(t *testing.T, p *Plan) *Result {
	res := newResult()
	k := decode[rpKnobs](p.Knobs)
	installRand(p)
	idpMD := idpMetadataFor(idpEntity, idpSSO, idpSLO, []KeyPair{rsaKeys[0]}, nil, "signing")
	idpMD.IDPSSODescriptors[0].ArtifactResolutionServices = []saml.Endpoint{{Binding: saml.SOAPBinding, Location: "https://idp.example.com/artifact"}}
	spv := newSP(spBase, rsaKeys[1], "", idpMD)
	spv.AllowIDPInitiated = k.AllowIDPInitiated
	validatorOK := func(response saml.Response, ids []string) bool {
		return strings.HasPrefix(response.InResponseTo, "id-")
	}
	if k.CustomValidator {
		spv.ValidateRequestID = func(response saml.Response, ids []string) error {
			if validatorOK(response, ids) {
				return nil
			}
			return fmt.Errorf("custom validator says no")
		}
	}
	tr := &rpTransport{}
	spv.HTTPClient = &http.Client{Transport: tr}

	type flow struct {
		id      string
		retired bool
	}
	type resp struct {
		flow     int
		irt      string
		confIRTs []string
		el       *etree.Element
		spec     RespSpec
		at       time.Time
		n        int
		noData   bool // some confirmation has no SubjectConfirmationData element
	}
	var flows []*flow
	var resps []*resp
	begin := time.Now()
	// an application that keeps ONE slice of outstanding IDs and hands that very slice to the library each time
	var appLive []string

	for si, raw := range p.Steps {
		st := decode[rpStep](raw)
		switch st.Kind {
		case "start":
			// the real SP creates the request; its ID is what becomes outstanding
			req, err := spv.MakeAuthenticationRequest(idpSSO, saml.HTTPRedirectBinding, saml.HTTPPostBinding)
			if err != nil {
				panic(err)
			}
			flows = append(flows, &flow{id: req.ID})
			appLive = append(appLive, req.ID)
			res.logf("step %d start -> flow %d", si, len(flows)-1)
		case "retire":
			if st.Flow < len(flows) {
				flows[st.Flow].retired = true
				for i, id := range appLive {
					if id == flows[st.Flow].id {
						appLive = append(appLive[:i], appLive[i+1:]...)
						break
					}
				}
				res.logf("step %d retire flow %d", si, st.Flow)
			}
		case "answer":
			if st.Flow >= len(flows) {
				continue
			}
			f := flows[st.Flow]
			pick := func(kind string) string {
				switch kind {
				case "match":
					return f.id
				case "other":
					for i, o := range flows {
						if i != st.Flow {
							return o.id
						}
					}
					return "id-of-nobody"
				case "near":
					return f.id[:len(f.id)-1]
				case "case":
					// the same characters in another letter case: request IDs are xs:ID values, compared exactly
					if up := strings.ToUpper(f.id); up != f.id {
						return up
					}
					return "ID" + f.id[2:]
				case "prev":
					if st.Flow > 0 {
						return flows[st.Flow-1].id
					}
					return "id-of-nobody"
				case "resolve-id":
					return "\x00resolve-id" // placeholder: replaced by the ArtifactResolve ID when the resolver answers
				}
				return "" // empty / absent
			}
			spec := RespSpec{ID: fmt.Sprintf("id-resp-%d", len(resps)), Issuer: sp(idpEntity), Destination: spBase + "/saml/acs", InResponseTo: pick(st.RespIRT),
				Status: saml.StatusSuccess, Sign: st.Layout != 1}
			a := AsrtSpec{ID: fmt.Sprintf("id-as-%d", len(resps)), Issuer: idpEntity, NameID: marker("nid", len(resps)), NotBefore: i64(-1000), NotOnOrAfter: i64(3_600_000),
				Audiences: []string{spBase + "/saml/metadata"}, Sign: st.Layout != 0 || st.Encrypt, Encrypt: st.Encrypt, EncryptTo: 1, SessionIndex: "si"}
			r := &resp{flow: st.Flow, irt: spec.InResponseTo, at: time.Now()}
			if st.NoDest && !spec.Sign {
				spec.Destination = ""
			}
			for ci, c := range st.ConfIRTs {
				v := pick(c)
				r.confIRTs = append(r.confIRTs, v)
				m := ""
				if ci < len(st.Methods) {
					m = st.Methods[ci]
				}
				cs := ConfSpec{Method: m, NotOnOrAfter: i64(3_600_000), Recipient: spBase + "/saml/acs", InResponseTo: v}
				if c == "nodata" {
					// the confirmation has no SubjectConfirmationData element at all (schema-legal): its InResponseTo is absent, like
					// everything else it could have said
					cs = ConfSpec{Method: m, NoData: true}
					r.noData = true
				}
				a.Confs = append(a.Confs, cs)
			}
			if st.Pretty {
				spec.Pretty, a.Pretty = true, true
			}
			if st.NSIRT != "" {
				v := pick(st.NSIRT)
				spec.NSDecls = []NSDecl{{On: "Response", Prefix: "InResponseTo", Value: v}, {On: "SubjectConfirmationData", Prefix: "InResponseTo", Value: v}, {On: "SubjectConfirmation", Prefix: "InResponseTo", Value: v}}
				res.probe("unused-namespace-declaration-named-in-response-to:" + st.NSIRT)
			}
			if st.QIRT != "" {
				v := pick(st.QIRT)
				spec.QualAttrs = withNS([]NSDecl{{On: "Response", Prefix: "InResponseTo", Value: v}, {On: "SubjectConfirmationData", Prefix: "InResponseTo", Value: v}}, []string{"", "xml", "xsi"}[len(resps)%3])
				res.probe("foreign-namespace-attribute-named-in-response-to:" + st.QIRT)
			}
			spec.Assertions = []AsrtSpec{a}
			r.spec = spec
			if st.RespIRT == "resolve-id" {
				// on the browser paths there is no resolve ID: the placeholder is just a foreign ID
				spec = c04WithResolveID(spec, "id-no-artifact-resolution-happened")
				r.irt = spec.InResponseTo
				for i := range r.confIRTs {
					r.confIRTs[i] = spec.InResponseTo
				}
			}
			r.el = BuildResponseEl(&spec, time.Now())
			resps = append(resps, r)
			res.logf("step %d answer flow %d resp-irt=%s conf-irts=%v -> resp %d", si, st.Flow, st.RespIRT, st.ConfIRTs, len(resps)-1)
		case "deliver":
			if st.Resp >= len(resps) {
				continue
			}
			r := resps[st.Resp]
			f := flows[r.flow]
			r.n++
			advance(20 * time.Millisecond)
			// ---- the outstanding set the caller declares
			var set []string
			switch st.Set {
			case "live":
				for _, fl := range flows {
					if !fl.retired {
						set = append(set, fl.id)
					}
				}
			case "empty":
			case "only-this":
				set = []string{f.id}
			case "only-other":
				for i, fl := range flows {
					if i != r.flow {
						set = append(set, fl.id)
					}
				}
			case "empty-string":
				set = []string{""}
			case "empty-string+live":
				set = []string{""}
				for _, fl := range flows {
					if !fl.retired {
						set = append(set, fl.id)
					}
				}
			case "near":
				set = []string{f.id + "0", f.id[:len(f.id)-1], " " + f.id}
			case "all-ever":
				for _, fl := range flows {
					set = append(set, fl.id)
				}
			case "live-repeated":
				for _, fl := range flows {
					if !fl.retired {
						set = append(set, fl.id)
					}
				}
				for i := len(set) - 1; i >= 0; i-- {
					set = append(set, set[i])
				}
			}
			// what the library is handed: for the "live" set the application's own long-lived slice (not a copy)
			passed := append([]string(nil), set...)
			if st.Set == "live" {
				passed = appLive
			}
			in := func(id string) bool {
				for _, s := range set { // the oracle judges by what the application MEANT to declare
					if s == id {
						return true
					}
				}
				return false
			}
			irt, confIRTs := r.irt, r.confIRTs
			// ---- oracle from the statement
			respOK := in(irt) && !strings.HasPrefix(irt, "\x00")
			confOK := true
			for _, c := range confIRTs {
				if !in(c) || strings.HasPrefix(c, "\x00") {
					confOK = false
				}
			}
			artOK := st.Entry != "artifact" || st.ArtIRT == "this"
			expect := "ACCEPT"
			switch {
			case !artOK:
				expect = "REJECT" // must answer exactly the ArtifactResolve just issued, whatever else is configured
			case k.CustomValidator:
				// response level is the application's business; the statement imposes nothing
				if validatorOK(saml.Response{InResponseTo: r.irt}, set) && (confOK || k.AllowIDPInitiated) {
					expect = "ACCEPT"
				} else {
					expect = "DONT_CARE"
				}
			case k.AllowIDPInitiated:
				expect = "ACCEPT" // the statement imposes nothing on InResponseTo then; everything else is valid
			case !respOK || !confOK:
				expect = "REJECT"
			}
			if r.noData {
				res.probe("confirmation-without-data")
				if expect == "ACCEPT" {
					expect = "DONT_CARE" // whether a confirmation that says nothing is acceptable at all is not this property's business
				}
			}

			var as *saml.Assertion
			var err error
			tr.respEl, tr.mode, tr.lazy = r.el, st.ArtIRT, nil
			if st.Entry == "artifact" && strings.HasPrefix(r.spec.InResponseTo, "\x00") {
				spec := r.spec
				tr.lazy = func(resolveID string) *etree.Element {
					s2 := c04WithResolveID(spec, resolveID)
					return BuildResponseEl(&s2, time.Now())
				}
				res.probe("inner-response-echoes-resolve-id")
			}
			wire := elBytes(r.el.Copy())
			if st.Respell {
				wire = c04Respell(wire)
				res.fire("respelt-with-character-references")
			}
			pan := guard(func() {
				switch st.Entry {
				case "xml":
					as, err = spv.ParseXMLResponse(wire, passed, spv.AcsURL)
				case "post":
					form := url.Values{"SAMLResponse": {base64.StdEncoding.EncodeToString(wire)}}
					hr := httptest.NewRequest("POST", spv.AcsURL.String(), strings.NewReader(form.Encode()))
					hr.Header.Set("Content-Type", formCT)
					_ = hr.ParseForm()
					as, err = spv.ParseResponse(hr, passed)
				case "artifact":
					hr := httptest.NewRequest("GET", spv.AcsURL.String()+"?SAMLart=AAQAAartifact", nil)
					_ = hr.ParseForm()
					as, err = spv.ParseResponse(hr, passed)
					tr.prevID = tr.seenID
				}
			})
			observed := "REJECT"
			if pan != nil {
				observed = "PANIC"
			} else if as != nil && err == nil {
				observed = "ACCEPT"
			}
			res.logf("step %d deliver resp %d (flow %d retired=%v nth=%d) via %s set=%s art=%s respOK=%v confOK=%v expect=%s observed=%s", si, st.Resp, r.flow, f.retired, r.n, st.Entry, st.Set, st.ArtIRT, respOK, confOK, expect, observed)
			if r.n > 1 {
				res.fire("duplicate")
			}
			if f.retired {
				res.fire("delivered-after-completion")
			}
			if st.Set != "live" {
				res.fire("outstanding-set:" + st.Set)
			}
			if st.Entry == "artifact" && st.ArtIRT != "this" {
				res.fire("backchannel:wrong_irt:" + st.ArtIRT)
			}
			if !respOK || !confOK || !artOK {
				res.Nontrivial = true
			}
			if respOK && !confOK {
				res.probe("confirmation-level-only-mismatch")
			}
			if len(r.confIRTs) == 0 && !respOK {
				res.probe("response-level-only-check-without-confirmations")
			}
			if r.irt == "" && len(set) > 0 && !in("") {
				res.probe("absent-irt-against-nonempty-set")
			}
			if pan != nil {
				res.Excluded = "panic (reported under C09)"
				return res
			}
			switch expect {
			case "DONT_CARE":
				if r.noData {
					res.dontcare("confirmation-without-data")
				} else {
					res.dontcare("custom-validator")
				}
			case "ACCEPT":
				if as == nil {
					res.violate(si, "valid-answer-rejected", "C04/valid-answer-rejected/"+st.Entry, expect, observed, privErr(err))
					return res
				}
			case "REJECT":
				if as != nil {
					why := "response-irt"
					switch {
					case !artOK:
						why = "artifact-correlation/" + st.ArtIRT
					case respOK:
						why = "confirmation-irt"
					}
					res.violate(si, "accepted-not-outstanding", "C04/accepted/"+why, expect, observed, fmt.Sprintf("outstanding set %s: resp irt %q conf irts %q set %q", st.Set, r.irt, r.confIRTs, set))
					return res
				}
			}
		}
	}
	res.SimMillis = time.Since(begin).Milliseconds()
	return res
}

// c04WithResolveID replaces the resolve-ID placeholder in every InResponseTo of spec.
func c04WithResolveID(spec RespSpec, id string) RespSpec {
	out := spec
	if strings.HasPrefix(out.InResponseTo, "\x00") {
		out.InResponseTo = id
	}
	out.Assertions = append([]AsrtSpec(nil), spec.Assertions...)
	for i := range out.Assertions {
		out.Assertions[i].Confs = append([]ConfSpec(nil), spec.Assertions[i].Confs...)
		for j := range out.Assertions[i].Confs {
			if strings.HasPrefix(out.Assertions[i].Confs[j].InResponseTo, "\x00") {
				out.Assertions[i].Confs[j].InResponseTo = id
			}
		}
	}
	return out
}

func simplifyReplay(p *Plan) []*Plan {
	var out []*Plan
	for i, raw := range p.Steps {
		st := decode[rpStep](raw)
		if st.Kind == "deliver" && st.Entry != "xml" && st.ArtIRT == "this" {
			c := p.Clone()
			s2 := st
			s2.Entry = "xml"
			c.Steps[i] = mustJSON(s2)
			out = append(out, c)
		}
		if st.Kind == "answer" {
			if st.Encrypt {
				c := p.Clone()
				s2 := st
				s2.Encrypt = false
				c.Steps[i] = mustJSON(s2)
				out = append(out, c)
			}
			if len(st.ConfIRTs) > 1 {
				for q := range st.ConfIRTs {
					c := p.Clone()
					s2 := st
					s2.ConfIRTs = append(append([]string{}, st.ConfIRTs[:q]...), st.ConfIRTs[q+1:]...)
					c.Steps[i] = mustJSON(s2)
					out = append(out, c)
				}
			}
		}
	}
	return out
}

func init() {
	register(&Profile{
		ID: "C04", Name: "replay", Level: "exploration",
		Rule: "histories of 4-12 actions over {start flow (real SP request ID becomes outstanding), IdP answers flow k with InResponseTo at the Response and at each of 1-2 confirmations in {matching, another flow's, previous flow's, empty/absent, near-miss}, deliver response r (again) through xml/post/artifact with the caller's outstanding set in {live, empty, only this, only others, {\"\"}, {\"\"}+live, near-miss IDs, all ever issued}, retire flow k}; on the artifact path a simulated resolver sees the ArtifactResolve the SP sends and answers this / the previous / another / no / a near-miss request ID; AllowIDPInitiated and a custom request-ID validator are per-run knobs; non-trivial = some delivery must be refused; distinct = distinct abstract log; for the live set the library is handed the application's own long-lived slice (the oracle keeps its own copy of what was meant); the resolver may mint the inner response with the ArtifactResolve ID it has just seen; 0-2 confirmations; answers may be unsigned Responses without a Destination attribute and may carry holder-of-key / sender-vouches / unknown-method confirmations (each confirmation's InResponseTo counts whatever its method)",
		Gen:  genReplay, Exec: execReplay, Simplify: simplifyReplay,
		RunsQuick: 6000, RunsThorough: 600000,
		Assumptions: []string{"with AllowIDPInitiated or a custom validator the statement imposes nothing on InResponseTo; only acceptance of otherwise valid responses (and artifact correlation) is asserted there", "an absent InResponseTo attribute and an empty one are the same thing on the wire"},
		Components: map[string][]string{
			"real": {"saml.ServiceProvider.MakeAuthenticationRequest / ParseXMLResponse / ParseResponse / handleArtifactRequest", "net/http client plumbing", "goxmldsig", "xmlenc"},
			"stub": {"foreign IdP", "artifact resolver behind an http.RoundTripper", "duplicating / late-delivering network"},
		},
	})
}
