package samlsim

import (
	"bytes"
	"context"
	"encoding/base64"
	"fmt"
	"io"
	"net/http"
	"net/http/httptest"
	"net/url"
	"regexp"
	"strings"
	"sync"
	"testing"
	"testing/synctest"
	"time"
	"unicode/utf8"

	"github.com/beevik/etree"
	"github.com/crewjam/saml"
)

// C04 — the SP accepts only responses to requests it has outstanding (profile `replay`).
//
// Simulator dimension: histories. Flows are started (request IDs become outstanding),
// answered, completed (ID retired by the caller), responses are duplicated by the
// network and delivered again, delivered while only another flow is outstanding, pushed
// unsolicited; on the artifact back-channel the resolver answers this, the previous or
// another ArtifactResolve.

type rpKnobs struct {
	AllowIDPInitiated bool `json:"allow_idp_initiated"`
	CustomValidator   bool `json:"custom_request_id_validator"`
	// the application installs its own *audience* validator (it answers to a second entity ID as well): says nothing about requests
	CustomAudience bool `json:"custom_audience_validator,omitempty"`
}

// rpOverlap is a second delivery on the artifact entry point that arrives while the resolution of the first is still at the
// resolver: another caller (another browser, another tab), with its own declared outstanding set.
type rpOverlap struct {
	Resp        int    `json:"resp"`                            // the response its artifact stands for (the same artifact when equal to the first delivery's)
	Set         string `json:"outstanding"`                     // what the second caller declares outstanding
	SecondFirst bool   `json:"second_answered_first,omitempty"` // the resolver answers the later resolution first
	// how the resolver fills InResponseTo on the ArtifactResponse that answers the second delivery's resolution: "" = this | previous |
	// other | empty | near | case | concurrent (the ID of the other resolution it holds at that moment, i.e. the first delivery's)
	ArtIRT string `json:"artifact_irt,omitempty"`
}

type rpStep struct {
	Kind string `json:"kind"` // start | answer | deliver | retire
	Flow int    `json:"flow,omitempty"`
	// start: "" = the request carries the ID the library generated; else the application issues the request under this ID of its own
	// making (an xs:ID, i.e. any XML name without a colon: letters of any script, digits, '-', '.', '_', U+00B7, combining marks)
	OwnID string `json:"request_id_of_the_applications_own_making,omitempty"`
	// answer: how the IdP fills InResponseTo at the Response and at each confirmation
	RespIRT  string   `json:"resp_irt,omitempty"` // match | other | empty | near | prev
	ConfIRTs []string `json:"conf_irts,omitempty"`
	Layout   int      `json:"layout,omitempty"`
	Encrypt  bool     `json:"encrypt,omitempty"`
	Pretty   bool     `json:"pretty_printed,omitempty"`
	NoDest   bool     `json:"no_destination,omitempty"` // unsigned Response without a Destination attribute (legal: Destination is optional)
	Methods  []string `json:"conf_methods,omitempty"`   // per confirmation: "" = bearer, else the method URN
	// answer, per confirmation: "" = addressed to this SP's endpoint and fresh; "other-endpoint" = its Recipient is another endpoint of
	// the deployment; "lapsed" = its NotOnOrAfter passed long ago. Such a confirmation still is a confirmation of the assertion.
	ConfAddr []string `json:"conf_addressing,omitempty"`
	// answer: "" = the assertion names this SP as audience; "second" = it names the second entity ID the application's own audience
	// validator answers to
	Audience string `json:"audience,omitempty"`
	// answer: unused namespace declarations called InResponseTo are added in flight to the Response and to every confirmation's data,
	// reading this flow's request ID ("match") or somebody else's ("other"): they say nothing about what the message answers
	NSIRT string `json:"unused_ns_named_in_response_to,omitempty"`
	// answer: the IdP itself writes extension attributes x:InResponseTo (a foreign namespace) on the Response and on every
	// confirmation's data before signing, reading this flow's request ID ("match") or somebody else's ("other")
	QIRT string `json:"foreign_ns_attribute_in_response_to,omitempty"`
	// deliver
	Resp  int    `json:"resp,omitempty"`
	Entry string `json:"entry,omitempty"` // xml | post | artifact
	Set   string `json:"outstanding,omitempty"`
	// artifact correlation: this | previous | other | empty | near | case | concurrent (only with an overlapping delivery: the ID of the
	// other resolution the resolver holds at that moment, i.e. the second delivery's)
	ArtIRT string `json:"artifact_irt,omitempty"`
	// deliver (xml | post): the serialiser on the way spells the first character of every InResponseTo value as a numeric character
	// reference (&#105;d-... for id-...): the same attribute value, the same signed content
	Respell bool `json:"irt_spelt_with_character_reference,omitempty"`
	// deliver (artifact): a second delivery overlaps this one
	Overlap *rpOverlap `json:"overlapping_delivery,omitempty"`
}

// c04SecondEntity is the second entity ID an application with its own audience validator answers to.
const c04SecondEntity = "https://legacy.sp.example.com/saml/metadata"

var rpSets = []string{"live", "live", "live", "empty", "only-this", "only-other", "empty-string", "empty-string+live", "near", "all-ever",
	// every outstanding ID listed twice, in two orders (an application that appends on every redirect and never de-duplicates)
	"live-repeated", "live-repeated"}

// What an XML name (without colon) may begin with, and what it may go on with: a sample of each class the XML recommendation lists.
var c04NameStart = []string{"a", "k", "z", "A", "Q", "_", "\u00fc", "\u00e9", "\u03a9", "\u0436", "\u8bf7", "\u6c42", "\U00020000"}
var c04NameMore = []string{"0", "7", "-", ".", "_", "\u00b7", "\u0301", "\u203f"}

// c04OwnID draws a request ID of the application's own making for flow number n: an XML name without colon, ASCII-only or not, which
// ends in the flow number (so no two flows share an ID, and no ID is another one cut short).
func c04OwnID(g *Rng, n int) string {
	start, more := c04NameStart, append(append([]string(nil), c04NameStart...), c04NameMore...)
	if g.Bool(0.3) { // the ASCII part of the name alphabet only
		start, more = c04NameStart[:6], append(append([]string(nil), c04NameStart[:6]...), c04NameMore[:5]...)
	}
	id := Pick(g, start...)
	for i, l := 0, 2+g.Intn(8); i < l; i++ {
		id += Pick(g, more...)
	}
	return fmt.Sprintf("%s-%02d", id, n)
}

// c04CaseVariant is id in another letter case (something else altogether when it has no cased letter).
func c04CaseVariant(id string) string {
	if up := strings.ToUpper(id); up != id {
		return up
	}
	if strings.HasPrefix(id, "id") {
		return "ID" + id[2:]
	}
	if lo := strings.ToLower(id); lo != id {
		return lo
	}
	return "ID" + id
}

func genReplay(g *Rng, tier string) *Plan {
	k := rpKnobs{AllowIDPInitiated: g.Bool(0.12), CustomValidator: g.Bool(0.1), CustomAudience: g.Bool(0.15)}
	p := &Plan{Knobs: mustJSON(k)}
	var steps []rpStep
	nflows, nresps := 0, 0
	n := 4 + g.Intn(9)
	for i := 0; i < n; i++ {
		switch c := g.PickW(4, 5, 8, 2); {
		case c == 0 || nflows == 0:
			st := rpStep{Kind: "start"}
			if g.Bool(0.3) {
				st.OwnID = c04OwnID(g, nflows)
			}
			steps = append(steps, st)
			nflows++
		case c == 1 || nresps == 0:
			st := rpStep{Kind: "answer", Flow: g.Intn(nflows), RespIRT: "match", Layout: g.Intn(3), Encrypt: g.Bool(0.15)}
			if g.Bool(0.35) {
				st.RespIRT = Pick(g, "other", "empty", "near", "prev", "resolve-id", "case")
			}
			for q, nc := 0, g.PickW(1, 6, 2); q < nc; q++ { // 0, 1 or 2 subject confirmations
				c := "match"
				if g.Bool(0.25) {
					c = Pick(g, "other", "empty", "near", "case", "nodata")
				}
				if st.RespIRT == "resolve-id" {
					c = "resolve-id" // an IdP that stamps the artifact-resolution request's ID on everything it returns
				}
				st.ConfIRTs = append(st.ConfIRTs, c)
				st.Methods = append(st.Methods, []string{"", "urn:oasis:names:tc:SAML:2.0:cm:holder-of-key", "urn:oasis:names:tc:SAML:2.0:cm:sender-vouches", "urn:example:cm:none"}[g.PickW(14, 2, 2, 1)])
				// a confirmation meant for somebody else (another endpoint, an earlier delivery) is where one would expect somebody
				// else's request ID: drawn more often there
				if c != "match" {
					st.ConfAddr = append(st.ConfAddr, []string{"", "other-endpoint", "lapsed"}[g.PickW(2, 1, 1)])
				} else {
					st.ConfAddr = append(st.ConfAddr, []string{"", "other-endpoint", "lapsed"}[g.PickW(18, 1, 1)])
				}
			}
			if k.CustomAudience && g.Bool(0.3) {
				st.Audience = "second"
			}
			if st.Layout == 1 && g.Bool(0.4) {
				st.NoDest = true
			}
			st.Pretty = g.Bool(0.25)
			if g.Bool(0.15) {
				st.NSIRT = Pick(g, "match", "match", "other")
			}
			if g.Bool(0.12) {
				st.QIRT = Pick(g, "match", "match", "other")
			}
			steps = append(steps, st)
			nresps++
		case c == 2:
			st := rpStep{Kind: "deliver", Resp: g.Intn(nresps), Entry: Pick(g, "xml", "xml", "post", "artifact", "artifact"), Set: Pick(g, rpSets...), ArtIRT: "this", Respell: g.Bool(0.2)}
			if st.Entry == "artifact" && g.Bool(0.4) {
				st.ArtIRT = Pick(g, "previous", "other", "empty", "near", "case")
			}
			if st.Entry == "artifact" && g.Bool(0.35) {
				o := &rpOverlap{Resp: st.Resp, Set: Pick(g, rpSets...), SecondFirst: g.Bool(0.4)}
				if g.Bool(0.3) {
					o.Resp = g.Intn(nresps) // another artifact (or, by chance, the same)
				}
				// a resolver that holds two resolutions at once may answer either with the ID of the other one (or both, crossed); the
				// second delivery's resolution may also be answered with any of the wrong IDs the first one's may
				switch g.PickW(5, 2, 2, 2, 1) {
				case 1:
					st.ArtIRT = "concurrent"
				case 2:
					o.ArtIRT = "concurrent"
				case 3:
					st.ArtIRT, o.ArtIRT = "concurrent", "concurrent"
				case 4:
					o.ArtIRT = Pick(g, "previous", "other", "empty", "near", "case")
				}
				st.Overlap = o
			}
			steps = append(steps, st)
		default:
			steps = append(steps, rpStep{Kind: "retire", Flow: g.Intn(nflows)})
		}
	}
	for _, s := range steps {
		p.Steps = append(p.Steps, mustJSON(s))
	}
	return p
}

// rpTransport is the artifact-resolution back-channel: it sees the ArtifactResolve the SP sends
// and answers with the envelope the plan prescribes.
type rpTransport struct {
	lazy     func(resolveID string) *etree.Element // when set: the resolver mints the inner Response knowing the ArtifactResolve ID
	respEl   *etree.Element
	mode     string
	prevID   string
	seenID   string
	lastBody string
	// gated operation (overlapping deliveries): every resolution that arrives is held until the simulator lets the resolver
	// answer it; the resolver answers with what the artifact named in the request stands for
	mu       sync.Mutex
	gated    bool
	arrivals []*rpArrival
	resolve  func(artifact, resolveID string) *etree.Element
}

// rpArrival is one ArtifactResolve held at the resolver.
type rpArrival struct {
	id, artifact string
	mode         string // how the resolver fills the ArtifactResponse's InResponseTo (set before release)
	other        string // the ID of the other resolution held at the same time, if any (set before release)
	release      chan struct{}
}

// irtFor is the InResponseTo the resolver writes on the ArtifactResponse answering the ArtifactResolve id.
func (t *rpTransport) irtFor(mode, id, concurrent string) string {
	irt := id
	switch mode {
	case "previous":
		irt = t.prevID
		if irt == "" {
			irt = "id-never-issued"
		}
	case "other":
		irt = "id-some-other-resolve"
	case "concurrent":
		irt = concurrent
		if irt == "" {
			irt = "id-no-other-resolve-in-flight"
		}
	case "empty":
		irt = ""
	case "near":
		irt = id + "0"
	case "case":
		irt = strings.ToUpper(id)
		if irt == id {
			irt = "ID" + id[2:]
		}
	}
	return irt
}

func (t *rpTransport) RoundTrip(r *http.Request) (*http.Response, error) {
	b, _ := io.ReadAll(r.Body)
	doc := etree.NewDocument()
	_ = doc.ReadFromBytes(b)
	id, artifact := "", ""
	if ar := doc.FindElement("//ArtifactResolve"); ar != nil {
		id = ar.SelectAttrValue("ID", "")
		if a := ar.FindElement("./Artifact"); a != nil {
			artifact = a.Text()
		}
	}
	t.mu.Lock()
	gated := t.gated
	var arr *rpArrival
	if gated {
		arr = &rpArrival{id: id, artifact: artifact, mode: "this", release: make(chan struct{})}
		t.arrivals = append(t.arrivals, arr)
	} else {
		t.lastBody = string(b)
		t.seenID = id
	}
	t.mu.Unlock()
	if gated {
		select {
		case <-arr.release:
		case <-r.Context().Done():
			return nil, r.Context().Err()
		}
		body := wrapArtifactResponse(t.resolve(arr.artifact, id), "id-art", t.irtFor(arr.mode, id, arr.other), idpEntity, saml.StatusSuccess, time.Now(), nil)
		return &http.Response{StatusCode: 200, Status: "200 OK", Body: io.NopCloser(bytes.NewReader(body)), Header: http.Header{}, Request: r}, nil
	}
	irt := t.irtFor(t.mode, id, "")
	inner := t.respEl
	if t.lazy != nil {
		inner = t.lazy(id)
	}
	body := wrapArtifactResponse(inner, "id-art", irt, idpEntity, saml.StatusSuccess, time.Now(), nil)
	return &http.Response{StatusCode: 200, Status: "200 OK", Body: io.NopCloser(bytes.NewReader(body)), Header: http.Header{}, Request: r}, nil
}

var c04IRTAttr = regexp.MustCompile(`InResponseTo="([^"&])`)

// c04Respell writes the first character of each InResponseTo value as a decimal or hexadecimal character reference.
func c04Respell(b []byte) []byte {
	n := 0
	return c04IRTAttr.ReplaceAllFunc(b, func(m []byte) []byte {
		n++
		c, _ := utf8.DecodeLastRune(m)
		if n%2 == 0 {
			return []byte(fmt.Sprintf(`InResponseTo="&#x%X;`, c))
		}
		return []byte(fmt.Sprintf(`InResponseTo="&#%d;`, c))
	})
}

func execReplay(t *testing.T, p *Plan) *Result {
	res := newResult()
	k := decode[rpKnobs](p.Knobs)
	installRand(p)
	idpMD := idpMetadataFor(idpEntity, idpSSO, idpSLO, []KeyPair{rsaKeys[0]}, nil, "signing")
	idpMD.IDPSSODescriptors[0].ArtifactResolutionServices = []saml.Endpoint{{Binding: saml.SOAPBinding, Location: "https://idp.example.com/artifact"}}
	spv := newSP(spBase, rsaKeys[1], "", idpMD)
	spv.AllowIDPInitiated = k.AllowIDPInitiated
	validatorOK := func(response saml.Response, ids []string) bool {
		return strings.HasPrefix(response.InResponseTo, "id-")
	}
	if k.CustomValidator {
		spv.ValidateRequestID = func(response saml.Response, ids []string) error {
			if validatorOK(response, ids) {
				return nil
			}
			return fmt.Errorf("custom validator says no")
		}
	}
	if k.CustomAudience {
		// the application's own audience rule: it answers to its entity ID and to a second one. Requests are none of its business.
		spv.ValidateAudienceRestriction = func(assertion *saml.Assertion) error {
			if assertion.Conditions != nil {
				for _, ar := range assertion.Conditions.AudienceRestrictions {
					if ar.Audience.Value == spBase+"/saml/metadata" || ar.Audience.Value == c04SecondEntity {
						return nil
					}
				}
			}
			return fmt.Errorf("custom audience validator says no")
		}
	}
	tr := &rpTransport{}
	spv.HTTPClient = &http.Client{Transport: tr}

	type flow struct {
		id      string
		retired bool
		// the request ID is of the application's own making; it has characters outside ASCII
		own, beyondASCII bool
	}
	type resp struct {
		flow     int
		irt      string
		confIRTs []string
		el       *etree.Element
		spec     RespSpec
		at       time.Time
		n        int
		noData   bool // some confirmation has no SubjectConfirmationData element
		offAddr  bool // some confirmation is addressed to another endpoint or has lapsed
		audience string
	}
	var flows []*flow
	var resps []*resp
	begin := time.Now()
	// an application that keeps ONE slice of outstanding IDs and hands that very slice to the library each time
	var appLive []string

	for si, raw := range p.Steps {
		st := decode[rpStep](raw)
		switch st.Kind {
		case "start":
			// the real SP creates the request; its ID is what becomes outstanding
			req, err := spv.MakeAuthenticationRequest(idpSSO, saml.HTTPRedirectBinding, saml.HTTPPostBinding)
			if err != nil {
				panic(err)
			}
			if st.OwnID != "" {
				// the application issues the request under an ID of its own making (unless that ID is taken already: a plan cut down
				// by the minimiser cannot make two flows share one)
				taken := false
				for _, fl := range flows {
					taken = taken || fl.id == st.OwnID
				}
				if !taken {
					req.ID = st.OwnID
				}
			}
			flows = append(flows, &flow{id: req.ID, own: req.ID == st.OwnID, beyondASCII: req.ID == st.OwnID && !c04ASCII(req.ID)})
			appLive = append(appLive, req.ID)
			if req.ID == st.OwnID {
				res.probe("request-id-of-the-applications-own-making")
				if !c04ASCII(req.ID) {
					res.probe("request-id-of-the-applications-own-making:beyond-ascii")
				}
				res.logf("step %d start -> flow %d, under the application's own request ID %q", si, len(flows)-1, req.ID)
			} else {
				res.logf("step %d start -> flow %d", si, len(flows)-1)
			}
		case "retire":
			if st.Flow < len(flows) {
				flows[st.Flow].retired = true
				for i, id := range appLive {
					if id == flows[st.Flow].id {
						appLive = append(appLive[:i], appLive[i+1:]...)
						break
					}
				}
				res.logf("step %d retire flow %d", si, st.Flow)
			}
		case "answer":
			if st.Flow >= len(flows) {
				continue
			}
			f := flows[st.Flow]
			pick := func(kind string) string {
				switch kind {
				case "match":
					return f.id
				case "other":
					for i, o := range flows {
						if i != st.Flow {
							return o.id
						}
					}
					return "id-of-nobody"
				case "near":
					return f.id[:len(f.id)-1]
				case "case":
					// the same characters in another letter case: request IDs are xs:ID values, compared exactly
					return c04CaseVariant(f.id)
				case "prev":
					if st.Flow > 0 {
						return flows[st.Flow-1].id
					}
					return "id-of-nobody"
				case "resolve-id":
					return "\x00resolve-id" // placeholder: replaced by the ArtifactResolve ID when the resolver answers
				}
				return "" // empty / absent
			}
			spec := RespSpec{ID: fmt.Sprintf("id-resp-%d", len(resps)), Issuer: sp(idpEntity), Destination: spBase + "/saml/acs", InResponseTo: pick(st.RespIRT),
				Status: saml.StatusSuccess, Sign: st.Layout != 1}
			a := AsrtSpec{ID: fmt.Sprintf("id-as-%d", len(resps)), Issuer: idpEntity, NameID: marker("nid", len(resps)), NotBefore: i64(-1000), NotOnOrAfter: i64(3_600_000),
				Audiences: []string{spBase + "/saml/metadata"}, Sign: st.Layout != 0 || st.Encrypt, Encrypt: st.Encrypt, EncryptTo: 1, SessionIndex: "si"}
			r := &resp{flow: st.Flow, irt: spec.InResponseTo, at: time.Now()}
			if st.NoDest && !spec.Sign {
				spec.Destination = ""
			}
			for ci, c := range st.ConfIRTs {
				v := pick(c)
				r.confIRTs = append(r.confIRTs, v)
				m := ""
				if ci < len(st.Methods) {
					m = st.Methods[ci]
				}
				cs := ConfSpec{Method: m, NotOnOrAfter: i64(3_600_000), Recipient: spBase + "/saml/acs", InResponseTo: v}
				if ci < len(st.ConfAddr) && c != "nodata" {
					switch st.ConfAddr[ci] {
					case "other-endpoint":
						cs.Recipient = spBase + "/other/acs"
						r.offAddr = true
					case "lapsed":
						// long past, whatever tolerance is configured
						cs.NotOnOrAfter = i64(-saml.MaxClockSkew.Milliseconds() - 86_400_000)
						r.offAddr = true
					}
				}
				if c == "nodata" {
					// the confirmation has no SubjectConfirmationData element at all (schema-legal): its InResponseTo is absent, like
					// everything else it could have said
					cs = ConfSpec{Method: m, NoData: true}
					r.noData = true
				}
				a.Confs = append(a.Confs, cs)
			}
			if st.Audience == "second" {
				a.Audiences = []string{c04SecondEntity}
				r.audience = st.Audience
				res.probe("audience-is-the-second-entity-id")
			}
			if r.offAddr {
				res.probe("confirmation-for-another-endpoint-or-lapsed")
			}
			if st.Pretty {
				spec.Pretty, a.Pretty = true, true
			}
			if st.NSIRT != "" {
				v := pick(st.NSIRT)
				spec.NSDecls = []NSDecl{{On: "Response", Prefix: "InResponseTo", Value: v}, {On: "SubjectConfirmationData", Prefix: "InResponseTo", Value: v}, {On: "SubjectConfirmation", Prefix: "InResponseTo", Value: v}}
				res.probe("unused-namespace-declaration-named-in-response-to:" + st.NSIRT)
			}
			if st.QIRT != "" {
				v := pick(st.QIRT)
				spec.QualAttrs = withNS([]NSDecl{{On: "Response", Prefix: "InResponseTo", Value: v}, {On: "SubjectConfirmationData", Prefix: "InResponseTo", Value: v}}, []string{"", "xml", "xsi"}[len(resps)%3])
				res.probe("foreign-namespace-attribute-named-in-response-to:" + st.QIRT)
			}
			spec.Assertions = []AsrtSpec{a}
			r.spec = spec
			if st.RespIRT == "resolve-id" {
				// on the browser paths there is no resolve ID: the placeholder is just a foreign ID
				spec = c04WithResolveID(spec, "id-no-artifact-resolution-happened")
				r.irt = spec.InResponseTo
				for i := range r.confIRTs {
					r.confIRTs[i] = spec.InResponseTo
				}
			}
			r.el = BuildResponseEl(&spec, time.Now())
			resps = append(resps, r)
			res.logf("step %d answer flow %d resp-irt=%s conf-irts=%v -> resp %d", si, st.Flow, st.RespIRT, st.ConfIRTs, len(resps)-1)
		case "deliver":
			if st.Resp >= len(resps) {
				continue
			}
			r := resps[st.Resp]
			f := flows[r.flow]
			r.n++
			advance(20 * time.Millisecond)
			// ---- the outstanding set the caller declares
			mkSet := func(name string, r *resp) []string {
				f := flows[r.flow]
				var set []string
				switch name {
				case "live":
					for _, fl := range flows {
						if !fl.retired {
							set = append(set, fl.id)
						}
					}
				case "empty":
				case "only-this":
					set = []string{f.id}
				case "only-other":
					for i, fl := range flows {
						if i != r.flow {
							set = append(set, fl.id)
						}
					}
				case "empty-string":
					set = []string{""}
				case "empty-string+live":
					set = []string{""}
					for _, fl := range flows {
						if !fl.retired {
							set = append(set, fl.id)
						}
					}
				case "near":
					set = []string{f.id + "0", f.id[:len(f.id)-1], " " + f.id}
				case "all-ever":
					for _, fl := range flows {
						set = append(set, fl.id)
					}
				case "live-repeated":
					for _, fl := range flows {
						if !fl.retired {
							set = append(set, fl.id)
						}
					}
					for i := len(set) - 1; i >= 0; i-- {
						set = append(set, set[i])
					}
				}
				return set
			}
			// ---- oracle from the statement: what must happen to response r delivered to a caller that declares set
			type verdict struct {
				expect                string
				respOK, confOK, artOK bool
				dontcare              string
			}
			judge := func(r *resp, set []string, artOK bool) verdict {
				in := func(id string) bool {
					for _, s := range set { // the oracle judges by what the application MEANT to declare
						if s == id {
							return true
						}
					}
					return false
				}
				v := verdict{expect: "ACCEPT", artOK: artOK}
				v.respOK = in(r.irt) && !strings.HasPrefix(r.irt, "\x00")
				v.confOK = true
				for _, c := range r.confIRTs { // every confirmation of the assertion, whomever it is addressed to and whenever it lapses
					if !in(c) || strings.HasPrefix(c, "\x00") {
						v.confOK = false
					}
				}
				switch {
				case !artOK:
					v.expect = "REJECT" // must answer exactly the ArtifactResolve just issued, whatever else is configured
				case k.CustomValidator:
					// response level is the application's business; the statement imposes nothing
					if validatorOK(saml.Response{InResponseTo: r.irt}, set) && (v.confOK || k.AllowIDPInitiated) {
						v.expect = "ACCEPT"
					} else {
						v.expect, v.dontcare = "DONT_CARE", "custom-validator"
					}
				case k.AllowIDPInitiated:
					v.expect = "ACCEPT" // the statement imposes nothing on InResponseTo then; everything else is valid
				case !v.respOK || !v.confOK:
					v.expect = "REJECT"
				}
				if v.expect == "ACCEPT" {
					// whether the response is *valid* in the respects this property does not speak about is other properties' business
					switch {
					case r.noData:
						v.expect, v.dontcare = "DONT_CARE", "confirmation-without-data"
					case r.offAddr:
						v.expect, v.dontcare = "DONT_CARE", "confirmation-for-another-endpoint-or-lapsed"
					case r.audience != "" && !k.CustomAudience:
						v.expect, v.dontcare = "DONT_CARE", "audience-not-ours"
					}
				}
				return v
			}
			// settle compares one delivery's outcome with its verdict; true = the run ends here
			settle := func(label string, r *resp, setName string, set []string, artIRT string, v verdict, as *saml.Assertion, err error, pan any) bool {
				if pan != nil {
					res.Excluded = "panic (reported under C09)"
					return true
				}
				observed := "REJECT"
				if as != nil && err == nil {
					observed = "ACCEPT"
				}
				switch v.expect {
				case "DONT_CARE":
					res.dontcare(v.dontcare)
				case "ACCEPT":
					if as == nil {
						res.violate(si, "valid-answer-rejected", "C04/valid-answer-rejected/"+label, v.expect, observed, privErr(err))
						return true
					}
				case "REJECT":
					if as != nil {
						why := "response-irt"
						switch {
						case !v.artOK:
							why = "artifact-correlation/" + artIRT
						case v.respOK:
							why = "confirmation-irt"
						}
						if label == "overlapping" {
							why += "/overlapping-delivery"
						}
						res.violate(si, "accepted-not-outstanding", "C04/accepted/"+why, v.expect, observed, fmt.Sprintf("outstanding set %s: resp irt %q conf irts %q set %q", setName, r.irt, r.confIRTs, set))
						return true
					}
				}
				return false
			}
			set := mkSet(st.Set, r)
			// what the library is handed: for the "live" set the application's own long-lived slice (not a copy)
			passed := append([]string(nil), set...)
			if st.Set == "live" {
				passed = appLive
			}
			in := func(id string) bool {
				for _, s := range set {
					if s == id {
						return true
					}
				}
				return false
			}
			artOK := st.Entry != "artifact" || st.ArtIRT == "this"
			v := judge(r, set, artOK)
			expect, respOK, confOK := v.expect, v.respOK, v.confOK
			if r.noData {
				res.probe("confirmation-without-data")
			}
			if f.own && v.expect == "ACCEPT" {
				res.probe("answer-to-own-request-id-must-be-accepted")
				if f.beyondASCII {
					res.probe("answer-to-own-request-id-must-be-accepted:beyond-ascii")
				}
			}
			if f.own && v.expect == "REJECT" {
				res.probe("answer-to-own-request-id-must-be-rejected")
			}
			if k.CustomAudience {
				res.probe("custom-audience-validator-installed")
				if !k.CustomValidator && !k.AllowIDPInitiated && respOK && !confOK {
					res.probe("custom-audience-validator:confirmation-level-only-mismatch")
				}
			}
			if r.offAddr && !confOK && respOK {
				res.probe("confirmation-for-another-endpoint-or-lapsed:confirmation-level-only-mismatch")
			}
			artifactOf := func(i int) string { return fmt.Sprintf("AAQAAartifact%d", i) }

			var as *saml.Assertion
			var err error
			var pan any
			overlap := st.Overlap
			if overlap != nil && (st.Entry != "artifact" || overlap.Resp >= len(resps)) {
				overlap = nil
			}
			if overlap != nil {
				// ---- two deliveries in flight at once: the first is started and runs until its resolution is at the resolver; then
				// the second is started; then the resolver answers what has arrived, in the order the plan says
				r2 := resps[overlap.Resp]
				r2.n++
				set2 := mkSet(overlap.Set, r2)
				mode2 := overlap.ArtIRT
				if mode2 == "" {
					mode2 = "this"
				}
				v2 := judge(r2, set2, mode2 == "this")
				tr.resolve = func(artifact, resolveID string) *etree.Element {
					for i, rr := range resps {
						if artifactOf(i) == artifact {
							if strings.HasPrefix(rr.spec.InResponseTo, "\x00") {
								s2 := c04WithResolveID(rr.spec, resolveID)
								return BuildResponseEl(&s2, time.Now())
							}
							return rr.el
						}
					}
					return nil
				}
				type call struct {
					artifact string
					passed   []string
					as       *saml.Assertion
					err      error
					pan      any
					done     bool
				}
				ctx, cancel := context.WithCancel(context.Background())
				run := func(c *call) {
					c.pan = guard(func() {
						hr := httptest.NewRequest("GET", spv.AcsURL.String()+"?SAMLart="+c.artifact, nil).WithContext(ctx)
						_ = hr.ParseForm()
						c.as, c.err = spv.ParseResponse(hr, c.passed)
					})
					c.done = true
				}
				c1 := &call{artifact: artifactOf(st.Resp), passed: passed}
				c2 := &call{artifact: artifactOf(overlap.Resp), passed: append([]string(nil), set2...)}
				tr.mu.Lock()
				tr.gated, tr.arrivals = true, nil
				tr.mu.Unlock()
				go run(c1)
				synctest.Wait()
				tr.mu.Lock()
				n1 := len(tr.arrivals) // the resolutions the first delivery has sent (one)
				tr.mu.Unlock()
				go run(c2)
				synctest.Wait()
				tr.mu.Lock()
				arrivals := append([]*rpArrival(nil), tr.arrivals...)
				tr.mu.Unlock()
				for i, a := range arrivals {
					a.mode = mode2
					if i < n1 {
						a.mode = st.ArtIRT
					}
					if len(arrivals) == 2 {
						a.other = arrivals[1-i].id
					}
				}
				if len(arrivals) == 2 && n1 == 1 && (st.ArtIRT == "concurrent" || mode2 == "concurrent") {
					res.fire("backchannel:answered-with-the-id-of-the-concurrent-resolve")
					if st.ArtIRT == mode2 {
						res.probe("two-concurrent-resolves-answered-crosswise")
					}
				}
				order := arrivals
				if overlap.SecondFirst && len(arrivals) == 2 {
					order = []*rpArrival{arrivals[1], arrivals[0]}
				}
				for _, a := range order {
					close(a.release)
					synctest.Wait()
				}
				stuck := !c1.done || !c2.done
				cancel()
				synctest.Wait()
				tr.mu.Lock()
				tr.gated = false
				tr.mu.Unlock()
				for _, a := range arrivals {
					tr.prevID = a.id
				}
				res.fire("overlapping-deliveries")
				if overlap.Resp == st.Resp {
					res.probe("overlapping-deliveries-of-one-artifact")
					if v.expect != v2.expect && v.expect != "DONT_CARE" && v2.expect != "DONT_CARE" {
						res.probe("overlapping-deliveries-of-one-artifact:verdicts-differ")
					}
				}
				res.Extra[fmt.Sprintf("resolutions-seen-for-two-overlapping-deliveries:%d", len(arrivals))]++
				obs := func(c *call) string {
					switch {
					case c.pan != nil:
						return "PANIC"
					case !c.done:
						return "STUCK"
					case c.as != nil && c.err == nil:
						return "ACCEPT"
					}
					return "REJECT"
				}
				res.logf("step %d deliver resp %d (flow %d retired=%v nth=%d) via artifact set=%s art=%s respOK=%v confOK=%v expect=%s observed=%s || overlapping: resp %d (flow %d) set=%s art=%s second-answered-first=%v respOK=%v confOK=%v expect=%s observed=%s",
					si, st.Resp, r.flow, f.retired, r.n, st.Set, st.ArtIRT, respOK, confOK, expect, obs(c1), overlap.Resp, r2.flow, overlap.Set, mode2, overlap.SecondFirst, v2.respOK, v2.confOK, v2.expect, obs(c2))
				if !v2.respOK || !v2.confOK || !v2.artOK {
					res.Nontrivial = true
				}
				if stuck {
					res.Excluded = "a delivery did not return (totality is C09's business)"
					return res
				}
				if settle("overlapping", r2, overlap.Set, set2, mode2, v2, c2.as, c2.err, c2.pan) {
					return res
				}
				as, err, pan = c1.as, c1.err, c1.pan
			} else {
				tr.respEl, tr.mode, tr.lazy = r.el, st.ArtIRT, nil
				if st.Entry == "artifact" && strings.HasPrefix(r.spec.InResponseTo, "\x00") {
					spec := r.spec
					tr.lazy = func(resolveID string) *etree.Element {
						s2 := c04WithResolveID(spec, resolveID)
						return BuildResponseEl(&s2, time.Now())
					}
					res.probe("inner-response-echoes-resolve-id")
				}
				wire := elBytes(r.el.Copy())
				if st.Respell {
					wire = c04Respell(wire)
					res.fire("respelt-with-character-references")
				}
				pan = guard(func() {
					switch st.Entry {
					case "xml":
						as, err = spv.ParseXMLResponse(wire, passed, spv.AcsURL)
					case "post":
						form := url.Values{"SAMLResponse": {base64.StdEncoding.EncodeToString(wire)}}
						hr := httptest.NewRequest("POST", spv.AcsURL.String(), strings.NewReader(form.Encode()))
						hr.Header.Set("Content-Type", formCT)
						_ = hr.ParseForm()
						as, err = spv.ParseResponse(hr, passed)
					case "artifact":
						hr := httptest.NewRequest("GET", spv.AcsURL.String()+"?SAMLart="+artifactOf(st.Resp), nil)
						_ = hr.ParseForm()
						as, err = spv.ParseResponse(hr, passed)
						tr.prevID = tr.seenID
					}
				})
				observed := "REJECT"
				if pan != nil {
					observed = "PANIC"
				} else if as != nil && err == nil {
					observed = "ACCEPT"
				}
				res.logf("step %d deliver resp %d (flow %d retired=%v nth=%d) via %s set=%s art=%s respOK=%v confOK=%v expect=%s observed=%s", si, st.Resp, r.flow, f.retired, r.n, st.Entry, st.Set, st.ArtIRT, respOK, confOK, expect, observed)
			}
			if r.n > 1 {
				res.fire("duplicate")
			}
			if f.retired {
				res.fire("delivered-after-completion")
			}
			if st.Set != "live" {
				res.fire("outstanding-set:" + st.Set)
			}
			if st.Entry == "artifact" && st.ArtIRT != "this" {
				res.fire("backchannel:wrong_irt:" + st.ArtIRT)
			}
			if !respOK || !confOK || !artOK {
				res.Nontrivial = true
			}
			if respOK && !confOK {
				res.probe("confirmation-level-only-mismatch")
			}
			if len(r.confIRTs) == 0 && !respOK {
				res.probe("response-level-only-check-without-confirmations")
			}
			if r.irt == "" && len(set) > 0 && !in("") {
				res.probe("absent-irt-against-nonempty-set")
			}
			if settle(st.Entry, r, st.Set, set, st.ArtIRT, v, as, err, pan) {
				return res
			}
		}
	}
	res.SimMillis = time.Since(begin).Milliseconds()
	return res
}

// c04ASCII tells whether s has ASCII characters only.
func c04ASCII(s string) bool {
	for i := 0; i < len(s); i++ {
		if s[i] >= 0x80 {
			return false
		}
	}
	return true
}

// c04WithResolveID replaces the resolve-ID placeholder in every InResponseTo of spec.
func c04WithResolveID(spec RespSpec, id string) RespSpec {
	out := spec
	if strings.HasPrefix(out.InResponseTo, "\x00") {
		out.InResponseTo = id
	}
	out.Assertions = append([]AsrtSpec(nil), spec.Assertions...)
	for i := range out.Assertions {
		out.Assertions[i].Confs = append([]ConfSpec(nil), spec.Assertions[i].Confs...)
		for j := range out.Assertions[i].Confs {
			if strings.HasPrefix(out.Assertions[i].Confs[j].InResponseTo, "\x00") {
				out.Assertions[i].Confs[j].InResponseTo = id
			}
		}
	}
	return out
}

func simplifyReplay(p *Plan) []*Plan {
	var out []*Plan
	for i, raw := range p.Steps {
		st := decode[rpStep](raw)
		if st.Kind == "deliver" && st.Overlap != nil {
			c := p.Clone()
			s2 := st
			s2.Overlap = nil
			if s2.ArtIRT == "concurrent" {
				s2.ArtIRT = "other" // no other resolution in flight any more
			}
			c.Steps[i] = mustJSON(s2)
			out = append(out, c)
		}
		if st.Kind == "start" && st.OwnID != "" {
			c := p.Clone()
			s2 := st
			s2.OwnID = ""
			c.Steps[i] = mustJSON(s2)
			out = append(out, c)
		}
		if st.Kind == "deliver" && st.Entry != "xml" && st.ArtIRT == "this" && st.Overlap == nil {
			c := p.Clone()
			s2 := st
			s2.Entry = "xml"
			c.Steps[i] = mustJSON(s2)
			out = append(out, c)
		}
		if st.Kind == "answer" {
			if st.Encrypt {
				c := p.Clone()
				s2 := st
				s2.Encrypt = false
				c.Steps[i] = mustJSON(s2)
				out = append(out, c)
			}
			if len(st.ConfIRTs) > 1 {
				for q := range st.ConfIRTs {
					c := p.Clone()
					s2 := st
					s2.ConfIRTs = append(append([]string{}, st.ConfIRTs[:q]...), st.ConfIRTs[q+1:]...)
					if len(st.ConfAddr) == len(st.ConfIRTs) {
						s2.ConfAddr = append(append([]string{}, st.ConfAddr[:q]...), st.ConfAddr[q+1:]...)
					}
					if len(st.Methods) == len(st.ConfIRTs) {
						s2.Methods = append(append([]string{}, st.Methods[:q]...), st.Methods[q+1:]...)
					}
					c.Steps[i] = mustJSON(s2)
					out = append(out, c)
				}
			}
		}
	}
	return out
}

func init() {
	register(&Profile{
		ID: "C04", Name: "replay", Level: "exploration",
		Rule: "histories of 4-12 actions over {start flow (real SP request ID becomes outstanding), IdP answers flow k with InResponseTo at the Response and at each of 1-2 confirmations in {matching, another flow's, previous flow's, empty/absent, near-miss}, deliver response r (again) through xml/post/artifact with the caller's outstanding set in {live, empty, only this, only others, {\"\"}, {\"\"}+live, near-miss IDs, all ever issued}, retire flow k}; on the artifact path a simulated resolver sees the ArtifactResolve the SP sends and answers this / the previous / another / no / a near-miss request ID; AllowIDPInitiated and a custom request-ID validator are per-run knobs; non-trivial = some delivery must be refused; distinct = distinct abstract log; for the live set the library is handed the application's own long-lived slice (the oracle keeps its own copy of what was meant); the resolver may mint the inner response with the ArtifactResolve ID it has just seen; 0-2 confirmations; answers may be unsigned Responses without a Destination attribute and may carry holder-of-key / sender-vouches / unknown-method confirmations (each confirmation's InResponseTo counts whatever its method); a confirmation may be addressed to another endpoint of the deployment or have lapsed long ago (its InResponseTo counts all the same; acceptance of an assertion that carries such a confirmation is not demanded); the application may install its own audience validator answering to a second entity ID (knob), and the assertion may then name that one; a delivery through the artifact entry point may be overlapped by a second one (the same artifact or another, its own declared outstanding set) that starts while the first resolution is held at the resolver, the resolver answering in either order: each of the two is judged by the set its own caller declared, and the resolver may answer either resolution (or both, crosswise) with the ID of the other one it holds at that moment, or the second with any of the wrong IDs (each delivery must be answered with the ID of the ArtifactResolve it issued itself); a flow may be started under a request ID of the application's own making instead of the library's: an XML name without colon drawn from ASCII letters, digits, '-', '.', '_' and from letters of other scripts (Latin-1, Greek, Cyrillic, CJK, a supplementary-plane ideograph), U+00B7, a combining mark, U+203F - outstanding IDs are whatever the caller declares, compared exactly",
		Gen:  genReplay, Exec: execReplay, Simplify: simplifyReplay,
		RunsQuick: 6000, RunsThorough: 600000,
		Assumptions: []string{"with AllowIDPInitiated or a custom validator the statement imposes nothing on InResponseTo; only acceptance of otherwise valid responses (and artifact correlation) is asserted there", "an absent InResponseTo attribute and an empty one are the same thing on the wire"},
		Components: map[string][]string{
			"real": {"saml.ServiceProvider.MakeAuthenticationRequest / ParseXMLResponse / ParseResponse / handleArtifactRequest", "net/http client plumbing", "goxmldsig", "xmlenc"},
			"stub": {"foreign IdP", "artifact resolver behind an http.RoundTripper", "duplicating / late-delivering network"},
		},
	})
}
