//go:build !race

package samlsim

func raceDisable() {}
func raceEnable()  {}
