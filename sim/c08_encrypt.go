package samlsim

import (
	"bytes"
	"crypto/rsa"
	"crypto/sha1"
	"encoding/base64"
	"encoding/xml"
	"errors"
	"fmt"
	"io"
	"io/fs"
	"net/http"
	"net/http/httptest"
	"os"
	"sort"
	"strings"
	"syscall"
	"testing"
	"time"

	"github.com/beevik/etree"
	"github.com/crewjam/saml"
	"github.com/crewjam/saml/samlidp"
	"github.com/crewjam/saml/samlsp"
	"github.com/crewjam/saml/xmlenc"
)

// C08 — assertions for SPs that publish an encryption key never leave the IdP in clear (profile `encrypt`).
//
// Simulator dimensions: a passive eavesdropper on everything the IdP emits; mis-delivery of the
// emitted response to holders of other keys; the randomness seam (which bytes were drawn during
// which emission); in-flight tampering with ciphertext and ciphertext minted by a party without
// the IdP key on the way to the SP.

// ---------------------------------------------------------------- plan types

type c08Cert struct {
	// Kind: key:<fixture> (that key's certificate) | wrapped:<fixture> (same, PEM-style line wrapping and
	// surrounding white space) | empty | whitespace | not-base64 | garbage-der | truncated-der
	Kind string `json:"kind"`
}

type c08KD struct {
	Use     string    `json:"use"`   // encryption | signing | "" (attribute omitted)
	Certs   []c08Cert `json:"certs"` // no entry: KeyInfo/X509Data without any X509Certificate element
	Methods bool      `json:"encryption_methods"`
	// MethodSet: which algorithms the EncryptionMethod children name when Methods is set ("": the library's own list).
	// The listing is the SP's wish, never a reason to send the assertion in clear.
	MethodSet string `json:"encryption_method_set,omitempty"`
}

var c08MethodSets = map[string][]saml.EncryptionMethod{
	"gcm-only":          {{Algorithm: "http://www.w3.org/2009/xmlenc11#aes128-gcm"}, {Algorithm: "http://www.w3.org/2009/xmlenc11#aes256-gcm"}},
	"tripledes-only":    {{Algorithm: "http://www.w3.org/2001/04/xmlenc#tripledes-cbc"}},
	"gcm-then-cbc":      {{Algorithm: "http://www.w3.org/2009/xmlenc11#aes128-gcm"}, {Algorithm: "http://www.w3.org/2001/04/xmlenc#aes256-cbc"}, {Algorithm: "http://www.w3.org/2001/04/xmlenc#rsa-oaep-mgf1p"}},
	"keytransport-only": {{Algorithm: "http://www.w3.org/2001/04/xmlenc#rsa-oaep-mgf1p"}, {Algorithm: "http://www.w3.org/2001/04/xmlenc#rsa-1_5"}},
	"unknown-only":      {{Algorithm: "urn:example:cipher:rot13"}},
	"aes256-first":      {{Algorithm: "http://www.w3.org/2001/04/xmlenc#aes256-cbc"}, {Algorithm: "http://www.w3.org/2001/04/xmlenc#aes128-cbc"}},
}

var c08MethodSetNames = []string{"gcm-only", "tripledes-only", "gcm-then-cbc", "keytransport-only", "unknown-only", "aes256-first"}

type c08Knobs struct {
	MaxIssueDelayMs int64  `json:"MaxIssueDelay_ms"`
	MaxClockSkewMs  int64  `json:"MaxClockSkew_ms"`
	LayoutName      string `json:"layout_name"`
	// LegacyRole: the SP's metadata has a second SPSSODescriptor role (another protocol, a non-POST binding at the same ACS location, no key descriptors),
	// listed "first" or "last": the key of the SAML 2.0 role is advertised all the same
	LegacyRole string `json:"legacy_role,omitempty"`
	// RoleValid: the validUntil the registered role descriptor (and entity descriptor) carries: "" none, "past" (the registration
	// was made from metadata published three days ago), "zero" (0001-01-01, as older SP implementations wrote it), "future".
	// What the metadata says about its own shelf life does not make the key in it a non-key.
	RoleValid string `json:"registered_metadata_valid_until,omitempty"`
	// DefaultMark: the registered POST endpoint is marked isDefault="true"
	DefaultMark bool    `json:"acs_marked_default,omitempty"`
	Layout      []c08KD `json:"sp_key_descriptors"`
	// Server: the IdP is the bundled samlidp server; what is registered for the SP is whatever the history of PUT /services/<name>,
	// DELETE /services/<name> and restarts in the plan leaves in its store (nothing is registered before the first put step)
	Server bool `json:"bundled_server,omitempty"`
}

type c08Step struct {
	Kind string `json:"kind"` // emit | inner | tamper | rekey | put | delete | restart
	// emit: the IdP answers a request of the SP for session number Session
	Session int `json:"session,omitempty"`
	// emit: the k-th read from the xmlenc random source during this emission fails (0: none; a transient entropy fault)
	RandFailAt int `json:"rand_read_fails_at,omitempty"`
	RandErr    int `json:"rand_error_kind,omitempty"` // index into the error kinds a failing source may return (0: a plain error; ENOENT path errors, ErrNotExist, EOFs, EAGAIN, deadline)
	// emit: the xmlenc random source hands out at most this many bytes per call, without error (an io.Reader may): the i-th read of the emission
	// is cut to the (i mod len)-th entry
	RandShort []int `json:"rand_reads_return_at_most,omitempty"`
	// emit: the application drives the IdpAuthnRequest API itself and, when writing the response fails, tries again on the SAME request object
	Retry bool `json:"retry_on_same_request,omitempty"`
	// emit: the login is IdP-initiated (ServeIDPInitiated for the SP's entity ID): no request, the SP's registered default endpoint
	IdPInit bool `json:"idp_initiated,omitempty"`
	// emit: an application's own IdP-initiated launch: it looks the SP up, builds the IdpAuthnRequest by hand (metadata, POST endpoint) the way
	// ServeIDPInitiated does, and names the role descriptor ("descriptor-named") or, like code written before that field existed, does not
	// ("descriptor-not-named"). What the registered metadata advertises does not depend on how the request object was filled in.
	HandBuilt string `json:"application_built_request,omitempty"`
	// emit, application-built: the application makes the assertion elsewhere (on a complete copy of the request) and hands it over
	AppMaker bool `json:"assertion_made_by_application,omitempty"`
	// put / delete (bundled server): the service name; put: whose metadata ("self": the addressee, "other": another SP) and which key-descriptor
	// layout it carries ("": the run's layout, else one of the named layouts)
	Name    string `json:"service_name,omitempty"`
	Entity  string `json:"entity,omitempty"`
	Variant string `json:"layout_variant,omitempty"`
	// emit: the user carries one more attribute whose value is this many bytes long (the plaintext's length decides block and chunk boundaries)
	Pad int `json:"filler_attribute_bytes,omitempty"`
	// rekey: the SP rolls its key over (rsa1 <-> rsa3) and re-registers the same layout with the other certificate
	// inner: foreign-IdP response, once in plaintext and once encrypted, with one defect inside
	Defect   string `json:"defect,omitempty"`
	RespSign string `json:"response_signed_by,omitempty"`  // none | trusted | mallory
	AsrtSign string `json:"assertion_signed_by,omitempty"` // none | trusted | mallory
	// tamper: a genuine encrypted response altered in flight (or minted malformed and then signed)
	Op        string `json:"op,omitempty"`
	Arg       int    `json:"arg,omitempty"`
	Bit       int    `json:"bit,omitempty"`
	SignAfter bool   `json:"response_signed_after,omitempty"` // the trusted key signs the Response *after* the alteration (a faulty IdP rather than Mallory)
	// inner, tamper: how the sender encrypts: key transport ("": rsa-oaep-mgf1p; rsa-1_5) and block cipher ("": aes128-cbc; aes192-cbc; aes256-cbc)
	Transport string `json:"key_transport,omitempty"`
	Cipher    string `json:"block_cipher,omitempty"`
}

const (
	c08SPKey      = 1 // rsaKeys index: the addressee's key
	c08SPKey2     = 3 // the addressee's second (roll-over) key
	c08OtherSPKey = 2 // another SP's key
	c08MalloryKey = 4
	c08IdPKey     = 0
)

var c08OwnKeys = map[string]bool{"rsa1": true, "rsa3": true, "ec0": true}

// ---------------------------------------------------------------- generation

type c08NamedLayout struct {
	name string
	kds  []c08KD
}

func c08kd(use string, kinds ...string) c08KD {
	kd := c08KD{Use: use, Methods: use == "encryption"}
	for _, k := range kinds {
		kd.Certs = append(kd.Certs, c08Cert{Kind: k})
	}
	return kd
}

var c08Layouts = []c08NamedLayout{
	{"enc", []c08KD{c08kd("encryption", "key:rsa1")}},
	{"nouse", []c08KD{c08kd("", "key:rsa1")}},
	// the addressee's key under certificates with extensions that say what the *certificate* is for (signing only; a self-signed CA
	// certificate, which is what openssl req -x509 makes): the SP advertises the key for encryption all the same
	{"enc-sigonly-cert", []c08KD{c08kd("encryption", "key:rsa1sig")}},
	{"nouse-sigonly-cert", []c08KD{c08kd("", "key:rsa1sig")}},
	{"enc-ca-cert", []c08KD{c08kd("encryption", "key:rsa1ca")}},
	{"nouse-ca-cert", []c08KD{c08kd("", "key:rsa1ca")}},
	{"signing-only", []c08KD{c08kd("signing", "key:rsa1")}},
	{"none", nil},
	{"signing-then-enc", []c08KD{c08kd("signing", "key:rsa3"), c08kd("encryption", "key:rsa1")}},
	{"enc-then-signing", []c08KD{c08kd("encryption", "key:rsa1"), c08kd("signing", "key:rsa1")}},
	{"signing-then-nouse", []c08KD{c08kd("signing", "key:rsa1"), c08kd("", "key:rsa1")}},
	{"two-enc", []c08KD{c08kd("encryption", "key:rsa3"), c08kd("encryption", "key:rsa1")}},
	{"enc-wrapped", []c08KD{c08kd("encryption", "wrapped:rsa1")}},
	{"enc-not-base64", []c08KD{c08kd("encryption", "not-base64")}},
	{"enc-garbage-der", []c08KD{c08kd("encryption", "garbage-der")}},
	{"enc-truncated-der", []c08KD{c08kd("encryption", "truncated-der")}},
	{"nouse-garbage-der", []c08KD{c08kd("", "garbage-der")}},
	{"nouse-not-base64", []c08KD{c08kd("", "not-base64")}},
	{"enc-empty", []c08KD{c08kd("encryption", "empty")}},
	{"enc-whitespace", []c08KD{c08kd("encryption", "whitespace")}},
	{"nouse-empty", []c08KD{c08kd("", "empty")}},
	{"enc-ec", []c08KD{c08kd("encryption", "key:ec0")}},
	{"nouse-ec", []c08KD{c08kd("", "key:ec0")}},
	{"enc-no-x509", []c08KD{c08kd("encryption")}},
	{"nouse-no-x509", []c08KD{c08kd("")}},
	{"signing-then-enc-no-x509", []c08KD{c08kd("signing", "key:rsa1"), c08kd("encryption")}},
	{"enc-valid-then-enc-no-x509", []c08KD{c08kd("encryption", "key:rsa1"), c08kd("encryption")}},
	{"enc-garbage-then-enc-valid", []c08KD{c08kd("encryption", "garbage-der"), c08kd("encryption", "key:rsa1")}},
	{"enc-empty-then-enc-valid", []c08KD{c08kd("encryption", "empty"), c08kd("encryption", "key:rsa1")}},
	{"enc-empty-then-nouse-valid", []c08KD{c08kd("encryption", "empty"), c08kd("", "key:rsa1")}},
	{"nouse-empty-then-nouse-valid", []c08KD{c08kd("", "empty"), c08kd("", "key:rsa1")}},
	{"enc-two-certs-valid-first", []c08KD{c08kd("encryption", "key:rsa1", "garbage-der")}},
	{"enc-chain-leaf-then-issuer", []c08KD{c08kd("encryption", "key:rsa1", "key:rsa2")}}, // X509Data carrying a chain: the leaf is the key, the issuer (another party's key!) is not
	{"nouse-chain-leaf-then-issuer", []c08KD{c08kd("", "key:rsa1", "key:rsa2")}},
	{"enc-two-certs-garbage-first", []c08KD{c08kd("encryption", "garbage-der", "key:rsa1")}},
	{"signing-garbage-then-enc-valid", []c08KD{c08kd("signing", "garbage-der"), c08kd("encryption", "key:rsa1")}},
}

var c08CertKinds = []string{"key:rsa1", "key:rsa1", "key:rsa3", "wrapped:rsa1", "key:ec0", "empty", "whitespace", "not-base64", "garbage-der", "truncated-der"}

var c08Defects = []string{"none", "none", "conditions-expired", "not-yet-valid", "confirmation-expired", "assertion-issued-long-ago", "response-issued-long-ago",
	"wrong-audience", "wrong-recipient", "wrong-in-response-to", "wrong-response-in-response-to", "wrong-issuer", "wrong-destination", "bad-status",
	// the defect stays and unused namespace declarations named after the attribute in question, reading what would cure it, are added after signing
	// (inside the plaintext, before whoever delivers it encrypts it to the SP)
	"conditions-expired+declarations", "confirmation-expired+declarations", "wrong-recipient+declarations", "wrong-in-response-to+declarations"}

var c08Ops = []string{"flip-data", "flip-data", "flip-key", "truncate-data", "truncate-data", "truncate-key", "swap-key", "swap-data", "remove-key", "two-keys",
	"empty-cipher-value", "not-base64-cipher-value", "wrong-algorithm", "mis-keyed", "junk-plaintext", "key-as-direct-child",
	"keyless-sender", "keyless-sender", "keyless-sender"}

// c08PublicKeys: content keys that take no secret to know - what a sender who holds no key at all can encrypt under (keyless-sender, by Arg)
var c08PublicKeys = []string{"all-zero", "all-zero", "all-ones", "counting", "leading-bytes-of-the-encrypted-key", "leading-bytes-of-the-sp-certificate"}

var c08TruncLens = []int{0, 1, 15, 16, 17, 31, 32, 33, 47, 48, 49, 64, 65, -16, -1, -17}

func genEncrypt(g *Rng, tier string) *Plan {
	k := c08Knobs{
		MaxIssueDelayMs: Pick(g, int64(7000), 90_000, 660_000),
		MaxClockSkewMs:  Pick(g, int64(0), 1000, 180_000),
		LegacyRole:      Pick(g, "", "", "", "", "first", "last"),
		RoleValid:       Pick(g, "", "", "", "past", "zero", "future"),
		DefaultMark:     g.Bool(0.3),
	}
	if g.Bool(0.78) {
		l := c08Layouts[g.Intn(len(c08Layouts))]
		k.LayoutName = l.name
		for _, kd := range l.kds {
			c := kd
			c.Certs = append([]c08Cert{}, kd.Certs...)
			if kd.Use != "signing" && g.Bool(0.4) {
				c.Methods = !c.Methods
			}
			if c.Methods && g.Bool(0.4) {
				c.MethodSet = Pick(g, c08MethodSetNames...)
			}
			k.Layout = append(k.Layout, c)
		}
	} else {
		k.LayoutName = "random"
		n := 1 + g.PickW(3, 4, 2)
		for i := 0; i < n; i++ {
			kd := c08KD{Use: Pick(g, "encryption", "encryption", "", "", "signing"), Methods: g.Bool(0.5)}
			if kd.Methods && g.Bool(0.4) {
				kd.MethodSet = Pick(g, c08MethodSetNames...)
			}
			nc := g.PickW(1, 8, 2)
			for j := 0; j < nc; j++ {
				kd.Certs = append(kd.Certs, c08Cert{Kind: Pick(g, c08CertKinds...)})
			}
			k.Layout = append(k.Layout, kd)
		}
	}
	k.Server = g.Bool(0.3)
	p := &Plan{Knobs: mustJSON(k)}
	genEmit := func(first bool) c08Step {
		st := c08Step{Kind: "emit", Session: g.PickW(5, 3, 2)}
		switch {
		case first:
			st.Pad = int(g.Run*16) % 4096 // consecutive runs walk the plaintext length through every 16-byte block position of a 4 KiB window
		case g.Bool(0.6):
			st.Pad = g.Intn(9000)
		}
		if g.Bool(0.12) {
			st.RandFailAt = 1 + g.Intn(5)
			st.RandErr = g.Intn(len(c08EntropyErrs))
			st.Retry = g.Bool(0.5)
		}
		if g.Bool(0.2) {
			most := Pick(g, 1, 1, 2, 3, 7, 15, 31)
			for i, n := 0, 1+g.Intn(6); i < n; i++ {
				st.RandShort = append(st.RandShort, 1+g.Intn(most))
			}
		}
		if !st.Retry && g.Bool(0.2) {
			st.IdPInit = true
		}
		if !st.Retry && !st.IdPInit && g.Bool(0.04) {
			st.HandBuilt = Pick(g, "descriptor-named", "descriptor-not-named")
			st.AppMaker = g.Bool(0.3)
		}
		return st
	}
	genSPSide := func() c08Step {
		if g.Bool(0.5) {
			return c08Step{Kind: "inner", Defect: Pick(g, c08Defects...),
				RespSign: Pick(g, "none", "none", "trusted", "mallory"), AsrtSign: Pick(g, "trusted", "trusted", "none", "mallory"),
				Transport: Pick(g, "", "", "rsa-1_5"), Cipher: Pick(g, "", "", "aes192-cbc", "aes256-cbc")}
		}
		st := c08Step{Kind: "tamper", Op: Pick(g, c08Ops...), Arg: g.Intn(1 << 20), Bit: g.Intn(8), SignAfter: g.Bool(0.35),
			Transport: Pick(g, "", "rsa-1_5"), Cipher: Pick(g, "", "", "aes192-cbc", "aes256-cbc")}
		if st.Op == "truncate-data" {
			st.Arg = Pick(g, c08TruncLens...)
		}
		return st
	}
	if k.Server {
		genServerSteps(g, p, genEmit, genSPSide)
		return p
	}
	ne := 2 + g.PickW(4, 3, 2)
	for i := 0; i < ne; i++ {
		p.Steps = append(p.Steps, mustJSON(genEmit(i == 0)))
		if i > 0 && g.Bool(0.2) {
			p.Steps = append(p.Steps, mustJSON(c08Step{Kind: "rekey"}), mustJSON(c08Step{Kind: "emit", Session: g.PickW(5, 3, 2)}))
		}
	}
	ns := g.PickW(2, 4, 3, 1)
	for i := 0; i < ns; i++ {
		p.Steps = append(p.Steps, mustJSON(genSPSide()))
	}
	// shuffle step order (Fisher-Yates on the PRNG) so that SP-side steps interleave with emissions
	for i := len(p.Steps) - 1; i > 0; i-- {
		j := g.Intn(i + 1)
		p.Steps[i], p.Steps[j] = p.Steps[j], p.Steps[i]
	}
	return p
}

var c08ServiceNames = []string{"a", "b", "c"}

// the layouts a registration other than the run's own may carry ("": the run's layout)
var c08Variants = []string{"", "", "none", "none", "signing-only", "enc", "nouse"}

// genServerSteps draws a history of the bundled server's service registry (puts under two or three names of the addressee's and another SP's
// metadata with varying key-descriptor layouts, deletions, restarts) with emissions in between. The generator keeps track of which name
// carries which entity only to draw histories in which names and entity IDs are re-used (several services carrying one entity ID, a service
// renamed to another entity ID and back); what is expected of each emission is the model's business at execution time.
func genServerSteps(g *Rng, p *Plan, genEmit func(first bool) c08Step, genSPSide func() c08Step) {
	carries := map[string]string{}
	var used []string // names in use, in the order they were first put (kept sorted below so that nothing depends on map order)
	put := func(name, entity, variant string) {
		p.Steps = append(p.Steps, mustJSON(c08Step{Kind: "put", Name: name, Entity: entity, Variant: variant}))
		if _, ok := carries[name]; !ok {
			used = append(used, name)
			sort.Strings(used)
		}
		carries[name] = entity
	}
	otherEntity := func(e string) string {
		if e == "self" {
			return "other"
		}
		return "self"
	}
	put(Pick(g, "a", "a", "b"), "self", "")
	p.Steps = append(p.Steps, mustJSON(genEmit(true)))
	nm := 2 + g.Intn(5)
	for i := 0; i < nm; i++ {
		op := g.PickW(3, 3, 2, 1, 1, 1)
		if len(used) == 0 && op != 4 {
			op = 5
		}
		switch op {
		case 0: // one more service for an entity ID that a stored service carries already
			have := Pick(g, used...)
			name := Pick(g, c08ServiceNames...)
			if name == have {
				name = c08ServiceNames[(g.Intn(2)+1+c08IndexOf(c08ServiceNames, have))%len(c08ServiceNames)]
			}
			put(name, carries[have], Pick(g, c08Variants...))
		case 1: // a service is overwritten with the metadata of the other entity
			name := Pick(g, used...)
			put(name, otherEntity(carries[name]), Pick(g, c08Variants...))
		case 2: // a service is overwritten with other metadata of the same entity
			name := Pick(g, used...)
			put(name, carries[name], Pick(g, c08Variants...))
		case 3:
			name := Pick(g, used...)
			p.Steps = append(p.Steps, mustJSON(c08Step{Kind: "delete", Name: name}))
			delete(carries, name)
			used = append(append([]string{}, used[:c08IndexOf(used, name)]...), used[c08IndexOf(used, name)+1:]...)
		case 4:
			p.Steps = append(p.Steps, mustJSON(c08Step{Kind: "restart"}))
		default:
			put(Pick(g, c08ServiceNames...), Pick(g, "self", "self", "other"), Pick(g, c08Variants...))
		}
		pe := 0.25 // now and then an emission while nothing is registered for the addressee
		for _, n := range used {
			if carries[n] == "self" {
				pe = 0.8
			}
		}
		if g.Bool(pe) {
			p.Steps = append(p.Steps, mustJSON(genEmit(false)))
		}
	}
	// SP-side steps at drawn positions (after the first registration)
	ns := g.PickW(3, 4, 2, 1)
	for i := 0; i < ns; i++ {
		at := 1 + g.Intn(len(p.Steps))
		p.Steps = append(p.Steps, nil)
		copy(p.Steps[at+1:], p.Steps[at:])
		p.Steps[at] = mustJSON(genSPSide())
	}
}

func c08IndexOf(xs []string, x string) int {
	for i, v := range xs {
		if v == x {
			return i
		}
	}
	return -1
}

// ---------------------------------------------------------------- layout → metadata, and what the statement says about it

func c08CertText(kind string) string {
	name := ""
	if i := strings.Index(kind, ":"); i >= 0 {
		kind, name = kind[:i], kind[i+1:]
	}
	switch kind {
	case "key", "wrapped":
		kp, ok := c08KeyByName(name)
		if !ok {
			panic("harness: unknown fixture key " + name)
		}
		b := kp.CertB64()
		if kind == "key" {
			return b
		}
		var sb strings.Builder
		sb.WriteString("\n      ")
		for len(b) > 64 {
			sb.WriteString(b[:64] + "\r\n\t")
			b = b[64:]
		}
		sb.WriteString(b + "\n    ")
		return sb.String()
	case "empty":
		return ""
	case "whitespace":
		return " \n\t  "
	case "not-base64":
		return "MIIC*this is not base64*=="
	case "garbage-der":
		return base64.StdEncoding.EncodeToString([]byte("0\x82 this is not a certificate at all, only bytes that happen to be valid base64 \x00\x01\x02"))
	case "truncated-der":
		return base64.StdEncoding.EncodeToString(rsaKeys[c08SPKey].Cert.Raw[:120])
	}
	panic("harness: unknown certificate kind " + kind)
}

func c08KeyByName(name string) (KeyPair, bool) {
	for _, k := range []KeyPair{rsa1Sig, rsa1CA} {
		if k.Name == name {
			return k, true
		}
	}
	for _, k := range rsaKeys {
		if k.Name == name {
			return k, true
		}
	}
	for _, k := range ecKeys {
		if k.Name == name {
			return k, true
		}
	}
	return KeyPair{}, false
}

func c08KindClass(kind string) string {
	switch {
	case strings.HasPrefix(kind, "key:ec"):
		return "ec"
	case kind == "key:rsa1sig":
		return "valid-sigonly"
	case kind == "key:rsa1ca":
		return "valid-ca"
	case strings.HasPrefix(kind, "key:"):
		return "valid"
	case strings.HasPrefix(kind, "wrapped:"):
		return "valid-wrapped"
	}
	return kind
}

func c08Shape(kds []c08KD) string {
	if len(kds) == 0 {
		return "no-descriptor"
	}
	var parts []string
	for _, kd := range kds {
		u := kd.Use
		if u == "" {
			u = "nouse"
		}
		var cs []string
		for _, c := range kd.Certs {
			cs = append(cs, c08KindClass(c.Kind))
		}
		parts = append(parts, u+"["+strings.Join(cs, ",")+"]")
	}
	return strings.Join(parts, "+")
}

type c08Expect struct {
	// Advertised: some descriptor with use=encryption or without use carries certificate text and no empty certificate element
	Advertised bool
	// DontCare: no such descriptor, but a descriptor that could carry an encryption key (use=encryption or no use) contains an
	// empty / white-space-only certificate element, or a use=encryption descriptor carries no certificate element at all:
	// not clearly "a key" (DESIGN §7) — ciphertext, error and plaintext are all admitted
	DontCare bool
	// EncNoX509: a use=encryption descriptor without any X509Certificate element (the pinned tree panics there: C09's subject)
	EncNoX509 bool
	// for signatures only: the first use=encryption descriptor's first certificate is empty although a well-formed key is advertised elsewhere
	EmptyEncShadows bool
}

func c08Expectation(kds []c08KD) c08Expect {
	var e c08Expect
	open := false
	firstEnc := true
	firstEncEmpty := false
	for _, kd := range kds {
		if kd.Use != "encryption" && kd.Use != "" {
			continue
		}
		nonEmpty, empty := 0, 0
		for _, c := range kd.Certs {
			if strings.TrimSpace(c08CertText(c.Kind)) != "" {
				nonEmpty++
			} else {
				empty++
			}
		}
		if nonEmpty > 0 && empty == 0 {
			e.Advertised = true
		}
		if empty > 0 {
			open = true
		}
		if kd.Use == "encryption" {
			if len(kd.Certs) == 0 {
				e.EncNoX509 = true
			}
			if firstEnc {
				firstEnc = false
				firstEncEmpty = len(kd.Certs) > 0 && c08CertText(kd.Certs[0].Kind) == ""
			}
		}
	}
	e.DontCare = !e.Advertised && (open || e.EncNoX509)
	e.EmptyEncShadows = e.Advertised && firstEncEmpty
	return e
}

var c08Methods = []saml.EncryptionMethod{
	{Algorithm: "http://www.w3.org/2001/04/xmlenc#aes128-cbc"}, {Algorithm: "http://www.w3.org/2001/04/xmlenc#aes192-cbc"},
	{Algorithm: "http://www.w3.org/2001/04/xmlenc#aes256-cbc"}, {Algorithm: "http://www.w3.org/2001/04/xmlenc#rsa-oaep-mgf1p"},
}

// c08Register builds the metadata the IdP's registry holds for the SP: the SP's own published
// metadata with its key descriptors replaced by the layout, passed through XML.
var c08LegacyRole string // set from the run's knobs while it executes
var c08RoleValid string
var c08DefaultMark bool

// a binding the library keeps the location of but cannot answer on (it blanks the location of bindings it does not know)
const c08LegacyBinding = saml.HTTPArtifactBinding

func c08Register(spv *saml.ServiceProvider, kds []c08KD) (*saml.EntityDescriptor, error) {
	b, err := xml.Marshal(spv.Metadata())
	if err != nil {
		return nil, err
	}
	md := &saml.EntityDescriptor{}
	if err := xml.Unmarshal(b, md); err != nil {
		return nil, err
	}
	var out []saml.KeyDescriptor
	for _, kd := range kds {
		d := saml.KeyDescriptor{Use: kd.Use}
		for _, c := range kd.Certs {
			d.KeyInfo.X509Data.X509Certificates = append(d.KeyInfo.X509Data.X509Certificates, saml.X509Certificate{Data: c08CertText(c.Kind)})
		}
		if kd.Methods {
			d.EncryptionMethods = c08Methods
			if ms, ok := c08MethodSets[kd.MethodSet]; ok {
				d.EncryptionMethods = ms
			}
		}
		out = append(out, d)
	}
	md.SPSSODescriptors[0].KeyDescriptors = out
	if c08RoleValid != "" {
		at := map[string]time.Time{"past": time.Date(1999, 12, 29, 0, 0, 0, 0, time.UTC), "zero": {}, "future": time.Date(2000, 1, 3, 0, 0, 0, 0, time.UTC)}[c08RoleValid]
		md.SPSSODescriptors[0].ValidUntil = &at
		md.ValidUntil = at
	} else {
		md.SPSSODescriptors[0].ValidUntil = nil
	}
	if c08DefaultMark {
		for i := range md.SPSSODescriptors[0].AssertionConsumerServices {
			if md.SPSSODescriptors[0].AssertionConsumerServices[i].Binding == saml.HTTPPostBinding {
				t := true
				md.SPSSODescriptors[0].AssertionConsumerServices[i].IsDefault = &t
				break
			}
		}
	}
	if c08LegacyRole != "" {
		legacy := saml.SPSSODescriptor{SSODescriptor: saml.SSODescriptor{RoleDescriptor: saml.RoleDescriptor{ProtocolSupportEnumeration: "urn:oasis:names:tc:SAML:1.1:protocol"}},
			AssertionConsumerServices: []saml.IndexedEndpoint{{Binding: c08LegacyBinding, Location: spv.AcsURL.String(), Index: 1}}}
		if c08LegacyRole == "first" {
			md.SPSSODescriptors = append([]saml.SPSSODescriptor{legacy}, md.SPSSODescriptors...)
		} else {
			md.SPSSODescriptors = append(md.SPSSODescriptors, legacy)
		}
	}
	b, err = xml.Marshal(md)
	if err != nil {
		return nil, err
	}
	md2 := &saml.EntityDescriptor{}
	if err := xml.Unmarshal(b, md2); err != nil {
		return nil, err
	}
	return md2, nil
}

// ---------------------------------------------------------------- sessions (unique marker strings)

func c08Session(i int, pad ...int) (*saml.Session, []string) {
	s, secret := c08SessionBase(i)
	if len(pad) > 0 && pad[0] > 0 {
		unit := marker("fill", i) + "."
		v := strings.Repeat(unit, pad[0]/len(unit)+1)[:pad[0]]
		s.CustomAttributes = append(s.CustomAttributes, saml.Attribute{Name: "filler", NameFormat: "urn:oasis:names:tc:SAML:2.0:attrname-format:basic",
			Values: []saml.AttributeValue{{Type: "xs:string", Value: v}}})
		if pad[0] >= len(unit) {
			secret = append(secret, marker("fill", i))
		}
	}
	return s, secret
}

func c08SessionBase(i int) (*saml.Session, []string) {
	s := &saml.Session{ID: marker("sessid", i), CreateTime: time.Now().UTC(), ExpireTime: time.Now().Add(time.Hour).UTC(),
		Index: marker("idx", i), NameID: marker("nid", i), SubjectID: marker("sub", i),
		UserName: marker("un", i), UserEmail: marker("em", i) + "@example.com", UserCommonName: marker("cn", i), UserSurname: marker("sn", i),
		UserGivenName: marker("gn", i), UserScopedAffiliation: marker("aff", i), EduPersonPrincipalName: marker("eppn", i),
		Groups: []string{marker("ga", i), marker("gb", i)},
		CustomAttributes: []saml.Attribute{{Name: "custom", NameFormat: "urn:oasis:names:tc:SAML:2.0:attrname-format:basic",
			Values: []saml.AttributeValue{{Type: "xs:string", Value: marker("cv", i)}}}}}
	secret := []string{s.Index, s.NameID, s.SubjectID, s.UserName, marker("em", i), s.UserCommonName, s.UserSurname, s.UserGivenName,
		s.UserScopedAffiliation, s.EduPersonPrincipalName, s.Groups[0], s.Groups[1], marker("cv", i)}
	return s, secret
}

// ---------------------------------------------------------------- randomness recorder

type c08Recorder struct {
	r      io.Reader
	on     bool
	drawn  []byte
	reads  int
	failAt int // the failAt-th read while recording fails (0: none)
	failed bool
	errIdx int   // which error the failing read returns
	atMost []int // non-empty: the i-th read while recording hands out at most atMost[i mod len] bytes (short reads, no error)
	short  int   // reads that were cut short
}

var errC08Entropy = errors.New("getrandom: resource temporarily unavailable (injected)")

// c08EntropyErrs: what a failing entropy source can return; an error's identity must never be read as "this SP has no key".
var c08EntropyErrs = []error{
	errC08Entropy,
	&fs.PathError{Op: "open", Path: "/dev/urandom", Err: syscall.ENOENT}, // a chroot or container without the device
	fs.ErrNotExist,
	io.ErrUnexpectedEOF,
	io.EOF,
	&fs.PathError{Op: "read", Path: "/dev/urandom", Err: syscall.EAGAIN},
	os.ErrDeadlineExceeded,
	fmt.Errorf("entropy: %w", os.ErrNotExist),
}

func (c *c08Recorder) Read(p []byte) (int, error) {
	if c.on {
		c.reads++
		if c.failAt > 0 && c.reads == c.failAt {
			c.failed = true
			return 0, c08EntropyErrs[c.errIdx%len(c08EntropyErrs)]
		}
		if len(c.atMost) > 0 {
			if m := c.atMost[(c.reads-1)%len(c.atMost)]; m > 0 && m < len(p) {
				p = p[:m]
				c.short++
			}
		}
	}
	n, err := c.r.Read(p)
	if c.on {
		c.drawn = append(c.drawn, p[:n]...)
	}
	return n, err
}

// ---------------------------------------------------------------- XML helpers (harness side)

func c08Child(el *etree.Element, tag string) *etree.Element {
	if el == nil {
		return nil
	}
	for _, c := range el.ChildElements() {
		if c.Tag == tag {
			return c
		}
	}
	return nil
}

func c08Path(el *etree.Element, tags ...string) *etree.Element {
	for _, t := range tags {
		el = c08Child(el, t)
	}
	return el
}

func c08Count(root *etree.Element, tag string) int {
	n := 0
	if root.Tag == tag {
		n++
	}
	for _, e := range root.FindElements("//*") {
		if e != root && e.Tag == tag {
			n++
		}
	}
	return n
}

func c08Parse(raw []byte) *etree.Element {
	doc := etree.NewDocument()
	if err := doc.ReadFromBytes(raw); err != nil {
		return nil
	}
	return doc.Root()
}

func c08CipherBytes(cv *etree.Element) []byte {
	if cv == nil {
		return nil
	}
	b, err := base64.StdEncoding.DecodeString(strings.TrimSpace(cv.Text()))
	if err != nil {
		return nil
	}
	return b
}

func c08SetCipher(cv *etree.Element, b []byte) { cv.SetText(base64.StdEncoding.EncodeToString(b)) }

// ---------------------------------------------------------------- the world

type c08World struct {
	k       c08Knobs
	exp     c08Expect
	idp     *saml.IdentityProvider
	idpMD   *saml.EntityDescriptor
	sp      *saml.ServiceProvider // the addressee (holds rsa1)
	rec     *c08Recorder
	ivs     map[string]int
	ceks    map[string]int
	emitted int
	swapped bool   // the SP has rolled its key over: its registration now carries rsa3 where the layout says rsa1 and vice versa
	reg     mapSPP // the IdP's registry
	// bundled-server mode: the real server on a fault-free store, the other SP, and the model of what is stored: service name -> (entity, layout variant)
	srv      *samlidp.Server
	store    *simStore
	otherSP  *saml.ServiceProvider
	services map[string]c08Svc
	// a stored service that carried the addressee's entity ID was overwritten with another entity ID (or deleted) while another stored service still carries it
	coCarrierLeft bool
}

type c08Svc struct {
	Entity  string // self | other
	Variant string
}

const c08OtherSPBase = "https://other-sp.example.com"

func (w *c08World) newServer() {
	srv, err := samlidp.New(samlidp.Options{URL: mustURL("https://idp.example.com"), Key: rsaKeys[c08IdPKey].Key, Certificate: rsaKeys[c08IdPKey].Cert, Store: w.store, Logger: nullLog{}})
	if err != nil {
		panic(fmt.Sprintf("harness: the bundled server does not start on a fault-free store: %v", err))
	}
	w.srv, w.idp = srv, &srv.IDP
}

// variantLayout: the key descriptors a registration of the given variant carries now (after any key roll-over).
func (w *c08World) variantLayout(variant string) []c08KD {
	kds := w.k.Layout
	if variant != "" {
		found := false
		for _, l := range c08Layouts {
			if l.name == variant {
				kds, found = l.kds, true
			}
		}
		if !found {
			panic("harness: unknown layout variant " + variant)
		}
	}
	if w.swapped {
		return c08SwapKeys(kds)
	}
	return kds
}

// carriers: the layouts of the stored services (in name order) that carry the addressee's entity ID, by the model.
func (w *c08World) carriers() (names []string, layouts [][]c08KD) {
	for _, n := range sortedKeys(w.services) {
		if w.services[n].Entity == "self" {
			names = append(names, n)
			layouts = append(layouts, w.variantLayout(w.services[n].Variant))
		}
	}
	return
}

// c08Registered is what the statement's premise ("the registered SP metadata advertises ...") evaluates to at one emission.
type c08Registered struct {
	Exp c08Expect
	// None: nothing is registered for the addressee. Ambiguous: several stored services carry its entity ID and their key
	// descriptors do not say the same about an encryption key (which of them "the registered metadata" is, the statement does not say)
	None, Ambiguous bool
	Shape           string
	OwnKeys         map[int]bool // which of the addressee's own keys the registration(s) advertise; nil when they disagree
}

func (w *c08World) registeredNow() c08Registered {
	if !w.k.Server {
		return c08Registered{Exp: w.exp, Shape: c08Shape(w.k.Layout), OwnKeys: c08AdvertisedOwnKeys(w.currentLayout())}
	}
	_, layouts := w.carriers()
	if len(layouts) == 0 {
		return c08Registered{None: true, Shape: "not-registered"}
	}
	r := c08Registered{Exp: c08Expectation(layouts[0]), Shape: c08Shape(layouts[0]), OwnKeys: c08AdvertisedOwnKeys(layouts[0])}
	for _, l := range layouts[1:] {
		e := c08Expectation(l)
		if e.Advertised != r.Exp.Advertised || e.DontCare != r.Exp.DontCare {
			r.Ambiguous = true
		}
		r.Exp.EncNoX509 = r.Exp.EncNoX509 || e.EncNoX509
		r.Exp.EmptyEncShadows = r.Exp.EmptyEncShadows && e.EmptyEncShadows
		if sh := c08Shape(l); !strings.Contains("|"+r.Shape+"|", "|"+sh+"|") {
			r.Shape += "|" + sh
		}
		if r.OwnKeys != nil && fmt.Sprint(c08AdvertisedOwnKeys(l)) != fmt.Sprint(r.OwnKeys) {
			r.OwnKeys = nil
		}
	}
	return r
}

// serverPut registers metadata under a service name through the server's REST interface and keeps the model in step. Returns true to stop the run.
func (w *c08World) serverPut(res *Result, si int, name, entity, variant string) bool {
	spv := w.sp
	if entity == "other" {
		spv = w.otherSP
	}
	md, err := c08Register(spv, w.variantLayout(variant))
	var body []byte
	if err == nil {
		body, err = xml.Marshal(md)
	}
	if err != nil {
		panic(fmt.Sprintf("harness: cannot build SP registration: %v", err))
	}
	rep := deliver(w.srv, "PUT", "https://idp.example.com/services/"+name, string(body), "", nil)
	res.probe("server/put")
	shape := c08Shape(w.variantLayout(variant))
	if rep.Panic != nil {
		res.logf("step %d put service=%s entity=%s layout=%s outcome=PANIC", si, name, entity, shape)
		res.probe("idp-panic/put-service")
		res.Excluded = "panic (reported under C09)"
		return true
	}
	res.logf("step %d put service=%s entity=%s layout=%s acknowledged=%v", si, name, entity, shape, rep.Code == http.StatusNoContent)
	if rep.Code != http.StatusNoContent {
		res.probe("server/registration-refused")
		return false
	}
	if prev, ok := w.services[name]; ok && prev.Entity == "self" && entity != "self" {
		w.noteCarrierGone(res, name)
	}
	w.services[name] = c08Svc{Entity: entity, Variant: variant}
	if names, _ := w.carriers(); len(names) > 1 {
		res.probe("server/several-stored-services-carry-the-entity")
	}
	return false
}

func (w *c08World) noteCarrierGone(res *Result, name string) {
	for n, s := range w.services {
		if n != name && s.Entity == "self" {
			w.coCarrierLeft = true
		}
	}
	if w.coCarrierLeft {
		res.probe("server/carrier-gone-while-another-service-still-carries-the-entity")
	}
}

// currentLayout is the registered key-descriptor layout after any key roll-over.
func (w *c08World) currentLayout() []c08KD {
	if !w.swapped {
		return w.k.Layout
	}
	return c08SwapKeys(w.k.Layout)
}

func c08SwapKeys(kds []c08KD) []c08KD {
	var out []c08KD
	for _, kd := range kds {
		n := kd
		n.Certs = nil
		for _, c := range kd.Certs {
			switch {
			case strings.HasSuffix(c.Kind, ":rsa1"):
				c.Kind = strings.TrimSuffix(c.Kind, "rsa1") + "rsa3"
			case strings.HasSuffix(c.Kind, ":rsa3"):
				c.Kind = strings.TrimSuffix(c.Kind, "rsa3") + "rsa1"
			}
			n.Certs = append(n.Certs, c)
		}
		out = append(out, n)
	}
	return out
}

// c08AdvertisedOwnKeys: which of the addressee's two keys appear in encryption-capable descriptors of a registration.
func c08AdvertisedOwnKeys(kds []c08KD) map[int]bool {
	out := map[int]bool{}
	for _, kd := range kds {
		if kd.Use != "encryption" && kd.Use != "" {
			continue
		}
		for _, c := range kd.Certs {
			if strings.HasSuffix(c.Kind, ":rsa1") {
				out[c08SPKey] = true
			}
			if strings.HasSuffix(c.Kind, ":rsa3") {
				out[c08SPKey2] = true
			}
		}
	}
	return out
}

func (w *c08World) spWithKey(idx int) *saml.ServiceProvider {
	return newSP(spBase, rsaKeys[idx], "", w.idpMD)
}

type c08Decision struct {
	Accept bool
	Panic  any
	NameID string
	Values map[string]bool
	Err    error
}

func c08Deliver(spv *saml.ServiceProvider, raw []byte, reqID string) c08Decision {
	var d c08Decision
	var as *saml.Assertion
	d.Panic = guard(func() { as, d.Err = spv.ParseXMLResponse(raw, []string{reqID}, spv.AcsURL) })
	if d.Panic != nil || d.Err != nil || as == nil {
		return d
	}
	d.Accept = true
	d.Values = map[string]bool{}
	if as.Subject != nil && as.Subject.NameID != nil {
		d.NameID = as.Subject.NameID.Value
	}
	for _, st := range as.AttributeStatements {
		for _, a := range st.Attributes {
			for _, v := range a.Values {
				d.Values[v.Value] = true
			}
		}
	}
	return d
}

func (d c08Decision) String() string {
	switch {
	case d.Panic != nil:
		return "PANIC"
	case d.Accept:
		return "ACCEPT(" + d.NameID + ")"
	}
	return "REJECT"
}

// ---------------------------------------------------------------- execution + oracle

func execEncrypt(t *testing.T, p *Plan) *Result {
	res := newResult()
	k := decode[c08Knobs](p.Knobs)
	saml.MaxIssueDelay = ms(k.MaxIssueDelayMs)
	saml.MaxClockSkew = ms(k.MaxClockSkewMs)
	_, encRand := installRand(p)
	c08LegacyRole, c08RoleValid, c08DefaultMark = k.LegacyRole, k.RoleValid, k.DefaultMark
	defer func() { c08LegacyRole, c08RoleValid, c08DefaultMark = "", "", false }()
	w := &c08World{k: k, exp: c08Expectation(k.Layout), ivs: map[string]int{}, ceks: map[string]int{}}
	w.rec = &c08Recorder{r: encRand}
	xmlenc.RandReader = w.rec
	start := time.Now()

	// world: library IdP (or the bundled server); its metadata as bytes → the SPs; the addressee's metadata (with the layout) → registry
	reg := mapSPP{}
	if k.Server {
		w.store, w.services = newSimStore(), map[string]c08Svc{}
		w.newServer()
	} else {
		w.idp = newIdP("https://idp.example.com", rsaKeys[c08IdPKey], reg)
	}
	var err error
	if pan := guard(func() {
		var b []byte
		b, err = xml.Marshal(w.idp.Metadata())
		if err == nil {
			w.idpMD, err = samlsp.ParseMetadata(b)
		}
	}); pan != nil || err != nil {
		panic(fmt.Sprintf("harness: cannot exchange IdP metadata: %v %v", pan, err))
	}
	w.sp = w.spWithKey(c08SPKey)
	w.otherSP = newSP(c08OtherSPBase, rsaKeys[c08OtherSPKey], "", w.idpMD)
	if !k.Server {
		md, err := c08Register(w.sp, k.Layout)
		if err != nil {
			panic(fmt.Sprintf("harness: cannot build SP registration: %v", err))
		}
		reg[md.EntityID] = md
		w.reg = reg
	}
	res.logf("world layout=%s shape=%s advertised=%v dontcare=%v enc-without-x509=%v", k.LayoutName, c08Shape(k.Layout), w.exp.Advertised, w.exp.DontCare, w.exp.EncNoX509)
	if k.Server {
		res.logf("world the IdP is the bundled server; its registry is what the put/delete/restart steps leave")
		res.Nontrivial = true
	}
	if w.exp.Advertised || w.exp.DontCare || w.exp.EncNoX509 {
		res.Nontrivial = true
	}

	for si, raw := range p.Steps {
		st := decode[c08Step](raw)
		stop := false
		switch st.Kind {
		case "emit":
			stop = c08Emit(w, res, si, st)
		case "rekey":
			w.swapped = !w.swapped
			res.fire("sp-key-rollover")
			res.Nontrivial = true
			if k.Server {
				// every stored service that carries the addressee's entity is put again with the other certificate
				names, _ := w.carriers()
				res.logf("step %d the SP rolled its key over and re-registers under %d service name(s)", si, len(names))
				for _, n := range names {
					if stop = w.serverPut(res, si, n, "self", w.services[n].Variant); stop {
						break
					}
				}
				break
			}
			md, err := c08Register(w.sp, w.currentLayout())
			if err != nil {
				panic(fmt.Sprintf("harness: cannot build SP registration: %v", err))
			}
			w.reg[md.EntityID] = md
			res.logf("step %d the SP rolled its key over and re-registered (same entity ID, other certificate)", si)
		case "put", "delete", "restart":
			if !k.Server {
				res.logf("step %d %s: no bundled server in this run", si, st.Kind)
				break
			}
			stop = c08Manage(w, res, si, st)
		case "inner":
			res.Nontrivial = true
			stop = c08Inner(w, res, si, st)
		case "tamper":
			res.Nontrivial = true
			stop = c08Tamper(w, res, si, st)
		}
		if stop {
			return res
		}
		advance(ms(1500))
	}
	res.SimMillis = time.Since(start).Milliseconds()
	return res
}

// c08Manage: one management call on the bundled server (or its restart on the same store). Returns true to stop the run.
func c08Manage(w *c08World, res *Result, si int, st c08Step) bool {
	switch st.Kind {
	case "put":
		if st.Entity != "self" && st.Entity != "other" {
			panic("harness: unknown entity " + st.Entity)
		}
		return w.serverPut(res, si, st.Name, st.Entity, st.Variant)
	case "delete":
		rep := deliver(w.srv, "DELETE", "https://idp.example.com/services/"+st.Name, "", "", nil)
		res.probe("server/delete")
		if rep.Panic != nil {
			res.logf("step %d delete service=%s outcome=PANIC", si, st.Name)
			res.probe("idp-panic/delete-service")
			res.Excluded = "panic (reported under C09)"
			return true
		}
		res.logf("step %d delete service=%s acknowledged=%v", si, st.Name, rep.Code == http.StatusNoContent)
		if rep.Code == http.StatusNoContent {
			if prev, ok := w.services[st.Name]; ok && prev.Entity == "self" {
				w.noteCarrierGone(res, st.Name)
			}
			delete(w.services, st.Name)
		}
	case "restart":
		w.newServer()
		res.probe("server/restart")
		res.logf("step %d the server restarted on its store", si)
	}
	return false
}

// c08Emit: one SP-initiated login answered by the library IdP, observed by the eavesdropper. Returns true to stop the run.
func c08Emit(w *c08World, res *Result, si int, st c08Step) bool {
	sess, secrets := c08Session(st.Session, st.Pad)
	// what is registered for the addressee at this moment, and what its key descriptors say (the statement's premise)
	regd := w.registeredNow()
	exp, shape := regd.Exp, regd.Shape
	if w.k.Server {
		res.probe("bundled-server-emission")
		res.logf("step %d registered: %s none=%v ambiguous=%v advertised=%v dontcare=%v", si, shape, regd.None, regd.Ambiguous, exp.Advertised, exp.DontCare)
		if w.coCarrierLeft && !regd.None {
			res.probe("bundled-server-emission/after-another-carrier-of-the-entity-was-renamed-or-deleted")
		}
	}
	idpInit := st.IdPInit || st.HandBuilt != ""
	// the SP's request
	var ar *saml.AuthnRequest
	var hr *http.Request
	var err error
	if pan := guard(func() {
		ar, err = w.sp.MakeAuthenticationRequest(w.sp.GetSSOBindingLocation(saml.HTTPRedirectBinding), saml.HTTPRedirectBinding, saml.HTTPPostBinding)
		if err == nil {
			u, e := ar.Redirect("rs", w.sp)
			err = e
			if e == nil {
				hr = redirectRequest(u)
			}
		}
	}); pan != nil || err != nil {
		panic(fmt.Sprintf("harness: SP cannot issue a request: %v %v", pan, err))
	}
	advance(ms(30))
	// the IdP's emission, with the randomness recorder on
	w.idp.SessionProvider = fixedSession{sess}
	w.idp.AssertionMaker = nil
	w.rec.drawn, w.rec.on = nil, true
	w.rec.reads, w.rec.failAt, w.rec.failed, w.rec.errIdx = 0, st.RandFailAt, false, st.RandErr
	w.rec.atMost, w.rec.short = st.RandShort, 0
	var rep *reply
	if st.Retry {
		// NewIdpAuthnRequest / Validate / MakeAssertion / WriteResponse by hand; a failed WriteResponse is retried once
		rep = &reply{Header: http.Header{}}
		rep.Panic = guard(func() {
			req, err := saml.NewIdpAuthnRequest(w.idp, redirectRequest(hr.URL))
			if err == nil {
				err = req.Validate()
			}
			if err == nil {
				err = saml.DefaultAssertionMaker{}.MakeAssertion(req, sess)
			}
			if err != nil {
				rep.Code = 400
				return
			}
			for attempt := 0; attempt < 2; attempt++ {
				rec := httptest.NewRecorder()
				if err = req.WriteResponse(rec); err == nil {
					rep.Code, rep.Body = 200, rec.Body.String()
					if attempt > 0 {
						res.probe("response-written-on-retry")
					}
					return
				}
			}
			rep.Code = 500
		})
	} else if st.HandBuilt != "" {
		res.probe("application-built-request/" + st.HandBuilt)
		rep = c08HandBuilt(w, st, sess)
	} else if st.IdPInit {
		res.probe("idp-initiated-emission")
		rep = deliver(http.HandlerFunc(func(rw http.ResponseWriter, r *http.Request) { w.idp.ServeIDPInitiated(rw, r, spEntityID(w.sp), "rs") }), "GET", idpSSO+"/launch", "", "", nil)
	} else if w.k.Server {
		rep = deliver(w.srv, "GET", hr.URL.String(), "", "", nil) // through the server's own routing
	} else {
		rep = deliver(http.HandlerFunc(w.idp.ServeSSO), "GET", hr.URL.String(), "", "", nil)
	}
	w.rec.on = false
	if w.rec.failed {
		res.fire("entropy-read-error")
		res.logf("step %d read %d from the encryption random source failed", si, st.RandFailAt)
	}
	if w.rec.short > 0 {
		res.fire("entropy-short-reads")
		res.logf("step %d the encryption random source handed out fewer bytes than asked for (without error) on some reads", si)
	}
	drawn := append([]byte{}, w.rec.drawn...)
	w.rec.atMost = nil
	w.emitted++

	if rep.Panic != nil && st.HandBuilt == "descriptor-not-named" {
		// nothing left the IdP, and nothing of the world changed: the run goes on, but is counted as excluded
		res.logf("step %d emit session=%d application-built request without descriptor: outcome=PANIC (nothing emitted)", si, st.Session)
		res.probe("idp-panic/application-built-request-without-descriptor")
		res.Excluded = "panic on an application-built request (nothing emitted)"
		return false
	}
	if rep.Panic != nil {
		res.logf("step %d emit session=%d outcome=PANIC", si, st.Session)
		if exp.EncNoX509 {
			res.probe("idp-panic/encryption-descriptor-without-x509")
		} else {
			res.probe("idp-panic/other")
		}
		res.Excluded = "panic (reported under C09)"
		res.logf("panic: %s", short(fmt.Sprint(rep.Panic), 100))
		return true
	}
	form := parseForm(rep.Body)
	if rep.Code != http.StatusOK || form == nil || form.Fields.Get("SAMLResponse") == "" {
		// no form: the IdP refused. Allowed whenever a key (however malformed) is advertised or the region is open.
		res.logf("step %d emit session=%d outcome=ERROR(no form) leak=%v", si, st.Session, containsAny(rep.Body, secrets) != "")
		if leak := containsAny(rep.Body, secrets); leak != "" {
			res.violate(si, "marker-in-clear", "C08/marker-in-clear/error-page", "no user string in anything the IdP emits", "error page contains "+leak, "")
			return true
		}
		switch {
		case regd.None:
			res.probe("not-registered-refused")
		case regd.Ambiguous:
			res.dontcare("several-stored-services-carry-the-entity-with-different-key-layouts")
		case exp.Advertised:
			res.probe("advertised-key-refused")
		case exp.DontCare:
			res.dontcare("empty-encryption-certificate")
		case w.k.LegacyRole == "first":
			// the requested URL is first listed by the key-less role under a binding the IdP cannot answer on: refusing is the IdP's right
			res.dontcare("requested-url-first-listed-under-a-non-post-binding")
		default:
			res.violate(si, "plaintext-path-failed", "C08/no-key/idp-failed/"+shape, "a response (plaintext allowed: no encryption key advertised)", fmt.Sprintf("HTTP %d, no form", rep.Code), "")
			return true
		}
		return false
	}
	if regd.None {
		// a response for an entity that no stored service carries: whether that may be is the registry's property (C19), and the
		// statement's premise (registered metadata) has nothing to evaluate
		res.logf("step %d emit session=%d outcome=FORM although nothing is registered for the addressee", si, st.Session)
		res.probe("response-for-unregistered-entity")
		res.Excluded = "response for an entity no stored service carries (C19's subject)"
		return false
	}
	res.fire("eavesdrop")
	rawResp, derr := base64.StdEncoding.DecodeString(form.Fields.Get("SAMLResponse"))
	root := c08Parse(rawResp)
	if derr != nil || root == nil {
		res.violate(si, "unreadable-emission", "C08/unreadable-emission", "a base64 XML SAMLResponse", "undecodable", "")
		return true
	}
	nPlain, nEnc := c08Count(root, "Assertion"), c08Count(root, "EncryptedAssertion")
	leak := containsAny(rep.Body, secrets)
	if leak == "" {
		leak = containsAny(string(rawResp), secrets)
	}
	if leak == "" {
		leak = containsAny(form.Fields.Get("RelayState")+" "+form.Action, secrets)
	}
	wire := "none"
	switch {
	case nPlain > 0 && nEnc > 0:
		wire = "both"
	case nPlain > 0:
		wire = "plain"
	case nEnc > 0:
		wire = "encrypted"
	}
	res.logf("step %d emit session=%d outcome=FORM wire=%s marker-in-clear=%v", si, st.Session, wire, leak != "")

	if regd.Ambiguous {
		res.dontcare("several-stored-services-carry-the-entity-with-different-key-layouts")
	} else if exp.Advertised {
		if wire != "encrypted" || leak != "" {
			sig := "C08/plaintext-despite-key/" + shape
			if exp.EmptyEncShadows {
				sig = "C08/plaintext-despite-key/empty-encryption-cert-shadows-advertised-key"
			}
			if wire == "encrypted" {
				sig = "C08/marker-in-clear/beside-encrypted-assertion"
			}
			res.violate(si, "plaintext-despite-advertised-key", sig, "EncryptedAssertion only, no user string in clear (or an error)", fmt.Sprintf("wire=%s, in clear: %q", wire, leak), "layout "+shape)
			return true
		}
	} else if exp.DontCare {
		res.dontcare("empty-encryption-certificate")
	}

	// --- who can read it
	reqID := ar.ID
	spFor := w.spWithKey
	if idpInit {
		reqID = ""
		spFor = func(idx int) *saml.ServiceProvider {
			spv := w.spWithKey(idx)
			spv.AllowIDPInitiated = true
			return spv
		}
	}
	own1 := c08Deliver(spFor(c08SPKey), rawResp, reqID)
	own2 := c08Deliver(spFor(c08SPKey2), rawResp, reqID)
	if own1.Panic != nil || own2.Panic != nil {
		res.Excluded = "panic (reported under C09)"
		res.probe("sp-panic/genuine-emission")
		return true
	}
	owner := own1
	ownerKey := c08SPKey
	if !own1.Accept && own2.Accept {
		owner, ownerKey = own2, c08SPKey2
	}
	res.logf("step %d addressee=%s", si, owner)
	if !owner.Accept {
		if (exp.DontCare || regd.Ambiguous) && wire != "plain" {
			return false
		}
		res.violate(si, "addressee-cannot-read", "C08/addressee-rejects/"+wire, "the SP holding the advertised key accepts", "REJECT", privErr(own1.Err))
		return true
	}
	if owner.NameID != sess.NameID || !owner.Values[sess.UserName] || !owner.Values[sess.Groups[1]] || !owner.Values[marker("cv", st.Session)] {
		res.violate(si, "addressee-reads-other-identity", "C08/addressee-identity", "identity of session "+fmt.Sprint(st.Session), owner.NameID, "")
		return true
	}
	if wire != "encrypted" {
		return false
	}
	// after a key roll-over the content must be recoverable with the key the registration advertises NOW
	if adv := regd.OwnKeys; len(adv) == 1 && !adv[ownerKey] {
		res.violate(si, "encrypted-to-retired-key", "C08/encrypted-to-retired-key", "recoverable with the key the registered metadata advertises", fmt.Sprintf("only recoverable with %s, which the SP has retired", rsaKeys[ownerKey].Name), "the registration was replaced earlier in this run")
		return true
	}
	// mis-delivery: the same bytes at an SP with another key, and at Mallory
	for _, other := range []struct {
		name string
		key  int
	}{{"other-sp", c08OtherSPKey}, {"mallory", c08MalloryKey}} {
		d := c08Deliver(spFor(other.key), rawResp, reqID)
		res.fire("misdeliver")
		res.logf("step %d misdelivered-to=%s decision=%s", si, other.name, d)
		if d.Panic != nil {
			res.Excluded = "panic (reported under C09)"
			res.probe("sp-panic/misdelivered")
			return true
		}
		if d.Accept {
			res.violate(si, "readable-with-another-key", "C08/readable-with-another-key/"+other.name, "REJECT (content recoverable with the addressee's key only)", d.String(), "")
			return true
		}
	}
	// --- randomness: IV and CEK of this emission
	ea := c08Child(root, "EncryptedAssertion")
	ed := c08Child(ea, "EncryptedData")
	ek := c08Path(ed, "KeyInfo", "EncryptedKey")
	ct := c08CipherBytes(c08Path(ed, "CipherData", "CipherValue"))
	if ed == nil || ek == nil || len(ct) < 32 {
		res.violate(si, "unexpected-ciphertext-shape", "C08/ciphertext-shape", "EncryptedData with KeyInfo/EncryptedKey and a CipherValue of IV + blocks", "something else", "")
		return true
	}
	iv := ct[:16]
	var cekAny any
	var cerr error
	if pan := guard(func() { cekAny, cerr = xmlenc.Decrypt(rsaKeys[ownerKey].Key, ek) }); pan != nil || cerr != nil {
		res.violate(si, "cek-unrecoverable", "C08/cek-unrecoverable", "the addressee's key recovers the content-encryption key", fmt.Sprintf("%v %v", pan, cerr), "")
		return true
	}
	cek, _ := cekAny.([]byte)
	var mk any
	var merr error
	if pan := guard(func() { mk, merr = xmlenc.Decrypt(rsaKeys[c08MalloryKey].Key, ek) }); pan == nil && merr == nil && mk != nil {
		res.violate(si, "readable-with-another-key", "C08/readable-with-another-key/mallory-recovers-cek", "error", "a key", "")
		return true
	}
	pi, pc := bytes.Index(drawn, iv), bytes.Index(drawn, cek)
	res.logf("step %d randomness drawn>=32=%v iv-drawn-now=%v cek-drawn-now=%v cek-len=%d", si, len(drawn) >= 32, pi >= 0, pc >= 0 && len(cek) > 0, len(cek))
	if w.rec.short > 0 {
		res.probe("randomness-judged-after-short-reads")
	}
	// what left under encryption is only as closed as its key: the harness owns the source and knows every byte it handed out, so a CEK
	// (or IV) that continues with zero bytes the source never delivered has less entropy than was asked for, whatever the reads returned
	cekGot, cekFilled := c08ZeroFilled(drawn, cek)
	ivGot, ivFilled := c08ZeroFilled(drawn, iv)
	delivered := fmt.Sprintf("the source handed out %d bytes in %d reads during this emission", len(drawn), w.rec.reads)
	switch {
	case len(cek) < 16:
		res.violate(si, "weak-cek", "C08/randomness/cek-too-short", ">= 16 bytes", fmt.Sprint(len(cek)), "")
	case pc < 0 && cekFilled:
		res.violate(si, "key-bytes-never-delivered", "C08/randomness/cek-zero-filled-beyond-delivered-bytes", fmt.Sprintf("each of the %d CEK bytes is a byte the random source handed out during this emission", len(cek)),
			fmt.Sprintf("%d delivered byte(s) followed by %d zero bytes the source never handed out", cekGot, len(cek)-cekGot), delivered)
	case pi < 0 && ivFilled:
		res.violate(si, "key-bytes-never-delivered", "C08/randomness/iv-zero-filled-beyond-delivered-bytes", fmt.Sprintf("each of the %d IV bytes is a byte the random source handed out during this emission", len(iv)),
			fmt.Sprintf("%d delivered byte(s) followed by %d zero bytes the source never handed out", ivGot, len(iv)-ivGot), delivered)
	case len(drawn) < 32:
		res.violate(si, "stale-randomness", "C08/randomness/too-few-bytes-drawn", ">= 32 fresh bytes drawn during this emission", fmt.Sprint(len(drawn)), "")
	case pc < 0:
		res.violate(si, "stale-randomness", "C08/randomness/cek-not-drawn-during-emission", "CEK consists of bytes drawn from xmlenc.RandReader during this emission", "not found among the drawn bytes", fmt.Sprintf("emission %d of the run", w.emitted))
	case pi < 0:
		res.violate(si, "stale-randomness", "C08/randomness/iv-not-drawn-during-emission", "IV consists of bytes drawn from xmlenc.RandReader during this emission", "not found among the drawn bytes", fmt.Sprintf("emission %d of the run", w.emitted))
	case pi < pc+len(cek) && pc < pi+len(iv):
		res.violate(si, "stale-randomness", "C08/randomness/iv-overlaps-cek", "IV and CEK are separate draws", "overlapping", "")
	case w.ivs[string(iv)] > 0:
		res.violate(si, "stale-randomness", "C08/randomness/iv-reused", "IV differs from every earlier emission's", fmt.Sprintf("same as emission %d", w.ivs[string(iv)]), "")
	case w.ceks[string(cek)] > 0:
		res.violate(si, "stale-randomness", "C08/randomness/cek-reused", "CEK differs from every earlier emission's", fmt.Sprintf("same as emission %d", w.ceks[string(cek)]), "")
	}
	if res.Violation != nil {
		return true
	}
	if len(w.ivs) > 0 {
		res.probe("second-encrypted-emission-compared")
	}
	w.ivs[string(iv)] = w.emitted
	w.ceks[string(cek)] = w.emitted
	return false
}

// c08ZeroFilled: b is not among the delivered bytes as a whole; got = the longest beginning of b that is (as one stretch), filled = everything
// after it is zero (bytes of a buffer that no read ever wrote to).
func c08ZeroFilled(drawn, b []byte) (got int, filled bool) {
	if len(b) == 0 || bytes.Contains(drawn, b) {
		return len(b), false
	}
	for got = len(b) - 1; got > 0 && !bytes.Contains(drawn, b[:got]); got-- {
	}
	for _, x := range b[got:] {
		if x != 0 {
			return got, false
		}
	}
	return got, true
}

// c08HandBuilt: an application's own IdP-initiated launch. It looks the SP up in the registry, fills in an IdpAuthnRequest by hand
// (the registered metadata, the first POST endpoint - what ServeIDPInitiated does), names the role descriptor or not, makes the
// assertion and writes the response.
func c08HandBuilt(w *c08World, st c08Step, sess *saml.Session) *reply {
	rep := &reply{Header: http.Header{}}
	rep.Panic = guard(func() {
		r := httptest.NewRequest("GET", idpSSO+"/launch", nil)
		md, err := w.idp.ServiceProviderProvider.GetServiceProvider(r, spEntityID(w.sp))
		if err != nil {
			rep.Code = http.StatusNotFound
			return
		}
		req := &saml.IdpAuthnRequest{IDP: w.idp, HTTPRequest: r, RelayState: "rs", Now: saml.TimeNow(), ServiceProviderMetadata: md}
		var role *saml.SPSSODescriptor
		for i := range md.SPSSODescriptors {
			for _, ep := range md.SPSSODescriptors[i].AssertionConsumerServices {
				if ep.Binding == saml.HTTPPostBinding && req.ACSEndpoint == nil {
					ep := ep
					req.ACSEndpoint = &ep
					d := md.SPSSODescriptors[i]
					role = &d
				}
			}
		}
		if req.ACSEndpoint == nil {
			rep.Code = http.StatusInternalServerError
			return
		}
		if st.HandBuilt == "descriptor-named" {
			req.SPSSODescriptor = role
		}
		if st.AppMaker {
			// the assertion is made elsewhere, on a complete description of the login, and handed over
			whole := *req
			whole.SPSSODescriptor = role
			err = saml.DefaultAssertionMaker{}.MakeAssertion(&whole, sess)
			req.Assertion = whole.Assertion
		} else {
			err = saml.DefaultAssertionMaker{}.MakeAssertion(req, sess)
		}
		if err != nil {
			rep.Code = http.StatusInternalServerError
			return
		}
		rec := httptest.NewRecorder()
		if err = req.WriteResponse(rec); err != nil {
			rep.Code = http.StatusInternalServerError
			return
		}
		rep.Code, rep.Body = http.StatusOK, rec.Body.String()
	})
	return rep
}

// ---- SP side

const c08ReqID = "id-c08-req"

func c08KeyFor(who string) (bool, int) {
	switch who {
	case "trusted":
		return true, c08IdPKey
	case "mallory":
		return true, c08MalloryKey
	}
	return false, 0
}

func c08BaseSpec(w *c08World, i int, respSign, asrtSign string) RespSpec {
	ent := w.idpMD.EntityID
	acs := w.sp.AcsURL.String()
	rs, rk := c08KeyFor(respSign)
	as, ak := c08KeyFor(asrtSign)
	a := AsrtSpec{ID: fmt.Sprintf("id-c08-as-%d", i), Issuer: ent, NameID: marker("fnid", i), SessionIndex: marker("fidx", i),
		Confs:     []ConfSpec{{NotOnOrAfter: i64(w.k.MaxIssueDelayMs), Recipient: acs, InResponseTo: c08ReqID}},
		NotBefore: i64(0), NotOnOrAfter: i64(w.k.MaxIssueDelayMs), Audiences: []string{spEntityID(w.sp)},
		Attrs: []AttrSpec{{Name: "uid", Values: []string{marker("fun", i)}}}, Sign: as, SignKey: ak}
	return RespSpec{ID: fmt.Sprintf("id-c08-resp-%d", i), Issuer: sp(ent), Destination: acs, InResponseTo: c08ReqID, Status: saml.StatusSuccess,
		Sign: rs, SignKey: rk, Assertions: []AsrtSpec{a}}
}

func c08ApplyDefect(w *c08World, s *RespSpec, defect string) {
	a := &s.Assertions[0]
	far := int64(3_600_000)
	mid, mcs := w.k.MaxIssueDelayMs, w.k.MaxClockSkewMs
	if strings.HasSuffix(defect, "+declarations") {
		defect = strings.TrimSuffix(defect, "+declarations")
		decls := []NSDecl{{On: "Conditions", Prefix: "NotOnOrAfter", Value: "@ms:86400000"}, {On: "Conditions", Prefix: "NotBefore", Value: "@ms:-86400000"},
			{On: "SubjectConfirmationData", Prefix: "NotOnOrAfter", Value: "@ms:86400000"}, {On: "SubjectConfirmationData", Prefix: "Recipient", Value: spBase + "/saml/acs"},
			{On: "SubjectConfirmationData", Prefix: "InResponseTo", Value: c08ReqID}}
		s.NSDecls = decls
	}
	switch defect {
	case "none":
	case "conditions-expired":
		a.NotOnOrAfter = i64(-(mcs + far))
		a.NotBefore = i64(-(mcs + 2*far))
	case "not-yet-valid":
		a.NotBefore = i64(mcs + far)
		a.NotOnOrAfter = i64(mcs + 2*far)
	case "confirmation-expired":
		a.Confs[0].NotOnOrAfter = i64(-(mcs + far))
	case "assertion-issued-long-ago":
		a.IssueMs = -(mid + far)
	case "response-issued-long-ago":
		s.IssueMs = -(mid + far)
	case "wrong-audience":
		a.Audiences = []string{"https://other.example.com/saml/metadata"}
	case "wrong-recipient":
		a.Confs[0].Recipient = "https://other.example.com/saml/acs"
	case "wrong-in-response-to":
		a.Confs[0].InResponseTo = "id-someone-elses-request"
	case "wrong-response-in-response-to":
		s.InResponseTo = "id-someone-elses-request"
	case "wrong-issuer":
		a.Issuer = "https://other-idp.example.com/metadata"
	case "wrong-destination":
		s.Destination = "https://other.example.com/saml/acs"
	case "bad-status":
		s.Status = "urn:oasis:names:tc:SAML:2.0:status:Responder"
	default:
		panic("harness: unknown defect " + defect)
	}
}

// c08Inner: the same response once with the assertion in plaintext, once encrypted to the SP.
func c08Inner(w *c08World, res *Result, si int, st c08Step) bool {
	t0 := time.Now()
	build := func(encrypt bool) []byte {
		s := c08BaseSpec(w, si, st.RespSign, st.AsrtSign)
		c08ApplyDefect(w, &s, st.Defect)
		s.Assertions[0].Encrypt, s.Assertions[0].EncryptTo = encrypt, c08SPKey
		s.Assertions[0].EncTransport, s.Assertions[0].EncCipher = st.Transport, st.Cipher
		return elBytes(BuildResponseEl(&s, t0))
	}
	plainDoc, encDoc := build(false), build(true)
	advance(ms(40))
	dp := c08Deliver(w.sp, plainDoc, c08ReqID)
	de := c08Deliver(w.sp, encDoc, c08ReqID)

	sigOK := st.RespSign == "trusted" || (st.RespSign == "none" && st.AsrtSign == "trusted")
	expect := "REJECT"
	switch {
	case st.RespSign == "trusted" && st.AsrtSign == "mallory":
		expect = "DONT_CARE" // covered by the Response signature, yet carries a signature that does not verify: the statement does not pick a side
		if st.Defect != "none" {
			expect = "REJECT"
		}
	case sigOK && st.Defect == "none":
		expect = "ACCEPT"
	}
	res.logf("step %d inner defect=%s response-signed-by=%s assertion-signed-by=%s encrypted-with=%s expect=%s plaintext=%s encrypted=%s", si, st.Defect, st.RespSign, st.AsrtSign, c08Sender(st), expect, dp, de)
	res.probe("sp-side/sender-encrypts-with/" + c08Sender(st))
	if st.RespSign != "trusted" && st.AsrtSign != "trusted" {
		res.probe("forged-by-party-without-idp-key")
	}
	if dp.Panic != nil || de.Panic != nil {
		res.Excluded = "panic (reported under C09)"
		res.probe("sp-panic/inner")
		return true
	}
	want := marker("fnid", si)
	if de.Accept && de.NameID != want || dp.Accept && dp.NameID != want {
		res.violate(si, "wrong-identity", "C08/sp/inner-identity", want, de.NameID+"/"+dp.NameID, "")
		return true
	}
	sig := fmt.Sprintf("%s/response-%s/assertion-%s", st.Defect, st.RespSign, st.AsrtSign)
	if expect == "DONT_CARE" {
		res.dontcare("unverifiable-assertion-signature-under-trusted-response-signature")
	}
	if (expect == "ACCEPT" && !dp.Accept) || (expect == "REJECT" && dp.Accept) {
		// the plaintext path disagrees with the statement-level expectation: that is C01–C04's subject, not this property's
		res.probe("plaintext-path-disagrees-with-expectation")
		res.Excluded = "plaintext decision differs from expectation (C01-C04's subject)"
		return true
	}
	if dp.Accept != de.Accept {
		res.violate(si, "encrypted-path-differs-from-plaintext", "C08/sp/encrypted-differs-from-plaintext/"+sig, "same decision as the plaintext form: "+dp.String(), de.String(), privErr(de.Err))
		return true
	}
	if expect == "REJECT" && de.Accept {
		res.violate(si, "encrypted-path-differs-from-plaintext", "C08/sp/accepted-invalid-encrypted/"+sig, "REJECT", de.String(), "")
		return true
	}
	if expect == "ACCEPT" && !de.Accept {
		res.violate(si, "encrypted-path-differs-from-plaintext", "C08/sp/rejected-valid-encrypted/"+sig, "ACCEPT", de.String(), privErr(de.Err))
		return true
	}
	return false
}

// c08Tamper: a genuine encrypted response (assertion signed by the trusted key) whose ciphertext is altered.
func c08Tamper(w *c08World, res *Result, si int, st c08Step) bool {
	t0 := time.Now()
	mk := func(i int) *etree.Element {
		s := c08BaseSpec(w, i, "none", "trusted")
		s.Assertions[0].Encrypt, s.Assertions[0].EncryptTo = true, c08SPKey
		s.Assertions[0].EncTransport, s.Assertions[0].EncCipher = st.Transport, st.Cipher
		return BuildResponseEl(&s, t0)
	}
	signAfter := st.SignAfter
	switch st.Op {
	case "flip-data", "flip-key", "two-keys":
		signAfter = false // only structural damage is also tried under a trusted signature made after the damage
	}
	finish := func(el *etree.Element) []byte {
		if signAfter {
			el = placeSignature(signEnveloped(rsaKeys[c08IdPKey], "", el))
		}
		return elBytes(el)
	}
	// control: untouched, it is accepted (keeps the step from being vacuous)
	ctl := c08Deliver(w.sp, finish(mk(si)), c08ReqID)
	if ctl.Panic != nil {
		res.Excluded = "panic (reported under C09)"
		res.probe("sp-panic/control")
		return true
	}
	if !ctl.Accept || ctl.NameID != marker("fnid", si) {
		res.violate(si, "genuine-encrypted-rejected", "C08/sp/genuine-encrypted-rejected", "ACCEPT", ctl.String(), privErr(ctl.Err))
		return true
	}
	el := mk(si)
	other := mk(1000 + si) // another message to the same SP: other CEK, other IV
	ea := c08Child(el, "EncryptedAssertion")
	ed := c08Child(ea, "EncryptedData")
	ki := c08Child(ed, "KeyInfo")
	ek := c08Child(ki, "EncryptedKey")
	dataCV := c08Path(ed, "CipherData", "CipherValue")
	keyCV := c08Path(ek, "CipherData", "CipherValue")
	oed := c08Path(other, "EncryptedAssertion", "EncryptedData")
	oek := c08Path(oed, "KeyInfo", "EncryptedKey")
	if ek == nil || dataCV == nil || keyCV == nil || oek == nil {
		panic("harness: unexpected shape of the stub's EncryptedAssertion")
	}
	ct, kt := c08CipherBytes(dataCV), c08CipherBytes(keyCV)
	expect := "REJECT"
	detail := ""
	switch st.Op {
	case "flip-data":
		nblk := len(ct)/16 - 1 // ciphertext blocks after the IV
		var pos int
		switch st.Arg % 3 {
		case 0:
			pos, detail = st.Arg/3%16, "iv"
		case 1:
			pos, detail = 16+st.Arg/3%16, "first-block"
		default:
			pos, detail = 16+16*(nblk/2)+st.Arg/3%16, "middle-block" // never the last block: a damaged all-padding block can legitimately decrypt to the same content
		}
		if nblk < 4 {
			panic("harness: ciphertext too short for the flip classes")
		}
		ct[pos] ^= 1 << uint(st.Bit%8)
		c08SetCipher(dataCV, ct)
	case "flip-key":
		kt[st.Arg%len(kt)] ^= 1 << uint(st.Bit%8)
		c08SetCipher(keyCV, kt)
	case "truncate-data":
		n := st.Arg
		if n < 0 {
			n = len(ct) + n
		}
		if n > len(ct) {
			n = len(ct) - 1
		}
		detail = "block-aligned"
		if n%16 != 0 {
			detail = "not-block-aligned"
		}
		detail += "/" + c08BlockClass(n, len(ct))
		c08SetCipher(dataCV, ct[:n])
	case "truncate-key":
		n := []int{0, 1, len(kt) / 2, len(kt) - 1}[st.Arg%4]
		detail = []string{"0", "1", "half", "all-but-one"}[st.Arg%4]
		c08SetCipher(keyCV, kt[:n])
	case "swap-key":
		ki.RemoveChild(ek)
		ki.AddChild(oek.Copy())
	case "swap-data":
		c08SetCipher(dataCV, c08CipherBytes(c08Path(oed, "CipherData", "CipherValue")))
	case "remove-key":
		if st.Arg%2 == 0 {
			ed.RemoveChild(ki)
			detail = "no-keyinfo"
		} else {
			ki.RemoveChild(ek)
			detail = "empty-keyinfo"
		}
	case "two-keys":
		// several EncryptedKeys are legal (several recipients): an SP may use either; acceptance of the genuine content is not a violation
		expect = "DONT_CARE"
		if st.Arg%2 == 0 {
			ki.InsertChildAt(0, oek.Copy())
			detail = "foreign-first"
		} else {
			ki.AddChild(oek.Copy())
			detail = "genuine-first"
		}
	case "empty-cipher-value":
		dataCV.SetText("")
	case "not-base64-cipher-value":
		dataCV.SetText("@@@ not base64 @@@")
	case "wrong-algorithm":
		em := c08Child(ed, "EncryptionMethod")
		switch st.Arg % 3 {
		case 0:
			// a block cipher whose key is not as long as the one that was wrapped
			if st.Cipher == "aes256-cbc" {
				em.CreateAttr("Algorithm", "http://www.w3.org/2001/04/xmlenc#aes128-cbc")
				detail = "aes128-for-256-bit-key"
			} else {
				em.CreateAttr("Algorithm", "http://www.w3.org/2001/04/xmlenc#aes256-cbc")
				detail = "aes256-for-" + map[string]string{"": "128", "aes128-cbc": "128", "aes192-cbc": "192"}[st.Cipher] + "-bit-key"
			}
		case 1:
			em.CreateAttr("Algorithm", "http://example.com/no-such-algorithm")
			detail = "unknown"
		default:
			ed.RemoveChild(em)
			detail = "absent"
		}
	case "mis-keyed":
		s := c08BaseSpec(w, si, "none", "trusted")
		s.Assertions[0].Encrypt, s.Assertions[0].EncryptTo = true, c08OtherSPKey
		s.Assertions[0].EncTransport, s.Assertions[0].EncCipher = st.Transport, st.Cipher
		el = BuildResponseEl(&s, t0)
	case "junk-plaintext":
		junk := []string{"", "not xml at all", "<a>", "<saml:Assertion xmlns:saml=\"urn:oasis:names:tc:SAML:2.0:assertion\">", "<x/>", "<a/><b/>", "\x00\x01\x02\xff\xfe"}[st.Arg%7]
		detail = fmt.Sprintf("junk%d", st.Arg%7)
		ned, err := senderEncrypter(st.Transport, st.Cipher).Encrypt(rsaKeys[c08SPKey].Cert, []byte(junk), nil)
		if err != nil {
			panic(fmt.Sprintf("harness: encrypt junk: %v", err))
		}
		ned.CreateAttr("Type", "http://www.w3.org/2001/04/xmlenc#Element")
		ea.RemoveChild(ed)
		ea.AddChild(ned)
	case "key-as-direct-child":
		// EncryptedKey moved next to EncryptedData (the other legal placement), unchanged: still decryptable
		expect = "ACCEPT"
		ki.RemoveChild(ek)
		ed.RemoveChild(ki)
		ek.CreateAttr("xmlns:ds", "http://www.w3.org/2000/09/xmldsig#") // was declared on the KeyInfo wrapper
		ea.AddChild(ek)
	case "keyless-sender":
		// A sender that holds no key at all - not the IdP's, and it makes no use of the SP's public one either: the EncryptedKey's content is
		// a number below the SP's modulus and nothing more (no private key opens it as the transport it names: the reference for that is
		// crypto/rsa itself), and the data - a genuine assertion, signed by the IdP, as anyone who once saw one in clear has it - is encrypted
		// under a content key that takes no secret to know. Whatever the SP's private key cannot open is a validation failure.
		spKey := rsaKeys[c08SPKey].Key.(*rsa.PrivateKey)
		noise := make([]byte, spKey.Size())
		_, _ = io.ReadFull(newDetReader(uint64(st.Arg), uint64(si), 3), noise[1:])
		if c08Opens(spKey, st.Transport, noise) {
			res.dontcare("noise-happens-to-be-a-well-formed-key-transport")
			return false
		}
		bc := senderBlockCipher(st.Cipher)
		key := make([]byte, bc.KeySize())
		detail = c08PublicKeys[st.Arg%len(c08PublicKeys)]
		switch detail {
		case "all-zero":
		case "all-ones":
			for i := range key {
				key[i] = 0xff
			}
		case "counting":
			for i := range key {
				key[i] = byte(i)
			}
		case "leading-bytes-of-the-encrypted-key":
			copy(key, noise[1:])
		case "leading-bytes-of-the-sp-certificate":
			copy(key, rsaKeys[c08SPKey].Cert.Raw)
		}
		s := c08BaseSpec(w, si, "none", "trusted")
		plain := elBytes(buildAssertionEl(&s.Assertions[0], t0, s.TimeForm, s.SigMethod).Copy())
		ned, err := bc.Encrypt(key, plain, nil)
		if err != nil {
			panic(fmt.Sprintf("harness: encrypt under a public key: %v", err))
		}
		ned.CreateAttr("Type", "http://www.w3.org/2001/04/xmlenc#Element")
		nek := ek.Copy() // the genuine EncryptedKey's form (method, digest, recipient certificate), with the noise for content
		c08SetCipher(c08Path(nek, "CipherData", "CipherValue"), noise)
		nki := etree.NewElement("ds:KeyInfo")
		nki.CreateAttr("xmlns:ds", "http://www.w3.org/2000/09/xmldsig#")
		nki.AddChild(nek)
		ned.InsertChildAt(c08Child(ned, "CipherData").Index(), nki)
		ea.RemoveChild(ed)
		ea.AddChild(ned)
		res.probe("sp-side/keyless-sender/" + firstNonEmpty(st.Transport, "rsa-oaep-mgf1p") + "/" + detail)
	default:
		panic("harness: unknown tamper op " + st.Op)
	}
	res.fire("tamper")
	res.probe("sp-side/sender-encrypts-with/" + c08Sender(st))
	d := c08Deliver(w.sp, finish(el), c08ReqID)
	res.logf("step %d tamper op=%s %s encrypted-with=%s signed-after=%v expect=%s observed=%s", si, st.Op, detail, c08Sender(st), signAfter, expect, d)
	if d.Panic != nil {
		// a recovered panic in a parse call leaves the world intact: the run goes on, but is counted as excluded
		res.probe("sp-panic/" + st.Op + "/" + strings.SplitN(detail, "/", 2)[0])
		res.Excluded = "panic (reported under C09)"
		res.logf("panic: %s", short(fmt.Sprint(d.Panic), 100))
		return false
	}
	if d.Accept && d.NameID != marker("fnid", si) {
		res.violate(si, "wrong-identity", "C08/sp/tampered-identity/"+st.Op, marker("fnid", si), d.NameID, "")
		return true
	}
	switch expect {
	case "REJECT":
		if d.Accept {
			res.violate(si, "tampered-ciphertext-accepted", "C08/sp/accepted-tampered/"+st.Op+c08Dash(detail), "REJECT (validation failure)", d.String(), fmt.Sprintf("signed-after=%v", signAfter))
			return true
		}
	case "ACCEPT":
		if !d.Accept {
			res.violate(si, "decryptable-rejected", "C08/sp/rejected-decryptable/"+st.Op, "ACCEPT", d.String(), privErr(d.Err))
			return true
		}
	default:
		res.dontcare("several-encrypted-keys")
	}
	return false
}

// c08Sender: the sender's choice of key transport and block cipher, for logs and counters.
func c08Sender(st c08Step) string {
	return firstNonEmpty(st.Transport, "rsa-oaep-mgf1p") + "+" + firstNonEmpty(st.Cipher, "aes128-cbc")
}

// c08Opens: does the private key open ct as the named key transport? Judged by crypto/rsa, not by the library under test.
func c08Opens(key *rsa.PrivateKey, transport string, ct []byte) bool {
	var err error
	switch transport {
	case "", "rsa-oaep-mgf1p":
		_, err = rsa.DecryptOAEP(sha1.New(), nil, key, ct, nil)
	case "rsa-1_5":
		_, err = rsa.DecryptPKCS1v15(nil, key, ct)
	default:
		panic("harness: unknown key transport " + transport)
	}
	return err == nil
}

func c08Dash(s string) string {
	if s == "" {
		return ""
	}
	return "/" + strings.ReplaceAll(s, " ", "-")
}

func c08BlockClass(n, full int) string {
	switch {
	case n == 0:
		return "empty"
	case n < 16:
		return "less-than-iv"
	case n == 16:
		return "iv-only"
	case n >= full-16:
		return "last-block-cut"
	case (n-16)/16 > 4:
		return "many-blocks"
	}
	return fmt.Sprintf("%d-blocks", (n-16)/16)
}

// ---------------------------------------------------------------- simplification

func simplifyEncrypt(p *Plan) []*Plan {
	var out []*Plan
	k := decode[c08Knobs](p.Knobs)
	if k.MaxIssueDelayMs != 90_000 || k.MaxClockSkewMs != 180_000 {
		c := p.Clone()
		k2 := k
		k2.MaxIssueDelayMs, k2.MaxClockSkewMs = 90_000, 180_000
		c.Knobs = mustJSON(k2)
		out = append(out, c)
	}
	// fewer descriptors, fewer certificates, no EncryptionMethod children
	for i := range k.Layout {
		c := p.Clone()
		k2 := k
		k2.LayoutName = "minimised"
		k2.Layout = append(append([]c08KD{}, k.Layout[:i]...), k.Layout[i+1:]...)
		c.Knobs = mustJSON(k2)
		out = append(out, c)
		if len(k.Layout[i].Certs) > 1 {
			for j := range k.Layout[i].Certs {
				c := p.Clone()
				k2 := decode[c08Knobs](p.Knobs)
				k2.LayoutName = "minimised"
				cs := k2.Layout[i].Certs
				k2.Layout[i].Certs = append(append([]c08Cert{}, cs[:j]...), cs[j+1:]...)
				c.Knobs = mustJSON(k2)
				out = append(out, c)
			}
		}
		if k.Layout[i].Methods {
			c := p.Clone()
			k2 := decode[c08Knobs](p.Knobs)
			k2.LayoutName = "minimised"
			k2.Layout[i].Methods = false
			c.Knobs = mustJSON(k2)
			out = append(out, c)
		}
	}
	for i, raw := range p.Steps {
		st := decode[c08Step](raw)
		emit := func(f func(s *c08Step)) {
			s2 := decode[c08Step](raw)
			f(&s2)
			c := p.Clone()
			c.Steps[i] = mustJSON(s2)
			out = append(out, c)
		}
		switch st.Kind {
		case "emit":
			if st.Session != 0 {
				emit(func(s *c08Step) { s.Session = 0 })
			}
		case "inner":
			if st.RespSign != "none" {
				emit(func(s *c08Step) { s.RespSign = "none" })
			}
			if st.AsrtSign != "trusted" {
				emit(func(s *c08Step) { s.AsrtSign = "trusted" })
			}
		case "tamper":
			if st.SignAfter {
				emit(func(s *c08Step) { s.SignAfter = false })
			}
			if st.Arg > 2 && st.Op != "truncate-data" {
				emit(func(s *c08Step) { s.Arg = s.Arg % 3 })
			}
			if st.Bit != 0 {
				emit(func(s *c08Step) { s.Bit = 0 })
			}
		}
	}
	return out
}

func init() {
	register(&Profile{
		ID: "C08", Name: "encrypt", Level: "exploration",
		Rule: "each run: one world (library IdP; the addressee SP registered with its own published metadata whose KeyDescriptors are replaced by a drawn layout: 30 named layouts {use=encryption, use omitted, signing-only, none, several descriptors in both orders, two encryption certs, line-wrapped base64, not-base64, garbage DER, truncated DER, empty, white space, ECDSA cert, no X509Certificate element, malformed-then-valid, empty-then-valid, two certificates in one descriptor} or 1-3 random descriptors, EncryptionMethod children on/off; MaxIssueDelay/MaxClockSkew drawn) and 2-4 emissions (sessions 0-2, same and different) + 0-3 SP-side steps, shuffled. Emission: a real SP request answered by ServeSSO; an eavesdropper scans the HTML and the decoded SAMLResponse for the session's 13 marker strings; the response is handed to SPs holding the addressee's two keys (must accept, right identity), another SP's key and Mallory's key (must reject); the bytes drawn from xmlenc.RandReader during the emission are recorded and the wire IV and the CEK (recovered with the addressee's key) must be separate draws of this emission and differ from all earlier emissions; in about one emission in five the source hands out at most 1..k bytes per call without error (k from {1,2,3,7,15,31}, a drawn list of 1-6 cuts cycled over the reads of the emission), and CEK and IV must consist of bytes the source delivered only - a key or IV that goes on with zero bytes nobody delivered is reported. SP side: the sender of every SP-side step encrypts with a drawn key transport (rsa-oaep-mgf1p, rsa-1_5) and block cipher (aes128/192/256-cbc); 'inner' = foreign-IdP response with one of 13 defects (windows, audience, recipient, InResponseTo, issuer, destination, status) x response/assertion signed by trusted key, Mallory or nobody, delivered once in plaintext and once encrypted to the SP (decisions must agree and match the expectation); 'tamper' = genuine encrypted response with one of 17 ciphertext alterations (bit flips in IV/first/middle block or in the wrapped key, truncation to 0..4 blocks+-1 byte, swapped/removed/duplicated EncryptedKey, swapped data, empty/non-base64 CipherValue, wrong/unknown/absent algorithm, encrypted to another key, junk plaintext, and a sender that holds no key at all: the EncryptedKey's content is noise below the SP's modulus that no private key opens as the transport it names, the data - a genuine IdP-signed assertion - encrypted under a content key that takes no secret to know {all-zero, all-ones, counting, leading bytes of the EncryptedKey's content, leading bytes of the SP's certificate}), for structural damage also with the trusted key signing the Response after the damage. Application-built requests: about one emission in 25 is an application's own IdP-initiated launch, which fills in the IdpAuthnRequest by hand (registered metadata, first POST endpoint) and names the role descriptor or not, the assertion made by DefaultAssertionMaker on that request or elsewhere on a complete copy; whatever is emitted is judged by the registered metadata as every other emission. Bundled server (30% of runs): the IdP is samlidp.Server on a fault-free store; the registry is the result of a drawn history of PUT /services/<a|b|c> (the addressee's or another SP's metadata, with the run's layout or one of {none, signing-only, enc, nouse}), DELETE and restarts, drawn so that names and entity IDs are re-used (several services carrying one entity ID, a service overwritten with the other entity); a model of the store (name -> entity, layout) says per emission what is registered for the addressee: nothing (a refusal is expected), one layout or several that agree on the key (judged as above), or several that disagree (declared don't-care). Non-trivial = a key, an open region or a panic layout is in play, the run has an SP-side step, or the IdP is the bundled server; distinct = distinct abstract log",
		Gen:  genEncrypt, Exec: execEncrypt, Simplify: simplifyEncrypt,
		RunsQuick: 3000, RunsThorough: 300000,
		Assumptions: []string{
			"'a key is advertised' = some KeyDescriptor with use=\"encryption\" or without use carries certificate text and no empty certificate element; signing-only descriptors never count",
			"declared don't-care (DESIGN.md §7, extended from use=\"encryption\" to descriptors without use): no key advertised in that sense, but a descriptor that could carry an encryption key contains an empty or white-space-only certificate element, or a use=\"encryption\" descriptor has no certificate element at all",
			"freshness is observed through the library's own randomness seam (xmlenc.RandReader): an implementation that draws IV or CEK elsewhere is reported as not verifiable rather than trusted",
			"bit flips are only placed in the IV, the first and a middle ciphertext block (a damaged all-padding last block can decrypt to identical content) and only under an unsigned Response, where the decrypted assertion's own signature must verify",
			"several EncryptedKey elements are a declared don't-care (several recipients are legal)",
			"an IdP or SP panic ends the run as excluded (totality is C09's subject); counted with probes",
			"short reads: a random source may return fewer bytes than asked for without error (io.Reader); the harness owns the source, so 'made of delivered bytes' is decided against the bytes it handed out during the emission, not against what the implementation thinks it read",
			"keyless sender: 'the SP's private key cannot open it' is decided by crypto/rsa (DecryptPKCS1v15 / DecryptOAEP with the SP's key on the EncryptedKey's content), not by the library under test; noise that happens to be a well-formed key transport (probability below 2^-16) is a declared don't-care",
			"an application-built IdpAuthnRequest that names no role descriptor is an input like any other: if a response is emitted it is judged by the registered metadata; a panic (the pinned tree) emits nothing, the run goes on and is counted as excluded",
			"bundled server: 'the registered SP metadata' is the metadata of the stored service(s) carrying the SP's entity ID according to a model of the acknowledged PUT/DELETE calls; when several stored services carry it and their key descriptors disagree about an encryption key, the statement does not say which one is 'the' registered metadata: declared don't-care (several-stored-services-carry-the-entity-with-different-key-layouts); a response for an entity no stored service carries is C19's subject (excluded)",
		},
		Components: map[string][]string{
			"real": {"saml.IdentityProvider.ServeSSO (Validate, DefaultAssertionMaker, MakeAssertionEl, MakeResponse, WriteResponse)", "saml.ServiceProvider.MakeAuthenticationRequest/Redirect/ParseXMLResponse", "xmlenc (encrypt, decrypt)", "goxmldsig", "etree", "html/template", "samlsp.ParseMetadata", "samlidp.Server (New/initializeServices, PUT and DELETE /services/<name>, /sso routing, GetServiceProvider) in bundled-server runs"},
			"stub": {"eavesdropper / mis-delivering network / Mallory (the simulator)", "foreign IdP for the SP-side steps (library schema types + goxmldsig + xmlenc)", "browser (HTML5 form parse)", "recording reader in front of the deterministic xmlenc.RandReader (can fail one read, can cut reads short)", "the bundled server's store (the simulator's sorted in-memory store, no faults here) and its session provider (the run's session is handed in directly)", "the application that builds IdpAuthnRequests by hand"},
		},
	})
}
