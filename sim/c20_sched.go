//go:build sched

package samlsim

import (
	"bytes"
	"encoding/json"
	"encoding/xml"
	"fmt"
	"html/template"
	mrand "math/rand/v2"
	"net/http"
	"net/url"
	"os"
	"runtime"
	"sort"
	"strings"
	"sync"
	"sync/atomic"
	"testing"
	"time"

	"github.com/anishathalye/porcupine"
	"github.com/crewjam/saml"
	"github.com/crewjam/saml/samlidp"
	"github.com/crewjam/saml/simsync"
	"golang.org/x/crypto/bcrypt"
)

// C20 — concurrency of the bundled IdP server and its in-memory store (profile `sched`).
//
// Built with -race against a scratch copy of /repo in which samlidp's mutex fields are
// simsync types. Caller "threads" are goroutines that run one at a time: the scheduler
// below decides, from the plan, which task proceeds at every lock acquisition and every
// store operation. All scheduler hand-offs are hidden from the race detector
// (runtime.RaceDisable), so the only happens-before edges it sees are the program's own.

// ---------------------------------------------------------------- plan

type schedKnobs struct {
	Mode       string `json:"mode"`     // "server": HTTP requests against samlidp.Server; "store": clients on MemoryStore
	Strategy   string `json:"strategy"` // "random" | "pct"
	SchedSeed  uint64 `json:"sched_seed"`
	PCTChanges int    `json:"pct_changes"`
	// explicit PCT parameters (targeted plans): steps at which the running task is demoted, initial priorities per task
	// Procs: runtime.GOMAXPROCS while the server is created and the requests run (part of the environment the code must not depend on; 0: unchanged)
	Procs int `json:"gomaxprocs,omitempty"`
	// Aliases (server mode): the store holds two more service names carrying sp1's entity ID before the tasks start
	Aliases  bool  `json:"service_aliases,omitempty"`
	ChangeAt []int `json:"pct_change_at,omitempty"`
	Prio     []int `json:"pct_priorities,omitempty"`
	// AttrServices (server mode): the AttributeConsumingService elements in the metadata of every registered provider, in document
	// order (nil: one service asking for six attributes; a pointer to an empty list: none at all)
	AttrServices *[]attrService `json:"attribute_services,omitempty"`
	// CustomLoginForm (server mode): the application supplies its own login form (samlidp.Options.LoginFormTemplate): one template
	// value that every request without a session renders
	CustomLoginForm bool `json:"custom_login_form_template,omitempty"`
}

// attrService is one AttributeConsumingService element of a provider's metadata.
type attrService struct {
	Default string   `json:"is_default,omitempty"` // the isDefault attribute: "" (absent) | "true" | "false"
	Attrs   []string `json:"requested,omitempty"`  // Name of each RequestedAttribute, in document order; '#' stands for the run's salt
}

// attrNamePool: the names providers ask for; attrNameFormat: their name formats (names that are not listed there are of the basic format).
var attrNamePool = []string{"email", "uid", "e-mail.address", "given_name", "surname", "cn", "groups", "eduPersonAffiliation", "e-mail.#", "u.i.d #", "urn:oid:0.9.2342.19200300.100.1.3"}

var attrNameFormat = map[string]string{
	"e-mail.address":                    "urn:oasis:names:tc:SAML:2.0:attrname-format:unspecified",
	"u.i.d #":                           "urn:oasis:names:tc:SAML:2.0:attrname-format:unspecified",
	"surname":                           "urn:oasis:names:tc:SAML:2.0:attrname-format:unspecified",
	"urn:oid:0.9.2342.19200300.100.1.3": "urn:oasis:names:tc:SAML:2.0:attrname-format:uri",
}

// ssoTaskKinds: the requests that make the IdP issue an assertion, and the name under which their provider is registered.
var ssoTaskKinds = map[string]string{"sso-cookie": "sp1", "sso-login": "sp1", "shortcut": "sp1", "shortcut-suffix": "sp1", "sso-noacs": "sp3"}

type storeOp struct {
	Op  string `json:"op"` // get put delete list
	Key string `json:"key"`
	Val string `json:"val,omitempty"`
}

type schedTask struct {
	Kind string    `json:"kind"` // server mode: request kind; store mode: "client"
	Arg  string    `json:"arg,omitempty"`
	Ops  []storeOp `json:"ops,omitempty"`
}

var serverTaskKinds = []string{
	"metadata", "sso-cookie", "sso-login", "login", "login-bad", "shortcut", "shortcut-suffix",
	"list-services", "get-service", "put-service", "put-service-other", "delete-service",
	"list-users", "get-user", "put-user", "delete-user",
	"list-sessions", "get-session", "delete-session",
	"list-shortcuts", "get-shortcut", "put-shortcut", "delete-shortcut",
	"put-service-rename", "sso-noacs", "sso-noacs",
}

func genSched(g *Rng, tier string) *Plan {
	k := schedKnobs{Mode: "server", Strategy: Pick(g, "random", "pct"), SchedSeed: g.Uint64(), PCTChanges: 1 + g.Intn(3)}
	if g.Bool(0.25) {
		k.Mode = "store"
	}
	p := &Plan{Knobs: mustJSON(k)}
	if k.Mode == "store" && g.Bool(0.35) {
		// one client changes keys of several collections in a fixed order while others list a prefix that spans them:
		// a listing is one atomic observation of the whole map, whatever the prefix
		uniq, nsetup := 0, 0
		k.Strategy, k.ChangeAt = "pct", []int{1 + g.Intn(24)}
		if g.Bool(0.3) {
			k.ChangeAt = append(k.ChangeAt, 1+g.Intn(40))
		}
		if g.Bool(0.7) {
			// the collections exist already
			pre := schedTask{Kind: "setup"}
			for _, key := range []string{"/a/k0", "/b/k0", "/c/k0"} {
				if g.Bool(0.8) {
					uniq++
					pre.Ops = append(pre.Ops, storeOp{Op: "put", Key: key, Val: fmt.Sprintf("v%d", uniq)})
				}
			}
			p.Steps = append(p.Steps, mustJSON(pre))
			nsetup = 1
		}
		w := schedTask{Kind: "client"}
		keys := []string{"/a/k1", "/b/k1", "/c/k1", "/a/k2"}
		for i, n := 0, 2+g.Intn(3); i < n; i++ {
			key := keys[(i+g.Intn(2))%len(keys)]
			if g.Bool(0.75) {
				uniq++
				w.Ops = append(w.Ops, storeOp{Op: "put", Key: key, Val: fmt.Sprintf("v%d", uniq)})
			} else {
				w.Ops = append(w.Ops, storeOp{Op: "delete", Key: key})
			}
		}
		p.Steps = append(p.Steps, mustJSON(w))
		for c, nc := 0, 1+g.Intn(2); c < nc; c++ {
			r := schedTask{Kind: "client"}
			for i, n := 0, 1+g.Intn(2); i < n; i++ {
				r.Ops = append(r.Ops, storeOp{Op: "list", Key: Pick(g, "/", "/", "", "/a", "/b")})
			}
			p.Steps = append(p.Steps, mustJSON(r))
		}
		// a lister runs first and is the one pre-empted
		k.Prio = make([]int, len(p.Steps)-nsetup)
		for i := range k.Prio {
			k.Prio[i] = 1000 + g.Intn(1000)
		}
		k.Prio[1+g.Intn(len(k.Prio)-1)] = 3000
		p.Knobs = mustJSON(k)
		return p
	}
	if k.Mode == "store" {
		nc := 2 + g.Intn(3)
		uniq := 0
		for c := 0; c < nc; c++ {
			t := schedTask{Kind: "client"}
			for i, n := 0, 1+g.Intn(6); i < n; i++ {
				key := Pick(g, "/a/k1", "/a/k2", "/b/k1")
				switch g.PickW(3, 3, 2, 2) {
				case 0:
					t.Ops = append(t.Ops, storeOp{Op: "get", Key: key})
				case 1:
					uniq++
					t.Ops = append(t.Ops, storeOp{Op: "put", Key: key, Val: fmt.Sprintf("v%d", uniq)})
				case 2:
					t.Ops = append(t.Ops, storeOp{Op: "delete", Key: key})
				default:
					t.Ops = append(t.Ops, storeOp{Op: "list", Key: Pick(g, "/a/", "/b/", "/", "/", "")})
				}
			}
			p.Steps = append(p.Steps, mustJSON(t))
		}
		return p
	}
	k.Aliases = g.Bool(0.3)
	k.Procs = Pick(g, 0, 0, 1, 1, 2)
	if g.Bool(0.5) {
		// the registered metadata lists zero to three attribute consuming services, each with zero to six requested attributes and
		// its own isDefault marking (absent, false or true - nothing keeps a provider from marking none or several)
		svcs := make([]attrService, g.PickW(1, 3, 10, 6))
		for i := range svcs {
			svcs[i].Default = []string{"", "false", "true"}[g.PickW(6, 2, 2)]
			for j, n := 0, g.Intn(7); j < n; j++ {
				svcs[i].Attrs = append(svcs[i].Attrs, attrNamePool[g.Intn(len(attrNamePool))])
			}
		}
		k.AttrServices = &svcs
	}
	k.CustomLoginForm = k.Mode == "server" && g.Bool(0.3)
	p.Knobs = mustJSON(k)
	n := 2 + g.PickW(4, 3, 2)
	for i := 0; i < n; i++ {
		// bias towards handlers that touch the registry lock and the store together ...
		var kind string
		switch g.PickW(4, 6, 3) {
		case 0:
			kind = Pick(g, "shortcut", "shortcut-suffix", "put-service", "put-service-other", "delete-service", "sso-cookie", "metadata", "list-services", "put-service-rename", "sso-noacs")
		case 2:
			// ... and towards requests that are answered with an assertion: they all work from the one registered copy of their
			// provider's metadata, each without a lock once it has looked it up
			kind = Pick(g, "sso-cookie", "sso-login", "shortcut", "shortcut-suffix", "sso-noacs")
		default:
			kind = serverTaskKinds[g.Intn(len(serverTaskKinds))]
		}
		p.Steps = append(p.Steps, mustJSON(schedTask{Kind: kind}))
	}
	return p
}

// ---------------------------------------------------------------- cooperative scheduler

type heldLock struct {
	m     *simsync.RWMutex
	write bool
	site  string
}

type sTask struct {
	id        int
	name      string
	wake      chan struct{}
	done      bool
	blocked   *simsync.RWMutex
	bwrite    bool
	announced bool
	site      string
	held      []heldLock
	panicked  any
	prio      int
	goid      int64
}

type sched struct {
	tasks        []*sTask
	back         chan struct{}
	cur          *sTask
	steps        int
	picks        []int       // recorded decisions
	replay       []int       // explicit schedule (replay mode)
	rng          *mrand.Rand // derived from the plan's sched_seed (generation mode)
	pct          bool
	changes      map[int]bool
	trace        []string
	seq          int64 // global event sequence number (store histories)
	limit        int
	misuse       string // the first fatal misuse of a lock (unlocking what is not locked), "" if none
	progress     int64  // scheduling steps taken (read by run's watchdog goroutine)
	foreignCalls int    // hook calls made by goroutines the code under test started itself
	clockReads   int    // readings of the clock by tasks (each one a decision point)
}

//go:norace
func (s *sched) park(t *sTask) {
	raceDisable()
	s.back <- struct{}{}
	<-t.wake
	raceEnable()
}

//go:norace
func grantable(m *simsync.RWMutex, write bool) bool {
	if write {
		return m.Readers == 0 && !m.Writer
	}
	return !m.Writer && m.Pending == 0
}

//go:norace
func callSite() string {
	pc := make([]uintptr, 16)
	n := runtime.Callers(3, pc)
	frames := runtime.CallersFrames(pc[:n])
	for {
		f, more := frames.Next()
		fn := f.Function
		if fn != "" && !strings.Contains(fn, "/simsync.") && !strings.HasPrefix(fn, "samlsim.") {
			if i := strings.LastIndex(fn, "/"); i >= 0 {
				fn = fn[i+1:]
			}
			return fn
		}
		if !more {
			return "?"
		}
	}
}

// hookDispatch is installed once per process as simsync.H (so that the hook variable itself is
// never written while tasks exist); it forwards to the scheduler of the current run.
type hookDispatch struct{}

var activeSched *sched

//go:norace
func setActiveSched(s *sched) { activeSched = s }

//go:norace
func (hookDispatch) Acquire(m *simsync.RWMutex, write bool) {
	if s := activeSched; s != nil {
		if s.foreign() {
			return // the real lock underneath still excludes
		}
		s.Acquire(m, write)
		return
	}
	if write {
		m.Writer = true
	} else {
		m.Readers++
	}
}

//go:norace
func (hookDispatch) Release(m *simsync.RWMutex, write bool) {
	if s := activeSched; s != nil {
		if s.foreign() {
			return
		}
		s.Release(m, write)
		return
	}
	if write {
		m.Writer = false
	} else {
		m.Readers--
	}
}

//go:norace
func (hookDispatch) TryAcquire(m *simsync.RWMutex, write bool) bool {
	if s := activeSched; s != nil && !s.foreign() {
		return s.TryAcquire(m, write)
	}
	return true // the real primitive underneath decides
}

//go:norace
func (hookDispatch) Unheld(m *simsync.RWMutex, write bool) bool {
	s := activeSched
	if s == nil || s.cur == nil || s.foreign() {
		return false
	}
	if (write && m.Writer) || (!write && m.Readers > 0) {
		return false
	}
	what := "sync: RUnlock of unlocked RWMutex"
	if write {
		what = "sync: Unlock of unlocked RWMutex"
	}
	s.Misuse(m, what)
	return true
}

//go:norace
func (hookDispatch) Yield(label string) {
	if s := activeSched; s != nil {
		s.yield(label)
	}
}

// Acquire implements simsync.Hook: the calling task announces (writers) and parks until the model grants.
//
//go:norace
func (s *sched) Acquire(m *simsync.RWMutex, write bool) {
	t := s.cur
	if t == nil { // not inside a task (setup / teardown): plain behaviour, keep the model in step
		if write {
			m.Writer = true
		} else {
			m.Readers++
		}
		return
	}
	site := callSite()
	if write && !t.announced {
		m.Pending++
		t.announced = true
	}
	kind := "R"
	if write {
		kind = "W"
	}
	s.trace = append(s.trace, fmt.Sprintf("%s:want-%s(%s)", t.name, kind, site))
	t.site = site
	for {
		t.blocked, t.bwrite = m, write
		s.park(t)
		if grantable(m, write) {
			break
		}
	}
	t.blocked = nil
	if write {
		m.Pending--
		t.announced = false
		m.Writer = true
	} else {
		m.Readers++
	}
	t.held = append(t.held, heldLock{m, write, site})
}

// TryAcquire: the non-blocking forms. A decision point, then the model's answer at that moment.
//
//go:norace
func (s *sched) TryAcquire(m *simsync.RWMutex, write bool) bool {
	t := s.cur
	if t == nil {
		if !grantableNow(m, write) {
			return false
		}
		if write {
			m.Writer = true
		} else {
			m.Readers++
		}
		return true
	}
	site := callSite()
	kind := "R"
	if write {
		kind = "W"
	}
	s.trace = append(s.trace, fmt.Sprintf("%s:try-%s(%s)", t.name, kind, site))
	s.park(t)
	if !grantableNow(m, write) {
		s.trace = append(s.trace, t.name+":try-failed")
		return false
	}
	if write {
		m.Writer = true
	} else {
		m.Readers++
	}
	t.held = append(t.held, heldLock{m, write, site})
	return true
}

// grantableNow is sync.RWMutex's own rule for the Try forms: a reader fails while a writer holds or waits.
//
//go:norace
func grantableNow(m *simsync.RWMutex, write bool) bool {
	if write {
		return m.Readers == 0 && !m.Writer
	}
	return !m.Writer && m.Pending == 0
}

//go:norace
func (s *sched) Misuse(m *simsync.RWMutex, what string) {
	name := "setup"
	if s.cur != nil {
		name = s.cur.name
	}
	if s.misuse == "" {
		s.misuse = fmt.Sprintf("%s in %s (%s)", what, callSite(), taskKind(name))
	}
	s.trace = append(s.trace, name+":"+what)
}

//go:norace
func (s *sched) Release(m *simsync.RWMutex, write bool) {
	if write {
		m.Writer = false
	} else {
		m.Readers--
	}
	if t := s.cur; t != nil {
		for i := len(t.held) - 1; i >= 0; i-- {
			if t.held[i].m == m && t.held[i].write == write {
				t.held = append(t.held[:i], t.held[i+1:]...)
				break
			}
		}
	}
}

// yield is a plain decision point (store operation boundaries).
//
//go:norace
func (s *sched) yield(label string) {
	t := s.cur
	if t == nil || s.foreign() {
		return
	}
	s.trace = append(s.trace, t.name+":"+label)
	s.park(t)
}

// clockRead: a task reads the time (saml.TimeNow) - a decision point like a store operation. Without it a request runs from its last
// lock or store operation to its reply in one piece, signing included, and by the time another request touches what it wrote on the
// way the race detector's bounded history of the first access is gone (it then drops the report).
//
//go:norace
func (s *sched) clockRead() {
	if s.cur != nil {
		s.clockReads++
	}
	s.yield("clock.read")
}

//go:norace
func (s *sched) nextSeq() int64 { s.seq++; return s.seq }

//go:norace
func (s *sched) spawn(name string, f func()) {
	t := &sTask{id: len(s.tasks), name: name, wake: make(chan struct{})}
	s.tasks = append(s.tasks, t)
	go func() {
		raceDisable()
		t.goid = curGoid()
		<-t.wake
		raceEnable()
		t.setPanicked(guard(f))
		s.finish(t)
	}()
}

// curGoid is the calling goroutine's number (from the header line of its stack trace).
//
//go:norace
func curGoid() int64 {
	var buf [64]byte
	n := runtime.Stack(buf[:], false)
	var id int64
	for _, c := range buf[len("goroutine "):n] {
		if c < '0' || c > '9' {
			break
		}
		id = id*10 + int64(c-'0')
	}
	return id
}

// foreign reports whether the caller is a goroutine the code under test started itself: such a goroutine is not one of the
// scheduler's tasks; its lock and store operations go straight to the real primitives (the race detector still sees them), the
// run is marked (Extra foreign_goroutine_calls) and its schedule is no longer fully the scheduler's.
//
//go:norace
func (s *sched) foreign() bool {
	if s.cur != nil && s.cur.goid == curGoid() {
		return false
	}
	if s.cur == nil {
		return false // setup / teardown on the harness goroutine
	}
	s.foreignCalls++
	return true
}

//go:norace
func (t *sTask) setPanicked(v any) { t.panicked = v }

//go:norace
func (t *sTask) getPanicked() any { return t.panicked }

//go:norace
func (s *sched) finish(t *sTask) {
	raceDisable()
	t.done = true
	s.back <- struct{}{}
	raceEnable()
}

//go:norace
func (s *sched) choose(runnable []*sTask) *sTask {
	var idx int
	switch {
	case s.replay != nil:
		if len(s.picks) < len(s.replay) {
			idx = s.replay[len(s.picks)] % len(runnable)
			if idx < 0 {
				idx = 0
			}
		}
	case s.steps > fairAfter:
		// late in a long run every runnable task gets its turn: a task that still does not finish is not being starved
		idx = s.steps % len(runnable)
	case s.pct:
		if s.changes[s.steps] && s.cur != nil {
			s.cur.prio = -s.steps // demote the task that ran last
		}
		best := 0
		for i, t := range runnable {
			if t.prio > runnable[best].prio {
				best = i
			}
		}
		idx = best
	default:
		idx = s.rng.IntN(len(runnable))
	}
	s.picks = append(s.picks, idx)
	return runnable[idx]
}

// fairAfter: from this step on the schedule is round-robin (PCT and the random walk are unfair by design; the
// step limit must only ever be reached by a task that cannot finish under a fair schedule either).
const fairAfter = 4000

// stuckAfter: how long a task may run between two decision points before it counts as blocked for good (the longest legitimate
// stretch is one bcrypt comparison, some tens of milliseconds).
const stuckAfter = 20 * time.Second

type schedOutcome struct {
	stuck    string   // name of a task blocked outside the scheduler's model
	deadlock []string // descriptors of the cycle's tasks (nil: none)
	victims  int
	livelock bool
}

// run drives all tasks to completion (or to a deadlock / step limit).
//
//go:norace
func (s *sched) run() schedOutcome {
	// a plain goroutine watches the step counter (no timer channel: the race runtime must not be asked about one); it is started
	// before synchronisation events are switched off so that its creation orders it after everything set up so far
	stuck, done := make(chan struct{}), make(chan struct{})
	progress := &s.progress
	go func() {
		seen, idle := int64(-1), time.Duration(0)
		for idle < stuckAfter {
			time.Sleep(250 * time.Millisecond)
			select {
			case <-done:
				return
			default:
			}
			if cur := atomic.LoadInt64(progress); cur != seen {
				seen, idle = cur, 0
			} else {
				idle += 250 * time.Millisecond
			}
		}
		select {
		case stuck <- struct{}{}:
		case <-done:
		}
	}()
	raceDisable()
	defer raceEnable()
	defer close(done)
	var last *sTask
	for {
		var runnable []*sTask
		live := 0
		for _, t := range s.tasks {
			if t.done {
				continue
			}
			live++
			if t.blocked == nil || grantable(t.blocked, t.bwrite) {
				runnable = append(runnable, t)
			}
		}
		if live == 0 {
			return schedOutcome{}
		}
		if len(runnable) == 0 {
			out := schedOutcome{}
			for _, t := range s.tasks {
				if t.done {
					continue
				}
				if len(t.held) == 0 {
					// holds nothing: a victim or an interchangeable queued writer, not what names the cycle
					out.victims++
					continue
				}
				var held []string
				for _, h := range t.held {
					k := "R"
					if h.write {
						k = "W"
					}
					held = append(held, h.site+"."+k)
				}
				k := "R"
				if t.bwrite {
					k = "W"
				}
				out.deadlock = append(out.deadlock, fmt.Sprintf("held[%s]->wait(%s.%s)", strings.Join(held, ","), t.site, k))
			}
			sort.Strings(out.deadlock)
			uniq := out.deadlock[:0]
			for i, d := range out.deadlock {
				if i == 0 || d != out.deadlock[i-1] {
					uniq = append(uniq, d)
				}
			}
			out.deadlock = uniq
			if len(out.deadlock) == 0 {
				out.deadlock = []string{"no-task-holds-a-lock"}
			}
			return out
		}
		if s.steps >= s.limit {
			return schedOutcome{livelock: true}
		}
		s.cur = last
		t := s.choose(runnable)
		s.steps++
		s.cur = t
		last = t
		atomic.AddInt64(&s.progress, 1)
		t.wake <- struct{}{}
		select {
		case <-s.back:
		case <-stuck:
			// the task neither finished nor reached a decision point: it waits for something no other request will ever provide
			// (wall-clock bound; only ever reached by a run that has stopped making progress)
			return schedOutcome{stuck: t.name}
		}
		s.cur = nil
	}
}

// ---------------------------------------------------------------- scheduling Store wrapper

type schedStore struct {
	inner samlidp.Store
	s     *sched
}

func (w *schedStore) Get(key string, value interface{}) error {
	w.s.yield("store.Get(" + keyClass(key) + ")")
	err := w.inner.Get(key, value)
	w.s.yield("store.Get.ret")
	return err
}
func (w *schedStore) Put(key string, value interface{}) error {
	w.s.yield("store.Put(" + keyClass(key) + ")")
	err := w.inner.Put(key, value)
	w.s.yield("store.Put.ret")
	return err
}
func (w *schedStore) Delete(key string) error {
	w.s.yield("store.Delete(" + keyClass(key) + ")")
	err := w.inner.Delete(key)
	w.s.yield("store.Delete.ret")
	return err
}
func (w *schedStore) List(prefix string) ([]string, error) {
	w.s.yield("store.List(" + prefix + ")")
	r, err := w.inner.List(prefix)
	w.s.yield("store.List.ret")
	return r, err
}

// keyClass hides random session ids from the abstract log.
func keyClass(key string) string {
	if strings.HasPrefix(key, "/sessions/") && key != "/sessions/S1" {
		return "/sessions/<new>"
	}
	return key
}

// ---------------------------------------------------------------- race-detector report capture

type raceLog struct {
	path string
	off  int64
}

func newRaceLog() *raceLog {
	prefix := os.Getenv("VERIF_RACE_LOG")
	if prefix == "" {
		return &raceLog{}
	}
	rl := &raceLog{path: fmt.Sprintf("%s.%d", prefix, os.Getpid())}
	if st, err := os.Stat(rl.path); err == nil {
		rl.off = st.Size()
	}
	return rl
}

// newReports returns the race reports written since the last call.
func (rl *raceLog) newReports() []string {
	if rl.path == "" {
		return nil
	}
	b, err := os.ReadFile(rl.path)
	if err != nil || int64(len(b)) <= rl.off {
		return nil
	}
	txt := string(b[rl.off:])
	rl.off = int64(len(b))
	var out []string
	for _, rep := range strings.Split(txt, "WARNING: DATA RACE")[1:] {
		out = append(out, rep)
	}
	return out
}

// raceSignature extracts, for each of the two accesses, the innermost frame inside crewjam/saml.
func raceSignature(report string) (sig string, inRepo bool) {
	var stacks [][]string
	var cur []string
	flush := func() {
		if cur != nil {
			stacks = append(stacks, cur)
		}
		cur = nil
	}
	for _, line := range strings.Split(report, "\n") {
		tl := strings.TrimSpace(line)
		switch {
		case strings.HasPrefix(tl, "Read at"), strings.HasPrefix(tl, "Write at"), strings.HasPrefix(tl, "Previous read at"), strings.HasPrefix(tl, "Previous write at"):
			flush()
			cur = []string{}
		case strings.HasPrefix(tl, "Goroutine "), tl == "==================":
			flush()
		case cur != nil && strings.HasSuffix(tl, ")") && !strings.HasPrefix(tl, "/"):
			cur = append(cur, strings.TrimSuffix(tl, "()"))
		}
	}
	flush()
	var tops []string
	for _, st := range stacks {
		top := ""
		for _, fn := range st {
			if strings.HasPrefix(fn, "github.com/crewjam/saml") && !strings.Contains(fn, "/simsync.") {
				top = fn[strings.LastIndex(fn, "/")+1:]
				break
			}
		}
		if top != "" {
			tops = append(tops, top)
		}
	}
	if len(tops) == 0 {
		return "", false
	}
	sort.Strings(tops)
	return strings.Join(tops, "|"), true
}

// ---------------------------------------------------------------- execution

var cost4Hash []byte
var cost4Once sync.Once

func execSched(t *testing.T, p *Plan) *Result {
	res := newResult()
	k := decode[schedKnobs](p.Knobs)
	s := &sched{back: make(chan struct{}), limit: 10000, pct: k.Strategy == "pct", changes: map[int]bool{}}
	// the clock never moves, but reading it is a decision point: a request may be overtaken between any two of its readings
	saml.TimeNow = func() time.Time { s.clockRead(); return time.Date(2000, 1, 1, 0, 0, 0, 0, time.UTC) }
	s.rng = mrand.New(mrand.NewPCG(k.SchedSeed, 0x5eed))
	if p.Schedule != nil {
		s.replay = p.Schedule
	}
	if s.pct {
		for i := 0; i < k.PCTChanges && len(k.ChangeAt) == 0; i++ {
			s.changes[1+s.rng.IntN(60)] = true
		}
		for _, c := range k.ChangeAt {
			s.changes[c] = true
		}
	}
	if k.Procs > 0 {
		defer runtime.GOMAXPROCS(runtime.GOMAXPROCS(k.Procs))
	}
	rl := newRaceLog()
	rl.newReports() // discard anything older than this run

	var outcome schedOutcome
	var finish func() // post-run checks needing task results
	if k.Mode == "store" {
		finish = setupStoreMode(p, s, res)
	} else {
		finish = setupServerMode(p, s, res)
	}
	if s.pct {
		for i, t := range s.tasks {
			t.prio = 1000 + s.rng.IntN(1000)
			if len(k.Prio) == len(s.tasks) {
				t.prio = k.Prio[i]
			}
		}
	}
	setActiveSched(s)
	outcome = s.run()
	setActiveSched(nil)
	res.Schedule = append([]int(nil), s.picks...)
	res.Log = append(res.Log, s.trace...)
	res.Extra["sched_steps"] += s.steps
	res.Extra["clock_read_decision_points"] += s.clockReads
	if s.foreignCalls > 0 {
		res.Extra["foreign_goroutine_calls"] += s.foreignCalls
		res.probe("code-under-test-started-goroutines")
	}
	res.Nontrivial = s.steps > len(s.tasks)+1 // some task was pre-empted at least once

	switch {
	case outcome.deadlock != nil:
		res.probe("deadlock-state")
		res.logf("DEADLOCK %v victims=%d", outcome.deadlock, outcome.victims)
		res.violate(len(s.picks), "deadlock", "C20/deadlock/"+strings.Join(outcome.deadlock, "||"), "every request completes",
			fmt.Sprintf("%d task(s) blocked forever", len(outcome.deadlock)+outcome.victims), strings.Join(outcome.deadlock, " || "))
		// the blocked goroutines are abandoned (they hold no real locks: the model never granted)
		return res
	case outcome.stuck != "":
		res.logf("STUCK %s", outcome.stuck)
		res.violate(len(s.picks), "no-progress", "C20/no-progress/blocked/"+taskKind(outcome.stuck), "every request completes", "blocked for good outside any lock (channel, wait group, ...)", fmt.Sprintf("gomaxprocs=%d", k.Procs))
		return res
	case outcome.livelock:
		res.violate(len(s.picks), "no-progress", "C20/no-progress", "every request completes within the step bound", "step limit reached", "")
		return res
	}
	if s.misuse != "" {
		res.logf("MISUSE %s", s.misuse)
		res.violate(len(s.picks), "lock-misuse", "C20/lock-misuse/"+strings.ReplaceAll(strings.SplitN(s.misuse, " in ", 2)[0], " ", "-"), "every request completes", "fatal error: "+s.misuse, "the runtime ends the process on this: every request in flight is lost")
		return res
	}
	// every request has completed: a lock one of them still holds is held for good (the next request that needs it never comes back);
	// found here rather than by the checks below, which run on the harness goroutine and would wait for it themselves
	for _, tk := range s.tasks {
		if len(tk.held) > 0 && tk.getPanicked() == nil {
			var held []string
			for _, h := range tk.held {
				k := "R"
				if h.write {
					k = "W"
				}
				held = append(held, h.site+"."+k)
			}
			res.logf("%s completed holding %v", tk.name, held)
			res.violate(len(s.picks), "deadlock", "C20/deadlock/lock-held-after-completion["+strings.Join(held, ",")+"]", "every request completes, and leaves every lock it took",
				"a completed request still holds a lock", taskKind(tk.name)+" completed holding "+strings.Join(held, ","))
			return res
		}
	}
	for _, tk := range s.tasks {
		if pv := tk.getPanicked(); pv != nil {
			res.logf("%s PANIC", tk.name)
			res.violate(0, "panic", "C20/panic/"+taskKind(tk.name), "reply", "panic", fmt.Sprint(pv))
		}
	}
	finish()
	// data races reported by the detector during this run
	for _, rep := range rl.newReports() {
		sig, in := raceSignature(rep)
		if !in {
			fmt.Fprintf(os.Stderr, "HARNESS-RACE (no frame inside crewjam/saml):\n%s\n", rep)
			os.Exit(2)
		}
		res.probe("race-report")
		if line := "RACE " + sig; len(res.Log) == 0 || res.Log[len(res.Log)-1] != line {
			res.Log = append(res.Log, line)
		}
		res.violate(len(s.picks), "data-race", "C20/race/"+sig, "no data race", "race detector report", short(rep, 1500))
	}
	return res
}

func taskKind(name string) string {
	if i := strings.Index(name, ":"); i >= 0 {
		return name[i+1:]
	}
	return name
}

// ---------------------------------------------------------------- server mode

// c20Salt makes the names a provider asks for differ from run to run (anything the code under test remembers about names across
// requests is then written anew in every run, not only in a process's first)
var c20Salt uint64

// attrServicesOf builds the AttributeConsumingService elements a plan asks for.
func attrServicesOf(layout []attrService) []saml.AttributeConsumingService {
	out := []saml.AttributeConsumingService{}
	for i, sv := range layout {
		acs := saml.AttributeConsumingService{Index: i + 1, ServiceNames: []saml.LocalizedName{{Lang: "en", Value: fmt.Sprintf("app-%d", i+1)}}}
		switch sv.Default {
		case "true", "false":
			v := sv.Default == "true"
			acs.IsDefault = &v
		}
		for _, name := range sv.Attrs {
			nf := attrNameFormat[name]
			if nf == "" {
				nf = "urn:oasis:names:tc:SAML:2.0:attrname-format:basic"
			}
			acs.RequestedAttributes = append(acs.RequestedAttributes, saml.RequestedAttribute{Attribute: saml.Attribute{Name: strings.ReplaceAll(name, "#", fmt.Sprint(c20Salt)), NameFormat: nf}})
		}
		out = append(out, acs)
	}
	return out
}

func spMetadataXML(base string, layout *[]attrService) []byte {
	spv := newSP(base, rsaKeys[1], "", idpMetadataFor("https://idp.example.com/metadata", "https://idp.example.com/sso", "", []KeyPair{rsaKeys[0]}, nil, "signing"))
	md := spv.Metadata()
	// the provider asks for attributes by name (basic / unspecified name formats), as many deployments do
	md.SPSSODescriptors[0].AttributeConsumingServices = []saml.AttributeConsumingService{{Index: 1, ServiceNames: []saml.LocalizedName{{Lang: "en", Value: "app"}},
		RequestedAttributes: []saml.RequestedAttribute{
			{Attribute: saml.Attribute{Name: "email", NameFormat: "urn:oasis:names:tc:SAML:2.0:attrname-format:basic"}},
			{Attribute: saml.Attribute{Name: "uid", FriendlyName: "User", NameFormat: "urn:oasis:names:tc:SAML:2.0:attrname-format:basic"}},
			{Attribute: saml.Attribute{Name: "e-mail.address", NameFormat: "urn:oasis:names:tc:SAML:2.0:attrname-format:unspecified"}},
			{Attribute: saml.Attribute{Name: "given_name", NameFormat: "urn:oasis:names:tc:SAML:2.0:attrname-format:basic"}},
			{Attribute: saml.Attribute{Name: fmt.Sprintf("e-mail.%d", c20Salt), NameFormat: "urn:oasis:names:tc:SAML:2.0:attrname-format:basic"}},
			{Attribute: saml.Attribute{Name: fmt.Sprintf("u.i.d %d", c20Salt), NameFormat: "urn:oasis:names:tc:SAML:2.0:attrname-format:unspecified"}},
		}}}
	if layout != nil {
		md.SPSSODescriptors[0].AttributeConsumingServices = attrServicesOf(*layout)
	}
	b, err := xml.Marshal(md)
	if err != nil {
		panic(err)
	}
	return b
}

func setupServerMode(p *Plan, s *sched, res *Result) func() {
	cost4Once.Do(func() { cost4Hash, _ = bcrypt.GenerateFromPassword([]byte("pw"), bcrypt.MinCost) })
	inner := &samlidp.MemoryStore{}
	store := &schedStore{inner: inner, s: s}
	opts := samlidp.Options{URL: mustURL("https://idp.example.com"), Key: rsaKeys[0].Key, Certificate: rsaKeys[0].Cert, Store: store, Logger: nullLog{}}
	if decode[schedKnobs](p.Knobs).CustomLoginForm {
		// parsed anew for every run: what the requests of one run share is this run's template value
		opts.LoginFormTemplate = template.Must(template.New("application-login-form").Parse(`<html><body><h1>Sign in</h1><p class="toast">{{.Toast}}</p>` +
			`<form method="post" action="{{.URL}}"><input name="user"/><input type="password" name="password"/>` +
			`<input type="hidden" name="SAMLRequest" value="{{.SAMLRequest}}"/><input type="hidden" name="RelayState" value="{{.RelayState}}"/>` +
			`<button>Log In</button></form></body></html>`))
		res.probe("application-supplied-login-form-template")
	}
	srv, err := samlidp.New(opts)
	if err != nil {
		panic(err)
	}
	c20Salt = p.Run
	layout := decode[schedKnobs](p.Knobs).AttrServices
	md1 := spMetadataXML("https://sp1.example.com", layout)
	md2 := spMetadataXML("https://sp2.example.com", layout)
	if r := deliver(srv, "PUT", "https://idp.example.com/services/sp1", string(md1), "", nil); r.Code != 204 {
		panic(fmt.Sprintf("setup: put service: %d", r.Code))
	}
	if decode[schedKnobs](p.Knobs).Aliases {
		for _, name := range []string{"sp1b", "sp1c"} {
			if r := deliver(srv, "PUT", "https://idp.example.com/services/"+name, string(md1), "", nil); r.Code != 204 {
				panic(fmt.Sprintf("setup: put service alias: %d", r.Code))
			}
		}
	}
	// a provider whose two endpoints are written out of index order, neither marked as the default
	sp3 := newSP("https://sp3.example.com", rsaKeys[1], "", srv.IDP.Metadata())
	md3v := sp3.Metadata()
	md3v.SPSSODescriptors[0].AssertionConsumerServices = []saml.IndexedEndpoint{
		{Binding: saml.HTTPPostBinding, Location: "https://sp3.example.com/saml/acs", Index: 2},
		{Binding: saml.HTTPPostBinding, Location: "https://sp3.example.com/saml/acs-one", Index: 1},
	}
	if layout != nil {
		md3v.SPSSODescriptors[0].AttributeConsumingServices = attrServicesOf(*layout)
	}
	md3, err := xml.Marshal(md3v)
	if err != nil {
		panic(err)
	}
	if r := deliver(srv, "PUT", "https://idp.example.com/services/sp3", string(md3), "", nil); r.Code != 204 {
		panic(fmt.Sprintf("setup: put service sp3: %d", r.Code))
	}
	noACSURL := func() string {
		ar, err := sp3.MakeAuthenticationRequest(sp3.GetSSOBindingLocation(saml.HTTPRedirectBinding), saml.HTTPRedirectBinding, saml.HTTPPostBinding)
		if err != nil {
			panic(err)
		}
		ar.AssertionConsumerServiceURL = "" // the request names no endpoint: the IdP picks one from the registered metadata
		u, err := ar.Redirect("rs", sp3)
		if err != nil {
			panic(err)
		}
		return u.String()
	}
	_ = inner.Put("/users/alice", samlidp.User{Name: "alice", Email: "alice@example.com", HashedPassword: cost4Hash})
	_ = inner.Put("/users/bob", samlidp.User{Name: "bob", Email: "bob@example.com", HashedPassword: cost4Hash})
	_ = inner.Put("/sessions/S1", saml.Session{ID: "S1", NameID: "alice@example.com", ExpireTime: time.Date(2001, 1, 1, 0, 0, 0, 0, time.UTC), UserName: "alice"})
	_ = inner.Put("/shortcuts/sc", samlidp.Shortcut{Name: "sc", ServiceProviderID: "https://sp1.example.com/saml/metadata", URISuffixAsRelayState: true})
	sp1 := newSP("https://sp1.example.com", rsaKeys[1], "", srv.IDP.Metadata())
	authnURL := func() *url.URL {
		u, err := sp1.MakeRedirectAuthenticationRequest("rs")
		if err != nil {
			panic(err)
		}
		return u
	}
	cookie := []*http.Cookie{{Name: "session", Value: "S1"}}
	const base = "https://idp.example.com"
	type result struct {
		code int
		body string
	}
	results := make([]result, len(p.Steps))
	var wg sync.WaitGroup
	for i, raw := range p.Steps {
		tk := decode[schedTask](raw)
		i := i
		var do func() *reply
		switch tk.Kind {
		case "metadata":
			do = func() *reply { return deliver(srv, "GET", base+"/metadata", "", "", nil) }
		case "sso-cookie":
			u := authnURL().String()
			do = func() *reply { return deliver(srv, "GET", u, "", "", cookie) }
		case "sso-login":
			u := authnURL()
			f := url.Values{"user": {"bob"}, "password": {"pw"}, "SAMLRequest": {reinflate(u.Query().Get("SAMLRequest"))}, "RelayState": {"rs"}}
			do = func() *reply { return deliver(srv, "POST", base+"/sso", f.Encode(), formCT, nil) }
		case "login":
			f := url.Values{"user": {"alice"}, "password": {"pw"}}
			do = func() *reply { return deliver(srv, "POST", base+"/login", f.Encode(), formCT, nil) }
		case "login-bad":
			f := url.Values{"user": {"alice"}, "password": {"nope"}}
			do = func() *reply { return deliver(srv, "POST", base+"/login", f.Encode(), formCT, nil) }
		case "shortcut":
			do = func() *reply { return deliver(srv, "GET", base+"/login/sc", "", "", cookie) }
		case "shortcut-suffix":
			do = func() *reply { return deliver(srv, "GET", base+"/login/sc/deep", "", "", cookie) }
		case "list-services":
			do = func() *reply { return deliver(srv, "GET", base+"/services/", "", "", nil) }
		case "get-service":
			do = func() *reply { return deliver(srv, "GET", base+"/services/sp1", "", "", nil) }
		case "put-service":
			do = func() *reply { return deliver(srv, "PUT", base+"/services/sp1", string(md1), "", nil) }
		case "put-service-other":
			do = func() *reply { return deliver(srv, "PUT", base+"/services/sp2", string(md2), "", nil) }
		case "put-service-rename":
			// the name sp1 is registered again, with metadata carrying another entity ID (the provider moved)
			do = func() *reply { return deliver(srv, "PUT", base+"/services/sp1", string(md2), "", nil) }
		case "sso-noacs":
			u := noACSURL()
			do = func() *reply { return deliver(srv, "GET", u, "", "", cookie) }
		case "delete-service":
			do = func() *reply { return deliver(srv, "DELETE", base+"/services/sp1", "", "", nil) }
		case "list-users":
			do = func() *reply { return deliver(srv, "GET", base+"/users/", "", "", nil) }
		case "get-user":
			do = func() *reply { return deliver(srv, "GET", base+"/users/alice", "", "", nil) }
		case "put-user":
			do = func() *reply {
				return deliver(srv, "PUT", base+"/users/carol", `{"name":"carol","email":"carol@example.com","groups":["g"]}`, "", nil)
			}
		case "delete-user":
			do = func() *reply { return deliver(srv, "DELETE", base+"/users/bob", "", "", nil) }
		case "list-sessions":
			do = func() *reply { return deliver(srv, "GET", base+"/sessions/", "", "", nil) }
		case "get-session":
			do = func() *reply { return deliver(srv, "GET", base+"/sessions/S1", "", "", nil) }
		case "delete-session":
			do = func() *reply { return deliver(srv, "DELETE", base+"/sessions/S1", "", "", nil) }
		case "list-shortcuts":
			do = func() *reply { return deliver(srv, "GET", base+"/shortcuts/", "", "", nil) }
		case "get-shortcut":
			do = func() *reply { return deliver(srv, "GET", base+"/shortcuts/sc", "", "", nil) }
		case "put-shortcut":
			do = func() *reply {
				return deliver(srv, "PUT", base+"/shortcuts/sc2", `{"service_provider":"https://sp1.example.com/saml/metadata"}`, "", nil)
			}
		case "delete-shortcut":
			do = func() *reply { return deliver(srv, "DELETE", base+"/shortcuts/sc", "", "", nil) }
		default:
			panic("harness: unknown task kind " + tk.Kind)
		}
		wg.Add(1)
		s.spawn(fmt.Sprintf("t%d:%s", i, tk.Kind), func() {
			defer wg.Done()
			r := do()
			if r.Panic != nil {
				panic(r.Panic)
			}
			results[i] = result{r.Code, r.Body}
		})
	}
	return func() {
		wg.Wait() // real synchronisation edge: task results become visible to the checker
		// provider -> requests of this run that were answered with an assertion
		issued := map[string]int{}
		for i, raw := range p.Steps {
			tk := decode[schedTask](raw)
			r := results[i]
			res.logf("t%d:%s -> %d", i, tk.Kind, r.code)
			if r.code < 100 || r.code > 599 {
				res.violate(i, "no-reply", "C20/no-reply/"+tk.Kind, "exactly one well-formed reply", fmt.Sprint(r.code), "")
			}
			if sp := ssoTaskKinds[tk.Kind]; sp != "" && r.code == 200 && strings.Contains(r.body, `name="SAMLResponse"`) {
				issued[sp]++
			}
		}
		// reached: assertions issued to one provider by two or more requests of one run (they all read the one registered copy of
		// its metadata), by the shape of the attribute consuming services in that metadata
		if issued["sp1"] >= 2 || issued["sp3"] >= 2 {
			res.Extra["runs_issuing_2+_assertions_to_one_provider"]++
			if layout != nil {
				shape, marked := fmt.Sprintf("%d-attribute-services", len(*layout)), 0
				for _, sv := range *layout {
					if sv.Default == "true" {
						marked++
					}
				}
				switch {
				case len(*layout) == 0:
				case marked == 0:
					shape += "-none-default"
				case marked == 1:
					shape += "-one-default"
				default:
					shape += "-several-default"
				}
				res.probe("2+-assertions-to-one-provider/" + shape)
			}
		}
		// every request has completed: whatever order the management calls took effect in, the running server and a server
		// re-created over the same store register the same providers (no sequential order of the calls leaves them apart)
		if res.Violation == nil {
			fresh, err := samlidp.New(samlidp.Options{URL: mustURL("https://idp.example.com"), Key: rsaKeys[0].Key, Certificate: rsaKeys[0].Cert, Store: inner, Logger: nullLog{}})
			if err != nil {
				panic(err)
			}
			for _, id := range []string{"https://sp1.example.com/saml/metadata", "https://sp2.example.com/saml/metadata"} {
				live, e1 := srv.GetServiceProvider(nil, id)
				again, e2 := fresh.GetServiceProvider(nil, id)
				if (e1 == nil) != (e2 == nil) || (e1 == nil && e2 == nil && (live == nil) != (again == nil)) {
					res.logf("registry: %s live=%v restarted=%v", id, e1 == nil, e2 == nil)
					res.violate(len(p.Steps), "registry-diverges-from-store", "C20/registry-diverges-from-store", "after all requests completed the running server registers what the store holds",
						fmt.Sprintf("%s: running server registered=%v, server re-created over the store registered=%v", id, e1 == nil, e2 == nil), "")
					return
				}
			}
			res.Extra["registry_store_agreement_checked"]++
		}
	}
}

// reinflate turns the redirect binding's deflated request into the POST binding's plain base64.
func reinflate(b64 string) string {
	hr := redirectRequest(&url.URL{Scheme: "https", Host: "idp.example.com", Path: "/sso", RawQuery: "SAMLRequest=" + url.QueryEscape(b64)})
	req, err := saml.NewIdpAuthnRequest(&saml.IdentityProvider{}, hr)
	if err != nil {
		panic(err)
	}
	return base64Std(req.RequestBuffer)
}

// ---------------------------------------------------------------- store mode (linearizability)

type storeIn struct {
	Op, Key, Val string
}
type storeOut struct {
	Val   string
	Found bool
	Keys  string
}

type kvState map[string]string

func kvClone(m kvState) kvState {
	n := kvState{}
	for k, v := range m {
		n[k] = v
	}
	return n
}

var kvModel = porcupine.Model{
	Init: func() interface{} { return kvState{} },
	Step: func(state, input, output interface{}) (bool, interface{}) {
		st := state.(kvState)
		in := input.(storeIn)
		out := output.(storeOut)
		switch in.Op {
		case "get":
			v, ok := st[in.Key]
			return ok == out.Found && (!ok || v == out.Val), st
		case "put":
			n := kvClone(st)
			n[in.Key] = in.Val
			return true, n
		case "delete":
			n := kvClone(st)
			delete(n, in.Key)
			return true, n
		case "list":
			var ks []string
			for k := range st {
				if strings.HasPrefix(k, in.Key) {
					ks = append(ks, strings.TrimPrefix(k, in.Key))
				}
			}
			sort.Strings(ks)
			return strings.Join(ks, ",") == out.Keys, st
		}
		return false, st
	},
	Equal: func(a, b interface{}) bool {
		x, y := a.(kvState), b.(kvState)
		if len(x) != len(y) {
			return false
		}
		for k, v := range x {
			if w, ok := y[k]; !ok || w != v {
				return false
			}
		}
		return true
	},
	DescribeOperation: func(input, output interface{}) string {
		return fmt.Sprintf("%v -> %v", input, output)
	},
}

func setupStoreMode(p *Plan, s *sched, res *Result) func() {
	store := &samlidp.MemoryStore{}
	perClient := make([][]porcupine.Operation, len(p.Steps))
	var wg sync.WaitGroup
	for c, raw := range p.Steps {
		tk := decode[schedTask](raw)
		c := c
		if tk.Kind == "setup" {
			// the map's contents before the clients start: applied one after the other, part of the history
			for _, op := range tk.Ops {
				call := s.nextSeq()
				if op.Op == "put" {
					_ = store.Put(op.Key, op.Val)
				}
				perClient[c] = append(perClient[c], porcupine.Operation{ClientId: c, Input: storeIn{op.Op, op.Key, op.Val}, Call: call, Output: storeOut{}, Return: s.nextSeq()})
			}
			continue
		}
		wg.Add(1)
		s.spawn(fmt.Sprintf("c%d:client", c), func() {
			defer wg.Done()
			for _, op := range tk.Ops {
				s.yield("invoke " + op.Op + " " + op.Key)
				call := s.nextSeq()
				out := storeOut{}
				switch op.Op {
				case "get":
					var v string
					err := store.Get(op.Key, &v)
					out.Found = err == nil
					out.Val = v
				case "put":
					_ = store.Put(op.Key, op.Val)
				case "delete":
					_ = store.Delete(op.Key)
				case "list":
					ks, _ := store.List(op.Key)
					sort.Strings(ks)
					out.Keys = strings.Join(ks, ",")
				}
				ret := s.nextSeq()
				perClient[c] = append(perClient[c], porcupine.Operation{ClientId: c, Input: storeIn{op.Op, op.Key, op.Val}, Call: call, Output: out, Return: ret})
			}
		})
	}
	return func() {
		wg.Wait()
		var ops []porcupine.Operation
		for _, l := range perClient {
			ops = append(ops, l...)
		}
		sort.Slice(ops, func(i, j int) bool { return ops[i].Call < ops[j].Call })
		for _, o := range ops {
			res.logf("c%d %v -> %v [%d,%d]", o.ClientId, o.Input, o.Output, o.Call, o.Return)
		}
		switch porcupine.CheckOperationsTimeout(kvModel, ops, 30*time.Second) {
		case porcupine.Illegal:
			res.violate(len(ops), "not-linearizable", "C20/store-not-linearizable", "history linearizable w.r.t. a key-value map", "Illegal", "")
		case porcupine.Unknown:
			res.Extra["porcupine_unknown"]++
		default:
			res.Extra["porcupine_ok"]++
		}
		res.Extra["store_histories"]++
		res.Extra["store_ops"] += len(ops)
	}
}

func simplifySched(p *Plan) []*Plan {
	var out []*Plan
	// store mode: drop single operations
	for i, raw := range p.Steps {
		tk := decode[schedTask](raw)
		for j := range tk.Ops {
			c := p.Clone()
			t2 := decode[schedTask](raw)
			t2.Ops = append(append([]storeOp{}, t2.Ops[:j]...), t2.Ops[j+1:]...)
			c.Steps[i] = mustJSON(t2)
			c.Schedule = nil
			out = append(out, c)
		}
	}
	return out
}

func init() {
	simsync.H = hookDispatch{}
	register(&Profile{
		ID: "C20", Name: "sched", Level: "exploration", NoBubble: true,
		Rule: "each run: 2-4 concurrent tasks, each one HTTP request drawn from every samlidp.Server handler (server mode, 80%) or 2-4 clients x <=6 Get/Put/Delete/List operations on MemoryStore (store mode, 25%; a third of those: keys of several collections already present, one client changing them in a fixed order while others list a prefix spanning the collections, PCT with an explicit change point inside the listing), interleaved by a seeded cooperative scheduler (uniform random walk or PCT priorities with 1-3 change points; round-robin after step 4000 so that the step limit is only reached by a task that cannot finish under a fair schedule) at every lock acquisition and every typed sync/atomic operation (scheduler-aware RWMutex model and atomic wrappers in a rewritten scratch copy) and every store-operation boundary; oracles: deadlock/no-progress, Go race detector under the controlled schedule, porcupine linearizability of store histories, one reply and no panic per request; non-trivial = at least one task was pre-empted; distinct = distinct abstract trace (task kinds, lock/store events in schedule order, reply codes); the process's GOMAXPROCS is 1, 2 or unchanged per run; a task that neither finishes nor reaches a decision point for 20 s of wall-clock time is blocked for good (violation no-progress/blocked); goroutines the code under test starts itself are not tasks (their lock and store operations go straight to the real primitives, Extra foreign_goroutine_calls) but stay under the race detector; in 30% of server runs two more service names carry sp1's entity ID; after all requests completed the running server must register exactly what a server re-created over the same store registers; in half of the server runs every registered provider's metadata lists 0-3 AttributeConsumingService elements (each with 0-6 RequestedAttribute elements drawn from a pool of names and its own isDefault marking: absent, false or true) instead of the single six-attribute service, and the task mix leans towards requests that are answered with an assertion (probe 2+-assertions-to-one-provider/<shape>: two or more requests of one run were issued an assertion for the same provider); every reading of the clock (saml.TimeNow) by a task is a decision point as well (Extra clock_read_decision_points)",
		Gen:  genSched, Exec: execSched, Simplify: simplifySched,
		RunsQuick: 3000, RunsThorough: 300000,
		Assumptions: []string{"lock model from the sync documentation: a writer that has called Lock blocks later RLock calls until it has acquired and released", "granularity: lock acquisitions, store operations and readings of the clock; code between two such points runs atomically in the simulation (the race detector still sees unsynchronised accesses across tasks)", "a race report needs the earlier access to be within the detector's per-goroutine history (GORACE history_size=7, the maximum): an unsynchronised access followed by more than some 10^5 instrumented events of the same request before the other request's access is not reported", "porcupine Unknown (30 s) is inconclusive and never reported"},
		Components: map[string][]string{
			"real": {"samlidp.Server and all handlers", "samlidp.MemoryStore", "saml.IdentityProvider", "net/http ServeMux", "Go race detector"},
			"stub": {"simsync.RWMutex lock model (real sync.RWMutex inside, locked only when the model grants)", "cooperative scheduler", "schedStore yield wrapper"},
		},
	})
}

var _ = bytes.NewReader
var _ = json.Marshal
