package samlsim

import (
	"encoding/json"
	"fmt"
	"os"
	"runtime/debug"
	"strconv"
	"sync"
	"sync/atomic"
	"testing"
	"testing/synctest"
	"time"
)

// ---------------------------------------------------------------- execution wrapper

// hostZones: zones the simulated host may be configured with (time.Local).
var hostZones = []*time.Location{time.UTC, time.FixedZone("PST", -8*3600), time.UTC, time.FixedZone("CEST", 2*3600), time.FixedZone("NPT", 5*3600+45*60), time.UTC}

type harnessPanic struct {
	v     any
	stack string
}

// runPlan executes one plan in a fresh bubble with freshly reset library globals.
// A run that does not come back: code under test spinning without any simulated time passing cannot be cut off from inside
// the bubble. With VERIF_RUN_WALL_S set (C09, C18), a watchdog outside the bubble ends the process (exit 3) once a single run has
// taken that many wall-clock seconds; the driver then re-executes the plan alone and reports it if that does not return either.
var (
	wallOnce       sync.Once
	wallRunStarted atomic.Int64 // unix nanoseconds; 0: no run in progress
)

func startWallWatchdog() {
	limit := envInt("VERIF_RUN_WALL_S", 0)
	if limit <= 0 {
		return
	}
	wallOnce.Do(func() {
		go func() {
			for {
				time.Sleep(time.Second)
				if s := wallRunStarted.Load(); s != 0 && time.Since(time.Unix(0, s)) > time.Duration(limit)*time.Second {
					fmt.Fprintf(os.Stderr, "SPIN: a single run has not returned after %d s of wall-clock time\n", limit)
					os.Exit(3)
				}
			}
		}()
	})
}

func runPlan(t *testing.T, prof *Profile, p *Plan) (res *Result) {
	startWallWatchdog()
	wallRunStarted.Store(time.Now().UnixNano())
	defer wallRunStarted.Store(0)
	var hp *harnessPanic
	body := func(t *testing.T) {
		defer func() {
			if r := recover(); r != nil {
				hp = &harnessPanic{v: r, stack: string(debug.Stack())}
			}
		}()
		resetGlobals()
		// the host's time zone is part of the environment the code must not depend on: a function of the plan
		time.Local = hostZones[(p.Seed+p.Run)%uint64(len(hostZones))]
		res = prof.Exec(t, p)
	}
	if prof.NoBubble {
		body(t)
	} else {
		func() {
			defer func() {
				if r := recover(); r != nil {
					// end-of-bubble deadlock panic (a goroutine left blocked): reported by the profile
					// through its own quiescence checks; here it is harness trouble.
					hp = &harnessPanic{v: r, stack: string(debug.Stack())}
				}
			}()
			synctest.Test(t, body)
		}()
	}
	resetGlobals()
	time.Local = time.UTC
	if hp != nil {
		fmt.Fprintf(os.Stderr, "HARNESS-PANIC property=%s run=%d: %v\n%s\nplan=%s\n", p.Property, p.Run, hp.v, hp.stack, mustJSON(p))
		os.Exit(2)
	}
	return res
}

// ---------------------------------------------------------------- minimiser (plan level, ddmin)

type minInfo struct {
	FromSteps int `json:"from_steps"`
	ToSteps   int `json:"to_steps"`
	Reexec    int `json:"reexecutions"`
}

func minimise(t *testing.T, prof *Profile, p *Plan, v *Violation) (*Plan, *Result, minInfo) {
	info := minInfo{FromSteps: len(p.Steps)}
	deadline := time.Now().Add(90 * time.Second) // wall clock: bounds harness work only, never influences a decision's outcome
	best := p.Clone()
	bestRes := runPlan(t, prof, best)
	info.Reexec++
	if bestRes.Violation == nil || bestRes.Violation.Class != v.Class {
		// not reproducible in-process: report un-minimised (driver will flag it)
		return p, bestRes, info
	}
	try := func(c *Plan) bool {
		if info.Reexec >= 300 || time.Now().After(deadline) {
			return false
		}
		info.Reexec++
		r := runPlan(t, prof, c)
		if r.Violation != nil && r.Violation.Class == v.Class {
			best, bestRes = c, r
			return true
		}
		return false
	}
	// 1. drop chunks of steps, then single steps
	for chunk := len(best.Steps) / 2; chunk >= 1; chunk /= 2 {
		for i := 0; i+chunk <= len(best.Steps); {
			c := best.Clone()
			c.Steps = append(c.Steps[:i:i], c.Steps[i+chunk:]...)
			if !try(c) {
				i += chunk
			}
		}
	}
	// 2. profile-specific simplifications to a fixpoint
	if prof.Simplify != nil {
		for progress := true; progress; {
			progress = false
			for _, c := range prof.Simplify(best) {
				if string(mustJSON(c)) == string(mustJSON(best)) {
					continue
				}
				if try(c) {
					progress = true
					break
				}
			}
			if info.Reexec >= 300 || time.Now().After(deadline) {
				break
			}
		}
	}
	info.ToSteps = len(best.Steps)
	return best, bestRes, info
}

// ---------------------------------------------------------------- replay files

type replayFile struct {
	*Plan
	RepoTree  string     `json:"repo_tree"`
	Violation *Violation `json:"violation"`
	Minimised minInfo    `json:"minimised"`
	LogHash   string     `json:"event_log_sha256"`
	Log       []string   `json:"event_log"`
}

// ---------------------------------------------------------------- worker summary

type sample struct {
	Run   uint64          `json:"run"`
	Knobs json.RawMessage `json:"knobs"`
	Steps json.RawMessage `json:"plan"`
	Log   []string        `json:"event_log"`
}

type foundViolation struct {
	Violation *Violation `json:"violation"`
	Replay    string     `json:"replay"`
	Run       uint64     `json:"run"`
	Known     string     `json:"known,omitempty"`
}

type workerSummary struct {
	Property     string              `json:"property"`
	Runs         int                 `json:"runs"`
	Nontrivial   int                 `json:"nontrivial"`
	Fingerprints []uint64            `json:"fingerprints"` // of non-trivial runs
	AllPrints    int                 `json:"all_fingerprints"`
	Fired        map[string]int      `json:"fired"`
	Probes       map[string]int      `json:"probes"`
	DontCare     map[string]int      `json:"dont_care"`
	Extra        map[string]int      `json:"extra"`
	Excluded     map[string]int      `json:"excluded_runs"`
	SimMillis    int64               `json:"sim_millis"`
	Violations   []foundViolation    `json:"violations"`
	Samples      []sample            `json:"samples"`
	WallS        float64             `json:"wall_s"`
	BudgetHit    bool                `json:"budget_hit"`
	Lattice      []int               `json:"lattice_points"` // distinct enumerated lattice points visited
	Level        string              `json:"level"`
	Rule         string              `json:"rule"`
	Assumptions  []string            `json:"assumptions"`
	Components   map[string][]string `json:"components"`
}

// loadKnownSignatures reads the committed known-findings file (never written at run time).
func loadKnownSignatures(prop string) map[string]bool {
	out := map[string]bool{}
	path := os.Getenv("VERIF_KNOWN_FILE")
	if path == "" {
		return out
	}
	b, err := os.ReadFile(path)
	if err != nil {
		return out
	}
	var kf struct {
		Known []struct {
			Property  string `json:"property"`
			Signature string `json:"signature"`
		} `json:"known"`
	}
	if json.Unmarshal(b, &kf) == nil {
		for _, k := range kf.Known {
			if k.Property == prop {
				out[k.Signature] = true
			}
		}
	}
	return out
}

func envInt(name string, def int) int {
	if s := os.Getenv(name); s != "" {
		if n, err := strconv.Atoi(s); err == nil {
			return n
		}
	}
	return def
}

// TestWorker is the entry point used by /verif/bin/check. It is not a unit test.
func TestWorker(t *testing.T) {
	id := os.Getenv("VERIF_PROP")
	if id == "" {
		t.Skip("VERIF_PROP not set (this binary is driven by /verif/bin/check)")
	}
	prof := profiles[id]
	if prof == nil {
		fmt.Fprintf(os.Stderr, "unknown property %q\n", id)
		os.Exit(2)
	}
	loadFixtures()

	if rp := os.Getenv("VERIF_REPLAY"); rp != "" {
		replayMain(t, prof, rp)
		return
	}

	tier := os.Getenv("VERIF_TIER")
	if tier == "" {
		tier = "quick"
	}
	seed := uint64(envInt("VERIF_SEED", 1))
	offset := envInt("VERIF_OFFSET", 0)
	stride := envInt("VERIF_STRIDE", 1)
	total := envInt("VERIF_RUNS", prof.RunsQuick)
	budget := time.Duration(envInt("VERIF_BUDGET_S", 60)) * time.Second
	maxViol := envInt("VERIF_MAX_VIOLATIONS", 6)
	knownSigs := loadKnownSignatures(id)
	counted := 0
	replayDir := os.Getenv("VERIF_REPLAY_DIR")
	repoTree := os.Getenv("VERIF_REPO_TREE")
	curFile := os.Getenv("VERIF_CURFILE")
	if curFile != "" {
		defer os.Remove(curFile)
	}

	start := time.Now()
	sum := &workerSummary{Property: id, Fired: map[string]int{}, Probes: map[string]int{}, DontCare: map[string]int{},
		Extra: map[string]int{}, Excluded: map[string]int{}, Level: prof.Level, Rule: prof.Rule, Assumptions: prof.Assumptions, Components: prof.Components}
	prints := map[uint64]bool{}
	allPrints := map[uint64]bool{}
	seenSig := map[string]bool{}
	latticeSeen := map[int]bool{}

	var hashLog *os.File
	if hl := os.Getenv("VERIF_HASHLOG"); hl != "" {
		var err error
		if hashLog, err = os.OpenFile(fmt.Sprintf("%s.%d", hl, offset), os.O_CREATE|os.O_WRONLY|os.O_TRUNC, 0o644); err != nil {
			fmt.Fprintf(os.Stderr, "hashlog: %v\n", err)
			os.Exit(2)
		}
		defer hashLog.Close()
	}
	for run := offset; run < total; run += stride {
		if time.Since(start) > budget {
			sum.BudgetHit = true
			break
		}
		g := NewRng(seed, uint64(run), 0)
		plan := prof.Gen(g, tier)
		plan.Property, plan.Profile, plan.Seed, plan.Run = prof.ID, prof.Name, seed, uint64(run)
		if curFile != "" {
			// should the process die inside this run (a fatal error is not a panic: nothing can catch it), the driver finds the plan here
			_ = os.WriteFile(curFile, mustJSON(&replayFile{Plan: plan, RepoTree: repoTree,
				Violation: &Violation{Class: "fatal", Signature: prof.ID + "/fatal/process-died", Expected: "a result or an error", Observed: "the process died"}}), 0o644)
		}
		res := runPlan(t, prof, plan)
		sum.Runs++
		addCounts(sum.Fired, res.Fired)
		addCounts(sum.Probes, res.Probes)
		addCounts(sum.DontCare, res.DontCare)
		addCounts(sum.Extra, res.Extra)
		sum.SimMillis += res.SimMillis
		for _, lp := range res.Lattice {
			latticeSeen[lp] = true
		}
		if res.Excluded != "" {
			sum.Excluded[res.Excluded]++
		}
		fp := res.Fingerprint()
		allPrints[fp] = true
		if hashLog != nil {
			v := "-"
			if res.Violation != nil {
				v = res.Violation.Signature
			}
			fmt.Fprintf(hashLog, "%d %s %s\n", run, res.LogHash(), v)
		}
		if res.Nontrivial {
			sum.Nontrivial++
			if !prints[fp] {
				prints[fp] = true
				if len(sum.Samples) < 3 {
					sum.Samples = append(sum.Samples, sample{Run: uint64(run), Knobs: plan.Knobs, Steps: mustJSON(plan.Steps), Log: res.Log})
				}
			}
		}
		if res.Violation != nil {
			if seenSig[res.Violation.Signature] {
				continue // same failing site already minimised and reported by this worker
			}
			seenSig[res.Violation.Signature] = true
			mp, mres, info := plan, res, minInfo{FromSteps: len(plan.Steps), ToSteps: len(plan.Steps)}
			isKnown := knownSigs[res.Violation.Signature]
			if !isKnown {
				// known findings are reported un-minimised: their replay file only has to name the site
				mp, mres, info = minimise(t, prof, plan, res.Violation)
			}
			v := mres.Violation
			if v == nil {
				v = res.Violation
				mp, mres = plan, res
			}
			if mres.Schedule != nil {
				mp = mp.Clone()
				mp.Schedule = mres.Schedule
			}
			rf := replayFile{Plan: mp, RepoTree: repoTree, Violation: v, Minimised: info, LogHash: mres.LogHash(), Log: mres.Log}
			path := fmt.Sprintf("%s/%d-%d.json", replayDir, seed, run)
			if replayDir != "" {
				_ = os.MkdirAll(replayDir, 0o755)
				b, _ := json.MarshalIndent(rf, "", " ")
				if err := os.WriteFile(path, b, 0o644); err != nil {
					fmt.Fprintf(os.Stderr, "cannot write replay: %v\n", err)
					os.Exit(2)
				}
			}
			sum.Violations = append(sum.Violations, foundViolation{Violation: v, Replay: path, Run: uint64(run)})
			if !isKnown {
				counted++
			}
			if counted >= maxViol {
				break
			}
		}
	}
	for fp := range prints {
		sum.Fingerprints = append(sum.Fingerprints, fp)
	}
	sum.AllPrints = len(allPrints)
	for lp := range latticeSeen {
		sum.Lattice = append(sum.Lattice, lp)
	}
	sum.WallS = time.Since(start).Seconds()
	if curFile != "" {
		_ = os.Remove(curFile)
	}
	addCounts(sum.Fired, poolSeamCounts())
	b, _ := json.Marshal(sum)
	if out := os.Getenv("VERIF_OUT"); out != "" {
		if err := os.WriteFile(out, b, 0o644); err != nil {
			fmt.Fprintf(os.Stderr, "cannot write summary: %v\n", err)
			os.Exit(2)
		}
	} else {
		fmt.Println(string(b))
	}
	// Leave now: under -race the testing package would turn detector reports (which are
	// this run's *findings*, already recorded above) into a test failure.
	os.Exit(0)
}

func replayMain(t *testing.T, prof *Profile, path string) {
	b, err := os.ReadFile(path)
	if err != nil {
		fmt.Fprintf(os.Stderr, "cannot read replay: %v\n", err)
		os.Exit(2)
	}
	var rf replayFile
	if err := json.Unmarshal(b, &rf); err != nil {
		fmt.Fprintf(os.Stderr, "cannot parse replay: %v\n", err)
		os.Exit(2)
	}
	res := runPlan(t, prof, rf.Plan)
	out := map[string]any{"log_hash": res.LogHash(), "violation": res.Violation, "expected_hash": rf.LogHash, "log": res.Log}
	ob, _ := json.Marshal(out)
	if o := os.Getenv("VERIF_OUT"); o != "" {
		_ = os.WriteFile(o, ob, 0o644)
	} else {
		fmt.Println(string(ob))
	}
	os.Exit(0)
}
