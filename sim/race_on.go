//go:build race

package samlsim

import "runtime"

func raceDisable() { runtime.RaceDisable() }
func raceEnable()  { runtime.RaceEnable() }
