package samlsim

import (
	"encoding/base64"
	"fmt"
	"net/http/httptest"
	"net/url"
	"strings"
	"testing"
	"time"

	"github.com/crewjam/saml"
)

// C03 — the SP accepts only assertions addressed to it by its configured IdP (profile `misroute`).
//
// Simulator dimension: multi-party mis-delivery. Several SPs and IdP tenants whose names
// are near-misses of each other share one signing key; validly signed responses minted
// for one party are delivered to another, at the ACS URL or at a variant of it.

type misKnobs struct {
	EntityIDSet  bool   `json:"entity_id_set"`
	EntityID     string `json:"entity_id,omitempty"` // with entity_id_set: the configured entity ID ("" = urn:example:sp); plain names are entity IDs too
	CustomAud    bool   `json:"custom_audience_validator"`
	FaultyAud    bool   `json:"custom_audience_validator_panics_on_unknown_audience,omitempty"` // the application's validator faults (nil dereference) on audiences it does not know: whatever the library makes of that, the assertion was not approved
	ReceivedAt   string `json:"received_at"`                                                    // "acs" | "acs-query" | "relative" (path-only request URL, as behind a real net/http server) | "unknown" (the caller does not know, or does not say, where the response was received: the zero url.URL)
	AllowIDP     bool   `json:"allow_idp_initiated"`
	Fingerprint  bool   `json:"idp_known_by_certificate_fingerprint,omitempty"` // no certificate in the IdP metadata: the SP is configured with the fingerprint of the IdP's certificate
	Rebase       bool   `json:"metadata_url_changes_after_first_use"`           // entity ID unset: after the first delivery the application changes MetadataURL (a per-tenant clone of a template SP); the audience follows
	MaxIssueMs   int64  `json:"MaxIssueDelay_ms"`
	MaxClockSkew int64  `json:"MaxClockSkew_ms"`
	// ReqIDHook: the application installs ValidateRequestID (one that matches InResponseTo exactly like the library's default):
	// which request a response answers is the one thing the hook decides
	ReqIDHook bool `json:"custom_request_id_validator,omitempty"`
}

type misStep struct {
	Kind  string   `json:"kind"`
	Entry string   `json:"entry"` // xml | post | artifact
	Spec  RespSpec `json:"response"`
	// generator's labels per field (informational + probes)
	Labels map[string]string `json:"labels"`
	// artifact envelope
	ArtIssuer string `json:"art_issuer,omitempty"`
	ArtStatus string `json:"art_status,omitempty"`
	ArtSigned bool   `json:"art_signed,omitempty"`
	// Decoy ("first" | "last"): the response carries a second assertion, which the IdP issued (and signed like the other one) for a
	// user of another service provider: recipient, audience and subject are that provider's. Whether a response with such a
	// companion is accepted at all is open; the assertion handed to the application must be the one meant for this SP.
	Decoy string `json:"companion_assertion_for_another_sp,omitempty"`
	// Unsolicited: the IdP sends the response of its own accord (IdP-initiated sign-on): neither the Response nor the confirmations
	// carry InResponseTo. Whom the message is for is said by the same fields as ever; generated for SPs that allow it.
	Unsolicited bool `json:"unsolicited,omitempty"`
	// NoAssertion: the response carries no assertion at all
	NoAssertion bool `json:"no_assertion,omitempty"`
	// RespSigNoCert: the certificate is dropped in flight from the KeyInfo of the Response's own signature (KeyInfo is not signed
	// content); the assertion's signature keeps its certificate. The Response still carries a signature.
	RespSigNoCert bool `json:"response_signature_keyinfo_without_certificate,omitempty"`
}

const (
	misSPBase    = "https://sp.example.com"
	misACS       = "https://sp.example.com/saml/acs"
	misEntity    = "urn:example:sp"
	misMetadata  = "https://sp.example.com/saml/metadata"
	misMetadata2 = "https://sp.example.com/tenant2/saml/metadata"
)

// nearMiss returns a population of strings confusable with s.
func nearMiss(g *Rng, s string) string {
	switch g.Intn(9) {
	case 0:
		return s + "/"
	case 1:
		return s + "x"
	case 2:
		return s[:len(s)-1]
	case 3:
		return s + "?q=1"
	case 4:
		return strings.ToUpper(s[:1]) + s[1:]
	case 5:
		return strings.Replace(s, "example.com", "EXAMPLE.com", 1)
	case 6:
		return s + " "
	case 7:
		return strings.Replace(s, "example.com", "example.com.evil.org", 1)
	default:
		return s + "#frag"
	}
}

// variant draws a field value: returns (value, label). label in correct|near|wrong|empty.
func variant(g *Rng, correct string, ws [4]int) (string, string) {
	switch g.PickW(ws[:]...) {
	case 0:
		return correct, "correct"
	case 1:
		return nearMiss(g, correct), "near"
	case 2:
		return Pick(g, "https://other.example.org/saml/acs", "bob", "https://sp2.example.com/saml/acs", "urn:example:other"), "wrong"
	}
	return "", "empty"
}

func genMisroute(g *Rng, tier string) *Plan {
	k := misKnobs{EntityIDSet: g.Bool(0.5), CustomAud: g.Bool(0.2), ReceivedAt: Pick(g, "acs", "acs", "acs-query", "relative", "unknown"), AllowIDP: g.Bool(0.2), Rebase: g.Bool(0.15),
		MaxIssueMs: Pick(g, int64(7000), 90_000), MaxClockSkew: Pick(g, int64(1000), 180_000)}
	k.FaultyAud = k.CustomAud && g.Bool(0.4)
	k.ReqIDHook = g.Bool(0.2)
	k.Fingerprint = g.Bool(0.15)
	if k.EntityIDSet && g.Bool(0.35) {
		k.EntityID = Pick(g, "my-service", "sp.example.com", "sp/prod", "SP 1")
	}
	p := &Plan{Knobs: mustJSON(k)}
	myAud := misMetadata
	if k.EntityIDSet {
		myAud = firstNonEmpty(k.EntityID, misEntity)
	}
	if k.CustomAud {
		myAud = "custom-ok"
	}
	rebase := k.Rebase && !k.EntityIDSet && !k.CustomAud
	n := 1 + g.PickW(6, 3, 1)
	if rebase && n < 2 {
		n = 2
	}
	for i := 0; i < n; i++ {
		if rebase && i == 1 {
			myAud = misMetadata2 // from the second delivery on the SP's metadata URL (hence its audience) is another one
		}
		st := misStep{Kind: "deliver", Entry: Pick(g, "xml", "xml", "post", "artifact"), Labels: map[string]string{}}
		if k.ReceivedAt == "unknown" && st.Entry == "post" {
			st.Entry = "xml" // a caller that hands over an *http.Request always says where it was received
		}
		clean := g.Bool(0.12) // everything correct: the sufficient direction
		w := func(ws ...int) [4]int {
			if clean {
				return [4]int{1, 0, 0, 0}
			}
			var out [4]int
			copy(out[:], ws)
			return out
		}
		pw := func(ws ...int) int {
			a := w(ws...)
			return g.PickW(a[:]...)
		}
		spec := RespSpec{ID: fmt.Sprintf("id-resp-%d", i), InResponseTo: "id-req", TimeForm: 0}
		irt := "id-req"
		if k.AllowIDP && g.Bool(0.5) {
			st.Unsolicited, spec.InResponseTo, irt = true, "", ""
			st.Labels["in-response-to"] = "none"
		}
		// Response issuer
		switch {
		case !clean && g.Bool(0.12):
			st.Labels["resp-issuer"] = "absent"
		default:
			v, l := variant(g, idpEntity, w(12, 2, 2, 1))
			spec.Issuer = sp(v)
			st.Labels["resp-issuer"] = l
			if l != "correct" && g.Bool(0.4) {
				// another party's name, dressed up: a non-entity Format with the configured IdP's entity ID as NameQualifier
				spec.IssuerFormat, spec.IssuerNQ = Pick(g, "urn:oasis:names:tc:SAML:2.0:nameid-format:persistent", "urn:oasis:names:tc:SAML:1.1:nameid-format:unspecified"), idpEntity
			}
		}
		// Destination
		recvAt := misACS
		switch k.ReceivedAt {
		case "acs-query":
			recvAt = misACS + "?tenant=1"
		case "relative":
			recvAt = "/saml/acs"
		}
		switch c := pw(10, 3, 2, 2); c {
		case 0:
			spec.Destination = Pick(g, misACS, recvAt)
			st.Labels["destination"] = "correct"
		case 1:
			spec.Destination = Pick(g, nearMiss(g, misACS), nearMiss(g, misACS), "https://other-sp.example.net/saml/acs", "http://sp.example.com:8080/saml/acs")
			st.Labels["destination"] = "near"
		case 2:
			spec.Destination = Pick(g, "https://sp2.example.com/saml/acs", misSPBase+"/saml/slo", misSPBase+"/saml/slo", misMetadata) // another SP's endpoint, or another endpoint of this SP
			st.Labels["destination"] = "wrong"
		default:
			st.Labels["destination"] = "absent"
		}
		// Status
		switch pw(14, 1, 2, 1) {
		case 0:
			spec.Status, st.Labels["status"] = saml.StatusSuccess, "correct"
		case 1:
			spec.Status, st.Labels["status"] = Pick(g, saml.StatusSuccess+" ", "urn:oasis:names:tc:SAML:2.0:status:success", saml.StatusSuccess+"x"), "near"
		case 2:
			spec.Status, st.Labels["status"] = Pick(g, saml.StatusRequester, saml.StatusResponder, saml.StatusAuthnFailed), "wrong"
			spec.SubStatus = Pick(g, "", "", saml.StatusSuccess, saml.StatusAuthnFailed, saml.StatusNoPassive) // the second-level code decides nothing
		default:
			spec.Status, st.Labels["status"] = "", "empty"
		}
		layout := g.Intn(3)
		spec.Sign = layout != 1
		if clean && !spec.Sign && g.Bool(0.35) {
			// a Response that carries no signature of its own need not say where it goes: absent is a correct value there
			spec.Destination = ""
			st.Labels["destination"] = "absent"
		}
		a := AsrtSpec{ID: fmt.Sprintf("id-as-%d", i), NameID: marker("nid", i), NotBefore: i64(-1000), NotOnOrAfter: i64(600_000), Sign: layout != 0, SessionIndex: "si"}
		a.Issuer, st.Labels["as-issuer"] = variant(g, idpEntity, w(14, 2, 2, 1))
		if st.Labels["as-issuer"] != "correct" && g.Bool(0.4) {
			a.IssuerFormat, a.IssuerNQ = Pick(g, "urn:oasis:names:tc:SAML:2.0:nameid-format:persistent", "urn:oasis:names:tc:SAML:1.1:nameid-format:unspecified"), idpEntity
		}
		nc := 1 + g.PickW(4, 1)
		for q := 0; q < nc; q++ {
			r, l := variant(g, misACS, w(14, 3, 2, 1))
			if l != "correct" && recvAt != misACS && g.Bool(0.4) {
				r = recvAt // the URL the response is received at, which is not the ACS URL (Destination may name it, Recipient may not)
			}
			noa := int64(600_000)
			if l != "correct" && g.Bool(0.4) {
				noa = -3_600_000 // a confirmation for somebody else that has moreover lapsed: still a confirmation of this assertion
			}
			a.Confs = append(a.Confs, ConfSpec{NotOnOrAfter: i64(noa), Recipient: r, InResponseTo: irt,
				Method: Pick(g, "", "", "", "urn:oasis:names:tc:SAML:2.0:cm:holder-of-key", "urn:oasis:names:tc:SAML:2.0:cm:sender-vouches")})
			st.Labels[fmt.Sprintf("recipient%d", q)] = l
		}
		na := pw(6, 1, 2, 1)
		if clean {
			na = g.PickW(2, 3) // none or one correct audience
		}
		naCount := []int{1, 0, 2, 3}[na]
		if clean {
			naCount = na
		}
		for q := 0; q < naCount; q++ {
			v, l := variant(g, myAud, w(10, 3, 3, 1))
			if l == "wrong" && !clean && g.Bool(0.4) {
				// a name of this very SP that is not its audience in this configuration: the metadata URL beside a configured entity ID,
				// its ACS URL, its entity ID where a custom validator decides
				v = Pick(g, misMetadata, misMetadata, misACS, misEntity)
				if v == myAud {
					v = misACS
				}
			}
			a.Audiences = append(a.Audiences, v)
			st.Labels[fmt.Sprintf("audience%d", q)] = l
		}
		if naCount == 0 {
			st.Labels["audiences"] = "none"
		}
		if !clean && g.Bool(0.08) {
			a.EmptyRestrictions = 1 + g.Intn(2)
			st.Labels["audience-restriction-without-audience"] = "empty"
		}
		if g.Bool(0.08) {
			// restrictions that list several audiences (an OR): this SP first / in the middle / last / not among them
			others := []string{"https://other-sp.example.net/saml/metadata", "urn:example:other", "https://sp2.example.com/saml/metadata", misACS, nearMiss(g, myAud)}
			ng := 1 + g.PickW(4, 1)
			for q := 0; q < ng; q++ {
				pos := Pick(g, "first", "middle", "last", "absent")
				if clean && pos == "absent" {
					pos = Pick(g, "first", "middle", "last")
				}
				size := 2 + g.Intn(2)
				if pos == "middle" {
					size = 3
				}
				grp := make([]string, size)
				for x := range grp {
					grp[x] = others[g.Intn(len(others))]
					if grp[x] == myAud {
						grp[x] = "urn:example:third"
					}
				}
				switch pos {
				case "first":
					grp[0] = myAud
				case "middle":
					grp[1] = myAud
				case "last":
					grp[size-1] = myAud
				}
				a.AudienceGroups = append(a.AudienceGroups, grp)
				st.Labels[fmt.Sprintf("audience-group%d", q)] = map[bool]string{true: "wrong", false: "correct"}[pos == "absent"]
			}
		}
		if g.Bool(0.12) {
			// a ProxyRestriction: whom the SP may in turn issue assertions to; says nothing about whom this one is for
			pr := &ProxySpec{}
			if c := g.Intn(4); c > 0 {
				c--
				pr.Count = &c
			}
			for q, n := 0, g.PickW(1, 3, 2); q < n; q++ {
				pr.Audiences = append(pr.Audiences, Pick(g, myAud, myAud, "https://downstream.example.net/sp", "https://other-sp.example.net/saml/metadata", misACS))
			}
			a.Proxy = pr
			st.Labels["proxy-restriction"] = "correct" // informational: it changes nothing
		}
		if g.Bool(0.15) {
			a.Encrypt, a.EncryptTo, a.Sign = true, 1, true
		}
		if g.Bool(0.25) {
			spec.Pretty, a.Pretty = true, true
		}
		if g.Bool(0.12) {
			// unused namespace declarations named after the attributes that say whom the message is for, reading what this SP wants to
			// see there (or, for a correctly addressed message, somebody else's URL): added in flight, they address nothing
			v := Pick(g, misACS, misACS, "https://other-sp.example.net/saml/acs")
			spec.NSDecls = []NSDecl{{On: "Response", Prefix: "Destination", Value: v}, {On: "SubjectConfirmationData", Prefix: "Recipient", Value: v},
				{On: "StatusCode", Prefix: "Value", Value: saml.StatusSuccess}}
			st.Labels["unused-ns-declarations"] = "correct" // informational: they change nothing
		}
		if g.Bool(0.1) {
			// the same names as extension attributes in a foreign namespace, written by the IdP before it signs
			v := Pick(g, misACS, misACS, "https://other-sp.example.net/saml/acs")
			spec.QualAttrs = withNS([]NSDecl{{On: "Response", Prefix: "Destination", Value: v}, {On: "SubjectConfirmationData", Prefix: "Recipient", Value: v},
				{On: "StatusCode", Prefix: "Value", Value: saml.StatusSuccess}}, Pick(g, "", "xml", "xsi"))
			st.Labels["foreign-ns-attributes"] = "correct"
		}
		noCertP := 0.15
		if k.Fingerprint {
			noCertP = 0.5 // where the certificate in the signature is all that ties it to the configured fingerprint, its absence matters most
		}
		if spec.Sign && a.Sign && !a.Encrypt && g.Bool(noCertP) {
			st.RespSigNoCert = true
		}
		spec.Assertions = []AsrtSpec{a}
		if !clean && g.Bool(0.06) {
			// what an IdP sends when it has nothing to assert (usually beside a non-Success status)
			st.NoAssertion = true
			spec.Assertions = nil
			st.Labels["assertions"] = "none"
		}
		if !st.NoAssertion && g.Bool(0.15) {
			st.Decoy = Pick(g, "first", "first", "last")
			other := "https://other-sp.example.net/saml"
			d := AsrtSpec{ID: fmt.Sprintf("id-foreign-%d", i), NameID: marker("victim", i), NotBefore: i64(-1000), NotOnOrAfter: i64(600_000), Sign: a.Sign, SessionIndex: "si-o",
				Issuer: idpEntity, Audiences: []string{other + "/metadata"}, Confs: []ConfSpec{{NotOnOrAfter: i64(600_000), Recipient: other + "/acs", InResponseTo: "id-req"}}}
			if st.Decoy == "first" {
				spec.Assertions = []AsrtSpec{d, a}
			} else {
				spec.Assertions = []AsrtSpec{a, d}
			}
		}
		st.Spec = spec
		if st.Entry == "artifact" {
			st.ArtSigned = g.Bool(0.4)
			switch pw(10, 1, 1, 1) {
			case 0:
				st.ArtIssuer, st.Labels["art-issuer"] = idpEntity, "correct"
			case 1:
				st.ArtIssuer, st.Labels["art-issuer"] = nearMiss(g, idpEntity), "near"
			case 2:
				st.ArtIssuer, st.Labels["art-issuer"] = "https://idp.other.org/metadata", "wrong"
			default:
				st.Labels["art-issuer"] = "absent"
			}
			switch pw(12, 1) {
			case 0:
				st.ArtStatus, st.Labels["art-status"] = saml.StatusSuccess, "correct"
			default:
				st.ArtStatus, st.Labels["art-status"] = saml.StatusResponder, "wrong"
			}
		}
		p.Steps = append(p.Steps, mustJSON(st))
	}
	return p
}

func execMisroute(t *testing.T, p *Plan) *Result {
	res := newResult()
	k := decode[misKnobs](p.Knobs)
	saml.MaxIssueDelay = ms(k.MaxIssueMs)
	saml.MaxClockSkew = ms(k.MaxClockSkew)
	installRand(p)
	idpMD := idpMetadataFor(idpEntity, idpSSO, idpSLO, []KeyPair{rsaKeys[0]}, nil, "signing")
	if k.Fingerprint {
		idpMD = idpMetadataFor(idpEntity, idpSSO, idpSLO, nil, nil, "signing")
	}
	ent := ""
	if k.EntityIDSet {
		ent = firstNonEmpty(k.EntityID, misEntity)
	}
	spv := newSP(misSPBase, rsaKeys[1], ent, idpMD)
	if k.Fingerprint {
		fp, algo := c01Fingerprint(rsaKeys[0]), c01FPAlgo
		spv.IDPCertificateFingerprint, spv.IDPCertificateFingerprintAlgorithm = &fp, &algo
		res.probe("idp-known-by-fingerprint")
	}
	myAud := misMetadata
	if k.EntityIDSet {
		myAud = firstNonEmpty(k.EntityID, misEntity)
	}
	if k.CustomAud {
		myAud = "custom-ok"
		spv.ValidateAudienceRestriction = func(a *saml.Assertion) error {
			if a.Conditions != nil {
				for _, ar := range a.Conditions.AudienceRestrictions {
					if ar.Audience.Value == "custom-ok" {
						return nil
					}
				}
			}
			if k.FaultyAud {
				var tenant *struct{ enabled bool }
				_ = tenant.enabled // the application's bug: unknown audience, nil tenant
			}
			return fmt.Errorf("custom validator: audience not accepted")
		}
	}
	recvAt := mustURL(misACS)
	switch k.ReceivedAt {
	case "acs-query":
		recvAt = mustURL(misACS + "?tenant=1")
	case "relative":
		recvAt = mustURL("/saml/acs")
	case "unknown":
		recvAt = url.URL{} // the caller leaves it empty
		res.probe("config:received-at-url-unknown-to-caller")
	}
	recvKnown := k.ReceivedAt != "unknown"
	spv.AllowIDPInitiated = k.AllowIDP
	reqIDs := []string{"id-req"}
	if k.AllowIDP {
		reqIDs = []string{"", "id-req"} // the way samlsp.Middleware calls it when IdP-initiated sign-on is allowed
	}
	if k.ReqIDHook {
		// the application matches responses to requests itself, the way the library does by default
		res.probe("config:custom-request-id-validator")
		allow := k.AllowIDP
		spv.ValidateRequestID = func(r saml.Response, possible []string) error {
			for _, id := range possible {
				if r.InResponseTo == id {
					return nil
				}
			}
			if allow {
				return nil
			}
			return fmt.Errorf("custom validator: not an answer to a request of ours")
		}
	}
	begin := time.Now()
	rebase := k.Rebase && !k.EntityIDSet && !k.CustomAud
	for si, raw := range p.Steps {
		st := decode[misStep](raw)
		if st.Kind != "deliver" {
			continue
		}
		if rebase && si == 1 {
			spv.MetadataURL = mustURL(misMetadata2)
			myAud = misMetadata2
			res.fire("sp-metadata-url-changed")
		}
		t0 := time.Now()
		build := func(spec *RespSpec) []byte {
			respEl := BuildResponseEl(spec, t0)
			if st.RespSigNoCert {
				for _, c := range respEl.ChildElements() {
					if c.Tag == "Signature" {
						if ki := c.FindElement("./KeyInfo"); ki != nil {
							c.RemoveChild(ki)
						}
					}
				}
			}
			if st.Entry == "artifact" {
				var signer *KeyPair
				if st.ArtSigned {
					signer = &rsaKeys[0]
				}
				return wrapArtifactResponse(respEl, "id-art", "id-resolve", st.ArtIssuer, st.ArtStatus, t0, signer)
			}
			return elBytes(respEl)
		}
		if st.RespSigNoCert {
			res.probe("response-signature-without-certificate")
		}
		body := build(&st.Spec)
		advance(50 * time.Millisecond)
		a := AsrtSpec{Issuer: idpEntity} // no assertion: nothing of an assertion can be wrong
		if !st.NoAssertion {
			a = st.Spec.Assertions[0]
			if st.Decoy == "first" {
				a = st.Spec.Assertions[1]
			}
		}

		// ---- oracle from the statement
		var bad []string // definite reasons to reject
		dc := false
		if st.Spec.Issuer != nil && *st.Spec.Issuer != idpEntity {
			bad = append(bad, "response-issuer")
		}
		if a.Issuer != idpEntity {
			bad = append(bad, "assertion-issuer")
		}
		for _, c := range a.Confs {
			if c.Recipient != misACS {
				bad = append(bad, "recipient")
				break
			}
		}
		// the restrictions that list somebody: one per entry of Audiences, and those with several audiences, each of which is satisfied
		// when ANY of its audiences is this SP
		var restrictions [][]string
		for _, au := range a.Audiences {
			restrictions = append(restrictions, []string{au})
		}
		restrictions = append(restrictions, a.AudienceGroups...)
		okc := 0
		for _, r := range restrictions {
			for _, au := range r {
				if au == myAud {
					okc++
					break
				}
			}
		}
		for _, grp := range a.AudienceGroups {
			pos := "absent"
			for x, au := range grp {
				if au == myAud {
					pos = map[bool]string{true: "first", false: "middle"}[x == 0]
					if x == len(grp)-1 {
						pos = "last"
					}
					break
				}
			}
			res.probe("several-audiences-in-one-restriction:this-sp-" + pos)
		}
		if len(restrictions) > 0 {
			switch {
			case okc == 0:
				bad = append(bad, "audience")
			case okc < len(restrictions) && !k.CustomAud:
				dc = true // several restrictions of which only some name the SP (DESIGN §7)
			}
		} else if k.CustomAud && !st.NoAssertion {
			bad = append(bad, "audience") // this application's validator demands its audience
		}
		if a.Proxy != nil {
			// whom the SP may issue assertions to in turn: no part of whom this assertion is for
			names := "nobody"
			for _, au := range a.Proxy.Audiences {
				if au == myAud {
					names = "this-sp"
					break
				}
				names = "others"
			}
			res.probe("proxy-restriction:names-" + names)
		}
		if a.EmptyRestrictions > 0 {
			named := okc > 0
			switch {
			case k.CustomAud:
				dc = true // what the application's validator makes of it is the application's
			case !named:
				bad = append(bad, "audience") // restrictions are present and none of them names this SP
			default:
				dc = true // beside a restriction that names the SP (several restrictions: DESIGN 7)
			}
		}
		statusBad := st.Spec.Status != saml.StatusSuccess
		if st.NoAssertion && !statusBad {
			bad = append(bad, "no-assertion")
		}
		if st.Entry == "artifact" {
			if st.ArtIssuer != "" && st.ArtIssuer != idpEntity {
				bad = append(bad, "artifact-issuer")
			}
			if st.ArtStatus != saml.StatusSuccess {
				bad = append(bad, "artifact-status")
			}
		}
		browser := st.Entry != "artifact"
		switch {
		case st.Spec.Destination == "":
			if st.Spec.Sign && browser {
				bad = append(bad, "destination-missing")
			} else if st.Spec.Sign && !browser {
				dc = true // not delivered through the browser: the statement does not make Destination mandatory
			}
		case st.Spec.Destination != misACS && (!recvKnown || st.Spec.Destination != recvAt.String()):
			bad = append(bad, "destination") // neither the ACS URL nor (where the caller says it) the URL the response was received at
		}
		if st.Spec.InResponseTo == "" {
			res.probe("unsolicited-response")
			if !k.AllowIDP {
				dc = true // whether an answer to no request is taken at all is not this property's to say
			}
		}
		if st.RespSigNoCert && k.Fingerprint {
			dc = true // a signature naming no certificate cannot be matched to a fingerprint: whether such a response gets in on its assertion's signature is open
		}
		expect := "ACCEPT"
		switch {
		case len(bad) > 0 || statusBad:
			expect = "REJECT"
		case dc || st.Decoy != "":
			expect = "DONT_CARE"
		}

		deliver := func(body []byte) (as *saml.Assertion, pan any, err error) {
			pan = guard(func() {
				switch st.Entry {
				case "xml":
					as, err = spv.ParseXMLResponse(body, reqIDs, recvAt)
				case "post":
					form := url.Values{"SAMLResponse": {base64.StdEncoding.EncodeToString(body)}}
					target := recvAt.String()
					if !recvKnown {
						target = misACS
					}
					r := httptest.NewRequest("POST", target, strings.NewReader(form.Encode()))
					if !recvKnown {
						r.URL = &url.URL{}
					}
					r.Header.Set("Content-Type", formCT)
					_ = r.ParseForm()
					as, err = spv.ParseResponse(r, reqIDs)
				case "artifact":
					as, err = spv.ParseXMLArtifactResponse(body, reqIDs, "id-resolve", recvAt)
				}
			})
			return
		}
		as, pan, err := deliver(body)
		observed := "REJECT"
		if pan != nil {
			observed = "PANIC"
		} else if as != nil && err == nil {
			observed = "ACCEPT"
		}
		labels := make([]string, 0, len(st.Labels))
		for _, lk := range sortedKeys(st.Labels) {
			labels = append(labels, lk+"="+st.Labels[lk])
		}
		res.logf("step %d %s layout=%s %v bad=%v status-bad=%v expect=%s observed=%s", si, st.Entry, layoutOf(&st.Spec), labels, bad, statusBad, expect, observed)
		nonCorrect := 0
		for lk, l := range st.Labels {
			if l != "correct" && l != "none" {
				nonCorrect++
				res.fire("misdeliver:" + strings.TrimRight(lk, "0123456789") + ":" + l)
			}
		}
		if nonCorrect > 0 {
			res.Nontrivial = true
		}
		if nonCorrect == 1 {
			res.probe("single-field-deviates")
		}
		if pan != nil {
			res.Excluded = "panic (reported under C09)"
			return res
		}
		if st.Decoy != "" {
			res.probe("companion-assertion-for-another-sp:" + st.Decoy)
			if as != nil && as.ID != a.ID {
				res.violate(si, "accepted-misaddressed", "C03/accepted/companion-assertion/"+st.Decoy, "the assertion meant for this SP, or a refusal", "assertion "+as.ID, "recipient and audience are another provider's")
				return res
			}
		}
		switch expect {
		case "DONT_CARE":
			res.dontcare("open-region")
		case "ACCEPT":
			if as == nil && len(a.AudienceGroups) > 0 {
				// is it the several audiences in one restriction, and nothing else, that the refusal turns on? The same message with
				// every such restriction cut down to one audience (this SP where it is among them) says the same about whom it is for.
				alt := decode[RespSpec](mustJSON(st.Spec))
				for x := range alt.Assertions {
					if alt.Assertions[x].ID != a.ID {
						continue
					}
					for _, grp := range alt.Assertions[x].AudienceGroups {
						one := grp[0]
						for _, au := range grp {
							if au == myAud {
								one = au
							}
						}
						alt.Assertions[x].Audiences = append(alt.Assertions[x].Audiences, one)
					}
					alt.Assertions[x].AudienceGroups = nil
				}
				as2, pan2, _ := deliver(build(&alt))
				res.logf("step %d the same with one audience per restriction: accepted=%v", si, as2 != nil && pan2 == nil)
				if as2 != nil && pan2 == nil {
					res.violate(si, "rejected-valid", "C03/rejected-valid/several-audiences-in-one-restriction", expect, observed, privErr(err))
					return res
				}
			}
			if as == nil {
				res.violate(si, "rejected-correctly-addressed", "C03/rejected-correctly-addressed/"+st.Entry, expect, observed, privErr(err))
				return res
			}
		case "REJECT":
			if as != nil {
				why := "status"
				if len(bad) > 0 {
					why = bad[0]
				}
				lbl := ""
				for lk, l := range st.Labels {
					if strings.HasPrefix(lk, strings.SplitN(why, "-", 2)[0]) && l != "correct" {
						lbl = l
					}
				}
				res.violate(si, "accepted-misaddressed", "C03/accepted/"+why+"/"+lbl, expect, observed, fmt.Sprint(bad))
				return res
			}
			// a non-Success status on an otherwise valid response must be reported as such
			if statusBad && len(bad) == 0 && !dc {
				ire, _ := err.(*saml.InvalidResponseError)
				var bs saml.ErrBadStatus
				okType := false
				if ire != nil {
					bs, okType = ire.PrivateErr.(saml.ErrBadStatus)
				}
				if !okType || bs.Status != st.Spec.Status {
					res.violate(si, "bad-status-not-reported", "C03/bad-status-not-reported/"+st.Entry, "InvalidResponseError{ErrBadStatus{"+st.Spec.Status+"}}", privErr(err), "")
					return res
				}
				res.probe("bad-status-reported")
			}
		}
	}
	res.SimMillis = time.Since(begin).Milliseconds()
	return res
}

func simplifyMisroute(p *Plan) []*Plan {
	var out []*Plan
	for i, raw := range p.Steps {
		st := decode[misStep](raw)
		if st.Entry != "xml" {
			c := p.Clone()
			s2 := decode[misStep](raw)
			s2.Entry = "xml"
			c.Steps[i] = mustJSON(s2)
			out = append(out, c)
		}
		if st.Decoy != "" {
			c := p.Clone()
			s2 := decode[misStep](raw)
			keep := 0
			if s2.Decoy == "first" {
				keep = 1
			}
			s2.Spec.Assertions, s2.Decoy = []AsrtSpec{s2.Spec.Assertions[keep]}, ""
			c.Steps[i] = mustJSON(s2)
			out = append(out, c)
			continue
		}
		if st.NoAssertion {
			continue
		}
		a := st.Spec.Assertions[0]
		if a.Encrypt {
			c := p.Clone()
			s2 := decode[misStep](raw)
			s2.Spec.Assertions[0].Encrypt = false
			c.Steps[i] = mustJSON(s2)
			out = append(out, c)
		}
		if len(a.Confs) > 1 {
			for q := range a.Confs {
				c := p.Clone()
				s2 := decode[misStep](raw)
				cf := s2.Spec.Assertions[0].Confs
				s2.Spec.Assertions[0].Confs = append(append([]ConfSpec{}, cf[:q]...), cf[q+1:]...)
				c.Steps[i] = mustJSON(s2)
				out = append(out, c)
			}
		}
		if len(a.Audiences) > 1 {
			for q := range a.Audiences {
				c := p.Clone()
				s2 := decode[misStep](raw)
				au := s2.Spec.Assertions[0].Audiences
				s2.Spec.Assertions[0].Audiences = append(append([]string{}, au[:q]...), au[q+1:]...)
				c.Steps[i] = mustJSON(s2)
				out = append(out, c)
			}
		}
		for q, grp := range a.AudienceGroups {
			// without the restriction, then with the restriction one audience shorter
			c := p.Clone()
			s2 := decode[misStep](raw)
			gs := s2.Spec.Assertions[0].AudienceGroups
			s2.Spec.Assertions[0].AudienceGroups = append(append([][]string{}, gs[:q]...), gs[q+1:]...)
			c.Steps[i] = mustJSON(s2)
			out = append(out, c)
			if len(grp) > 2 {
				for x := range grp {
					c := p.Clone()
					s2 := decode[misStep](raw)
					g2 := s2.Spec.Assertions[0].AudienceGroups[q]
					s2.Spec.Assertions[0].AudienceGroups[q] = append(append([]string{}, g2[:x]...), g2[x+1:]...)
					c.Steps[i] = mustJSON(s2)
					out = append(out, c)
				}
			}
		}
		if a.Proxy != nil {
			c := p.Clone()
			s2 := decode[misStep](raw)
			s2.Spec.Assertions[0].Proxy = nil
			c.Steps[i] = mustJSON(s2)
			out = append(out, c)
		}
	}
	return out
}

func init() {
	register(&Profile{
		ID: "C03", Name: "misroute", Level: "exploration",
		Rule: "each run: 1-3 deliveries of a validly signed foreign-IdP response to an SP (entity ID set/unset, custom audience validator on/off, received-at URL equal to the ACS URL or carrying an extra query, xml/post/artifact entry, 3 signing layouts, plaintext/encrypted) in which Response Issuer, Assertion Issuer, each of 1-2 Recipients, each of 0-3 audiences, Destination, StatusCode (and ArtifactResponse issuer/status) are independently correct / near-miss (trailing slash, suffix, truncation, query, case, look-alike host, fragment, trailing space) / wrong / empty / absent — i.e. the message was minted for another party with a confusable name; one step in eight is fully correct; non-trivial = at least one field deviates; distinct = distinct abstract log; knobs also include AllowIDPInitiated and a path-only received-at URL; near-miss destinations include a foreign authority with the same path; one run in five the caller does not say where the response was received (zero url.URL), and SPs that allow IdP-initiated sign-on get unsolicited responses (no InResponseTo anywhere) half the time; an unsigned Response of a fully correct step may leave Destination out; 8% of the assertions carry 1-2 further AudienceRestrictions listing 2-3 audiences each (this SP first / in the middle / last / not among them), 12% a ProxyRestriction (Count absent/0-2, 0-2 audiences that may name this SP), which decides nothing",
		Gen:  genMisroute, Exec: execMisroute, Simplify: simplifyMisroute,
		RunsQuick: 6000, RunsThorough: 600000,
		Assumptions: []string{"near-miss strings come from a constructed population, not from all strings", "several AudienceRestrictions of which only some name the SP, and a missing Destination on a signed Response that did not travel through the browser (artifact), are declared don't-care", "with a custom audience validator the validator's verdict is the oracle for audiences", "a restriction listing several audiences is satisfied when any of them is this SP; a refusal that goes away when each such restriction is cut down to one audience is reported under its own signature (several-audiences-in-one-restriction)", "an unsolicited response at an SP that does not allow IdP-initiated sign-on is don't-care here (C04)"},
		Components: map[string][]string{
			"real": {"saml.ServiceProvider.ParseXMLResponse/ParseResponse/ParseXMLArtifactResponse", "goxmldsig", "xmlenc", "etree"},
			"stub": {"foreign IdP tenants sharing one key", "mis-delivering network"},
		},
	})
}
