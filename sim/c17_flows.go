package samlsim

import (
	"encoding/base64"
	"fmt"
	"net/http"
	"net/url"
	"sort"
	"strings"
	"testing"
	"time"

	"github.com/crewjam/saml"
	"github.com/golang-jwt/jwt/v4"
)

// C17 — login completes only in the browser that started it, at its URL (profile `flows`).
//
// Simulator dimensions: histories of interleaved login flows in 1-2 browsers against 1-2
// middleware deployments, cookie-jar manipulation by a party between browser and SP,
// replay of responses, and the clock moving past the tracking lifetime.

type flowKnobs struct {
	MaxIssueDelayMs int64          `json:"MaxIssueDelay_ms"`
	Deploys         []mwDeployConf `json:"deployments"`
	Browsers        int            `json:"browsers"`
}

type flowStep struct {
	Kind        string `json:"kind"` // start | answer | deliver | advance | visit
	B           int    `json:"browser,omitempty"`
	SP          int    `json:"sp,omitempty"`
	URL         string `json:"url,omitempty"`
	Flow        int    `json:"flow,omitempty"`
	User        int    `json:"user,omitempty"`
	Unsolicited bool   `json:"unsolicited,omitempty"`
	// start: the protected URL is requested with this method ("" GET) - a form submitted after the session ran out, say - and the
	// browser says where it came from. The flow is tracked at the URL that was requested, whatever the method and the Referer.
	Method  string `json:"method,omitempty"`
	Referer string `json:"referer,omitempty"`
	// start: the URL asked for is long - a search form, a report with many filters (LongQuery bytes of query value appended), a deep
	// path (LongPath bytes of path segment appended). Long or short, it is the URL the flow has to end at
	LongQuery int `json:"long_query,omitempty"`
	LongPath  int `json:"long_path,omitempty"`
	// Forged (answer): Mallory takes an assertion the IdP issued for no request (signed, no InResponseTo anywhere), strips the outer
	// signature and writes the victim flow's request ID into the unsigned envelope
	Forged bool `json:"forged_envelope,omitempty"`
	// ForgedFrom (answer, with Forged; k > 0 means flow k-1): the assertion Mallory re-wraps is the IdP's genuine answer to that
	// flow's request (her own login) - every InResponseTo inside the signature names it - and only the unsigned envelope names the victim's
	ForgedFrom int `json:"forged_from_flow_plus_1,omitempty"`
	// Method (answer): the confirmation method the IdP writes ("" bearer). Whatever the method, the confirmation's signed
	// InResponseTo says which request the assertion answers
	ConfMethod string `json:"confirmation_method,omitempty"`
	// Artifact (deliver): the IdP brings the browser back with GET acs?SAMLart=..&RelayState=.. (deployments with the artifact response binding)
	Artifact bool   `json:"via_artifact,omitempty"`
	Resp     int    `json:"resp,omitempty"`
	Jar      string `json:"jar,omitempty"`
	Relay    string `json:"relay,omitempty"`
	Other    int    `json:"other_flow,omitempty"`
	Ms       int64  `json:"ms,omitempty"`
}

var flowURLs = []string{"/page1", "/page2?x=1&y=%2F", "/deep/er/path", "/page1?again=1",
	"/files/summary%3Fshare=public", "/%2Fevil.example/welcome", "/a%23b/c", "/p%25q?r=%26"}
var jarPolicies = []string{"faithful", "faithful", "faithful", "faithful", "subset", "dup-under-other-name", "other-only", "none", "renamed", "swapped", "expired-kept", "forged", "session-as-tracking", "cross-browser",
	// everything the browser holds (so the response does answer a presented, authentic cookie) plus a cookie Mallory planted under a name of
	// her own: right claims, her key, her landing page
	"faithful-plus-planted", "faithful-plus-planted",
	// everything the browser holds, behind cookies that merely share the tracking prefix: another application's saml_idp_hint, the garbled or
	// expired leftovers of abandoned flows. They are nobody's tracking cookies; the flow's own cookie is there, authentic and fresh
	"junk-ahead", "junk-ahead"}
var relayPolicies = []string{"echo", "echo", "echo", "echo", "other", "absent", "arbitrary", "planted"}

const plantedIndex = "zQplantedQz"

func genFlows(g *Rng, tier string) *Plan {
	k := flowKnobs{MaxIssueDelayMs: Pick(g, int64(7000), 90_000, 660_000), Browsers: 1 + g.Intn(2)}
	nd := 1 + g.PickW(3, 1)
	for i := 0; i < nd; i++ {
		k.Deploys = append(k.Deploys, mwDeployConf{HTTPS: g.Bool(0.7), Host: fmt.Sprintf("sp%d.example.com", i), EC: g.Bool(0.25), KeyIdx: 1 + 2*i, // rsa1 / rsa3 (rsa2 is Mallory's)
			Binding: Pick(g, "", "", "post"), CustomRS: g.Bool(0.2), CookieName: Pick(g, "", "", "sess")})
		if g.Bool(0.5) {
			mwNoise(g, &k.Deploys[i])
		}
		k.Deploys[i].ArtifactBinding = g.Bool(0.3)
	}
	p := &Plan{}
	var steps []flowStep
	nflows, nresps := 0, 0
	n := 4 + g.Intn(11)
	fault := !g.Bool(0.2) // one run in five is fault-free (faithful jar and relay only)
	for i := 0; i < n; i++ {
		switch c := g.PickW(5, 5, 7, 2, 2); {
		case c == 0 || nflows == 0:
			if nflows >= 3 && g.Bool(0.7) {
				continue
			}
			st := flowStep{Kind: "start", B: g.Intn(k.Browsers), SP: g.Intn(nd), URL: Pick(g, flowURLs...)}
			if g.Bool(0.25) {
				st.Method = Pick(g, "POST", "POST", "PUT", "HEAD", "DELETE")
			}
			if g.Bool(0.3) {
				st.Referer = Pick(g, "https://evil.example.com/form", "https://sp0.example.com/other-page", "/relative", "https://sp0.example.com.evil.example.com/")
			}
			steps = append(steps, st)
			nflows++
		case c == 1 || nresps == 0:
			as := flowStep{Kind: "answer", Flow: g.Intn(nflows), User: Pick(g, g.Intn(4), g.Intn(4), g.Intn(19)), Unsolicited: fault && g.Bool(0.2), Forged: fault && g.Bool(0.15)}
			if as.Forged && nflows > 1 && g.Bool(0.5) {
				as.ForgedFrom = 1 + g.Intn(nflows)
			}
			if g.Bool(0.2) {
				as.ConfMethod = Pick(g, "urn:oasis:names:tc:SAML:2.0:cm:holder-of-key", "urn:oasis:names:tc:SAML:2.0:cm:sender-vouches")
			}
			steps = append(steps, as)
			nresps++
		case c == 2:
			st := flowStep{Kind: "deliver", Resp: g.Intn(nresps), B: -1, Jar: "faithful", Relay: "echo", Other: g.Intn(nflows), Artifact: g.Bool(0.5)}
			if fault {
				st.Jar, st.Relay = Pick(g, jarPolicies...), Pick(g, relayPolicies...)
				if st.Jar == "faithful-plus-planted" && g.Bool(0.7) {
					st.Relay = "planted"
				}
				if g.Bool(0.15) {
					st.B = g.Intn(k.Browsers) // deliver into a chosen browser instead of the flow's own
				}
			}
			steps = append(steps, st)
			if g.Bool(0.35) {
				steps = append(steps, flowStep{Kind: "visit", B: -1, Flow: g.Intn(nflows)})
			}
		case c == 3:
			if !fault {
				continue
			}
			steps = append(steps, flowStep{Kind: "advance", Ms: Pick(g, int64(1000), k.MaxIssueDelayMs-3000, k.MaxIssueDelayMs+3000, k.MaxIssueDelayMs/2, 2*k.MaxIssueDelayMs)})
		default:
			steps = append(steps, flowStep{Kind: "visit", B: g.Intn(k.Browsers), SP: g.Intn(nd), URL: Pick(g, flowURLs...), Flow: -1})
		}
	}
	if fault && g.Bool(0.15) {
		// targeted history: complete a login, then push an unsolicited response at the browser whose session
		// token is re-filed under a tracking-cookie name
		b, d := g.Intn(k.Browsers), g.Intn(nd)
		steps = append(steps, flowStep{Kind: "start", B: b, SP: d, URL: Pick(g, flowURLs...)})
		steps = append(steps, flowStep{Kind: "answer", Flow: nflows, User: Pick(g, 0, 3, 2)})
		steps = append(steps, flowStep{Kind: "deliver", Resp: nresps, B: -1, Jar: "faithful", Relay: "echo"})
		steps = append(steps, flowStep{Kind: "answer", Flow: nflows, User: g.Intn(4), Unsolicited: true})
		steps = append(steps, flowStep{Kind: "deliver", Resp: nresps + 1, B: -1, Jar: "session-as-tracking", Relay: Pick(g, "absent", "absent", "arbitrary")})
	}
	if fault && g.Bool(0.12) {
		// targeted history: the tracking cookie is seen (and refused) by the ACS early, the IdP answers late,
		// and the response arrives after the tracking lifetime with the stale cookie still attached
		b, d := g.Intn(k.Browsers), g.Intn(nd)
		steps = append(steps, flowStep{Kind: "start", B: b, SP: d, URL: Pick(g, flowURLs...)})
		steps = append(steps, flowStep{Kind: "answer", Flow: nflows, User: g.Intn(4), Unsolicited: true})
		steps = append(steps, flowStep{Kind: "deliver", Resp: nresps, B: -1, Jar: "faithful", Relay: "echo"})
		steps = append(steps, flowStep{Kind: "advance", Ms: k.MaxIssueDelayMs + Pick(g, int64(3000), 10_000, 75_000)})
		steps = append(steps, flowStep{Kind: "answer", Flow: nflows, User: g.Intn(4)})
		steps = append(steps, flowStep{Kind: "deliver", Resp: nresps + 1, B: -1, Jar: "expired-kept", Relay: "echo"})
	}
	if g.Bool(0.06) {
		// targeted history: many logins pending in one browser at once (tabs restored after a restart), answered newest first
		b, d, m := g.Intn(k.Browsers), g.Intn(nd), 9+g.Intn(4)
		for j := 0; j < m; j++ {
			steps = append(steps, flowStep{Kind: "start", B: b, SP: d, URL: fmt.Sprintf("/tab/%d", j)})
		}
		for j := m - 1; j >= 0; j-- {
			steps = append(steps, flowStep{Kind: "answer", Flow: nflows + j, User: g.Intn(4)})
			steps = append(steps, flowStep{Kind: "deliver", Resp: nresps + (m - 1 - j), B: -1, Jar: "faithful", Relay: "echo"})
		}
	}
	// (drawn after everything else, so that the histories of earlier versions stay what they were for a given seed)
	// long URLs: the tracking cookie has to carry whatever URL was asked for
	for i := range steps {
		if steps[i].Kind == "start" && g.Bool(0.15) {
			if g.Bool(0.8) {
				steps[i].LongQuery = Pick(g, 300, 1500, 2500, 3500, 5000, 9000)
			} else {
				steps[i].LongPath = Pick(g, 300, 1500, 3500, 6000)
			}
		}
	}
	// custom relay-state functions returning long values, told apart by their first or by their last bytes
	for i := range k.Deploys {
		if g.Bool(0.3) {
			k.Deploys[i].CustomRS = true
			k.Deploys[i].CustomRSLen = Pick(g, 48, 96, 160, 400)
			k.Deploys[i].CustomRSOwnLast = g.Bool(0.5)
		}
	}
	// custom relay-state functions handing out the application's own tokens, made of whatever a cookie name may be made of - '%' and
	// what looks like an escape sequence included, as a token made by URL-encoding something has - some of them encodings of others
	for i := range k.Deploys {
		if g.Bool(0.3) {
			k.Deploys[i].CustomRS = true
			k.Deploys[i].CustomRSValues = genRelayTokens(g, 3+g.Intn(4))
		}
	}
	p.Knobs = mustJSON(k)
	for _, s := range steps {
		p.Steps = append(p.Steps, mustJSON(s))
	}
	return p
}

// The characters a cookie name - and so a relay state that names a tracking cookie - may be made of (RFC 6265: an RFC 2616 token).
const (
	relayTokenAlnum = "abcdefghijklmnopqrstuvwxyzABCDEFGHIJKLMNOPQRSTUVWXYZ0123456789"
	relayTokenPunct = "!#$%&'*+-.^_`|~"
)

// genRelayTokens draws n distinct application tokens of 4-18 characters: letters and digits, the punctuation a token may contain,
// and escape sequences (%XX); four in ten are a sibling of an earlier one - one character written as an escape sequence, an escape
// sequence written as the character it stands for, or a letter in the other case. All of them are different cookie names.
func genRelayTokens(g *Rng, n int) []string {
	var out []string
	seen := map[string]bool{}
	for len(out) < n {
		var v string
		if len(out) > 0 && g.Bool(0.4) {
			v = relayTokenSibling(g, out[g.Intn(len(out))])
		} else {
			var sb strings.Builder
			for m := 4 + g.Intn(12); sb.Len() < m; {
				switch g.PickW(6, 2, 2) {
				case 0:
					sb.WriteByte(relayTokenAlnum[g.Intn(len(relayTokenAlnum))])
				case 1:
					sb.WriteByte(relayTokenPunct[g.Intn(len(relayTokenPunct))])
				default:
					fmt.Fprintf(&sb, Pick(g, "%%%02X", "%%%02X", "%%%02x"), g.Intn(256))
				}
			}
			v = sb.String()
		}
		if !seen[v] {
			seen[v] = true
			out = append(out, v)
		}
	}
	return out
}

func relayTokenSibling(g *Rng, v string) string {
	switch g.PickW(3, 3, 1) {
	case 1:
		// an escape sequence that stands for a character a token may contain, written as that character
		for i := 0; i+2 < len(v); i++ {
			if v[i] != '%' {
				continue
			}
			if c, err := url.PathUnescape(v[i : i+3]); err == nil && len(c) == 1 && strings.Contains(relayTokenAlnum+relayTokenPunct, c) {
				return v[:i] + c + v[i+3:]
			}
		}
	case 2:
		for i := 0; i < len(v); i++ {
			if c := v[i]; c >= 'a' && c <= 'z' && (i < 1 || v[i-1] != '%') && (i < 2 || v[i-2] != '%') {
				return v[:i] + strings.ToUpper(v[i:i+1]) + v[i+1:]
			}
		}
	}
	i := g.Intn(len(v))
	return v[:i] + fmt.Sprintf(Pick(g, "%%%02X", "%%%02X", "%%%02x"), v[i]) + v[i+1:]
}

// pctEscaped: does s contain an escape sequence (%XX)? pctSiblings: are a and b different strings that are the same after, or become
// one another by, percent-decoding? (evidence only: to the middleware relay states are opaque, and so they are to the oracle)
func pctEscaped(s string) bool {
	u, err := url.PathUnescape(s)
	return err == nil && u != s
}

func pctSiblings(a, b string) bool {
	if a == b {
		return false
	}
	ua, ea := url.PathUnescape(a)
	ub, eb := url.PathUnescape(b)
	return (ea == nil && ua == b) || (eb == nil && ub == a) || (ea == nil && eb == nil && ua == ub)
}

// longURL is the URL a start step asks for: st.URL, made long as the step says.
func longURL(st flowStep) string {
	target := st.URL
	if st.LongPath > 0 {
		path, query, hasQuery := strings.Cut(target, "?")
		target = strings.TrimSuffix(path, "/") + "/" + strings.Repeat("s", st.LongPath)
		if hasQuery {
			target += "?" + query
		}
	}
	if st.LongQuery > 0 {
		sep := "?"
		if strings.Contains(target, "?") {
			sep = "&"
		}
		target += sep + "q=" + strings.Repeat("a", st.LongQuery) + "&page=2"
	}
	return target
}

// abbrev keeps log lines and verdicts readable when a URL or relay state is long: the ends and the length.
func abbrev(s string) string {
	if len(s) <= 160 {
		return s
	}
	return fmt.Sprintf("%s...(%d bytes)...%s", s[:60], len(s), s[len(s)-40:])
}

type flowRec struct {
	b, sp      int
	url        string
	reqID      string
	index      string
	cookieName string
	cookieVal  string
	start      time.Time
	completed  bool
}

type respRec struct {
	flow  int // -1: none
	sp    int
	user  int
	irt   string
	body  string // base64 SAMLResponse
	at    time.Time
	count int
}

func execFlows(t *testing.T, p *Plan) *Result {
	res := newResult()
	k := decode[flowKnobs](p.Knobs)
	saml.MaxIssueDelay = ms(k.MaxIssueDelayMs)
	installRand(p)
	idpMD := idpMetadataFor(idpEntity, idpSSO, idpSLO, []KeyPair{rsaKeys[0]}, nil, "signing")
	idpMD.IDPSSODescriptors[0].ArtifactResolutionServices = []saml.Endpoint{{Binding: saml.SOAPBinding, Location: "https://idp.example.com/artifact"}}
	var deploys []*mwDeploy
	for _, c := range k.Deploys {
		deploys = append(deploys, newMWDeploy(c, idpMD, "role", "admin"))
	}
	browsers := make([]*browser, k.Browsers)
	for i := range browsers {
		browsers[i] = &browser{}
	}
	users := mwUsers()
	var flows []*flowRec
	var resps []*respRec
	begin := time.Now()
	mid := saml.MaxIssueDelay
	// forged tracking token: right claims, wrong key (Mallory's)
	forge := func(d *mwDeploy, index, reqID, uri string) string {
		now := time.Now()
		claims := jwt.MapClaims{"aud": []string{d.base + "/"}, "iss": d.base + "/", "sub": index, "id": reqID, "uri": uri, "saml-authn-request": true,
			"exp": now.Add(time.Hour).Unix(), "iat": now.Unix(), "nbf": now.Unix()}
		s, err := jwt.NewWithClaims(jwt.SigningMethodRS256, claims).SignedString(rsaKeys[2].Key)
		if err != nil {
			panic(err)
		}
		return s
	}

	for si, raw := range p.Steps {
		st := decode[flowStep](raw)
		switch st.Kind {
		case "advance":
			if st.Ms > 0 {
				advance(ms(st.Ms))
				res.logf("step %d advance %dms", si, st.Ms)
			}

		case "start":
			if st.B >= len(browsers) || st.SP >= len(deploys) {
				continue
			}
			d, b := deploys[st.SP], browsers[st.B]
			u, _ := url.Parse(d.base + longURL(st))
			if st.LongQuery > 0 || st.LongPath > 0 {
				res.probe("flow-started-at-long-url")
			}
			method, hdr, body, ct := "GET", http.Header{}, "", ""
			if st.Method != "" {
				method = st.Method
				if method == "POST" || method == "PUT" {
					body, ct = "field=value", formCT
				}
				res.probe("flow-started-by-" + method)
			}
			if st.Referer != "" {
				hdr.Set("Referer", st.Referer)
				res.probe("flow-started-with-referer")
			}
			rep := deliverH(d.handler, method, u.String(), body, ct, toHTTPCookies(b.cookiesFor(u, false)), hdr)
			if rep.Panic != nil {
				res.Excluded = "panic (reported under C09)"
				return res
			}
			if rep.Code == 200 && (rep.Body == "app ok" || method == "HEAD") {
				res.logf("step %d start b%d sp%d %s -> already authenticated", si, st.B, st.SP, st.URL)
				continue // browser already has a session at this deployment
			}
			ar, err := decodeStartReply(rep)
			if err != nil {
				res.violate(si, "flow-start-malformed", "C17/flow-start-malformed", "redirect or POST form carrying an AuthnRequest", fmt.Sprintf("status %d: %v", rep.Code, err), "")
				return res
			}
			var tc *http.Cookie
			for _, c := range rep.Cookies {
				if strings.HasPrefix(c.Name, "saml_") {
					tc = c
				}
			}
			if tc == nil || ar.RelayState == "" {
				res.violate(si, "flow-start-untracked", "C17/flow-start-untracked", "tracking cookie named after the RelayState", fmt.Sprintf("relay=%q cookie=%v", ar.RelayState, tc != nil), "")
				return res
			}
			if tc.Name != "saml_"+ar.RelayState {
				// the RelayState the IdP is handed (and will echo) names no tracking cookie, or another flow's
				res.violate(si, "flow-start-untracked", "C17/flow-start-untracked/relay-state-names-no-cookie", "tracking cookie named after the RelayState that goes to the IdP",
					fmt.Sprintf("relay=%q (%d bytes) cookie=%q (%d bytes)", abbrev(ar.RelayState), len(ar.RelayState), abbrev(tc.Name), len(tc.Name)), "echoed faithfully, this RelayState cannot bring the flow back to its own URL")
				return res
			}
			if d.conf.CustomRSLen > 0 && len(ar.RelayState) >= d.conf.CustomRSLen {
				res.probe("flow-started-with-long-custom-relay-state")
			}
			if !tc.HttpOnly || (d.conf.HTTPS && !tc.Secure) {
				res.violate(si, "tracking-cookie-flags", "C17/tracking-cookie-flags", "HttpOnly (and Secure on https)", fmt.Sprintf("httponly=%v secure=%v", tc.HttpOnly, tc.Secure), "")
				return res
			}
			for fi, fl := range flows {
				if fl.reqID == ar.ID {
					res.violate(si, "request-id-reused", "C17/flow-start/request-id-reused", "every login flow is tracked under a request ID of its own", "the request ID of flow "+fmt.Sprint(fi)+" again", "a response to either flow then completes in the browser that holds the other's cookie")
					return res
				}
			}
			if len(d.conf.CustomRSValues) > 0 && d.rsCount > 0 && strings.Contains(ar.RelayState, d.conf.CustomRSValues[min(d.rsCount, len(d.conf.CustomRSValues))-1]) {
				res.probe("flow-started-under-application-token")
				if pctEscaped(ar.RelayState) {
					res.probe("flow-started-under-relay-state-with-escape-sequence")
				}
				for _, fl := range flows {
					if fl.b == st.B && fl.sp == st.SP && !fl.completed && pctSiblings(fl.index, ar.RelayState) {
						res.probe("pending-flows-under-relay-states-that-are-encodings-of-one-another")
					}
				}
			}
			b.store(u.Host, rep.Cookies)
			flows = append(flows, &flowRec{b: st.B, sp: st.SP, url: u.RequestURI(), reqID: ar.ID, index: ar.RelayState, cookieName: tc.Name, cookieVal: tc.Value, start: time.Now()})
			res.logf("step %d start b%d sp%d %s -> flow %d (binding %s)", si, st.B, st.SP, st.URL, len(flows)-1, map[int]string{302: "redirect", 200: "post"}[rep.Code])

		case "answer":
			if st.Flow >= len(flows) {
				continue
			}
			f := flows[st.Flow]
			irt := f.reqID
			if st.Unsolicited {
				irt = ""
			}
			if st.Forged {
				irt = "" // what the IdP vouched for: an answer to no request
				if k := st.ForgedFrom - 1; k >= 0 && k < len(flows) && k != st.Flow && flows[k].sp == f.sp {
					irt = flows[k].reqID // ... or to Mallory's own request
					res.fire("forged-envelope-around-answer-to-another-flow")
				}
			}
			spec := mwResponseSpec(deploys[f.sp], users[st.User%len(users)], irt, len(resps))
			if st.ConfMethod != "" {
				for i := range spec.Assertions[0].Confs {
					spec.Assertions[0].Confs[i].Method = st.ConfMethod
				}
				res.probe("non-bearer-confirmation")
			}
			if st.Forged {
				spec.Sign, spec.InResponseTo = false, f.reqID
				res.fire("forged-envelope")
			}
			body := base64.StdEncoding.EncodeToString(elBytes(BuildResponseEl(&spec, time.Now())))
			r := &respRec{flow: st.Flow, sp: f.sp, user: st.User % len(users), irt: irt, body: body, at: time.Now()}
			resps = append(resps, r)
			res.logf("step %d answer flow %d user %d unsolicited=%v -> resp %d", si, st.Flow, r.user, st.Unsolicited, len(resps)-1)

		case "deliver":
			if st.Resp >= len(resps) {
				continue
			}
			r := resps[st.Resp]
			f := flows[r.flow]
			d := deploys[r.sp]
			bi := f.b
			if st.B >= 0 && st.B < len(browsers) {
				bi = st.B
			}
			b := browsers[bi]
			acsURL, _ := url.Parse(d.acs())
			var other *flowRec
			if st.Other < len(flows) && st.Other != r.flow {
				other = flows[st.Other]
			}
			// ---- what is presented
			faithful := b.cookiesFor(acsURL, false)
			var presented []*http.Cookie
			jar := st.Jar
			switch jar {
			case "faithful":
				presented = toHTTPCookies(faithful)
			case "subset":
				for _, c := range faithful {
					if c.Name != f.cookieName {
						presented = append(presented, &http.Cookie{Name: c.Name, Value: c.Value})
					}
				}
			case "other-only":
				if other != nil {
					presented = []*http.Cookie{{Name: other.cookieName, Value: other.cookieVal}}
				}
			case "none":
			case "renamed":
				if other != nil {
					presented = []*http.Cookie{{Name: other.cookieName, Value: f.cookieVal}}
				} else {
					presented = []*http.Cookie{{Name: "saml_renamed", Value: f.cookieVal}}
				}
			case "dup-under-other-name":
				// everything the browser holds, plus this flow's token filed a second time under another flow's name
				presented = toHTTPCookies(faithful)
				if other != nil {
					kept := presented[:0]
					for _, c := range presented {
						if c.Name != other.cookieName {
							kept = append(kept, c)
						}
					}
					presented = append(kept, &http.Cookie{Name: other.cookieName, Value: f.cookieVal})
				} else {
					jar = "faithful"
				}
			case "swapped":
				if other != nil {
					presented = []*http.Cookie{{Name: other.cookieName, Value: f.cookieVal}, {Name: f.cookieName, Value: other.cookieVal}}
				} else {
					presented = toHTTPCookies(faithful)
					jar = "faithful"
				}
			case "expired-kept":
				presented = toHTTPCookies(b.cookiesFor(acsURL, true))
				// a client that ignores Max-Age also keeps cookies the server asked it to clear
				have := false
				for _, c := range presented {
					if c.Name == f.cookieName {
						have = true
					}
				}
				if !have {
					presented = append(presented, &http.Cookie{Name: f.cookieName, Value: f.cookieVal})
				}
			case "forged":
				presented = []*http.Cookie{{Name: f.cookieName, Value: forge(d, f.index, f.reqID, "https://evil.example.com/")}}
			case "junk-ahead":
				n := []int{1, 2, 9, 12}[st.Other%4]
				for j := 0; j < n; j++ {
					v := []string{"okta", "", "e30.e30.", "not.a.token", f.cookieVal[:len(f.cookieVal)/2]}[(j+st.Other)%5]
					presented = append(presented, &http.Cookie{Name: []string{"saml_idp_hint", "saml_", "saml_junk", "saml_old"}[j%4] + fmt.Sprint(j), Value: v})
				}
				presented = append(presented, toHTTPCookies(faithful)...)
			case "faithful-plus-planted":
				presented = append(toHTTPCookies(faithful), &http.Cookie{Name: "saml_" + plantedIndex, Value: forge(d, plantedIndex, f.reqID, "https://evil.example.com/welcome")})
			case "session-as-tracking":
				// the browser's session token re-filed under saml_<its subject>
				if sc := b.find(d.sessionCookieName()); sc != nil {
					for _, u := range users {
						presented = append(presented, &http.Cookie{Name: "saml_" + u.NameID, Value: sc.Value})
					}
				}
			case "cross-browser":
				ob := browsers[(bi+1)%len(browsers)]
				presented = toHTTPCookies(ob.cookiesFor(acsURL, false))
			}
			relay := ""
			switch st.Relay {
			case "echo":
				relay = f.index
			case "other":
				if other != nil {
					relay = other.index
				} else {
					relay = "no-such-index"
				}
			case "arbitrary":
				relay = "https://evil.example.com/landing"
			case "planted":
				relay = plantedIndex
			}

			// ---- oracle (statement + Appendix C17): which flows' authentic, unexpired tracking cookies are presented?
			now := time.Now()
			type tstate int // 0 fresh, 1 don't care (JWT second granularity), 2 stale
			authentic := map[int]tstate{}
			for fi, fl := range flows {
				if fl.sp != r.sp {
					continue
				}
				for _, c := range presented {
					if c.Name == fl.cookieName && c.Value == fl.cookieVal {
						age := now.Sub(fl.start)
						switch {
						case age < mid-2*time.Second:
							authentic[fi] = 0
						case age <= mid+2*time.Second:
							authentic[fi] = 1
						default:
							authentic[fi] = 2
						}
					}
				}
			}
			respAge := now.Sub(r.at)
			respFresh := respAge < mid-time.Second
			respStale := respAge > mid
			// necessary: response answers a flow whose authentic fresh cookie is presented
			allowedFresh, allowedMaybe := false, false
			for fi, s := range authentic {
				if flows[fi].reqID == r.irt {
					if s == 0 {
						allowedFresh = true
					}
					if s <= 1 {
						allowedMaybe = true
					}
				}
			}
			mustAccept := (jar == "faithful" || jar == "junk-ahead" || jar == "expired-kept") && st.Relay == "echo" && bi == f.b && allowedFresh && respFresh && authentic[r.flow] == 0 && r.irt == f.reqID && !f.completed

			form := url.Values{"SAMLResponse": {r.body}}
			if relay != "" {
				form.Set("RelayState", relay)
			}
			var rep *reply
			if st.Artifact && d.resolver != nil {
				raw, _ := base64.StdEncoding.DecodeString(r.body)
				q := url.Values{"SAMLart": {d.resolver.artifactFor(st.Resp, raw)}}
				if relay != "" {
					q.Set("RelayState", relay)
				}
				res.fire("delivery:artifact")
				rep = deliver(d.handler, "GET", d.acs()+"?"+q.Encode(), "", "", presented)
			} else {
				rep = deliver(d.handler, "POST", d.acs(), form.Encode(), formCT, presented)
			}
			r.count++
			if rep.Panic != nil {
				if mustAccept {
					// a faithful flow (authentic fresh cookie, echoed RelayState, fresh genuine response) ends in a panic instead of a session
					res.logf("step %d deliver resp %d: PANIC on a faithful flow", si, st.Resp)
					res.violate(si, "faithful-flow-refused", "C17/faithful-flow-refused/panic", "SESSION->"+abbrev(f.url), "panic in the assertion consumer", short(fmt.Sprint(rep.Panic), 200))
					return res
				}
				res.Excluded = "panic (reported under C09)"
				return res
			}
			var sess *http.Cookie
			cleared := map[string]bool{}
			for _, c := range rep.Cookies {
				if c.Name == d.sessionCookieName() && c.Value != "" {
					sess = c
				}
				if strings.HasPrefix(c.Name, "saml_") && c.Value == "" {
					cleared[c.Name] = true
				}
			}
			loc := rep.Header.Get("Location")
			observed := fmt.Sprintf("%d", rep.Code)
			if sess != nil {
				observed = "SESSION->" + abbrev(loc)
			}
			res.logf("step %d deliver resp %d (flow %d, user %d, nth=%d) to b%d jar=%s relay=%s authentic=%v respFresh=%v mustAccept=%v -> %s",
				si, st.Resp, r.flow, r.user, r.count, bi, jar, st.Relay, fmtAuth(authentic), respFresh, mustAccept, observed)
			if jar != "faithful" || st.Relay != "echo" || bi != f.b {
				res.fire("jar:" + jar)
				res.fire("relay:" + st.Relay)
				res.Nontrivial = true
			}
			if r.count > 1 {
				res.fire("replay")
				res.Nontrivial = true
			}
			if len(authentic) > 1 {
				res.probe("several-pending-flows-presented")
			}
			if st.Unsolicited || r.irt == "" {
				res.probe("unsolicited-response-delivered")
			}

			if sess != nil {
				// -------- a session was established: every necessary condition must hold
				if !allowedMaybe {
					why := "response does not answer any flow whose authentic tracking cookie was presented"
					sig := "C17/session-without-tracking/" + jar
					for _, s := range authentic {
						if s == 2 {
							why, sig = "tracking cookie older than the tracking lifetime", "C17/session-with-stale-tracking"
						}
					}
					if r.irt == "" {
						sig = "C17/session-from-unsolicited-response/" + jar
					}
					res.violate(si, "session-without-live-tracking", sig, "REFUSE (no session cookie)", observed, why)
					return res
				}
				if !allowedFresh {
					res.dontcare("tracking-age-within-jwt-granularity")
				}
				if respStale {
					res.Excluded = "stale response accepted (C02's business)"
					return res
				}
				if !sess.HttpOnly || (d.conf.HTTPS && !sess.Secure) {
					res.violate(si, "session-cookie-flags", "C17/session-cookie-flags", "HttpOnly (and Secure on https)", fmt.Sprintf("httponly=%v secure=%v", sess.HttpOnly, sess.Secure), "")
					return res
				}
				// redirect target
				wantLoc := ""
				switch {
				case relay == "":
					wantLoc = d.conf.defaultRedirect() // the configured default (samlsp.Options.DefaultRedirectURI; unset -> "/")
				default:
					for fi, fl := range flows {
						if fl.sp == r.sp && fl.index == relay {
							if s, ok := authentic[fi]; ok && s <= 1 {
								wantLoc = fl.url
								if !cleared[fl.cookieName] {
									res.violate(si, "tracking-cookie-not-cleared", "C17/tracking-cookie-not-cleared", "clearing Set-Cookie for "+abbrev(fl.cookieName), "none", "")
									return res
								}
							}
						}
					}
				}
				// (the tracked URI is the request URL as the handler saw it: path-only behind a real server, absolute in-process)
				// only the tracking cookie named by the RelayState may be cleared: other pending flows of this
				// browser must still be able to complete at their own URLs
				for name := range cleared {
					if relay == "" || name != "saml_"+relay {
						res.violate(si, "foreign-tracking-cookie-cleared", "C17/foreign-tracking-cookie-cleared", "only the tracking cookie named by the RelayState is cleared", "also cleared "+flowOfCookie(flows, name), "another pending flow of this browser can no longer complete")
						return res
					}
				}
				if wantLoc == "" || (loc != wantLoc && loc != d.base+wantLoc) {
					res.violate(si, "redirect-not-tracked-url", "C17/redirect-target/"+st.Relay, "redirect to the URL recorded in the authentic tracking cookie named by RelayState (or the default)", abbrev(loc), "want "+abbrev(wantLoc))
					return res
				}
				if len(wantLoc) > 160 {
					res.probe("flow-completed-at-long-url")
				}
				if len(d.conf.CustomRSValues) > 0 && pctEscaped(relay) {
					res.probe("flow-completed-under-relay-state-with-escape-sequence")
				}
				if rep.Code != http.StatusFound {
					res.violate(si, "session-without-redirect", "C17/session-without-redirect", "302", fmt.Sprint(rep.Code), "")
					return res
				}
				b.store(acsURL.Host, rep.Cookies)
				if relay == f.index {
					f.completed = true
				}
			} else {
				if mustAccept {
					res.violate(si, "faithful-flow-refused", "C17/faithful-flow-refused", "SESSION->"+abbrev(f.url), observed, "faithful jar, echoed RelayState, fresh tracking cookie and response")
					return res
				}
				for _, c := range rep.Cookies {
					if c.Name == d.sessionCookieName() && c.Value != "" {
						res.violate(si, "session-cookie-on-refusal", "C17/session-cookie-on-refusal", "no session cookie", "cookie set", "")
						return res
					}
				}
			}

		case "visit":
			bi, spi, path := st.B, st.SP, st.URL
			if st.Flow >= 0 {
				if st.Flow >= len(flows) {
					continue
				}
				bi, spi, path = flows[st.Flow].b, flows[st.Flow].sp, flows[st.Flow].url
			} else if bi >= len(browsers) || spi >= len(deploys) {
				continue
			}
			d, b := deploys[spi], browsers[bi]
			u, _ := url.Parse(d.base + path)
			before := len(d.hits)
			rep := deliver(d.handler, "GET", u.String(), "", "", toHTTPCookies(b.cookiesFor(u, false)))
			if rep.Panic != nil {
				res.Excluded = "panic (reported under C09)"
				return res
			}
			if len(d.hits) > before {
				res.logf("step %d visit b%d sp%d -> app sees subject %q", si, bi, spi, d.hits[len(d.hits)-1].Subject)
			} else {
				res.logf("step %d visit b%d sp%d -> %d", si, bi, spi, rep.Code)
			}
		}
	}
	res.SimMillis = time.Since(begin).Milliseconds()
	return res
}

func flowOfCookie(flows []*flowRec, name string) string {
	for i, f := range flows {
		if f.cookieName == name {
			return fmt.Sprintf("the tracking cookie of flow %d", i)
		}
	}
	return "a tracking cookie of no known flow"
}

func fmtAuth[T ~int](m map[int]T) string {
	var ks []int
	for k := range m {
		ks = append(ks, k)
	}
	sort.Ints(ks)
	var sb strings.Builder
	for _, k := range ks {
		fmt.Fprintf(&sb, "%d:%d ", k, int(m[k]))
	}
	return "[" + strings.TrimSpace(sb.String()) + "]"
}

func simplifyFlows(p *Plan) []*Plan {
	var out []*Plan
	for i, raw := range p.Steps {
		st := decode[flowStep](raw)
		if st.Kind == "deliver" {
			if st.Jar != "faithful" {
				c := p.Clone()
				s2 := st
				s2.Jar = "faithful"
				c.Steps[i] = mustJSON(s2)
				out = append(out, c)
			}
			if st.Relay != "echo" {
				c := p.Clone()
				s2 := st
				s2.Relay = "echo"
				c.Steps[i] = mustJSON(s2)
				out = append(out, c)
			}
		}
		if st.Kind == "answer" && st.User != 0 {
			c := p.Clone()
			s2 := st
			s2.User = 0
			c.Steps[i] = mustJSON(s2)
			out = append(out, c)
		}
	}
	k := decode[flowKnobs](p.Knobs)
	if len(k.Deploys) > 0 {
		for i, d := range k.Deploys {
			if d.EC || d.CustomRS || d.CookieName != "" || d.Binding != "" {
				c := p.Clone()
				k2 := decode[flowKnobs](p.Knobs)
				k2.Deploys[i].EC, k2.Deploys[i].CustomRS, k2.Deploys[i].CookieName, k2.Deploys[i].Binding = false, false, "", ""
				c.Knobs = mustJSON(k2)
				out = append(out, c)
			}
		}
	}
	return out
}

func init() {
	register(&Profile{
		ID: "C17", Name: "flows", Level: "exploration",
		Rule: "histories of 4-14 actions over {start flow at URL u (<=3 pending, 1-2 browsers, 1-2 deployments http/https, redirect/POST binding, custom relay-state function, RSA/ECDSA key), foreign IdP answers flow k for user x (or unsolicited), deliver response with jar policy in {faithful, subset, other-flow-only, none, renamed, swapped, expired-kept, forged, session-token-as-tracking-cookie, other browser's jar, faithful plus a cookie planted under another name with a foreign key} and RelayState in {echoed, other flow's, absent, arbitrary URL, the planted cookie's index}, replay, advance clock around the tracking lifetime (= MaxIssueDelay knob), visit protected page}; one run in five is fault-free; non-trivial = at least one delivery with an unfaithful jar/RelayState/browser or a replay; distinct = distinct abstract log; start URLs include percent-encoded structural characters in the path; targeted tails: (a) completed login, then an unsolicited response with the session token re-filed as a tracking cookie, (b) the ACS sees and refuses the tracking cookie early, the IdP answers after the lifetime and the stale cookie is still presented; clearing any tracking cookie other than the one named by the RelayState is a violation; about one start in seven asks for a long URL (0.3-9 kB of query value or 0.3-6 kB of path segment) and has to come back to exactly that; three deployments in ten have a custom relay-state function returning 48-400 byte values that differ in their first or only in their last bytes, and the RelayState handed to the IdP has to name the flow's tracking cookie; three deployments in ten have a custom relay-state function handing out 3-6 application tokens of 4-18 characters drawn from everything a cookie name may contain (letters, digits, !#$%&'*+-.^_`|~, escape sequences %XX), four in ten of them a sibling of an earlier one (a character written as an escape sequence, an escape sequence written out, a letter in the other case): echoed byte for byte, each names its own flow only",
		Gen:  genFlows, Exec: execFlows, Simplify: simplifyFlows,
		RunsQuick: 2500, RunsThorough: 250000,
		Assumptions: []string{"a presented cookie is authentic for flow i iff it carries exactly the value the SP minted for flow i under exactly that name (harness bookkeeping, no token decoding in the oracle)", "tracking age within +-2 s of the lifetime is a declared don't-care (JWT instants are whole seconds)", "the sufficient direction (must accept) is asserted only for faithful jar + echoed RelayState in the originating browser, as the statement does", "tracking lifetime is taken from saml.MaxIssueDelay as drawn for the run, not from the tracker's own field", "the browser stub keeps cookies of any size (RFC 6265 obliges user agents to keep at least 4096 bytes per cookie, it sets no upper limit); the IdP stub echoes a RelayState of any length"},
		Components: map[string][]string{
			"real": {"samlsp.Middleware (RequireAccount, HandleStartAuthFlow, ServeACS, CreateSessionFromAssertion)", "CookieRequestTracker + JWTTrackedRequestCodec", "CookieSessionProvider + JWTSessionCodec", "saml.ServiceProvider.ParseResponse", "golang-jwt", "net/http cookie parsing"},
			"stub": {"browser (cookie jar honouring Path/Secure/Max-Age/Expires on the simulated clock)", "foreign IdP (library schema types + goxmldsig)", "party between browser and SP choosing jar and RelayState"},
		},
	})
}
