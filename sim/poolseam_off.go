//go:build !poolseam

package samlsim

func poolSeamCounts() map[string]int { return nil }
