package samlsim

import (
	"bytes"
	"crypto"
	"crypto/x509"
	"encoding/base64"
	"encoding/pem"
	"fmt"
	"io"
	mrand "math/rand/v2"
	"net/http"
	"net/http/httptest"
	"net/url"
	"os"
	"path/filepath"
	"runtime"
	"strings"
	"time"

	"github.com/beevik/etree"
	"github.com/crewjam/saml"
	"github.com/crewjam/saml/xmlenc"
	"github.com/golang-jwt/jwt/v4"
	dsig "github.com/russellhaering/goxmldsig"
	"golang.org/x/net/html"
)

// ---------------------------------------------------------------- fixtures

type KeyPair struct {
	Name string
	Key  crypto.Signer
	Cert *x509.Certificate
}

func (k KeyPair) CertB64() string { return base64.StdEncoding.EncodeToString(k.Cert.Raw) }

var rsaKeys []KeyPair // rsa0..rsa4
var ecKeys []KeyPair  // ec0..ec1
var rsaOld KeyPair    // a certificate that expired in 1999 (before the simulated clock starts): an IdP's previous key, still listed
var rsaSig KeyPair    // keyUsage digitalSignature only (a key its owner meant for signing)
var rsaSKI KeyPair    // a certificate carrying a SubjectKeyIdentifier, as openssl-made ones do
var rsaSKIMal KeyPair // Mallory's key under a self-signed certificate copying rsaSKI's subject and SubjectKeyIdentifier
var rsa4096 KeyPair   // a 4096-bit key
var rsa1Sig KeyPair   // rsa1's key under a certificate with keyUsage digitalSignature (+contentCommitment) only
var rsa1CA KeyPair    // rsa1's key under a self-signed CA:TRUE certificate
var rsaOld2 KeyPair   // a second key whose certificate lapsed in 1999
var rsa1024 KeyPair   // a 1024-bit key (the shortest crypto/rsa works with)
var rsaCA KeyPair     // a root CA (self-signed, CA:TRUE)
var rsaICA KeyPair    // an issuing CA whose certificate was issued by rsaCA
var rsaLeaf KeyPair   // an RSA key whose certificate was issued by rsaICA
var ecLeaf KeyPair    // an ECDSA key whose certificate was issued by rsaICA

func fixturesDir() string {
	if d := os.Getenv("VERIF_FIXTURES"); d != "" {
		return d
	}
	_, file, _, _ := runtime.Caller(0)
	return filepath.Join(filepath.Dir(file), "fixtures")
}

func loadKey(name string) KeyPair {
	b, err := os.ReadFile(filepath.Join(fixturesDir(), name+".pem"))
	if err != nil {
		fmt.Fprintf(os.Stderr, "fixture: %v\n", err)
		os.Exit(2)
	}
	kb, rest := pem.Decode(b)
	cb, _ := pem.Decode(rest)
	k, err := x509.ParsePKCS8PrivateKey(kb.Bytes)
	if err != nil {
		fmt.Fprintf(os.Stderr, "fixture: %v\n", err)
		os.Exit(2)
	}
	c, err := x509.ParseCertificate(cb.Bytes)
	if err != nil {
		fmt.Fprintf(os.Stderr, "fixture: %v\n", err)
		os.Exit(2)
	}
	return KeyPair{Name: name, Key: k.(crypto.Signer), Cert: c}
}

func loadFixtures() {
	if len(rsaKeys) > 0 {
		return
	}
	for i := 0; i < 5; i++ {
		rsaKeys = append(rsaKeys, loadKey(fmt.Sprintf("rsa%d", i)))
	}
	for i := 0; i < 2; i++ {
		ecKeys = append(ecKeys, loadKey(fmt.Sprintf("ec%d", i)))
	}
	rsaOld = loadKey("rsaold")
	rsaSig, rsaSKI, rsaSKIMal, rsa4096 = loadKey("rsasig"), loadKey("rsaski"), loadKey("rsaskimal"), loadKey("rsa4096")
	rsa1Sig, rsa1CA, rsaOld2 = loadKey("rsa1sig"), loadKey("rsa1ca"), loadKey("rsaold2")
	rsa1024 = loadKey("rsa1024")
	rsaCA, rsaICA, rsaLeaf, ecLeaf = loadKey("rsaca"), loadKey("rsaica"), loadKey("rsaleaf"), loadKey("ecleaf")
}

// passVerifier is an application-supplied saml.SignatureVerifier that does what the library would do itself.
type passVerifier struct{}

func (passVerifier) VerifySignature(ctx *dsig.ValidationContext, el *etree.Element) error {
	_, err := ctx.Validate(el)
	return err
}

// ---------------------------------------------------------------- library globals (the seams)

// detReader is a deterministic byte stream (plan-derived), counting what is drawn.
type detReader struct {
	r     *mrand.ChaCha8
	Count int
	Reads int
	Last  []byte
}

func newDetReader(seed, run, stream uint64) *detReader {
	var s [32]byte
	for i := 0; i < 8; i++ {
		s[i] = byte(seed >> (8 * i))
		s[8+i] = byte(run >> (8 * i))
		s[16+i] = byte(stream >> (8 * i))
	}
	return &detReader{r: mrand.NewChaCha8(s)}
}

func (d *detReader) Read(p []byte) (int, error) {
	n, err := d.r.Read(p)
	d.Count += n
	d.Reads++
	d.Last = append(d.Last[:0], p[:n]...)
	return n, err
}

var curSkew time.Duration  // skew of the node whose code is executing
var curZone *time.Location // non-nil: the executing node's clock reports local time in this zone (same instants, other lexical form)

func resetGlobals() {
	curSkew = 0
	curZone = nil
	saml.TimeNow = func() time.Time {
		if curZone != nil {
			return time.Now().Add(curSkew).In(curZone)
		}
		return time.Now().Add(curSkew).UTC()
	}
	jwt.TimeFunc = func() time.Time { return time.Now().Add(curSkew) }
	saml.MaxIssueDelay = 90 * time.Second
	saml.MaxClockSkew = 180 * time.Second
	saml.RandReader = libRandReader
	xmlenc.RandReader = libEncRandReader
	saml.Clock = nil
}

// The random sources the library starts out with (crypto/rand on the pinned tree), captured before anything replaces them: a run
// that installs no source of its own (the C20 scheduler profile) runs on exactly what an application that configures nothing gets.
var libRandReader, libEncRandReader = saml.RandReader, xmlenc.RandReader

// installRand installs plan-derived deterministic readers behind the two randomness seams.
func installRand(p *Plan) (samlRand, encRand *detReader) {
	samlRand = newDetReader(p.Seed, p.Run, 1)
	encRand = newDetReader(p.Seed, p.Run, 2)
	saml.RandReader = samlRand
	xmlenc.RandReader = encRand
	return
}

// at runs f as node with the given clock skew.
func at(skew time.Duration, f func()) {
	old := curSkew
	curSkew = skew
	defer func() { curSkew = old }()
	f()
}

// atZone is at() for a node whose clock reports zoned local time.
func atZone(skew time.Duration, zone *time.Location, f func()) {
	old := curZone
	curZone = zone
	defer func() { curZone = old }()
	at(skew, f)
}

func advance(d time.Duration) {
	if d > 0 {
		time.Sleep(d)
	}
}

func ms(n int64) time.Duration { return time.Duration(n) * time.Millisecond }

// guard runs f and reports a panic value (nil if none).
func guard(f func()) (p any) {
	defer func() {
		if r := recover(); r != nil {
			p = r
		}
	}()
	f()
	return nil
}

// ---------------------------------------------------------------- null logger

type nullLog struct{}

func (nullLog) Printf(string, ...interface{}) {}
func (nullLog) Print(...interface{})          {}
func (nullLog) Println(...interface{})        {}
func (nullLog) Fatal(...interface{})          {}
func (nullLog) Fatalf(string, ...interface{}) {}
func (nullLog) Fatalln(...interface{})        {}
func (nullLog) Panic(...interface{})          {}
func (nullLog) Panicf(string, ...interface{}) {}
func (nullLog) Panicln(...interface{})        {}

// ---------------------------------------------------------------- in-process HTTP delivery

type reply struct {
	Code    int
	Header  http.Header
	Body    string
	Cookies []*http.Cookie
	Panic   any
}

// deliver calls the handler in-process (no sockets) under a panic guard.
func deliver(h http.Handler, method, u string, body string, ct string, cookies []*http.Cookie) *reply {
	return deliverH(h, method, u, body, ct, cookies, nil)
}

// deliverH is deliver with further request headers (Referer, say).
func deliverH(h http.Handler, method, u string, body string, ct string, cookies []*http.Cookie, hdr http.Header) *reply {
	var rd io.Reader
	if body != "" || method == "POST" || method == "PUT" {
		rd = strings.NewReader(body)
	}
	r := httptest.NewRequest(method, u, rd)
	if ct != "" {
		r.Header.Set("Content-Type", ct)
	}
	for _, c := range cookies {
		r.AddCookie(&http.Cookie{Name: c.Name, Value: c.Value})
	}
	for k, vs := range hdr {
		for _, v := range vs {
			r.Header.Add(k, v)
		}
	}
	w := httptest.NewRecorder()
	rep := &reply{}
	rep.Panic = guard(func() { h.ServeHTTP(w, r) })
	rep.Code = w.Code
	rep.Header = w.Header()
	rep.Body = w.Body.String()
	rep.Cookies = w.Result().Cookies()
	return rep
}

const formCT = "application/x-www-form-urlencoded"

type htmlForm struct {
	Action string
	Method string
	Fields url.Values
	NForms int
}

// parseForm parses the first form of an HTML document with an HTML5 parser (browser stub).
func parseForm(body string) *htmlForm {
	n, err := html.Parse(strings.NewReader(body))
	if err != nil {
		return nil
	}
	var f *htmlForm
	nforms := 0
	var walk func(n *html.Node, in bool)
	walk = func(n *html.Node, in bool) {
		if n.Type == html.ElementNode && n.Data == "form" {
			nforms++
			if f == nil {
				f = &htmlForm{Fields: url.Values{}}
				for _, a := range n.Attr {
					switch a.Key {
					case "action":
						f.Action = a.Val
					case "method":
						f.Method = a.Val
					}
				}
				in = true
			} else {
				in = false
			}
		}
		if n.Type == html.ElementNode && n.Data == "input" && in {
			var name, val, typ string
			for _, a := range n.Attr {
				switch a.Key {
				case "name":
					name = a.Val
				case "value":
					val = a.Val
				case "type":
					typ = a.Val
				}
			}
			if name != "" && typ != "submit" {
				f.Fields.Add(name, val)
			}
		}
		for c := n.FirstChild; c != nil; c = c.NextSibling {
			walk(c, in)
		}
	}
	walk(n, false)
	if f != nil {
		f.NForms = nforms
	}
	return f
}

// ---------------------------------------------------------------- SP / IdP construction

type mapSPP map[string]*saml.EntityDescriptor

func (m mapSPP) GetServiceProvider(_ *http.Request, id string) (*saml.EntityDescriptor, error) {
	if md, ok := m[id]; ok {
		return md, nil
	}
	return nil, os.ErrNotExist
}

type fixedSession struct{ s *saml.Session }

func (f fixedSession) GetSession(w http.ResponseWriter, _ *http.Request, _ *saml.IdpAuthnRequest) *saml.Session {
	if f.s == nil {
		http.Error(w, "no session", http.StatusUnauthorized)
	}
	return f.s
}

func mustURL(s string) url.URL {
	u, err := url.Parse(s)
	if err != nil {
		panic(err)
	}
	return *u
}

// newIdP builds a library IdentityProvider at https://<host>.
func newIdP(base string, kp KeyPair, reg mapSPP) *saml.IdentityProvider {
	return &saml.IdentityProvider{
		Key:                     kp.Key,
		Certificate:             kp.Cert,
		Logger:                  nullLog{},
		MetadataURL:             mustURL(base + "/metadata"),
		SSOURL:                  mustURL(base + "/sso"),
		LogoutURL:               mustURL(base + "/slo"),
		ServiceProviderProvider: reg,
	}
}

// newSP builds a ServiceProvider rooted at base (e.g. https://sp.example.com).
func newSP(base string, kp KeyPair, entityID string, idpMD *saml.EntityDescriptor) *saml.ServiceProvider {
	return &saml.ServiceProvider{
		EntityID:    entityID,
		Key:         kp.Key,
		Certificate: kp.Cert,
		MetadataURL: mustURL(base + "/saml/metadata"),
		AcsURL:      mustURL(base + "/saml/acs"),
		SloURL:      mustURL(base + "/saml/slo"),
		IDPMetadata: idpMD,
	}
}

func spEntityID(sp *saml.ServiceProvider) string {
	if sp.EntityID != "" {
		return sp.EntityID
	}
	return sp.MetadataURL.String()
}

// idpMetadataFor builds IdP metadata with the given signing certs and optional encryption-use cert.
func idpMetadataFor(entityID, ssoURL, sloURL string, signing []KeyPair, encOnly *KeyPair, useAttr string) *saml.EntityDescriptor {
	var kds []saml.KeyDescriptor
	for _, k := range signing {
		kds = append(kds, saml.KeyDescriptor{Use: useAttr, KeyInfo: saml.KeyInfo{X509Data: saml.X509Data{X509Certificates: []saml.X509Certificate{{Data: k.CertB64()}}}}})
	}
	if encOnly != nil {
		kds = append(kds, saml.KeyDescriptor{Use: "encryption", KeyInfo: saml.KeyInfo{X509Data: saml.X509Data{X509Certificates: []saml.X509Certificate{{Data: encOnly.CertB64()}}}}})
	}
	ed := &saml.EntityDescriptor{EntityID: entityID, IDPSSODescriptors: []saml.IDPSSODescriptor{{
		SSODescriptor:        saml.SSODescriptor{RoleDescriptor: saml.RoleDescriptor{ProtocolSupportEnumeration: "urn:oasis:names:tc:SAML:2.0:protocol", KeyDescriptors: kds}},
		SingleSignOnServices: []saml.Endpoint{{Binding: saml.HTTPRedirectBinding, Location: ssoURL}, {Binding: saml.HTTPPostBinding, Location: ssoURL}},
	}}}
	if sloURL != "" {
		ed.IDPSSODescriptors[0].SingleLogoutServices = []saml.Endpoint{{Binding: saml.HTTPRedirectBinding, Location: sloURL}, {Binding: saml.HTTPPostBinding, Location: sloURL}}
	}
	return ed
}

func privErr(err error) string {
	if err == nil {
		return ""
	}
	if ire, ok := err.(*saml.InvalidResponseError); ok {
		if ire.PrivateErr != nil {
			return ire.PrivateErr.Error()
		}
		return "<nil private err>"
	}
	return "!" + err.Error()
}

// errClass maps a private error text to a coarse, stable class for the abstract log
// (the text itself is implementation wording and never enters a decision).
func short(s string, n int) string {
	if len(s) > n {
		return s[:n]
	}
	return s
}

func base64Std(b []byte) string { return base64.StdEncoding.EncodeToString(b) }

var _ = bytes.NewReader

// ---------------------------------------------------------------- policy IdP (real signing path, stub policy)

// policyMaker delegates to the library's DefaultAssertionMaker and then lets the simulator edit the assertion.
type policyMaker struct {
	f func(req *saml.IdpAuthnRequest)
}

func (p policyMaker) MakeAssertion(req *saml.IdpAuthnRequest, s *saml.Session) error {
	if err := (saml.DefaultAssertionMaker{}).MakeAssertion(req, s); err != nil {
		return err
	}
	if p.f != nil {
		p.f(req)
	}
	return nil
}

// libIssue drives the real library IdP (NewIdpAuthnRequest, Validate, MakeAssertion, PostBinding)
// for the HTTP request hr carrying an AuthnRequest. Panics in library code propagate (wrap in guard).
func libIssue(idp *saml.IdentityProvider, hr *http.Request, session *saml.Session, policy func(*saml.IdpAuthnRequest)) (*saml.IdpAuthnRequest, saml.IdpAuthnRequestForm, error) {
	req, err := saml.NewIdpAuthnRequest(idp, hr)
	if err != nil {
		return nil, saml.IdpAuthnRequestForm{}, fmt.Errorf("parse: %w", err)
	}
	if err := req.Validate(); err != nil {
		return req, saml.IdpAuthnRequestForm{}, fmt.Errorf("validate: %w", err)
	}
	if err := (policyMaker{f: policy}).MakeAssertion(req, session); err != nil {
		return req, saml.IdpAuthnRequestForm{}, fmt.Errorf("assertion: %w", err)
	}
	form, err := req.PostBinding()
	if err != nil {
		return req, form, fmt.Errorf("binding: %w", err)
	}
	return req, form, nil
}

// redirectRequest turns the URL of a redirect-binding message into the GET request the peer receives.
func redirectRequest(u *url.URL) *http.Request {
	return httptest.NewRequest("GET", u.String(), nil)
}

// postRequest builds the POST request a browser sends when it auto-submits form f.
func postRequest(action string, fields url.Values) *http.Request {
	r := httptest.NewRequest("POST", action, strings.NewReader(fields.Encode()))
	r.Header.Set("Content-Type", formCT)
	return r
}
