// Package simsync provides scheduler-aware drop-in replacements for sync.Mutex and
// sync.RWMutex. It is copied into a scratch copy of crewjam/saml (as
// github.com/crewjam/saml/simsync) by /verif/bin/check for property C20 only; the
// shipped code never sees it.
//
// With no hook installed the types behave exactly like their sync counterparts. With
// a hook, every acquisition first asks the simulator (which blocks the calling task
// cooperatively until its *model* of the lock grants the request) and only then locks
// the real primitive, which is therefore always free at that moment: the real lock
// contributes the program's genuine happens-before edges to the race detector and
// nothing else.
package simsync

import (
	"bytes"
	"fmt"
	"reflect"
	"sync"
	"sync/atomic"
)

// Hook is installed by the simulator.
type Hook interface {
	Acquire(m *RWMutex, write bool)
	Release(m *RWMutex, write bool)
	// Yield is a plain decision point: the scheduler may run another task before the caller continues.
	Yield(label string)
	// TryAcquire is the non-blocking form (TryLock / TryRLock): a decision point, then the model's answer.
	TryAcquire(m *RWMutex, write bool) bool
	// Unheld is asked before every release: it reports (and records) the release of a lock that is not held, which the real
	// primitive answers with a fatal error - in production that ends the process and with it every request in flight. The
	// release is then skipped.
	Unheld(m *RWMutex, write bool) bool
}

// H is the installed hook (nil: plain behaviour).
var H Hook

// RWMutex replaces sync.RWMutex.
type RWMutex struct {
	real sync.RWMutex
	// Model state, owned by the simulator; touched only by the one running task.
	Readers int
	Writer  bool
	Pending int // writers that have called Lock and not yet acquired
}

func (m *RWMutex) Lock() {
	if H != nil {
		H.Acquire(m, true)
	}
	m.real.Lock()
}

func (m *RWMutex) Unlock() {
	if H != nil && H.Unheld(m, true) {
		return
	}
	m.real.Unlock()
	if H != nil {
		H.Release(m, true)
	}
}

func (m *RWMutex) RLock() {
	if H != nil {
		H.Acquire(m, false)
	}
	m.real.RLock()
}

func (m *RWMutex) RUnlock() {
	if H != nil && H.Unheld(m, false) {
		return
	}
	m.real.RUnlock()
	if H != nil {
		H.Release(m, false)
	}
}

func (m *RWMutex) TryLock() bool {
	if H != nil && !H.TryAcquire(m, true) {
		return false
	}
	return m.real.TryLock()
}

func (m *RWMutex) TryRLock() bool {
	if H != nil && !H.TryAcquire(m, false) {
		return false
	}
	return m.real.TryRLock()
}

// RLocker returns a Locker whose Lock and Unlock are RLock and RUnlock.
func (m *RWMutex) RLocker() sync.Locker { return rlocker{m} }

type rlocker struct{ m *RWMutex }

func (r rlocker) Lock()   { r.m.RLock() }
func (r rlocker) Unlock() { r.m.RUnlock() }

// Mutex replaces sync.Mutex.
type Mutex struct{ rw RWMutex }

func (m *Mutex) Lock()         { m.rw.Lock() }
func (m *Mutex) Unlock()       { m.rw.Unlock() }
func (m *Mutex) TryLock() bool { return m.rw.TryLock() }

// ---------------------------------------------------------------- allocator seam

// Pool stands in for sync.Pool in the scratch copy under simulation. It is deterministic (LIFO: Get
// returns the object Put most recently, which is what sync.Pool does for one P) and adversarial within
// what sync.Pool allows: an object handed back may be taken by any other goroutine at once, so the
// bytes a pooled buffer holds at Put are overwritten on the spot ("poison on free"). Code that keeps
// reading a buffer, or a slice of it, after Put sees the damage in a single-threaded run; code that
// obeys the pool's contract cannot tell the difference. Only byte storage that is scratch by nature is
// touched: *bytes.Buffer, []byte, *[]byte, and bytes.Buffer / *bytes.Buffer fields of a pooled struct.
type Pool struct {
	New func() any

	mu    sync.Mutex
	items []any
}

// PoolStats counts what the seam did (evidence only).
var PoolStats struct {
	mu                      sync.Mutex
	Puts, Reused, Scribbled int64
}

func (p *Pool) Put(x any) {
	if x == nil {
		return
	}
	n := scribble(x)
	p.mu.Lock()
	p.items = append(p.items, x)
	p.mu.Unlock()
	PoolStats.mu.Lock()
	PoolStats.Puts++
	PoolStats.Scribbled += int64(n)
	PoolStats.mu.Unlock()
}

func (p *Pool) Get() any {
	p.mu.Lock()
	if n := len(p.items); n > 0 {
		x := p.items[n-1]
		p.items = p.items[:n-1]
		p.mu.Unlock()
		PoolStats.mu.Lock()
		PoolStats.Reused++
		PoolStats.mu.Unlock()
		return x
	}
	p.mu.Unlock()
	if p.New != nil {
		return p.New()
	}
	return nil
}

func fill(b []byte) int {
	const junk = "\xa5<?>&;\"'\x00]"
	b = b[:cap(b)]
	for i := range b {
		b[i] = junk[i%len(junk)]
	}
	return len(b)
}

func scribble(x any) int {
	switch v := x.(type) {
	case *bytes.Buffer:
		if v == nil {
			return 0
		}
		return fill(v.Bytes())
	case []byte:
		return fill(v)
	case *[]byte:
		if v == nil {
			return 0
		}
		return fill(*v)
	}
	rv := reflect.ValueOf(x)
	if rv.Kind() != reflect.Pointer || rv.IsNil() || rv.Elem().Kind() != reflect.Struct {
		return 0
	}
	n := 0
	st := rv.Elem()
	for i := 0; i < st.NumField(); i++ {
		f := st.Field(i)
		switch {
		case f.Type() == reflect.TypeOf(bytes.Buffer{}) && f.CanAddr() && f.Addr().CanInterface():
			n += fill(f.Addr().Interface().(*bytes.Buffer).Bytes())
		case f.Type() == reflect.TypeOf(&bytes.Buffer{}) && !f.IsNil() && f.CanInterface():
			n += fill(f.Interface().(*bytes.Buffer).Bytes())
		}
	}
	return n
}

// ---------------------------------------------------------------- atomics

// The Atomic* types stand in for the sync/atomic types of the same name in the scratch copy: each
// operation is first a decision point of the scheduler, then the real atomic operation (so the race
// detector keeps seeing the synchronisation it provides).

func yieldPoint(label string) {
	if H != nil {
		H.Yield(label)
	}
}

type AtomicPointer[T any] struct{ p atomic.Pointer[T] }

func (a *AtomicPointer[T]) Load() *T     { yieldPoint("atomic.Load"); return a.p.Load() }
func (a *AtomicPointer[T]) Store(v *T)   { yieldPoint("atomic.Store"); a.p.Store(v) }
func (a *AtomicPointer[T]) Swap(v *T) *T { yieldPoint("atomic.Swap"); return a.p.Swap(v) }
func (a *AtomicPointer[T]) CompareAndSwap(old, new *T) bool {
	yieldPoint("atomic.CompareAndSwap")
	return a.p.CompareAndSwap(old, new)
}

type AtomicValue struct{ v atomic.Value }

func (a *AtomicValue) Load() any      { yieldPoint("atomic.Load"); return a.v.Load() }
func (a *AtomicValue) Store(v any)    { yieldPoint("atomic.Store"); a.v.Store(v) }
func (a *AtomicValue) Swap(v any) any { yieldPoint("atomic.Swap"); return a.v.Swap(v) }
func (a *AtomicValue) CompareAndSwap(old, new any) bool {
	yieldPoint("atomic.CompareAndSwap")
	return a.v.CompareAndSwap(old, new)
}

type AtomicInt64 struct{ v atomic.Int64 }

func (a *AtomicInt64) Load() int64        { yieldPoint("atomic.Load"); return a.v.Load() }
func (a *AtomicInt64) Store(v int64)      { yieldPoint("atomic.Store"); a.v.Store(v) }
func (a *AtomicInt64) Add(d int64) int64  { yieldPoint("atomic.Add"); return a.v.Add(d) }
func (a *AtomicInt64) Swap(v int64) int64 { yieldPoint("atomic.Swap"); return a.v.Swap(v) }
func (a *AtomicInt64) CompareAndSwap(old, new int64) bool {
	yieldPoint("atomic.CompareAndSwap")
	return a.v.CompareAndSwap(old, new)
}

type AtomicInt32 struct{ v atomic.Int32 }

func (a *AtomicInt32) Load() int32        { yieldPoint("atomic.Load"); return a.v.Load() }
func (a *AtomicInt32) Store(v int32)      { yieldPoint("atomic.Store"); a.v.Store(v) }
func (a *AtomicInt32) Add(d int32) int32  { yieldPoint("atomic.Add"); return a.v.Add(d) }
func (a *AtomicInt32) Swap(v int32) int32 { yieldPoint("atomic.Swap"); return a.v.Swap(v) }
func (a *AtomicInt32) CompareAndSwap(old, new int32) bool {
	yieldPoint("atomic.CompareAndSwap")
	return a.v.CompareAndSwap(old, new)
}

type AtomicUint64 struct{ v atomic.Uint64 }

func (a *AtomicUint64) Load() uint64         { yieldPoint("atomic.Load"); return a.v.Load() }
func (a *AtomicUint64) Store(v uint64)       { yieldPoint("atomic.Store"); a.v.Store(v) }
func (a *AtomicUint64) Add(d uint64) uint64  { yieldPoint("atomic.Add"); return a.v.Add(d) }
func (a *AtomicUint64) Swap(v uint64) uint64 { yieldPoint("atomic.Swap"); return a.v.Swap(v) }
func (a *AtomicUint64) CompareAndSwap(old, new uint64) bool {
	yieldPoint("atomic.CompareAndSwap")
	return a.v.CompareAndSwap(old, new)
}

type AtomicUint32 struct{ v atomic.Uint32 }

func (a *AtomicUint32) Load() uint32         { yieldPoint("atomic.Load"); return a.v.Load() }
func (a *AtomicUint32) Store(v uint32)       { yieldPoint("atomic.Store"); a.v.Store(v) }
func (a *AtomicUint32) Add(d uint32) uint32  { yieldPoint("atomic.Add"); return a.v.Add(d) }
func (a *AtomicUint32) Swap(v uint32) uint32 { yieldPoint("atomic.Swap"); return a.v.Swap(v) }
func (a *AtomicUint32) CompareAndSwap(old, new uint32) bool {
	yieldPoint("atomic.CompareAndSwap")
	return a.v.CompareAndSwap(old, new)
}

type AtomicBool struct{ v atomic.Bool }

func (a *AtomicBool) Load() bool       { yieldPoint("atomic.Load"); return a.v.Load() }
func (a *AtomicBool) Store(v bool)     { yieldPoint("atomic.Store"); a.v.Store(v) }
func (a *AtomicBool) Swap(v bool) bool { yieldPoint("atomic.Swap"); return a.v.Swap(v) }
func (a *AtomicBool) CompareAndSwap(old, new bool) bool {
	yieldPoint("atomic.CompareAndSwap")
	return a.v.CompareAndSwap(old, new)
}

// ---------------------------------------------------------------- sync.Map

// Map stands in for sync.Map in the scratch copy. The single-key operations are one decision point of
// the scheduler followed by the real operation. Range is what sync.Map documents and no more: it "does
// not necessarily correspond to any consistent snapshot"; each key is visited at most once and its value
// is whatever the map holds at the moment of the visit. Here the visits are separate decision points
// (other tasks may run between two of them), keys are visited in the order of their printed form -
// ascending on a Map's odd-numbered Range calls, descending on the even-numbered ones - and a key that
// appears behind the cursor while the walk is under way is missed, one that appears ahead of it is seen.
// Both are outcomes the real sync.Map produces under free-running concurrency; this makes them replayable.
type Map struct {
	m      sync.Map
	ranges atomic.Int64
}

func (m *Map) Load(key any) (any, bool) { yieldPoint("Map.Load"); return m.m.Load(key) }
func (m *Map) Store(key, value any)     { yieldPoint("Map.Store"); m.m.Store(key, value) }
func (m *Map) Delete(key any)           { yieldPoint("Map.Delete"); m.m.Delete(key) }
func (m *Map) Clear()                   { yieldPoint("Map.Clear"); m.m.Clear() }
func (m *Map) LoadOrStore(key, value any) (any, bool) {
	yieldPoint("Map.LoadOrStore")
	return m.m.LoadOrStore(key, value)
}
func (m *Map) LoadAndDelete(key any) (any, bool) {
	yieldPoint("Map.LoadAndDelete")
	return m.m.LoadAndDelete(key)
}
func (m *Map) Swap(key, value any) (any, bool) { yieldPoint("Map.Swap"); return m.m.Swap(key, value) }
func (m *Map) CompareAndSwap(key, old, new any) bool {
	yieldPoint("Map.CompareAndSwap")
	return m.m.CompareAndSwap(key, old, new)
}
func (m *Map) CompareAndDelete(key, old any) bool {
	yieldPoint("Map.CompareAndDelete")
	return m.m.CompareAndDelete(key, old)
}

func (m *Map) Range(f func(key, value any) bool) {
	if H == nil {
		m.m.Range(f)
		return
	}
	down := m.ranges.Add(1)%2 == 0
	started, cursor := false, ""
	for {
		yieldPoint("Map.Range")
		// the live key next after the cursor, in this walk's direction
		var next any
		nextName, found := "", false
		m.m.Range(func(k, _ any) bool {
			name := fmt.Sprint(k)
			if started && ((!down && name <= cursor) || (down && name >= cursor)) {
				return true
			}
			if !found || (!down && name < nextName) || (down && name > nextName) {
				next, nextName, found = k, name, true
			}
			return true
		})
		if !found {
			return
		}
		started, cursor = true, nextName
		if v, ok := m.m.Load(next); ok {
			if !f(next, v) {
				return
			}
		}
	}
}
