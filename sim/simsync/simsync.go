// Package simsync provides scheduler-aware drop-in replacements for sync.Mutex and
// sync.RWMutex. It is copied into a scratch copy of crewjam/saml (as
// github.com/crewjam/saml/simsync) by /verif/bin/check for property C20 only; the
// shipped code never sees it.
//
// With no hook installed the types behave exactly like their sync counterparts. With
// a hook, every acquisition first asks the simulator (which blocks the calling task
// cooperatively until its *model* of the lock grants the request) and only then locks
// the real primitive, which is therefore always free at that moment: the real lock
// contributes the program's genuine happens-before edges to the race detector and
// nothing else.
package simsync

import (
	"bytes"
	"reflect"
	"sync"
)

// Hook is installed by the simulator.
type Hook interface {
	Acquire(m *RWMutex, write bool)
	Release(m *RWMutex, write bool)
}

// H is the installed hook (nil: plain behaviour).
var H Hook

// RWMutex replaces sync.RWMutex.
type RWMutex struct {
	real sync.RWMutex
	// Model state, owned by the simulator; touched only by the one running task.
	Readers int
	Writer  bool
	Pending int // writers that have called Lock and not yet acquired
}

func (m *RWMutex) Lock() {
	if H != nil {
		H.Acquire(m, true)
	}
	m.real.Lock()
}

func (m *RWMutex) Unlock() {
	m.real.Unlock()
	if H != nil {
		H.Release(m, true)
	}
}

func (m *RWMutex) RLock() {
	if H != nil {
		H.Acquire(m, false)
	}
	m.real.RLock()
}

func (m *RWMutex) RUnlock() {
	m.real.RUnlock()
	if H != nil {
		H.Release(m, false)
	}
}

// Mutex replaces sync.Mutex.
type Mutex struct{ rw RWMutex }

func (m *Mutex) Lock()   { m.rw.Lock() }
func (m *Mutex) Unlock() { m.rw.Unlock() }

// ---------------------------------------------------------------- allocator seam

// Pool stands in for sync.Pool in the scratch copy under simulation. It is deterministic (LIFO: Get
// returns the object Put most recently, which is what sync.Pool does for one P) and adversarial within
// what sync.Pool allows: an object handed back may be taken by any other goroutine at once, so the
// bytes a pooled buffer holds at Put are overwritten on the spot ("poison on free"). Code that keeps
// reading a buffer, or a slice of it, after Put sees the damage in a single-threaded run; code that
// obeys the pool's contract cannot tell the difference. Only byte storage that is scratch by nature is
// touched: *bytes.Buffer, []byte, *[]byte, and bytes.Buffer / *bytes.Buffer fields of a pooled struct.
type Pool struct {
	New func() any

	mu    sync.Mutex
	items []any
}

// PoolStats counts what the seam did (evidence only).
var PoolStats struct {
	mu                      sync.Mutex
	Puts, Reused, Scribbled int64
}

func (p *Pool) Put(x any) {
	if x == nil {
		return
	}
	n := scribble(x)
	p.mu.Lock()
	p.items = append(p.items, x)
	p.mu.Unlock()
	PoolStats.mu.Lock()
	PoolStats.Puts++
	PoolStats.Scribbled += int64(n)
	PoolStats.mu.Unlock()
}

func (p *Pool) Get() any {
	p.mu.Lock()
	if n := len(p.items); n > 0 {
		x := p.items[n-1]
		p.items = p.items[:n-1]
		p.mu.Unlock()
		PoolStats.mu.Lock()
		PoolStats.Reused++
		PoolStats.mu.Unlock()
		return x
	}
	p.mu.Unlock()
	if p.New != nil {
		return p.New()
	}
	return nil
}

func fill(b []byte) int {
	const junk = "\xa5<?>&;\"'\x00]"
	b = b[:cap(b)]
	for i := range b {
		b[i] = junk[i%len(junk)]
	}
	return len(b)
}

func scribble(x any) int {
	switch v := x.(type) {
	case *bytes.Buffer:
		if v == nil {
			return 0
		}
		return fill(v.Bytes())
	case []byte:
		return fill(v)
	case *[]byte:
		if v == nil {
			return 0
		}
		return fill(*v)
	}
	rv := reflect.ValueOf(x)
	if rv.Kind() != reflect.Pointer || rv.IsNil() || rv.Elem().Kind() != reflect.Struct {
		return 0
	}
	n := 0
	st := rv.Elem()
	for i := 0; i < st.NumField(); i++ {
		f := st.Field(i)
		switch {
		case f.Type() == reflect.TypeOf(bytes.Buffer{}) && f.CanAddr() && f.Addr().CanInterface():
			n += fill(f.Addr().Interface().(*bytes.Buffer).Bytes())
		case f.Type() == reflect.TypeOf(&bytes.Buffer{}) && !f.IsNil() && f.CanInterface():
			n += fill(f.Interface().(*bytes.Buffer).Bytes())
		}
	}
	return n
}
