// Package simsync provides scheduler-aware drop-in replacements for sync.Mutex and
// sync.RWMutex. It is copied into a scratch copy of crewjam/saml (as
// github.com/crewjam/saml/simsync) by /verif/bin/check for property C20 only; the
// shipped code never sees it.
//
// With no hook installed the types behave exactly like their sync counterparts. With
// a hook, every acquisition first asks the simulator (which blocks the calling task
// cooperatively until its *model* of the lock grants the request) and only then locks
// the real primitive, which is therefore always free at that moment: the real lock
// contributes the program's genuine happens-before edges to the race detector and
// nothing else.
package simsync

import "sync"

// Hook is installed by the simulator.
type Hook interface {
	Acquire(m *RWMutex, write bool)
	Release(m *RWMutex, write bool)
}

// H is the installed hook (nil: plain behaviour).
var H Hook

// RWMutex replaces sync.RWMutex.
type RWMutex struct {
	real sync.RWMutex
	// Model state, owned by the simulator; touched only by the one running task.
	Readers int
	Writer  bool
	Pending int // writers that have called Lock and not yet acquired
}

func (m *RWMutex) Lock() {
	if H != nil {
		H.Acquire(m, true)
	}
	m.real.Lock()
}

func (m *RWMutex) Unlock() {
	m.real.Unlock()
	if H != nil {
		H.Release(m, true)
	}
}

func (m *RWMutex) RLock() {
	if H != nil {
		H.Acquire(m, false)
	}
	m.real.RLock()
}

func (m *RWMutex) RUnlock() {
	m.real.RUnlock()
	if H != nil {
		H.Release(m, false)
	}
}

// Mutex replaces sync.Mutex.
type Mutex struct{ rw RWMutex }

func (m *Mutex) Lock()   { m.rw.Lock() }
func (m *Mutex) Unlock() { m.rw.Unlock() }
