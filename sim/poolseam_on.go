//go:build poolseam

package samlsim

import "github.com/crewjam/saml/simsync"

// poolSeamCounts reports what the allocator seam did in this process (the tree under test uses sync.Pool
// and bin/check rewrote it to simsync.Pool in the scratch copy).
func poolSeamCounts() map[string]int {
	return map[string]int{"pool:put(poisoned)": int(simsync.PoolStats.Puts), "pool:get-reused": int(simsync.PoolStats.Reused)}
}
