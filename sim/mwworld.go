package samlsim

import (
	"bytes"
	"compress/flate"
	"crypto/ecdsa"
	"crypto/sha1"
	"encoding/base64"
	"fmt"
	"io"
	"net/http"
	"net/url"
	"sort"
	"strings"
	"time"

	"github.com/beevik/etree"
	"github.com/crewjam/saml"
	"github.com/crewjam/saml/samlsp"
	"github.com/golang-jwt/jwt/v4"
)

// Shared world for the middleware profiles (C16 tokens, C17 flows): real samlsp.Middleware
// deployments behind a mux with an application handler, a browser stub with a cookie jar
// that honours Path / Max-Age / Expires against the simulated clock, and a foreign IdP that
// answers the AuthnRequests the middleware emits.

// ---------------------------------------------------------------- deployments

type mwDeployConf struct {
	HTTPS      bool   `json:"https"`
	Host       string `json:"host"`
	EC         bool   `json:"ec_key"`
	KeyIdx     int    `json:"key"`
	Binding    string `json:"binding"` // "" (default: redirect) | "post"
	CookieName string `json:"cookie_name,omitempty"`
	CustomRS   bool   `json:"custom_relay_state,omitempty"`
	AllowIDP   bool   `json:"allow_idp_initiated,omitempty"`
	// further samlsp.Options the statements do not mention: none of them may change who is authenticated or where a flow ends,
	// except DefaultRedirect, which is where a flow without relay state ends
	DefaultRedirect string `json:"default_redirect_uri,omitempty"`
	SignRequest     bool   `json:"sign_request,omitempty"`
	ForceAuthn      bool   `json:"force_authn,omitempty"`
	SameSite        int    `json:"cookie_same_site,omitempty"` // http.SameSite value (0: unset)
	EntityID        string `json:"entity_id,omitempty"`
	ReqCtx          bool   `json:"requested_authn_context,omitempty"`
	// ArtifactBinding: samlsp.Options.UseArtifactResponse; the IdP may then bring the browser back with GET acs?SAMLart=..&RelayState=..
	// and the SP fetches the response over its back-channel (mwResolver)
	ArtifactBinding bool `json:"use_artifact_response,omitempty"`
	// CustomRSLen (with CustomRS; 0: the short "custom-rs-<n>"): the custom relay-state function returns values this many bytes long - a
	// tenant name plus a deep-link token, say. CustomRSOwnLast: the part that tells one flow's value from another's comes last (the
	// values share a long prefix) instead of first
	CustomRSLen     int  `json:"custom_relay_state_len,omitempty"`
	CustomRSOwnLast bool `json:"custom_relay_state_own_part_last,omitempty"`
	// CustomRSValues (with CustomRS): the application's own correlation tokens - the n-th call of the relay-state function returns the
	// n-th of them (after the last: "custom-rs-<n>" as before). The plan writes them out, so they may be made of any characters a
	// cookie name may be made of, and may look like encodings of one another; to the middleware and the IdP they are opaque
	CustomRSValues []string `json:"custom_relay_state_values,omitempty"`
}

// mwResolver is the IdP's artifact resolution service as the SP's HTTP client sees it: the artifact's message handle names
// the response; the ArtifactResponse answers the ArtifactResolve it was sent.
type mwResolver struct {
	byHandle map[string][]byte // message handle (hex) -> Response document
}

func (t *mwResolver) artifactFor(n int, doc []byte) string {
	b := make([]byte, 44)
	b[1] = 4
	sum := sha1.Sum([]byte(idpEntity))
	copy(b[4:24], sum[:])
	copy(b[24:], fmt.Sprintf("handle-%013d", n))
	if t.byHandle == nil {
		t.byHandle = map[string][]byte{}
	}
	t.byHandle[string(b[24:])] = doc
	return base64.StdEncoding.EncodeToString(b)
}

func (t *mwResolver) RoundTrip(r *http.Request) (*http.Response, error) {
	body, _ := io.ReadAll(r.Body)
	doc := etree.NewDocument()
	_ = doc.ReadFromBytes(body)
	id, handle := "", ""
	if ar := doc.FindElement("//ArtifactResolve"); ar != nil {
		id = ar.SelectAttrValue("ID", "")
		if a := ar.FindElement("./Artifact"); a != nil {
			if raw, err := base64.StdEncoding.DecodeString(strings.TrimSpace(a.Text())); err == nil && len(raw) == 44 {
				handle = string(raw[24:])
			}
		}
	}
	inner := etree.NewDocument()
	if d, ok := t.byHandle[handle]; !ok || inner.ReadFromBytes(d) != nil || inner.Root() == nil {
		return &http.Response{StatusCode: 404, Status: "404 Not Found", Body: io.NopCloser(strings.NewReader("no such artifact")), Header: http.Header{}, Request: r}, nil
	}
	out := wrapArtifactResponse(inner.Root(), "id-art-"+id, id, idpEntity, saml.StatusSuccess, time.Now(), nil)
	return &http.Response{StatusCode: 200, Status: "200 OK", Body: io.NopCloser(bytes.NewReader(out)), Header: http.Header{}, Request: r}, nil
}

func (c mwDeployConf) defaultRedirect() string {
	if c.DefaultRedirect != "" {
		return c.DefaultRedirect
	}
	return "/"
}

// mwNoise draws the options above.
func mwNoise(g *Rng, c *mwDeployConf) {
	c.DefaultRedirect = Pick(g, "", "", "/landing", "/app/home?tab=1")
	c.SignRequest = g.Bool(0.3)
	c.ForceAuthn = g.Bool(0.2)
	c.SameSite = Pick(g, 0, 0, int(http.SameSiteLaxMode), int(http.SameSiteStrictMode), int(http.SameSiteNoneMode))
	c.ReqCtx = g.Bool(0.2)
	if g.Bool(0.25) {
		c.EntityID = "urn:example:sp:" + c.Host
	}
}

// mwYield, when set, is a decision point of a two-request schedule (see the C16 profile's "pair" step): it is called when a
// request reaches the application handler and around every session-token decode.
var mwYield func(label string)

// yieldCodec wraps a deployment's session codec: decoding a token is where a request spends its time.
type yieldCodec struct{ samlsp.SessionCodec }

func (c yieldCodec) Decode(signed string) (samlsp.Session, error) {
	if mwYield != nil {
		mwYield("decode:before")
	}
	s, err := c.SessionCodec.Decode(signed)
	if mwYield != nil {
		mwYield("decode:after")
	}
	return s, err
}

type appHit struct {
	URL     string
	Subject string
	Attrs   map[string][]string
}

type mwDeploy struct {
	conf     mwDeployConf
	base     string
	mw       *samlsp.Middleware
	handler  http.Handler
	hits     []appHit
	gated    []appHit // hits on the attribute-gated handler
	nested   []appHit // hits on a handler that sits behind ANOTHER deployment's RequireAccount and then this one's
	mux      *http.ServeMux
	rsCount  int
	kp       KeyPair
	record   func(dst *[]appHit) http.Handler
	resolver *mwResolver
}

func (d *mwDeploy) acs() string { return d.base + "/saml/acs" }
func (d *mwDeploy) entityID() string {
	if d.conf.EntityID != "" {
		return d.conf.EntityID
	}
	return d.base + "/saml/metadata"
}
func (d *mwDeploy) sessionCookieName() string {
	if d.conf.CookieName != "" {
		return d.conf.CookieName
	}
	return "token"
}

func newMWDeploy(c mwDeployConf, idpMD *saml.EntityDescriptor, gateAttr, gateValue string) *mwDeploy {
	d := &mwDeploy{conf: c}
	scheme := "http"
	if c.HTTPS {
		scheme = "https"
	}
	d.base = scheme + "://" + c.Host
	if c.EC {
		d.kp = ecKeys[c.KeyIdx%len(ecKeys)]
	} else {
		d.kp = rsaKeys[c.KeyIdx%len(rsaKeys)]
	}
	opts := samlsp.Options{URL: mustURL(d.base + "/"), Key: d.kp.Key, Certificate: d.kp.Cert, IDPMetadata: idpMD,
		CookieName: c.CookieName, AllowIDPInitiated: c.AllowIDP, DefaultRedirectURI: c.DefaultRedirect, SignRequest: c.SignRequest, ForceAuthn: c.ForceAuthn,
		CookieSameSite: http.SameSite(c.SameSite), EntityID: c.EntityID, UseArtifactResponse: c.ArtifactBinding}
	if c.ArtifactBinding {
		d.resolver = &mwResolver{}
		opts.HTTPClient = &http.Client{Transport: d.resolver}
	}
	if c.ReqCtx {
		opts.RequestedAuthnContext = &saml.RequestedAuthnContext{Comparison: "exact", AuthnContextClassRef: "urn:oasis:names:tc:SAML:2.0:ac:classes:PasswordProtectedTransport"}
	}
	if c.CustomRS {
		opts.RelayStateFunc = func(http.ResponseWriter, *http.Request) string {
			d.rsCount++
			own := fmt.Sprintf("custom-rs-%d", d.rsCount)
			if d.rsCount <= len(c.CustomRSValues) {
				own = c.CustomRSValues[d.rsCount-1]
			}
			if pad := c.CustomRSLen - len(own); pad > 0 {
				if c.CustomRSOwnLast {
					return strings.Repeat("t", pad-1) + "-" + own
				}
				return own + "-" + strings.Repeat("t", pad-1)
			}
			return own
		}
	}
	m, err := samlsp.New(opts)
	if err != nil {
		panic(err)
	}
	if c.Binding == "post" {
		m.Binding = saml.HTTPPostBinding
	}
	m.OnError = func(w http.ResponseWriter, _ *http.Request, _ error) { // DefaultOnError without the log output
		http.Error(w, http.StatusText(http.StatusForbidden), http.StatusForbidden)
	}
	d.mw = m
	record := func(dst *[]appHit) http.Handler {
		return http.HandlerFunc(func(w http.ResponseWriter, r *http.Request) {
			if mwYield != nil {
				mwYield("app")
			}
			h := appHit{URL: r.URL.String()}
			if s := samlsp.SessionFromContext(r.Context()); s != nil {
				if c, ok := s.(samlsp.JWTSessionClaims); ok {
					h.Subject = c.Subject
					h.Attrs = map[string][]string(c.Attributes)
				}
			}
			*dst = append(*dst, h)
			w.WriteHeader(200)
			_, _ = io.WriteString(w, "app ok")
		})
	}
	mux := http.NewServeMux()
	mux.Handle("/saml/", m)
	mux.Handle("/gated/", m.RequireAccount(samlsp.RequireAttribute(gateAttr, gateValue)(record(&d.gated))))
	mux.Handle("/gatedempty/", m.RequireAccount(samlsp.RequireAttribute("dept", "")(record(&d.gated))))
	mux.Handle("/", m.RequireAccount(record(&d.hits)))
	d.handler = mux
	d.mux = mux
	d.record = record
	return d
}

// nestBehind mounts /nested/ on d: first outer's RequireAccount, then d's own, then a recording handler
// (two SAML deployments in one process, e.g. a portal in front of a stricter application).
func (d *mwDeploy) nestBehind(outer *mwDeploy) {
	d.mux.Handle("/nested/", outer.mw.RequireAccount(d.mw.RequireAccount(d.record(&d.nested))))
}

// ---------------------------------------------------------------- browser stub

type jarCookie struct {
	Name, Value string
	Path        string
	Host        string
	Secure      bool
	HTTPOnly    bool
	Expires     time.Time // zero: session cookie
	SetAt       time.Time
}

type browser struct {
	jar []*jarCookie
}

// store applies Set-Cookie headers of a reply from host (browser semantics: replace by name+path+host; delete when expired).
func (b *browser) store(host string, cookies []*http.Cookie) {
	now := time.Now()
	for _, c := range cookies {
		path := c.Path
		if path == "" {
			path = "/"
		}
		jc := &jarCookie{Name: c.Name, Value: c.Value, Path: path, Host: host, Secure: c.Secure, HTTPOnly: c.HttpOnly, SetAt: now}
		expired := false
		switch {
		case c.MaxAge < 0:
			expired = true
		case c.MaxAge > 0:
			jc.Expires = now.Add(time.Duration(c.MaxAge) * time.Second)
		case !c.Expires.IsZero():
			jc.Expires = c.Expires
			expired = !c.Expires.After(now)
		}
		kept := b.jar[:0]
		for _, o := range b.jar {
			if !(o.Name == jc.Name && o.Path == jc.Path && o.Host == jc.Host) {
				kept = append(kept, o)
			}
		}
		b.jar = kept
		if !expired {
			b.jar = append(b.jar, jc)
		}
	}
}

// cookiesFor returns the cookies a faithful browser sends to URL u now.
func (b *browser) cookiesFor(u *url.URL, includeExpired bool) []*jarCookie {
	now := time.Now()
	var out []*jarCookie
	for _, c := range b.jar {
		if c.Host != u.Host {
			continue
		}
		if c.Secure && u.Scheme != "https" {
			continue
		}
		if !(c.Path == "/" || u.Path == c.Path || strings.HasPrefix(u.Path, strings.TrimSuffix(c.Path, "/")+"/")) {
			continue
		}
		if !includeExpired && !c.Expires.IsZero() && !c.Expires.After(now) {
			continue
		}
		out = append(out, c)
	}
	sort.SliceStable(out, func(i, j int) bool { return out[i].SetAt.Before(out[j].SetAt) })
	return out
}

func (b *browser) find(name string) *jarCookie {
	for _, c := range b.jar {
		if c.Name == name {
			return c
		}
	}
	return nil
}

func toHTTPCookies(cs []*jarCookie) []*http.Cookie {
	var out []*http.Cookie
	for _, c := range cs {
		out = append(out, &http.Cookie{Name: c.Name, Value: c.Value})
	}
	return out
}

// ---------------------------------------------------------------- AuthnRequest decoding (what the IdP sees)

type seenAuthnRequest struct {
	ID         string
	Issuer     string
	ACSURL     string
	RelayState string
	Dest       string
}

func inflateB64(s string) ([]byte, error) {
	raw, err := base64.StdEncoding.DecodeString(s)
	if err != nil {
		return nil, err
	}
	return io.ReadAll(io.LimitReader(flate.NewReader(bytes.NewReader(raw)), 1<<20))
}

func parseAuthnRequestXML(b []byte) (*seenAuthnRequest, error) {
	doc := etree.NewDocument()
	if err := doc.ReadFromBytes(b); err != nil || doc.Root() == nil {
		return nil, fmt.Errorf("not xml")
	}
	r := doc.Root()
	out := &seenAuthnRequest{ID: r.SelectAttrValue("ID", ""), ACSURL: r.SelectAttrValue("AssertionConsumerServiceURL", ""), Dest: r.SelectAttrValue("Destination", "")}
	if is := r.FindElement("./Issuer"); is != nil {
		out.Issuer = is.Text()
	}
	return out, nil
}

// decodeStartReply extracts the AuthnRequest from the middleware's reply to an unauthenticated request (either binding).
func decodeStartReply(rep *reply) (*seenAuthnRequest, error) {
	if rep.Code == http.StatusFound {
		loc, err := url.Parse(rep.Header.Get("Location"))
		if err != nil {
			return nil, err
		}
		q := loc.Query()
		b, err := inflateB64(q.Get("SAMLRequest"))
		if err != nil {
			return nil, err
		}
		ar, err := parseAuthnRequestXML(b)
		if err != nil {
			return nil, err
		}
		ar.RelayState = q.Get("RelayState")
		return ar, nil
	}
	if rep.Code == http.StatusOK {
		f := parseForm(rep.Body)
		if f == nil || f.Fields.Get("SAMLRequest") == "" {
			return nil, fmt.Errorf("no form")
		}
		b, err := base64.StdEncoding.DecodeString(f.Fields.Get("SAMLRequest"))
		if err != nil {
			return nil, err
		}
		ar, err := parseAuthnRequestXML(b)
		if err != nil {
			return nil, err
		}
		ar.RelayState = f.Fields.Get("RelayState")
		return ar, nil
	}
	return nil, fmt.Errorf("status %d", rep.Code)
}

// ---------------------------------------------------------------- users of the foreign IdP

type mwUser struct {
	NameID       string // "" = assertion without NameID
	NoNameID     bool
	Confirmer    string // the bearer confirmation names this entity (the relaying gateway, say) as the one expected to present the assertion
	Attrs        []AttrSpec
	Index        string
	IdPSessionMs int64 // >0: the IdP announces its own session end (SessionNotOnOrAfter) this long after issuance
}

func mwUsers() []mwUser {
	return []mwUser{
		{NameID: "Alice", Index: "si-alice", Attrs: []AttrSpec{{Name: "urn:oid:0.9.2342.19200300.100.1.1", Friendly: "uid", Values: []string{"zquid0qz"}}, {Name: "groups", Values: []string{"zqG0aqz", "ZQg0bqz"}}, {Name: "groups", Values: []string{"zqg0cqz"}}}},
		{NameID: "Bob@Example.com", Index: "si-bob", Attrs: []AttrSpec{{Name: "urn:oid:0.9.2342.19200300.100.1.1", Friendly: "uid", Values: []string{"zquid1qz"}}, {Name: "role", Friendly: "role", Values: []string{"admin"}}}},
		{NoNameID: true, Index: "si-anon", Attrs: []AttrSpec{{Name: "urn:oid:0.9.2342.19200300.100.1.1", Friendly: "uid", Values: []string{"zquid2qz"}}}},
		{NameID: "carol", Index: "si-carol", Attrs: []AttrSpec{{Name: "role", Friendly: "role", Values: []string{"user"}}}},
		{NameID: "dave", Index: "si-dave", Attrs: []AttrSpec{{Name: "role", Values: []string{"user", "admin"}}, {Name: "urn:x:other", Friendly: "other", Values: []string{"admin"}}}},
		{NameID: "erin", Index: "si-erin"},
		// the same attribute name twice with other attributes in between, spread over two statements
		{NameID: "frank", Index: "si-frank", Attrs: []AttrSpec{{Name: "unit", Values: []string{"zqunit1qz"}}, {Name: "role", Friendly: "role", Values: []string{"none"}},
			{Name: "mail", Friendly: "mail", Values: []string{"zqmail6qz"}}, {Name: "unit", Values: []string{"admin"}, Stmt: 1}, {Name: "tail", Values: []string{"zqtail6qz"}, Stmt: 1}}},
		{NameID: "heidi", Index: "si-heidi", IdPSessionMs: 10 * 3_600_000, Attrs: []AttrSpec{{Name: "role", Friendly: "role", Values: []string{"user"}}}},
		{NameID: "grace", Index: "si-grace", Attrs: []AttrSpec{{Name: "groups", Values: []string{"zqg7aqz", "zqg7bqz"}}, {Name: "role", Friendly: "role", Values: []string{"user"}},
			{Name: "groups", Values: []string{"zqg7cqz"}}, {Name: "role", Friendly: "role", Values: []string{"admin"}}}},
		// principals and values that differ from others only in white space (and from the gate's value only in white space)
		{NameID: "alice ", Index: "si-alice-sp", Attrs: []AttrSpec{{Name: "role", Friendly: "role", Values: []string{" admin", "user\u00a0"}}, {Name: "unit", Values: []string{"\u2003zqunit10qz\n"}}}},
		// the confirmation names who is expected to present the assertion; that is not the subject (saml-core 2.4.1.1)
		{NoNameID: true, Confirmer: "zQgatewayQz", Index: "si-relayed", Attrs: []AttrSpec{{Name: "role", Friendly: "role", Values: []string{"user"}}}},
		{NameID: "ivan", Confirmer: "zQgatewayQz", Index: "si-ivan", Attrs: []AttrSpec{{Name: "role", Friendly: "role", Values: []string{"admin"}}}},
		// attribute values that are patterns of some matching language or other; the gate asks for the value admin
		{NameID: "judy", Index: "si-judy", Attrs: []AttrSpec{{Name: "role", Friendly: "role", Values: []string{"*"}}}},
		{NameID: "karl", Index: "si-karl", Attrs: []AttrSpec{{Name: "role", Friendly: "role", Values: []string{"user", "adm?n", "[a-z]dmin"}}}},
		{NameID: "lena", Index: "si-lena", Attrs: []AttrSpec{{Name: "role", Friendly: "role", Values: []string{"a*", ".*", "^admin$|", "\\admin", "%", "admin*"}}}},
		// an attribute that carries the empty string as one of its values
		{NameID: "mona", Index: "si-mona", Attrs: []AttrSpec{{Name: "dept", Values: []string{""}}, {Name: "role", Friendly: "role", Values: []string{"user"}}}},
		{NameID: "nils", Index: "si-nils", Attrs: []AttrSpec{{Name: "dept", Values: []string{"sales", ""}}}},
		// two attributes sharing a Name, one with a friendly name and one without (they differ in NameFormat): two attributes
		{NameID: "olga", Index: "si-olga", Attrs: []AttrSpec{{Name: "level", Friendly: "clearance", Values: []string{"zQbasicQz"}}, {Name: "role", Friendly: "role", Values: []string{"user"}},
			{Name: "level", Values: []string{"zQtopQz"}, Stmt: 1}}},
		{NameID: "\u00a0bob@example.com", Index: "si-bob-nbsp", Attrs: []AttrSpec{{Name: "role", Friendly: "role", Values: []string{"admin\t"}}}},
	}
}

// expectedAttrs computes, from the statement ("exactly those of the assertion that created the session"),
// the attribute map an application must see: values keyed by friendly name when present, else name; repeated
// attributes concatenate in order.
func (u mwUser) expectedAttrs() map[string][]string {
	m := map[string][]string{}
	for _, a := range u.Attrs {
		k := a.Friendly
		if k == "" {
			k = a.Name
		}
		m[k] = append(m[k], a.Values...)
	}
	return m
}

// mwResponseSpec builds a genuine, valid response of the foreign IdP for user u addressed to deployment d.
func mwResponseSpec(d *mwDeploy, u mwUser, inResponseTo string, n int) RespSpec {
	var snoa *int64
	if u.IdPSessionMs > 0 {
		snoa = i64(u.IdPSessionMs)
	}
	a := AsrtSpec{ID: fmt.Sprintf("id-as-%d", n), Issuer: idpEntity, NameID: u.NameID, NoNameID: u.NoNameID, SessionNOA: snoa,
		NotBefore: i64(-1000), NotOnOrAfter: i64(3_600_000 * 24), Audiences: []string{d.entityID()}, Attrs: u.Attrs, SessionIndex: u.Index, Sign: true,
		Confs: []ConfSpec{{NotOnOrAfter: i64(3_600_000 * 24), Recipient: d.acs(), InResponseTo: inResponseTo, NameID: u.Confirmer}}, Pretty: n%3 == 2}
	return RespSpec{Pretty: n%3 == 2, ID: fmt.Sprintf("id-resp-%d", n), Issuer: sp(idpEntity), Destination: d.acs(), InResponseTo: inResponseTo,
		Status: saml.StatusSuccess, Sign: true, Assertions: []AsrtSpec{a}}
}

func sameAttrs(a, b map[string][]string) bool {
	if len(a) != len(b) {
		return false
	}
	for k, v := range a {
		w, ok := b[k]
		if !ok || len(v) != len(w) {
			return false
		}
		for i := range v {
			if v[i] != w[i] {
				return false
			}
		}
	}
	return true
}

// resignJWT signs header.claims (both already base64url) with kp, using the algorithm matching kp's type.
func resignJWT(header, claims string, kp KeyPair) string {
	var m jwt.SigningMethod = jwt.SigningMethodRS256
	if _, ok := kp.Key.(*ecdsa.PrivateKey); ok {
		m = jwt.SigningMethodES256
	}
	sig, err := m.Sign(header+"."+claims, kp.Key)
	if err != nil {
		panic(err)
	}
	return header + "." + claims + "." + sig
}
