// Package samlsim is the deterministic simulator used to decide the C-properties
// of crewjam/saml. See /verif/DESIGN.md.
//
// One *plan* (a JSON document: knobs + steps, all drawn from one PRNG seeded by
// (VERIF_SEED, run index)) is one exactly repeatable execution. Execution of a
// plan never draws from a PRNG and never reads a real clock: the only clock is
// the testing/synctest bubble clock, moved by the simulator.
package samlsim

import (
	"crypto/sha256"
	"encoding/hex"
	"encoding/json"
	"fmt"
	"math/rand/v2"
	"sort"
	"strings"
	"testing"
)

// ---------------------------------------------------------------- PRNG

// Rng is the only source of choice during plan generation.
type Rng struct {
	r   *rand.Rand
	Run uint64 // run index (lets a generator interleave a systematic enumeration with the sampled cases)
}

func NewRng(seed, run uint64, stream uint64) *Rng {
	return &Rng{r: rand.New(rand.NewPCG(seed*0x9E3779B97F4A7C15+run, 0xD1B54A32D192ED03^stream)), Run: run}
}
func (g *Rng) Intn(n int) int {
	if n <= 0 {
		return 0
	}
	return g.r.IntN(n)
}
func (g *Rng) Int63n(n int64) int64 {
	if n <= 0 {
		return 0
	}
	return g.r.Int64N(n)
}
func (g *Rng) Bool(p float64) bool { return g.r.Float64() < p }
func (g *Rng) Float() float64      { return g.r.Float64() }
func (g *Rng) Uint64() uint64      { return g.r.Uint64() }

func Pick[T any](g *Rng, xs ...T) T { return xs[g.Intn(len(xs))] }

// PickW picks index by integer weights.
func (g *Rng) PickW(w ...int) int {
	tot := 0
	for _, x := range w {
		tot += x
	}
	k := g.Intn(tot)
	for i, x := range w {
		if k < x {
			return i
		}
		k -= x
	}
	return len(w) - 1
}

// ---------------------------------------------------------------- plans

// Plan is the replay file payload: everything an execution depends on.
type Plan struct {
	Property string            `json:"property"`
	Profile  string            `json:"profile"`
	Seed     uint64            `json:"verif_seed"`
	Run      uint64            `json:"run"`
	Knobs    json.RawMessage   `json:"knobs"`
	Steps    []json.RawMessage `json:"plan"`
	Schedule []int             `json:"schedule,omitempty"`
}

func mustJSON(v any) json.RawMessage {
	b, err := json.Marshal(v)
	if err != nil {
		panic(err)
	}
	return b
}

func (p *Plan) Clone() *Plan {
	q := *p
	q.Knobs = append(json.RawMessage(nil), p.Knobs...)
	q.Steps = make([]json.RawMessage, len(p.Steps))
	for i, s := range p.Steps {
		q.Steps[i] = append(json.RawMessage(nil), s...)
	}
	q.Schedule = append([]int(nil), p.Schedule...)
	return &q
}

func decode[T any](raw json.RawMessage) T {
	var v T
	if len(raw) > 0 {
		if err := json.Unmarshal(raw, &v); err != nil {
			panic(fmt.Sprintf("harness: cannot decode plan part %s: %v", raw, err))
		}
	}
	return v
}

// ---------------------------------------------------------------- results

// Violation describes a model/implementation disagreement.
type Violation struct {
	Class     string `json:"class"`     // violation class (minimisation keeps this constant)
	Signature string `json:"signature"` // specific failing site/history class, matched against known_findings.json
	Step      int    `json:"step"`
	Expected  string `json:"expected"`
	Observed  string `json:"observed"`
	Detail    string `json:"detail,omitempty"`
}

// Result is what one execution of a plan reports.
type Result struct {
	Violation  *Violation
	Log        []string       // abstract event log (never contains ciphertext, signatures, hashes)
	Fired      map[string]int // fault kinds that actually changed something
	Probes     map[string]int // rare-state probes
	DontCare   map[string]int // declared don't-care zones hit
	Excluded   string         // non-empty: run died for a reason that is another property's business
	Nontrivial bool           // oracle had to discriminate (rule is per profile)
	SimMillis  int64          // simulated time covered
	Extra      map[string]int // profile-specific counters (lattice points, ...)
	Schedule   []int          // scheduler picks actually taken (sched profile); copied into the replay file
	Lattice    []int          // enumerated lattice points this run visited (C02)
}

func newResult() *Result {
	return &Result{Fired: map[string]int{}, Probes: map[string]int{}, DontCare: map[string]int{}, Extra: map[string]int{}}
}

func (r *Result) logf(format string, a ...any) { r.Log = append(r.Log, fmt.Sprintf(format, a...)) }
func (r *Result) fire(kind string)             { r.Fired[kind]++ }
func (r *Result) probe(name string)            { r.Probes[name]++ }
func (r *Result) dontcare(name string)         { r.DontCare[name]++ }
func (r *Result) violate(step int, class, sig, expected, observed, detail string) {
	if r.Violation == nil {
		r.Violation = &Violation{Class: class, Signature: sig, Step: step, Expected: expected, Observed: observed, Detail: detail}
	}
}

func (r *Result) LogHash() string {
	h := sha256.Sum256([]byte(strings.Join(r.Log, "\n")))
	return hex.EncodeToString(h[:])
}

func (r *Result) Fingerprint() uint64 {
	h := sha256.Sum256([]byte(strings.Join(r.Log, "\n")))
	var x uint64
	for i := 0; i < 8; i++ {
		x = x<<8 | uint64(h[i])
	}
	return x
}

// ---------------------------------------------------------------- profiles

// Profile is one slice of the simulated world, deciding one property.
type Profile struct {
	ID       string // property id, e.g. "C02"
	Name     string // profile name (DESIGN.md §3)
	Level    string // evidence level
	Rule     string // how cases are generated and what makes one distinct & non-trivial
	NoBubble bool   // run outside a synctest bubble (sched only)
	// Gen draws a plan. tier is "quick" or "thorough".
	Gen func(g *Rng, tier string) *Plan
	// Exec executes a plan deterministically.
	Exec func(t *testing.T, p *Plan) *Result
	// Simplify returns candidate simplifications of p beyond dropping steps (optional).
	Simplify func(p *Plan) []*Plan
	// RunsQuick / RunsThorough are default run counts.
	RunsQuick, RunsThorough int
	Assumptions             []string
	Components              map[string][]string
}

var profiles = map[string]*Profile{}

func register(p *Profile) { profiles[p.ID] = p }

func sortedKeys[V any](m map[string]V) []string {
	ks := make([]string, 0, len(m))
	for k := range m {
		ks = append(ks, k)
	}
	sort.Strings(ks)
	return ks
}

func addCounts(dst, src map[string]int) {
	for k, v := range src {
		dst[k] += v
	}
}
