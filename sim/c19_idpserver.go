package samlsim

import (
	"bytes"
	"encoding/base64"
	"encoding/json"
	"encoding/xml"
	"errors"
	"fmt"
	"net/http"
	"net/url"
	"regexp"
	"sort"
	"strconv"
	"strings"
	"testing"
	"time"

	"github.com/crewjam/saml"
	"github.com/crewjam/saml/samlidp"
	"golang.org/x/crypto/bcrypt"
)

// C19 — the bundled IdP server (profile `idpserver`), level fault_enumeration.
//
// Per sampled history H: (i) fault-free run against the strict reference model;
// (ii) for EVERY position k a fork in which a server re-created over the store's
// content after step k serves the rest of H — outcome classes must equal the
// reference's; (iii) for EVERY store call j of H and each error kind a run with that
// single fault, checked against the relaxed (safety-only after the fault) model.

// ---------------------------------------------------------------- SimStore

var errSimIO = errors.New("simstore: injected I/O error")

// c19Crash is the panic value with which the simulated process dies in the middle of a request
// (the request never gets a reply; only what the store had applied survives).
type c19Crash struct{}

type simStore struct {
	data  map[string]string
	calls int
	// single-fault plan
	faultAt    int            // store-call index at which the fault fires (-1: none)
	faultKind  string         // "notfound" | "io" | "io-after" (mutations: error returned after applying)
	more       map[int]string // further faults by store-call index (multi-fault forks, thorough tier)
	nfired     int
	fired      string // description of the fired fault ("" if none yet)
	crashAfter bool   // die right after the current mutation has been applied
	log        []string
}

func newSimStore() *simStore { return &simStore{data: map[string]string{}, faultAt: -1} }

func (s *simStore) clone() *simStore {
	n := newSimStore()
	for k, v := range s.data {
		n.data[k] = v
	}
	return n
}

func (s *simStore) fault(op, key string) (err error, after bool) {
	idx := s.calls
	s.calls++
	kind := s.faultKind
	if idx != s.faultAt {
		k2, ok := s.more[idx]
		if !ok {
			return nil, false
		}
		kind = k2
	}
	s.nfired++
	s.fired = fmt.Sprintf("%d:%s %s(%s)", s.nfired, kind, op, keyClassC19(key))
	switch kind {
	case "crash":
		panic(c19Crash{})
	case "crash-after":
		if op == "Put" || op == "Delete" {
			s.crashAfter = true
			return nil, false
		}
		panic(c19Crash{})
	case "notfound":
		return samlidp.ErrNotFound, false
	case "io-after":
		if op == "Put" || op == "Delete" {
			return errSimIO, true
		}
		return errSimIO, false
	}
	return errSimIO, false
}

func (s *simStore) Get(key string, value interface{}) error {
	if err, _ := s.fault("Get", key); err != nil {
		return err
	}
	v, ok := s.data[key]
	if !ok {
		return samlidp.ErrNotFound
	}
	return json.Unmarshal([]byte(v), value)
}

func (s *simStore) Put(key string, value interface{}) error {
	ferr, after := s.fault("Put", key)
	if ferr != nil && !after {
		return ferr
	}
	buf, err := json.Marshal(value)
	if err != nil {
		return err
	}
	s.data[key] = string(buf)
	if s.crashAfter {
		s.crashAfter = false
		panic(c19Crash{})
	}
	return ferr
}

func (s *simStore) Delete(key string) error {
	ferr, after := s.fault("Delete", key)
	if ferr != nil && !after {
		return ferr
	}
	delete(s.data, key)
	if s.crashAfter {
		s.crashAfter = false
		panic(c19Crash{})
	}
	return ferr
}

func (s *simStore) List(prefix string) ([]string, error) {
	if err, _ := s.fault("List", prefix); err != nil {
		return nil, err
	}
	rv := []string{}
	for k := range s.data {
		if strings.HasPrefix(k, prefix) {
			rv = append(rv, strings.TrimPrefix(k, prefix))
		}
	}
	sort.Strings(rv)
	return rv, nil
}

func keyClassC19(key string) string {
	if strings.HasPrefix(key, "/sessions/") {
		return "/sessions/<id>"
	}
	return key
}

// ---------------------------------------------------------------- plan

type c19Knobs struct {
	Faults   bool `json:"enumerate_faults"`
	Restarts bool `json:"enumerate_restarts"`
	// Multi: random multi-fault placements {relative store-call index -> kind}, each a separate fork of the
	// whole history under the safety-only oracle (drawn by the generator; thorough tier)
	Multi []map[string]string `json:"multi_fault_forks,omitempty"`
}

type c19Step struct {
	Op     string `json:"op"`
	User   string `json:"user,omitempty"`
	Pw     string `json:"pw,omitempty"`     // put_user: "" = no password field; login/sso-creds: kind right|wrong|empty|other
	Ver    int    `json:"ver,omitempty"`    // put_user: attribute version marker
	Svc    string `json:"svc,omitempty"`    // service name
	SP     int    `json:"sp,omitempty"`     // which SP identity (metadata / requester)
	Sc     string `json:"sc,omitempty"`     // shortcut name
	Relay  string `json:"relay,omitempty"`  // put_shortcut: "fixed" | "suffix" | ""
	Cookie string `json:"cookie,omitempty"` // none | slot | forged
	Slot   int    `json:"slot,omitempty"`
	Bind   string `json:"bind,omitempty"` // sso: redirect | post
	Ms     int64  `json:"ms,omitempty"`   // advance; -1: to the expiry of slot, -2: 1 ms before, -3: 1 ms after; -6: to Lead ms before it
	// advance with ms = -6: how long before (negative: after) the expiry of the slot's session the clock is set, if that is in the future
	Lead int64  `json:"lead_ms,omitempty"`
	Bad  bool   `json:"bad,omitempty"`  // put_service with a body that is not SP metadata
	Omit string `json:"omit,omitempty"` // put_user: attributes left out of the body ("groups" | "names" | "groups+names"): PUT replaces the record
	// put_user: the body's "name" field names this other user (the URL says whose record it is; the body cannot say otherwise)
	BodyName string `json:"body_name,omitempty"`
	// sso: the request names no assertion consumer endpoint (the IdP picks among the registered ones)
	NoACS bool `json:"no_acs_in_request,omitempty"`
	// put_service: 1 = this name registers SP 0/1 with other metadata under the same entity ID: its only endpoint is .../saml/acs-b
	// (a request naming .../saml/acs is then not for a registered endpoint). With both variants stored under different names, which one
	// is served is the server's choice - but the same choice after a restart.
	// 2 = the document uploaded under this name describes the same entity ID WITHOUT a service-provider role (say, the metadata of
	// the entity's identity-provider side): the server may refuse it; if it stores it, no assertion can go to the entity on account
	// of this document, and with another name carrying the entity's SP metadata the choice is again the server's - and again the same
	// after a restart.
	Variant int `json:"metadata_variant,omitempty"`
	// Also > 0: the uploaded document is an EntitiesDescriptor (a federation aggregate): an entity without a service-provider
	// role, then SP, then provider (SP+Also) mod n. One service holds one provider: the first one with the role (what
	// GET /services/<name> shows afterwards); the others are merely mentioned.
	Also int `json:"also_describes,omitempty"`
}

// c19Password is the password a put/seed step sets. "set72" is exactly as long as bcrypt reads (72 bytes), "set100" longer
// (the API may refuse it; if it stores it, only that very string is the user's password).
func c19Password(user string, ver int, kind string) string {
	base := fmt.Sprintf("pw-%s-%d", user, ver)
	switch kind {
	case "set72":
		return base + strings.Repeat("p", 72-len(base))
	case "set100":
		return base + strings.Repeat("q", 100-len(base))
	}
	return base
}

var c19Users = []string{"u0", "u1", "u2"}
var c19Svcs = []string{"s0", "s1", "s2"}
var c19Scs = []string{"h0", "h1"}

// c19OddSvcs: service names (standing in for s0, s1, s2) whose order depends on who sorts them: bytes, numbers by value or by
// length, case-blind, leading zeros dropped, punctuation ignored.
var c19OddSvcs = [][3]string{
	{"s10", "s5", "s9"}, {"s9", "s5", "s10"}, {"s100", "s20", "s3"}, {"s2b", "s11a", "s1c"},
	{"Sb", "sa", "sc"}, {"sa", "Sc", "sB"},
	{"s01", "s001", "s1"},
	{"s_a", "s.b", "sAc"}, {"s-2", "s1", "s.0"},
}

func c19PlainSvc(name string) bool {
	for _, p := range c19Svcs {
		if p == name {
			return true
		}
	}
	return false
}

const c19NSP = 3

func genC19(g *Rng, tier string) *Plan {
	kn := c19Knobs{Faults: true, Restarts: true}
	if tier == "thorough" {
		for f, nf := 0, 2+g.Intn(3); f < nf; f++ {
			m := map[string]string{}
			for q, nq := 0, 2+g.Intn(2); q < nq; q++ {
				m[fmt.Sprint(g.Intn(60))] = Pick(g, "notfound", "io", "io-after", "crash", "crash-after")
			}
			kn.Multi = append(kn.Multi, m)
		}
	}
	p := &Plan{}
	var steps []c19Step
	// a short productive prefix most of the time, so that histories reach logged-in states
	if g.Bool(0.8) {
		steps = append(steps, c19Step{Op: "seed_user", User: "u0", Pw: "set", Ver: 1})
		steps = append(steps, c19Step{Op: "put_service", Svc: "s0", SP: 0})
		if g.Bool(0.5) {
			steps = append(steps, c19Step{Op: "put_shortcut", Sc: "h0", SP: 0, Relay: Pick(g, "fixed", "suffix", "")})
		}
		if g.Bool(0.6) {
			steps = append(steps, c19Step{Op: "login", User: "u0", Pw: "right"})
		}
	}
	n := 4 + g.Intn(9)
	ver := 1
	var tailAt []int                 // where each targeted tail drawn below starts
	twoNamesTail, alone := -1, false // which of them is the two-names tail; the history consists of one scenario alone
	apiPw := g.Bool(0.15)            // histories that hash passwords through the API (bcrypt cost 10) are the minority: they are 50x slower
	for i := 0; i < n; i++ {
		var st c19Step
		switch g.PickW(10, 4, 10, 5, 5, 3, 12, 16, 8, 4, 8, 6, 1) {
		case 0:
			ver++
			switch {
			case apiPw && g.Bool(0.5):
				st = c19Step{Op: "put_user", User: Pick(g, c19Users...), Pw: Pick(g, "set", "set", "empty", "set72", "set100"), Ver: ver}
			case g.Bool(0.5):
				st = c19Step{Op: "put_user", User: Pick(g, c19Users...), Pw: "", Ver: ver, Omit: Pick(g, "", "", "groups", "names", "groups+names")} // no password field: stored hash is retained
				if g.Bool(0.3) {
					st.BodyName = Pick(g, c19Users...)
					if st.BodyName == st.User {
						st.BodyName = ""
					}
				}
			default:
				st = c19Step{Op: "seed_user", User: Pick(g, c19Users...), Pw: Pick(g, "set", "set", "none", "empty", "set72"), Ver: ver}
			}
		case 1:
			st = c19Step{Op: "delete_user", User: Pick(g, c19Users...)}
		case 2:
			st = c19Step{Op: "put_service", Svc: Pick(g, c19Svcs...), SP: g.Intn(c19NSP), Bad: g.Bool(0.05), Variant: g.PickW(3, 1), Also: g.PickW(5, 1, 1)}
		case 3:
			st = c19Step{Op: "delete_service", Svc: Pick(g, c19Svcs...)}
		case 4:
			st = c19Step{Op: "put_shortcut", Sc: Pick(g, c19Scs...), SP: g.Intn(c19NSP), Relay: Pick(g, "fixed", "suffix", "")}
		case 5:
			st = c19Step{Op: "delete_shortcut", Sc: Pick(g, c19Scs...)}
		case 6:
			st = c19Step{Op: "login", User: Pick(g, c19Users...), Pw: Pick(g, "right", "right", "right", "wrong", "empty", "other", "right+tail", "prefix72"), Cookie: Pick(g, "", "", "", "forged", "slot", "forged-short", "forged-odd"), Slot: g.Intn(3)}
		case 7:
			st = c19Step{Op: "sso", SP: g.Intn(c19NSP), Cookie: Pick(g, "slot", "slot", "slot", "slot", "none", "forged", "forged-short", "forged-7", "forged-8", "forged-long", "forged-odd"), Slot: g.Intn(3), Bind: Pick(g, "redirect", "post")}
			if g.Bool(0.25) {
				st.Cookie, st.User, st.Pw = "none", Pick(g, c19Users...), Pick(g, "right", "wrong", "empty", "other")
			}
			st.NoACS = g.Bool(0.3)
		case 8:
			st = c19Step{Op: "shortcut", Sc: Pick(g, c19Scs...), Cookie: Pick(g, "slot", "slot", "slot", "slot", "none", "forged", "forged-short", "forged-7", "forged-long", "forged-odd"), Slot: g.Intn(3), Relay: Pick(g, "", "deep")}
		case 9:
			st = c19Step{Op: "delete_session", Slot: g.Intn(3)}
		case 10:
			st = c19Step{Op: "advance", Ms: Pick(g, int64(1000), 60_000, 1_800_000, 3_600_000, 7_200_000, -1, -2, -3, -4, -5), Slot: Pick(g, -1, -1, 0, 1, 2)}
		case 11:
			st = c19Step{Op: Pick(g, "list_users", "get_user", "list_sessions", "get_session", "list_services", "get_service", "list_shortcuts", "get_shortcut"),
				User: Pick(g, c19Users...), Svc: Pick(g, c19Svcs...), Sc: Pick(g, c19Scs...), Slot: g.Intn(3)}
		default:
			st = c19Step{Op: "restart"}
		}
		steps = append(steps, st)
		// probe right after a state change: the interesting disagreements sit there
		if g.Bool(0.5) {
			probeSP := g.Intn(c19NSP)
			switch st.Op {
			case "delete_session":
				steps = append(steps, Pick(g, c19Step{Op: "sso", SP: probeSP, Cookie: "slot", Slot: st.Slot, Bind: "redirect"}, c19Step{Op: "shortcut", Sc: Pick(g, c19Scs...), Cookie: "slot", Slot: st.Slot}))
			case "advance":
				if st.Ms < 0 || st.Ms >= 3_600_000 {
					steps = append(steps, c19Step{Op: "sso", SP: probeSP, Cookie: "slot", Slot: st.Slot, Bind: "redirect"})
				}
			case "delete_user", "put_user", "seed_user":
				steps = append(steps, Pick(g, c19Step{Op: "login", User: st.User, Pw: Pick(g, "right", "right", "other", "right+tail", "prefix72")}, c19Step{Op: "sso", SP: probeSP, Cookie: "none", User: st.User, Pw: Pick(g, "right", "empty", "wrong", "other", "right+tail"), Bind: "post"}))
			case "put_service", "delete_service":
				steps = append(steps, c19Step{Op: "sso", SP: g.Intn(c19NSP), Cookie: "slot", Slot: g.Intn(2), Bind: "redirect"})
			case "put_shortcut", "delete_shortcut":
				steps = append(steps, c19Step{Op: "shortcut", Sc: st.Sc, Cookie: "slot", Slot: g.Intn(2)})
			}
		}
	}
	if g.Bool(0.25) {
		tailAt = append(tailAt, len(steps))
		// targeted: a user record replaced by a PUT that leaves attributes out, then a login and an assertion
		u := Pick(g, c19Users...)
		ver += 2
		steps = append(steps, c19Step{Op: "seed_user", User: u, Pw: "set", Ver: ver - 1}, c19Step{Op: "put_service", Svc: "s0", SP: 0},
			c19Step{Op: "put_user", User: u, Pw: "", Ver: ver, Omit: Pick(g, "groups", "names", "groups+names")},
			c19Step{Op: "login", User: u, Pw: "right"},
			c19Step{Op: "sso", SP: 0, Cookie: "slot", Slot: -1, Bind: Pick(g, "redirect", "post")})
	}
	if g.Bool(0.15) {
		tailAt = append(tailAt, len(steps))
		twoNamesTail = len(tailAt) - 1
		// targeted: two names register one entity ID with different metadata, in either order; then the provider asks for a login
		u := Pick(g, c19Users...)
		ver++
		first, second := "s2", "s0"
		if g.Bool(0.5) {
			first, second = second, first
		}
		v := g.Intn(2)
		steps = append(steps, c19Step{Op: "seed_user", User: u, Pw: "set", Ver: ver},
			c19Step{Op: "put_service", Svc: first, SP: 1, Variant: v}, c19Step{Op: "put_service", Svc: second, SP: 1, Variant: 1 - v},
			c19Step{Op: "login", User: u, Pw: "right"},
			c19Step{Op: "sso", SP: 1, Cookie: "slot", Slot: -1, Bind: "redirect"},
			c19Step{Op: Pick(g, "delete_service", "put_service"), Svc: Pick(g, first, second), SP: 1, Variant: g.Intn(2)},
			c19Step{Op: "sso", SP: 1, Cookie: "slot", Slot: -1, Bind: "redirect"})
	}
	if g.Bool(0.15) {
		tailAt = append(tailAt, len(steps))
		// targeted: a service name moves to an entity ID that a later-named service carries already; the entity ID it had is gone
		u := Pick(g, c19Users...)
		ver++
		a, b := g.Intn(2), 0
		b = 1 - a
		lo, hi := "s0", "s2"
		if g.Bool(0.3) {
			lo, hi = hi, lo
		}
		steps = append(steps, c19Step{Op: "seed_user", User: u, Pw: "set", Ver: ver},
			c19Step{Op: "put_service", Svc: lo, SP: a}, c19Step{Op: "put_service", Svc: hi, SP: b}, c19Step{Op: "put_service", Svc: lo, SP: b},
			c19Step{Op: "login", User: u, Pw: "right"},
			c19Step{Op: "sso", SP: a, Cookie: "slot", Slot: -1, Bind: "redirect"},
			c19Step{Op: "sso", SP: b, Cookie: "slot", Slot: -1, Bind: Pick(g, "redirect", "post")})
	}
	if g.Bool(0.15) {
		tailAt = append(tailAt, len(steps))
		// targeted: a provider with two endpoints is used IdP-initiated and then by a request that names no endpoint; every later
		// restart must continue with the same choice of endpoint
		u := Pick(g, c19Users...)
		ver++
		steps = append(steps, c19Step{Op: "seed_user", User: u, Pw: "set", Ver: ver}, c19Step{Op: "put_service", Svc: "s1", SP: 2},
			c19Step{Op: "put_shortcut", Sc: "h1", SP: 2, Relay: Pick(g, "fixed", "suffix", "")}, c19Step{Op: "login", User: u, Pw: "right"},
			c19Step{Op: "sso", SP: 2, Cookie: "slot", Slot: -1, Bind: "redirect", NoACS: true},
			c19Step{Op: "shortcut", Sc: "h1", Cookie: "slot", Slot: -1},
			c19Step{Op: "sso", SP: 2, Cookie: "slot", Slot: -1, Bind: Pick(g, "redirect", "post"), NoACS: true},
			c19Step{Op: "sso", SP: 2, Cookie: "slot", Slot: -1, Bind: "redirect"})
	}
	if g.Bool(0.15) {
		tailAt = append(tailAt, len(steps))
		// targeted: a PUT for one user whose body names another, then logins with either user's password
		a, b := "u"+fmt.Sprint(g.Intn(3)), "u"+fmt.Sprint(g.Intn(3))
		if a != b {
			ver += 3
			steps = append(steps, c19Step{Op: "seed_user", User: a, Pw: "set", Ver: ver - 2}, c19Step{Op: "seed_user", User: b, Pw: "set", Ver: ver - 1},
				c19Step{Op: "put_user", User: a, Pw: Pick(g, "", "", "set"), Ver: ver, BodyName: b},
				c19Step{Op: "login", User: a, Pw: "of:" + b}, c19Step{Op: "login", User: a, Pw: "right"}, c19Step{Op: "login", User: b, Pw: "right"})
		}
	}
	if g.Bool(0.15) {
		tailAt = append(tailAt, len(steps))
		// targeted: somebody planted a cookie in the victim's browser before the victim logged in
		u := Pick(g, c19Users...)
		ver++
		steps = append(steps, c19Step{Op: "seed_user", User: u, Pw: Pick(g, "set", "set72"), Ver: ver}, c19Step{Op: "put_service", Svc: "s0", SP: 0},
			c19Step{Op: "sso", SP: 0, Cookie: "forged", Bind: "redirect"},
			c19Step{Op: "login", User: u, Pw: Pick(g, "right", "right", "right+tail", "prefix72"), Cookie: "forged"},
			c19Step{Op: "sso", SP: 0, Cookie: "forged", Bind: Pick(g, "redirect", "post")})
	}
	if g.Bool(0.3) {
		tailAt = append(tailAt, len(steps))
		// targeted: a fresh login, the clock moved to a chosen position around that session's expiry, then its cookie is used
		u := Pick(g, c19Users...)
		ver++
		steps = append(steps, c19Step{Op: "seed_user", User: u, Pw: "set", Ver: ver}, c19Step{Op: "put_service", Svc: "s0", SP: 0},
			c19Step{Op: "login", User: u, Pw: "right"},
			c19Step{Op: "advance", Ms: Pick(g, int64(-2), -1, -3, -4, -5, 3_599_000, 3_601_000), Slot: -1},
			Pick(g, c19Step{Op: "sso", SP: 0, Cookie: "slot", Slot: -1, Bind: "redirect"}, c19Step{Op: "shortcut", Sc: Pick(g, c19Scs...), Cookie: "slot", Slot: -1}))
	}
	// (the scenarios below were added later and draw after everything above, so that the plans of earlier versions keep their prefix)
	if g.Bool(0.3) {
		tailAt = append(tailAt, len(steps))
		// targeted: a session that is in use at a drawn distance before its expiry (a second to nearly its whole life), and whose
		// cookie comes back at a drawn distance after that expiry: the term of a session is the one it got at the login
		u := Pick(g, c19Users...)
		ver++
		use := func() c19Step {
			return Pick(g, c19Step{Op: "sso", SP: 0, Cookie: "slot", Slot: -1, Bind: "redirect"}, c19Step{Op: "sso", SP: 0, Cookie: "slot", Slot: -1, Bind: "post"},
				c19Step{Op: "shortcut", Sc: "h0", Cookie: "slot", Slot: -1})
		}
		steps = append(steps, c19Step{Op: "seed_user", User: u, Pw: "set", Ver: ver}, c19Step{Op: "put_service", Svc: "s0", SP: 0},
			c19Step{Op: "put_shortcut", Sc: "h0", SP: 0, Relay: Pick(g, "fixed", "")},
			c19Step{Op: "login", User: u, Pw: "right"})
		for k, nk := 0, 1+g.Intn(2); k < nk; k++ {
			steps = append(steps, c19Step{Op: "advance", Ms: -6, Slot: -1, Lead: Pick(g, int64(1000), 60_000, 300_000, 600_000, 840_000, 1_200_000, 1_800_000, 2_700_000, 3_540_000)}, use())
		}
		if g.Bool(0.3) {
			steps = append(steps, c19Step{Op: "get_session", Slot: -1})
		}
		steps = append(steps, c19Step{Op: "advance", Ms: -6, Slot: -1, Lead: -Pick(g, int64(1), 500, 1000, 60_000, 600_000, 1_800_000, 3_000_000)}, use())
	}
	if g.Bool(0.25) {
		tailAt = append(tailAt, len(steps))
		// targeted: the credentials a live session was opened with are replaced (through the API, by the operator, or by a PUT that
		// keeps the hash) or the user is removed; then the session's cookie is used, the user logs in again, and a cookie is used again.
		// The session is the stored snapshot of the login: it lives until it expires or is deleted - before and after any restart.
		u := Pick(g, c19Users...)
		ver += 2
		opening := c19Step{Op: "login", User: u, Pw: "right"}
		if g.Bool(0.3) {
			opening = c19Step{Op: "sso", SP: 0, Cookie: "none", User: u, Pw: "right", Bind: "post"}
		}
		var change c19Step
		switch g.PickW(4, 1, 2, 1) {
		case 0:
			change = c19Step{Op: "delete_user", User: u}
		case 1:
			change = c19Step{Op: "put_user", User: u, Pw: Pick(g, "set", "set", "empty"), Ver: ver}
		case 2:
			change = c19Step{Op: "seed_user", User: u, Pw: Pick(g, "set", "none"), Ver: ver}
		default:
			change = c19Step{Op: "put_user", User: u, Pw: "", Ver: ver}
		}
		use := func() c19Step {
			return Pick(g, c19Step{Op: "sso", SP: 0, Cookie: "slot", Slot: -1, Bind: Pick(g, "redirect", "post")}, c19Step{Op: "shortcut", Sc: "h0", Cookie: "slot", Slot: -1})
		}
		scenario := []c19Step{{Op: "seed_user", User: u, Pw: "set", Ver: ver - 1}, {Op: "put_service", Svc: "s0", SP: 0},
			{Op: "put_shortcut", Sc: "h0", SP: 0}, opening, change, use()}
		if change.Op == "put_user" && change.Pw != "" {
			// the API hashes at full cost, and every fork that starts before this step pays for it again (and once more for every later
			// login against that hash): such a history consists of the scenario alone, and nobody logs in afterwards
			steps, alone = scenario, true
		} else {
			steps = append(append(steps, scenario...), c19Step{Op: "login", User: u, Pw: Pick(g, "right", "right", "wrong")}, use())
		}
	}
	// (drawn last, and changing no history's length) the alphabet of service names and the kind of the "other" document:
	// in a share of the histories the three service names are replaced, everywhere, by names that common orderings rank differently
	// (byte order / numbers by value / case-blind / leading zeros / punctuation), and a put_service of the other metadata variant
	// uploads, in a share of the cases, a document that gives the entity no service-provider role at all. Whatever a server makes
	// of two names with one entity ID, a server re-created over the same store must make the same of them.
	if g.Bool(0.3) && !alone {
		// targeted, INSTEAD of one of the tails above (the two-names tail if it was drawn, else a drawn one): one entity ID under two
		// names - names on which orderings disagree, more often than not - with two different documents, one of which may give
		// the entity no service-provider role; the provider asks for a login; one of the names may be written again
		cut := twoNamesTail
		if cut < 0 {
			var nonEmpty []int
			for i, at := range tailAt {
				end := len(steps)
				if i+1 < len(tailAt) {
					end = tailAt[i+1]
				}
				if end > at {
					nonEmpty = append(nonEmpty, i)
				}
			}
			if len(nonEmpty) > 0 {
				cut = nonEmpty[g.Intn(len(nonEmpty))]
			}
		}
		if cut >= 0 {
			end := len(steps)
			if cut+1 < len(tailAt) {
				end = tailAt[cut+1]
			}
			steps = append(append([]c19Step(nil), steps[:tailAt[cut]]...), steps[end:]...)
		}
		u := Pick(g, c19Users...)
		ver++
		names := [3]string{"s0", "s1", "s2"}
		if g.Bool(0.6) {
			names = Pick(g, c19OddSvcs...)
		}
		i, j := g.Intn(3), 1+g.Intn(2)
		first, second := names[i], names[(i+j)%3]
		sp := g.Intn(2)
		docs := [2]int{0, Pick(g, 1, 2, 2)}
		if g.Bool(0.5) {
			docs[0], docs[1] = docs[1], docs[0]
		}
		steps = append(steps, c19Step{Op: "seed_user", User: u, Pw: "set", Ver: ver},
			c19Step{Op: "put_service", Svc: first, SP: sp, Variant: docs[0]}, c19Step{Op: "put_service", Svc: second, SP: sp, Variant: docs[1]},
			c19Step{Op: "login", User: u, Pw: "right"},
			c19Step{Op: "sso", SP: sp, Cookie: "slot", Slot: -1, Bind: Pick(g, "redirect", "post")})
		if g.Bool(0.4) {
			k := g.Intn(2)
			steps = append(steps, c19Step{Op: "put_service", Svc: [2]string{first, second}[k], SP: sp, Variant: docs[k]},
				c19Step{Op: "sso", SP: sp, Cookie: "slot", Slot: -1, Bind: "redirect"})
		}
	}
	if g.Bool(0.4) {
		names := Pick(g, c19OddSvcs...)
		for i := range steps {
			for k, plain := range c19Svcs {
				if steps[i].Svc == plain {
					steps[i].Svc = names[k]
					break
				}
			}
		}
	}
	for i := range steps {
		if steps[i].Op == "put_service" && !steps[i].Bad && steps[i].Variant == 1 && g.Bool(0.4) {
			steps[i].Variant, steps[i].Also = 2, 0
		}
	}
	for _, s := range steps {
		p.Steps = append(p.Steps, mustJSON(s))
	}
	p.Knobs = mustJSON(kn)
	return p
}

// ---------------------------------------------------------------- world (real server + browser + reference model)

type c19Attrs struct {
	Name, Email, CN, SN, GN string
	Groups                  []string
}

func c19AttrsFor(user string, ver int) c19Attrs {
	m := fmt.Sprintf("%sv%d", user, ver)
	return c19Attrs{Name: user, Email: m + "@example.com", CN: "cn-" + m, SN: "sn-" + m, GN: "gn-" + m, Groups: []string{"g1-" + m, "g2-" + m}}
}

type mUser struct {
	HasPw bool
	Pw    string
	A     c19Attrs
}
type mSession struct {
	Cookie   string // real session id held by the browser
	Snap     c19Attrs
	ExpireMs int64 // sim time of expiry (from the session object the server published)
	Deleted  bool
	// bookkeeping for the coverage probes only (the expectations never read these)
	User      string // who logged in
	HadPw     string // the password the login presented
	Uses      int    // requests in which the cookie obtained an assertion
	LastUseMs int64  // sim time of the last of them
}
type mShortcut struct {
	SP    int
	Relay string
}

type c19World struct {
	store     *simStore
	srv       *samlidp.Server
	nowMs     int64
	users     map[string]mUser
	services  map[string]int // name -> SP identity
	shortcuts map[string]mShortcut
	sessions  []mSession   // browser slots
	faulted   bool         // a store fault has fired: only safety is checked from here on
	maybeReg  map[int]bool // SP identities whose registration is ambiguous: a service change was cut short by a store fault (un-acknowledged: old or new)
	lastAlt   c19Outcome   // expectation of the last step if every ambiguous SP counts as registered
	sps       []*saml.ServiceProvider
	seedTag   uint64
}

var c19Epoch = time.Date(2000, 1, 1, 0, 0, 0, 0, time.UTC)

func (w *c19World) installClock() {
	saml.TimeNow = func() time.Time { return c19Epoch.Add(ms(w.nowMs)) }
}

func (w *c19World) newServer() error {
	srv, err := samlidp.New(samlidp.Options{URL: mustURL("https://idp.example.com"), Key: rsaKeys[0].Key, Certificate: rsaKeys[0].Cert, Store: w.store, Logger: nullLog{}})
	if err != nil {
		return err
	}
	w.srv = srv
	return nil
}

func (w *c19World) fork() *c19World {
	n := &c19World{store: w.store.clone(), nowMs: w.nowMs, users: map[string]mUser{}, services: map[string]int{}, shortcuts: map[string]mShortcut{}, sps: w.sps}
	for k, v := range w.users {
		n.users[k] = v
	}
	for k, v := range w.services {
		n.services[k] = v
	}
	for k, v := range w.shortcuts {
		n.shortcuts[k] = v
	}
	n.sessions = append([]mSession(nil), w.sessions...)
	for k := range w.maybeReg {
		n.markAmbiguous(k)
	}
	return n
}

func c19SPBase(i int) string { return fmt.Sprintf("https://sp%d.example.com", i) }

// registered: some stored service describes SP sp as a service provider (a stored document that gives the entity no
// service-provider role registers no service provider).
func (w *c19World) registered(sp int) bool {
	for _, v := range w.services {
		if v%10 == sp && v/10 != 2 {
			return true
		}
	}
	return false
}

// roleless: some stored service carries the entity ID of SP sp in a document without a service-provider role.
func (w *c19World) roleless(sp int) bool {
	for _, v := range w.services {
		if v%10 == sp && v/10 == 2 {
			return true
		}
	}
	return false
}

// variants reports which metadata variants the stored services carry for SP sp (services values are sp + 10*variant).
func (w *c19World) variants(sp int) (std, other bool) {
	for _, v := range w.services {
		if v%10 == sp {
			switch v / 10 {
			case 0:
				std = true
			case 1:
				other = true
			}
		}
	}
	return
}

// idpInitACS is where an unsolicited response for sp goes: the default endpoint of whichever of the
// stored metadata documents for that entity ID is being served ("*": the statement does not say which).
func (w *c19World) idpInitACS(sp int) string {
	std, other := w.variants(sp)
	switch {
	case sp == 2, other && (std || w.maybeReg[sp]):
		return "*"
	case other:
		return c19ACS(sp) + "-b"
	}
	return c19ACS(sp)
}

// markAmbiguous records that a service change was interrupted by a store fault and answered with an
// error: the caller cannot know whether it took effect, and the statement's "registered at that
// moment" is satisfied by either reading.
func (w *c19World) markAmbiguous(sps ...int) {
	if w.maybeReg == nil {
		w.maybeReg = map[int]bool{}
	}
	for _, sp := range sps {
		w.maybeReg[sp] = true
	}
}

func (w *c19World) liveSession(st c19Step) (*mSession, string) {
	// returns the model session the presented cookie denotes (nil if none) and the cookie value to present
	switch st.Cookie {
	case "forged":
		return nil, "Zm9yZ2VkLXNlc3Npb24taWQ="
	case "forged-short":
		return nil, "abc"
	case "forged-7":
		return nil, "1234567"
	case "forged-8":
		return nil, "12345678"
	case "forged-long":
		return nil, strings.Repeat("Zm9yZ2Vk", 600)
	case "forged-odd":
		return nil, "../users/u0"
	case "slot":
		if i := w.slot(st.Slot); i >= 0 {
			s := &w.sessions[i]
			return s, s.Cookie
		}
		return nil, ""
	}
	return nil, ""
}

// slot resolves a plan's slot reference (-1: the most recent session) to an index, or -1.
func (w *c19World) slot(ref int) int {
	if ref == -1 {
		return len(w.sessions) - 1
	}
	if ref >= 0 && ref < len(w.sessions) {
		return ref
	}
	return -1
}

// sessState: 0 live, 1 edge (now == expiry), 2 dead/absent
func (w *c19World) sessState(s *mSession) int {
	if s == nil || s.Deleted {
		return 2
	}
	switch {
	case w.nowMs < s.ExpireMs:
		return 0
	case w.nowMs == s.ExpireMs:
		return 1
	}
	return 2
}

func (w *c19World) password(user, kind string) string {
	switch kind {
	case "right":
		if u, ok := w.users[user]; ok && u.HasPw {
			return u.Pw
		}
		return "pw-" + user
	case "wrong":
		return "not-the-password"
	case "of:u0", "of:u1", "of:u2":
		// another user's current password
		if u, ok := w.users[kind[3:]]; ok && u.HasPw && kind[3:] != user {
			return u.Pw
		}
		return "pw-of-nobody"
	case "right+tail", "prefix72":
		// not the password: the password followed by something, or its first 72 bytes followed by something else
		right := w.password(user, "right")
		if kind == "prefix72" && len(right) > 72 {
			return right[:72] + "Q-another-tail"
		}
		return right + "-tail"
	case "empty":
		return ""
	case "other":
		for _, o := range c19Users {
			if o != user {
				if u, ok := w.users[o]; ok && u.HasPw && u.Pw != "" {
					return u.Pw
				}
			}
		}
		return "pw-of-nobody"
	}
	return kind
}

func (w *c19World) credsValid(user, pw string) bool {
	u, ok := w.users[user]
	return user != "" && ok && u.HasPw && u.Pw == pw
}

// outcome is an observed or expected outcome class.
type c19Outcome struct {
	Class  string // OK ERROR LOGIN_FORM SESSION ASSERTION LIST BAD_REQUEST
	Detail string // ASSERTION: "user-marker|sp|acs|relay"; LIST/GET: content class
	// Alt (expectations only): another outcome class the configuration leaves open (two stored services carry one entity ID with
	// different metadata: which one is served is the server's choice)
	Alt string
}

func (o c19Outcome) String() string {
	if o.Detail != "" {
		return o.Class + "(" + o.Detail + ")"
	}
	return o.Class
}

func c19AssertionDetail(a c19Attrs, sp int, relay string) string {
	return c19AssertionDetailAt(a, sp, relay, c19ACS(sp))
}

// c19ACS is the endpoint SP i names in its requests. SP 2 registers two POST endpoints, the named one (index 1) first and
// acs-zero (index 0) second, neither marked default: which of them an IdP-initiated login or a request naming no endpoint
// goes to is the server's choice ("*" in an expectation) - but the same choice after a restart.
func c19ACS(sp int) string {
	if sp == 2 {
		return c19SPBase(sp) + "/saml/acs-one"
	}
	return c19SPBase(sp) + "/saml/acs"
}

// c19IdPInitACS: where an IdP-initiated login for SP i must end up ("*": any of its registered POST endpoints).
func c19AssertionDetailAt(a c19Attrs, sp int, relay, acs string) string {
	return fmt.Sprintf("%s groups=%s -> sp%d acs=%s relay=%q", a.Email+"/"+a.Name+"/"+a.CN+"/"+a.SN+"/"+a.GN, strings.Join(a.Groups, "+"), sp, acs, relay)
}

var c19ACSRe = regexp.MustCompile(` acs=\S+ `)

// c19Matches: equal, or equal up to the endpoint where the expectation leaves it open (and the observed one belongs to that SP).
func c19Matches(obs, exp c19Outcome) bool {
	if exp.Alt != "" {
		if obs.Class == exp.Alt && (exp.Alt == "ERROR" || exp.Alt == "LOGIN_FORM") {
			return true
		}
		exp.Alt = ""
	}
	if obs == exp {
		return true
	}
	if obs.Class != exp.Class || !strings.Contains(exp.Detail, " acs=* ") {
		return false
	}
	m := regexp.MustCompile(`-> sp(\d) acs=(\S+) `).FindStringSubmatch(obs.Detail)
	if m == nil {
		return false
	}
	spi, _ := strconv.Atoi(m[1])
	if !strings.HasPrefix(m[2], c19SPBase(spi)+"/saml/acs") {
		return false
	}
	return c19ACSRe.ReplaceAllString(obs.Detail, " acs=* ") == exp.Detail
}

// step executes one step against the real server and the model; returns expected and observed.
// dc (don't care) is set when the statement leaves the outcome open.
func (w *c19World) step(st c19Step, res *Result) (expected, observed c19Outcome, dc bool, hashLeak string, wellFormed bool, pan any) {
	const base = "https://idp.example.com"
	w.installClock()
	wellFormed = true
	var rep *reply
	before := w.store.fired
	hashesBefore := w.storedHashes()
	switch st.Op {
	case "restart":
		if err := w.newServer(); err != nil {
			return c19Outcome{Class: "OK"}, c19Outcome{Class: "ERROR", Detail: "restart failed"}, w.store.fired != "", "", true, nil
		}
		w.maybeReg = nil // the registry was rebuilt from the store
		return c19Outcome{Class: "OK"}, c19Outcome{Class: "OK"}, false, "", true, nil
	case "advance":
		d := st.Ms
		if d < 0 {
			if i := w.slot(st.Slot); i >= 0 {
				target := w.sessions[i].ExpireMs + map[int64]int64{-1: 0, -2: -1, -3: 1, -4: 500, -5: 999, -6: -st.Lead}[d]
				if target > w.nowMs {
					w.nowMs = target
				}
			}
		} else {
			w.nowMs += d
		}
		return c19Outcome{Class: "OK"}, c19Outcome{Class: "OK"}, false, "", true, nil
	case "seed_user":
		// an operator writes the user record straight into the store (cost-4 hash: keeps logins cheap)
		a := c19AttrsFor(st.User, st.Ver)
		u := samlidp.User{Name: a.Name, Email: a.Email, CommonName: a.CN, Surname: a.SN, GivenName: a.GN, Groups: a.Groups}
		mu := mUser{A: a}
		switch st.Pw {
		case "set", "set72":
			mu.HasPw, mu.Pw = true, c19Password(st.User, st.Ver, st.Pw)
		case "set100":
			mu.HasPw, mu.Pw = true, c19Password(st.User, st.Ver, "set72") // a hash cannot be made of more
		case "empty":
			mu.HasPw, mu.Pw = true, ""
		}
		if mu.HasPw {
			u.HashedPassword = c19Hash(mu.Pw)
		}
		w.store.data["/users/"+st.User] = string(mustJSON(u))
		w.users[st.User] = mu
		return c19Outcome{Class: "OK"}, c19Outcome{Class: "OK"}, false, "", true, nil
	case "put_user":
		a := c19AttrsFor(st.User, st.Ver)
		body := map[string]any{"name": a.Name, "email": a.Email, "common_name": a.CN, "surname": a.SN, "given_name": a.GN, "groups": a.Groups}
		if strings.Contains(st.Omit, "groups") {
			delete(body, "groups")
			a.Groups = nil
		}
		if strings.Contains(st.Omit, "names") {
			delete(body, "common_name")
			delete(body, "surname")
			delete(body, "given_name")
			a.CN, a.SN, a.GN = "", "", ""
		}
		u := mUser{A: a}
		if old, ok := w.users[st.User]; ok {
			u.HasPw, u.Pw = old.HasPw, old.Pw
		}
		switch st.Pw {
		case "set", "set72", "set100":
			body["password"] = c19Password(st.User, st.Ver, st.Pw)
			u.HasPw, u.Pw = true, c19Password(st.User, st.Ver, st.Pw)
		case "empty":
			body["password"] = ""
			u.HasPw, u.Pw = true, ""
		}
		if st.BodyName != "" {
			body["name"] = c19AttrsFor(st.BodyName, st.Ver).Name
		}
		key := "/users/" + st.User
		prev := w.store.data[key]
		rep = deliver(w.srv, "PUT", base+key, string(mustJSON(body)), "application/json", nil)
		expected = c19Outcome{Class: "OK"}
		if res != nil && w.store.fired != before && hashesBefore[key] != "" {
			res.probe("c19-store-fault-while-rewriting-a-user-who-has-a-hash")
		}
		if st.Pw == "set100" && rep.Panic == nil && rep.Code >= 400 && w.store.fired == before && w.store.data[key] == prev {
			// a password longer than the hash function reads may be refused; then nothing changed
			expected = c19Outcome{Class: "ERROR"}
			res.dontcare("password-longer-than-72-bytes-refused")
		} else if w.applied(key, prev, before) {
			w.users[st.User] = u
		}
	case "delete_user":
		key := "/users/" + st.User
		prev := w.store.data[key]
		rep = deliver(w.srv, "DELETE", base+key, "", "", nil)
		expected = c19Outcome{Class: "OK"}
		if w.applied(key, prev, before) || (w.store.fired == before) {
			delete(w.users, st.User)
		}
	case "put_service":
		key := "/services/" + st.Svc
		prev := w.store.data[key]
		body := "this is not metadata"
		expected = c19Outcome{Class: "ERROR"}
		if !st.Bad {
			md := w.sps[st.SP].Metadata()
			if st.Variant == 1 && st.SP != 2 {
				md.SPSSODescriptors[0].AssertionConsumerServices = []saml.IndexedEndpoint{{Binding: saml.HTTPPostBinding, Location: c19SPBase(st.SP) + "/saml/acs-b", Index: 1}}
			}
			if st.SP == 2 {
				d := &md.SPSSODescriptors[0]
				d.AssertionConsumerServices = []saml.IndexedEndpoint{
					{Binding: saml.HTTPPostBinding, Location: c19ACS(2), Index: 1},
					{Binding: saml.HTTPPostBinding, Location: c19SPBase(2) + "/saml/acs-zero", Index: 0},
				}
			}
			if st.Variant == 2 {
				// the same entity, described in another role only
				md.SPSSODescriptors = nil
				md.IDPSSODescriptors = []saml.IDPSSODescriptor{{SingleSignOnServices: []saml.Endpoint{{Binding: saml.HTTPRedirectBinding, Location: c19SPBase(st.SP) + "/sso"}}}}
				if res != nil {
					res.probe("c19-service-document-without-sp-role")
				}
			}
			var doc any = md
			if st.Also > 0 && st.Variant != 2 {
				if res != nil {
					res.probe("c19-aggregate-document")
				}
				name := "aggregate"
				doc = &saml.EntitiesDescriptor{Name: &name, EntityDescriptors: []saml.EntityDescriptor{
					{EntityID: "https://idp.example.org/other", IDPSSODescriptors: []saml.IDPSSODescriptor{{}}},
					*md, *w.sps[(st.SP+st.Also)%c19NSP].Metadata()}}
			}
			b, err := xml.Marshal(doc)
			if err != nil {
				panic(err)
			}
			body = string(b)
			expected = c19Outcome{Class: "OK"}
		}
		oldSP, hadOld := w.services[st.Svc]
		rep = deliver(w.srv, "PUT", base+key, body, "", nil)
		if !st.Bad && st.Variant == 2 && rep.Panic == nil && rep.Code >= 400 && w.store.fired == before && w.store.data[key] == prev {
			// a document that describes no service provider may be refused; then nothing changed
			expected = c19Outcome{Class: "ERROR"}
			res.dontcare("service-document-without-sp-role-refused")
		} else if !st.Bad && w.applied(key, prev, before) {
			w.services[st.Svc] = st.SP
			switch {
			case st.Variant == 2:
				w.services[st.Svc] = st.SP + 20
			case st.Variant == 1 && st.SP != 2:
				w.services[st.Svc] = st.SP + 10
			}
		}
		if w.store.fired != before {
			w.markAmbiguous(st.SP)
			if hadOld {
				w.markAmbiguous(oldSP % 10)
			}
		}
	case "delete_service":
		key := "/services/" + st.Svc
		prev := w.store.data[key]
		oldSP, present := w.services[st.Svc]
		rep = deliver(w.srv, "DELETE", base+key, "", "", nil)
		if present && w.store.fired != before {
			w.markAmbiguous(oldSP % 10)
		}
		expected = c19Outcome{Class: "OK"}
		if !present {
			expected = c19Outcome{Class: "ERROR"}
		}
		if present && (w.applied(key, prev, before) || w.store.fired == before) {
			delete(w.services, st.Svc)
		}
	case "put_shortcut":
		key := "/shortcuts/" + st.Sc
		prev := w.store.data[key]
		body := map[string]any{"service_provider": c19SPBase(st.SP) + "/saml/metadata"}
		switch st.Relay {
		case "fixed":
			body["relay_state"] = "fixed-relay-" + st.Sc
		case "suffix":
			body["url_suffix_as_relay_state"] = true
		}
		rep = deliver(w.srv, "PUT", base+key, string(mustJSON(body)), "application/json", nil)
		expected = c19Outcome{Class: "OK"}
		if w.applied(key, prev, before) {
			w.shortcuts[st.Sc] = mShortcut{SP: st.SP, Relay: st.Relay}
		}
	case "delete_shortcut":
		key := "/shortcuts/" + st.Sc
		prev := w.store.data[key]
		rep = deliver(w.srv, "DELETE", base+key, "", "", nil)
		expected = c19Outcome{Class: "OK"}
		if w.applied(key, prev, before) || w.store.fired == before {
			delete(w.shortcuts, st.Sc)
		}
	case "delete_session":
		di := w.slot(st.Slot)
		if di < 0 {
			return c19Outcome{Class: "OK"}, c19Outcome{Class: "OK"}, false, "", true, nil // nothing to do
		}
		key := "/sessions/" + w.sessions[di].Cookie
		prev := w.store.data[key]
		rep = deliver(w.srv, "DELETE", base+"/sessions/"+url.PathEscape(w.sessions[di].Cookie), "", "", nil)
		expected = c19Outcome{Class: "OK"}
		if w.applied(key, prev, before) || w.store.fired == before {
			w.sessions[di].Deleted = true
		}
	case "login":
		pw := w.password(st.User, st.Pw)
		f := url.Values{"user": {st.User}, "password": {pw}}
		var cookies []*http.Cookie
		if _, cv := w.liveSession(st); cv != "" {
			cookies = []*http.Cookie{{Name: "session", Value: cv}} // the browser still holds a cookie (its own, a dead one, or one somebody planted)
		}
		rep = deliver(w.srv, "POST", base+"/login", f.Encode(), formCT, cookies)
		if w.credsValid(st.User, pw) {
			expected = c19Outcome{Class: "SESSION", Detail: w.users[st.User].A.Email}
		} else {
			expected = c19Outcome{Class: "LOGIN_FORM"}
		}
	case "sso":
		spv := w.sps[st.SP]
		var cookies []*http.Cookie
		sess, cv := w.liveSession(st)
		if cv != "" {
			cookies = []*http.Cookie{{Name: "session", Value: cv}}
		}
		pw := ""
		if st.User != "" {
			pw = w.password(st.User, st.Pw)
		}
		ar, err := spv.MakeAuthenticationRequest(spv.GetSSOBindingLocation(saml.HTTPRedirectBinding), saml.HTTPRedirectBinding, saml.HTTPPostBinding)
		if err != nil {
			panic(err)
		}
		acs := c19ACS(st.SP)
		if st.NoACS {
			ar.AssertionConsumerServiceURL, acs = "", "*" // the request names no endpoint
		}
		u, err := ar.Redirect("relay-"+fmt.Sprint(st.SP), spv)
		if err != nil {
			panic(err)
		}
		if st.User != "" || st.Bind == "post" {
			f := url.Values{"SAMLRequest": {c19Reinflate(u.Query().Get("SAMLRequest"))}, "RelayState": {"relay-" + fmt.Sprint(st.SP)}}
			if st.User != "" {
				f.Set("user", st.User)
				f.Set("password", pw)
			}
			rep = deliver(w.srv, "POST", base+"/sso", f.Encode(), formCT, cookies)
		} else {
			rep = deliver(w.srv, "GET", u.String(), "", "", cookies)
		}
		w.noteNames(st.SP, res)
		w.lastAlt = c19Outcome{}
		if !w.registered(st.SP) && w.maybeReg[st.SP] {
			// what the reply may also be if the interrupted service change is read the other way
			switch {
			case st.User != "" && w.credsValid(st.User, pw):
				w.lastAlt = c19Outcome{Class: "ASSERTION", Detail: c19AssertionDetailAt(w.users[st.User].A, st.SP, "relay-"+fmt.Sprint(st.SP), acs)}
			case st.User == "" && w.sessState(sess) != 2:
				w.lastAlt = c19Outcome{Class: "ASSERTION", Detail: c19AssertionDetailAt(sess.Snap, st.SP, "relay-"+fmt.Sprint(st.SP), acs)}
			}
		}
		switch {
		case !w.registered(st.SP):
			expected = c19Outcome{Class: "ERROR"}
		case st.User != "":
			if w.credsValid(st.User, pw) {
				expected = c19Outcome{Class: "ASSERTION", Detail: c19AssertionDetailAt(w.users[st.User].A, st.SP, "relay-"+fmt.Sprint(st.SP), acs)}
			} else {
				expected = c19Outcome{Class: "LOGIN_FORM"}
			}
		default:
			switch w.sessState(sess) {
			case 0:
				expected = c19Outcome{Class: "ASSERTION", Detail: c19AssertionDetailAt(sess.Snap, st.SP, "relay-"+fmt.Sprint(st.SP), acs)}
			case 1:
				dc = true
				expected = c19Outcome{Class: "ASSERTION", Detail: c19AssertionDetailAt(sess.Snap, st.SP, "relay-"+fmt.Sprint(st.SP), acs)}
			default:
				expected = c19Outcome{Class: "LOGIN_FORM"}
			}
		}
		if std, other := w.variants(st.SP); other && !st.NoACS && w.registered(st.SP) {
			// the request names .../saml/acs, which the other metadata variant does not list: refused before anybody is asked to log in
			if !std && !w.maybeReg[st.SP] {
				expected, dc = c19Outcome{Class: "ERROR"}, false
			} else if expected.Class != "ERROR" {
				expected.Alt = "ERROR" // both variants stored, or a change of this provider's services was interrupted: either reading
			}
		}
		if w.roleless(st.SP) && w.registered(st.SP) {
			// one name describes the entity as a service provider, another does not: served is one of them, the server's choice;
			// a request of an entity served without that role is refused before anybody is asked to log in
			if expected.Class != "ERROR" {
				expected.Alt = "ERROR"
			}
			if res != nil {
				res.probe("c19-request-of-an-entity-stored-with-and-without-sp-role")
			}
		}
	case "shortcut":
		var cookies []*http.Cookie
		sess, cv := w.liveSession(st)
		if cv != "" {
			cookies = []*http.Cookie{{Name: "session", Value: cv}}
		}
		path := "/login/" + st.Sc
		if st.Relay != "" {
			path += "/" + st.Relay
		}
		rep = deliver(w.srv, "GET", base+path, "", "", cookies)
		sc, ok := w.shortcuts[st.Sc]
		relay := ""
		if ok {
			switch sc.Relay {
			case "fixed":
				relay = "fixed-relay-" + st.Sc
			case "suffix":
				if st.Relay != "" {
					relay = "/" + st.Relay
				}
			}
		}
		if ok {
			w.noteNames(sc.SP, res)
		}
		w.lastAlt = c19Outcome{}
		if ok && w.sessState(sess) != 2 && !w.registered(sc.SP) && w.maybeReg[sc.SP] {
			w.lastAlt = c19Outcome{Class: "ASSERTION", Detail: c19AssertionDetailAt(sess.Snap, sc.SP, relay, w.idpInitACS(sc.SP))}
		}
		switch {
		case !ok:
			expected = c19Outcome{Class: "ERROR"}
		case w.sessState(sess) == 2:
			expected = c19Outcome{Class: "LOGIN_FORM"}
		case !w.registered(sc.SP):
			expected = c19Outcome{Class: "ERROR"}
		default:
			dc = w.sessState(sess) == 1
			expected = c19Outcome{Class: "ASSERTION", Detail: c19AssertionDetailAt(sess.Snap, sc.SP, relay, w.idpInitACS(sc.SP))}
			if w.roleless(sc.SP) {
				expected.Alt = "ERROR" // another name describes the entity without the role: which document is served is the server's choice
				if res != nil {
					res.probe("c19-request-of-an-entity-stored-with-and-without-sp-role")
				}
			}
		}
	case "list_users", "list_sessions", "list_services", "list_shortcuts":
		kind := strings.TrimPrefix(st.Op, "list_")
		rep = deliver(w.srv, "GET", base+"/"+kind+"/", "", "", nil)
		var keys []string
		switch kind {
		case "users":
			keys = sortedKeys(w.users)
		case "services":
			keys = sortedKeys(w.services)
		case "shortcuts":
			keys = sortedKeys(w.shortcuts)
		case "sessions":
			keys = nil // session ids are random; compare counts only
			n := 0
			for k := range w.store.data {
				if strings.HasPrefix(k, "/sessions/") {
					n++
				}
			}
			keys = []string{fmt.Sprintf("%d sessions", n)}
		}
		expected = c19Outcome{Class: "LIST", Detail: strings.Join(keys, ",")}
	case "get_user":
		rep = deliver(w.srv, "GET", base+"/users/"+st.User, "", "", nil)
		if u, ok := w.users[st.User]; ok {
			expected = c19Outcome{Class: "LIST", Detail: u.A.Email}
		} else {
			expected = c19Outcome{Class: "ERROR"}
		}
	case "get_service":
		rep = deliver(w.srv, "GET", base+"/services/"+st.Svc, "", "", nil)
		if sp, ok := w.services[st.Svc]; ok {
			expected = c19Outcome{Class: "LIST", Detail: c19SPBase(sp%10) + "/saml/metadata"}
		} else {
			expected = c19Outcome{Class: "ERROR"}
		}
	case "get_shortcut":
		rep = deliver(w.srv, "GET", base+"/shortcuts/"+st.Sc, "", "", nil)
		if sc, ok := w.shortcuts[st.Sc]; ok {
			expected = c19Outcome{Class: "LIST", Detail: c19SPBase(sc.SP) + "/saml/metadata"}
		} else {
			expected = c19Outcome{Class: "ERROR"}
		}
	case "get_session":
		gi := w.slot(st.Slot)
		if gi < 0 {
			return c19Outcome{Class: "OK"}, c19Outcome{Class: "OK"}, false, "", true, nil
		}
		s := w.sessions[gi]
		rep = deliver(w.srv, "GET", base+"/sessions/"+url.PathEscape(s.Cookie), "", "", nil)
		if s.Deleted {
			expected = c19Outcome{Class: "ERROR"}
		} else {
			expected = c19Outcome{Class: "LIST", Detail: s.Snap.Email}
		}
	default:
		panic("harness: unknown op " + st.Op)
	}
	if w.store.fired != "" && !w.faulted {
		w.faulted = true
	}
	if _, crashed := rep.Panic.(c19Crash); crashed {
		// the process died mid-request: no reply; a new server starts over whatever the store holds
		if err := w.newServer(); err != nil {
			panic(err) // faults are single: start-up cannot be hit as well
		}
		w.maybeReg = nil
		return expected, c19Outcome{Class: "CRASHED"}, dc, "", true, nil
	}
	if rep.Panic != nil {
		return expected, c19Outcome{Class: "PANIC"}, dc, "", false, rep.Panic
	}
	observed, wellFormed = w.classify(st, rep)
	w.noteCookieUse(st, observed, res)
	// password-hash disclosure: every stored hash, raw and base64, must be absent from the reply
	hashLeak = w.findHash(rep, hashesBefore)
	if res != nil {
		res.Extra["replies_searched_for_hashes_in_every_rendering"]++
	}
	// successful logins hand the browser a session cookie: record it (model: new session)
	if observed.Class == "SESSION" || (observed.Class == "ASSERTION" && st.Op == "sso" && st.User != "") {
		for _, c := range rep.Cookies {
			if c.Name == "session" && c.Value != "" {
				var stored saml.Session
				exp := w.nowMs
				if raw, ok := w.store.data["/sessions/"+c.Value]; ok && json.Unmarshal([]byte(raw), &stored) == nil {
					exp = stored.ExpireTime.Sub(c19Epoch).Milliseconds()
				}
				snap := w.users[st.User].A
				if _, presented := w.liveSession(st); strings.HasPrefix(st.Cookie, "forged") && c.Value == presented {
					// the new session got the ID a client chose: whoever planted that cookie now holds the session
					observed = c19Outcome{Class: "SESSION_ID_FROM_CLIENT", Detail: c.Value}
				}
				w.sessions = append(w.sessions, mSession{Cookie: c.Value, Snap: snap, ExpireMs: exp, User: st.User, HadPw: w.users[st.User].Pw})
			}
		}
	}
	return
}

// noteCookieUse counts, for the evidence, the situations around a session cookie that the targeted scenarios are there to reach.
func (w *c19World) noteCookieUse(st c19Step, observed c19Outcome, res *Result) {
	if (st.Op != "sso" && st.Op != "shortcut") || st.Cookie != "slot" || res == nil {
		return
	}
	i := w.slot(st.Slot)
	if i < 0 {
		return
	}
	s := &w.sessions[i]
	switch w.sessState(s) {
	case 0:
		if u, ok := w.users[s.User]; !ok || !u.HasPw || u.Pw != s.HadPw {
			res.probe("c19-live-cookie-after-its-user-was-removed-or-given-another-password")
		}
		if observed.Class == "ASSERTION" {
			s.Uses++
			s.LastUseMs = w.nowMs
		}
	case 2:
		if !s.Deleted && s.Uses > 0 {
			res.probe("c19-expired-cookie-of-a-session-that-had-been-used")
			if s.ExpireMs-s.LastUseMs <= 600_000 {
				res.probe("c19-expired-cookie-of-a-session-last-used-within-10min-of-its-expiry")
			}
		}
	}
}

// noteNames counts, for the evidence, the requests of an entity that is stored under several names with different documents, at
// least one of the names being outside the plain alphabet (the expectations never read this).
func (w *c19World) noteNames(sp int, res *Result) {
	if res == nil {
		return
	}
	docs, odd := map[int]bool{}, false
	for name, v := range w.services {
		if v%10 == sp {
			docs[v/10] = true
			odd = odd || !c19PlainSvc(name)
		}
	}
	if len(docs) > 1 && odd {
		res.probe("c19-request-of-an-entity-stored-with-different-documents-under-names-that-orderings-rank-differently")
	}
}

// applied reports whether the mutation of key took effect (used when a store fault may have cut the request short).
func (w *c19World) applied(key, prev, firedBefore string) bool {
	if w.store.fired == firedBefore {
		return true // no fault during this request: the model follows the request
	}
	return w.store.data[key] != prev
}

var c19HashCache = map[string][]byte{}

// c19Hash returns a cost-4 bcrypt hash (the salt is random and not behind a seam; hashes never enter the log).
func c19Hash(pw string) []byte {
	if h, ok := c19HashCache[pw]; ok {
		return h
	}
	h, err := bcrypt.GenerateFromPassword([]byte(pw), bcrypt.MinCost)
	if err != nil {
		panic(err)
	}
	c19HashCache[pw] = h
	return h
}

func c19Reinflate(b64 string) string {
	hr := redirectRequest(&url.URL{Scheme: "https", Host: "idp.example.com", Path: "/sso", RawQuery: "SAMLRequest=" + url.QueryEscape(b64)})
	req, err := saml.NewIdpAuthnRequest(&saml.IdentityProvider{}, hr)
	if err != nil {
		panic(err)
	}
	return base64.StdEncoding.EncodeToString(req.RequestBuffer)
}

// storedHashes reads, through the store's back door, the password hashes the store holds now (by user key).
func (w *c19World) storedHashes() map[string]string {
	out := map[string]string{}
	for key, raw := range w.store.data {
		if !strings.HasPrefix(key, "/users/") {
			continue
		}
		var u samlidp.User
		if json.Unmarshal([]byte(raw), &u) != nil || len(u.HashedPassword) == 0 {
			continue
		}
		out[key] = string(u.HashedPassword)
	}
	return out
}

type c19Rendering struct{ name, text string }

var c19RenderingCache = map[string][]c19Rendering{}

// c19HashRenderings lists the forms in which a reply could carry the bytes of a hash: as they are, escaped for a URL, base64,
// and as a list of byte values (decimal, hexadecimal, octal or escapes, with the usual separators - what printing a byte slice
// gives). Only the names of the renderings are ever reported, never their text.
func c19HashRenderings(h string) []c19Rendering {
	if r, ok := c19RenderingCache[h]; ok {
		return r
	}
	b := []byte(h)
	out := []c19Rendering{{"raw", h}, {"url-query-escaped", url.QueryEscape(h)}, {"url-path-escaped", url.PathEscape(h)},
		{"base64", base64.StdEncoding.EncodeToString(b)}, {"base64url", base64.URLEncoding.EncodeToString(b)},
		{"base64-unpadded", base64.RawStdEncoding.EncodeToString(b)}, {"base64url-unpadded", base64.RawURLEncoding.EncodeToString(b)}}
	for _, verb := range []string{"%d", "%02x", "%02X", "0x%02x", "%#o", `\x%02x`, `\u%04x`} {
		parts := make([]string, len(b))
		for i, c := range b {
			parts[i] = fmt.Sprintf(verb, c)
		}
		for _, sep := range []string{"", " ", ",", ", ", ":", ";", "\n"} {
			if sep == "" && (verb == "%d" || verb == "%#o") {
				continue // not a rendering: the byte boundaries are lost
			}
			out = append(out, c19Rendering{fmt.Sprintf("byte values printed with %s, joined by %q", verb, sep), strings.Join(parts, sep)})
		}
	}
	if len(c19RenderingCache) >= 64 {
		c19RenderingCache = map[string][]c19Rendering{} // hashes made through the API are new in every fork: keep the cache small
	}
	c19RenderingCache[h] = out
	return out
}

// findHash looks in the reply (headers and body) for every password hash the store held before the request or holds after it,
// in every rendering of c19HashRenderings. Returns the key of the user whose hash was found and the rendering's name.
func (w *c19World) findHash(rep *reply, before map[string]string) string {
	hay := rep.Body
	hk := make([]string, 0, len(rep.Header))
	for k := range rep.Header {
		hk = append(hk, k)
	}
	sort.Strings(hk)
	for _, k := range hk {
		hay += "\n" + k + ": " + strings.Join(rep.Header[k], ",")
	}
	after := w.storedHashes()
	for _, set := range []map[string]string{before, after} {
		for _, key := range sortedKeys(set) {
			for _, r := range c19HashRenderings(set[key]) {
				if strings.Contains(hay, r.text) {
					if r.name != "raw" {
						return key + " (" + r.name + ")"
					}
					return key
				}
			}
		}
	}
	return ""
}

// classify maps a reply to an outcome class, decoding emitted assertions with the real SP.
func (w *c19World) classify(st c19Step, rep *reply) (c19Outcome, bool) {
	well := rep.Code >= 100 && rep.Code <= 599
	if rep.Code >= 400 {
		// an error reply that also carries a login or response form is two replies glued into one
		if strings.Contains(rep.Body, "<form") {
			return c19Outcome{Class: "ERROR+FORM"}, false
		}
		return c19Outcome{Class: "ERROR"}, well
	}
	if rep.Code == 204 {
		return c19Outcome{Class: "OK"}, well
	}
	body := strings.TrimSpace(rep.Body)
	if strings.HasPrefix(body, "<html") || strings.Contains(body, "<form") {
		f := parseForm(rep.Body)
		if f == nil {
			return c19Outcome{Class: "MALFORMED_HTML"}, false
		}
		if f.Fields.Get("SAMLResponse") != "" {
			return w.decodeAssertion(f), well && f.NForms == 1
		}
		if _, ok := f.Fields["user"]; ok {
			return c19Outcome{Class: "LOGIN_FORM"}, well && f.NForms == 1
		}
		return c19Outcome{Class: "UNKNOWN_FORM"}, false
	}
	switch st.Op {
	case "login":
		var s saml.Session
		if err := json.Unmarshal([]byte(body), &s); err != nil {
			return c19Outcome{Class: "MALFORMED_JSON"}, false
		}
		return c19Outcome{Class: "SESSION", Detail: s.UserEmail}, well
	case "list_users", "list_services", "list_shortcuts", "list_sessions":
		var m map[string][]string
		if err := json.Unmarshal([]byte(body), &m); err != nil {
			return c19Outcome{Class: "MALFORMED_JSON"}, false
		}
		var keys []string
		for _, v := range m {
			keys = append(keys, v...)
		}
		sort.Strings(keys)
		if st.Op == "list_sessions" {
			return c19Outcome{Class: "LIST", Detail: fmt.Sprintf("%d sessions", len(keys))}, well
		}
		return c19Outcome{Class: "LIST", Detail: strings.Join(keys, ",")}, well
	case "get_user":
		var u samlidp.User
		if err := json.Unmarshal([]byte(body), &u); err != nil {
			return c19Outcome{Class: "MALFORMED_JSON"}, false
		}
		return c19Outcome{Class: "LIST", Detail: u.Email}, well
	case "get_session":
		var s saml.Session
		if err := json.Unmarshal([]byte(body), &s); err != nil {
			return c19Outcome{Class: "MALFORMED_JSON"}, false
		}
		return c19Outcome{Class: "LIST", Detail: s.UserEmail}, well
	case "get_shortcut":
		var s samlidp.Shortcut
		if err := json.Unmarshal([]byte(body), &s); err != nil {
			return c19Outcome{Class: "MALFORMED_JSON"}, false
		}
		return c19Outcome{Class: "LIST", Detail: s.ServiceProviderID}, well
	case "get_service":
		var ed saml.EntityDescriptor
		if err := xml.Unmarshal([]byte(body), &ed); err != nil {
			return c19Outcome{Class: "MALFORMED_XML"}, false
		}
		return c19Outcome{Class: "LIST", Detail: ed.EntityID}, well
	}
	return c19Outcome{Class: "OK"}, well
}

// decodeAssertion lets the addressed real SP (found by the form's action) decrypt and validate the emitted response.
func (w *c19World) decodeAssertion(f *htmlForm) c19Outcome {
	raw, err := base64.StdEncoding.DecodeString(f.Fields.Get("SAMLResponse"))
	if err != nil {
		return c19Outcome{Class: "ASSERTION", Detail: "undecodable"}
	}
	for i, spv := range w.sps {
		if !strings.HasPrefix(f.Action, c19SPBase(i)+"/saml/acs") {
			continue
		}
		cp := *spv
		cp.AcsURL = mustURL(f.Action) // the endpoint the form goes to receives it
		cp.AllowIDPInitiated = true   // the monitor accepts any request ID: correlation is C04's/C06's business
		var as *saml.Assertion
		if p := guard(func() { as, err = cp.ParseXMLResponse(raw, []string{""}, cp.AcsURL) }); p != nil {
			return c19Outcome{Class: "ASSERTION", Detail: "sp-panic"}
		}
		if err != nil {
			return c19Outcome{Class: "ASSERTION", Detail: fmt.Sprintf("rejected-by-sp%d", i)}
		}
		get := func(friendly string) []string {
			var out []string
			for _, s := range as.AttributeStatements {
				for _, a := range s.Attributes {
					if a.FriendlyName == friendly {
						for _, v := range a.Values {
							out = append(out, v.Value)
						}
					}
				}
			}
			return out
		}
		first := func(friendly string) string {
			if v := get(friendly); len(v) > 0 {
				return v[0]
			}
			return ""
		}
		nid := ""
		if as.Subject != nil && as.Subject.NameID != nil {
			nid = as.Subject.NameID.Value
		}
		a := c19Attrs{Name: first("uid"), Email: nid, CN: first("cn"), SN: first("sn"), GN: first("givenName"), Groups: get("eduPersonAffiliation")}
		return c19Outcome{Class: "ASSERTION", Detail: c19AssertionDetailAt(a, i, f.Fields.Get("RelayState"), f.Action)}
	}
	return c19Outcome{Class: "ASSERTION", Detail: "to-unknown-acs " + f.Action}
}

// ---------------------------------------------------------------- execution

type c19Ref struct {
	outcomes []c19Outcome
	worlds   []*c19World // world state AFTER step i (forkable)
	calls    []int       // store calls consumed up to and including step i
}

func newC19World(p *Plan, tag uint64) *c19World {
	w := &c19World{store: newSimStore(), users: map[string]mUser{}, services: map[string]int{}, shortcuts: map[string]mShortcut{}}
	idpMD := (&saml.IdentityProvider{Certificate: rsaKeys[0].Cert, MetadataURL: mustURL("https://idp.example.com/metadata"), SSOURL: mustURL("https://idp.example.com/sso")}).Metadata()
	for i := 0; i < c19NSP; i++ {
		w.sps = append(w.sps, newSP(c19SPBase(i), rsaKeys[1+i%2], "", idpMD))
		w.sps[i].AcsURL = mustURL(c19ACS(i))
	}
	return w
}

func execC19(t *testing.T, p *Plan) *Result {
	res := newResult()
	k := decode[c19Knobs](p.Knobs)
	steps := make([]c19Step, len(p.Steps))
	for i, raw := range p.Steps {
		steps[i] = decode[c19Step](raw)
	}
	saml.RandReader = newDetReader(p.Seed, p.Run, 1)

	// ---- (i) reference run, strict model
	w := newC19World(p, 0)
	w.installClock()
	if err := w.newServer(); err != nil {
		panic(err)
	}
	ref := c19Ref{}
	initial := w.fork()
	initialCalls := w.store.calls
	for i, st := range steps {
		exp, obs, dc, leak, well, pan := w.step(st, res)
		res.logf("step %d %s expect=%s observed=%s", i, c19Describe(st), exp, obs)
		if !c19CheckStep(res, i, "reference", st, exp, obs, dc, leak, well, pan, false) {
			return res
		}
		ref.outcomes = append(ref.outcomes, obs)
		ref.worlds = append(ref.worlds, w.fork())
		ref.calls = append(ref.calls, w.store.calls)
		if obs.Class == "ASSERTION" || obs.Class == "SESSION" || obs.Class == "LOGIN_FORM" || obs.Class == "ERROR" {
			res.Nontrivial = true
		}
	}
	res.Extra["histories"]++
	res.Extra["reference_steps"] += len(steps)
	res.SimMillis += w.nowMs

	// ---- (ii) restart at EVERY position
	if k.Restarts {
		for pos := -1; pos < len(steps)-1; pos++ {
			var fw *c19World
			if pos < 0 {
				fw = initial.fork()
			} else {
				fw = ref.worlds[pos].fork()
			}
			fw.installClock()
			if err := fw.newServer(); err != nil {
				res.violate(pos+1, "restart-fails", "C19/restart-fails", "server re-created over the same store", err.Error(), "")
				return res
			}
			res.Extra["restart_positions"]++
			res.fire("restart")
			for j := pos + 1; j < len(steps); j++ {
				exp, obs, dc, leak, well, pan := fw.step(steps[j], res)
				if !c19CheckStep(res, j, fmt.Sprintf("restart-after-%d", pos), steps[j], exp, obs, dc, leak, well, pan, false) {
					res.logf("restart after step %d: step %d expect=%s observed=%s", pos, j, exp, obs)
					return res
				}
				if obs != ref.outcomes[j] && !dc {
					res.logf("restart after step %d: step %d original=%s restarted=%s", pos, j, ref.outcomes[j], obs)
					res.violate(j, "restart-divergence", "C19/restart-divergence/"+steps[j].Op+"/"+ref.outcomes[j].Class+"->"+obs.Class,
						"restarted server continues the history exactly as the original ("+ref.outcomes[j].String()+")", obs.String(), fmt.Sprintf("restart inserted after step %d", pos))
					return res
				}
			}
		}
	}

	// ---- (ii-b) restart at every position WHILE THE STORE FAILS one of the reads of the start-up: the server either refuses to start
	// (and the operator starts it again once the store is back) or starts equal to the original; either way it continues the history
	// exactly as the original would
	if k.Restarts && k.Faults {
		for pos := -1; pos < len(steps)-1; pos++ {
			base := initial
			if pos >= 0 {
				base = ref.worlds[pos]
			}
			if len(base.services) == 0 {
				continue // nothing is read beyond the listing
			}
			probe := base.fork()
			probe.installClock()
			probe.store.calls = 0
			if err := probe.newServer(); err != nil {
				continue
			}
			ncalls := probe.store.calls
			for c := 0; c < ncalls; c++ {
				for _, kind := range []string{"io", "notfound"} {
					fw := base.fork()
					fw.installClock()
					fw.store.calls = 0
					fw.store.faultAt, fw.store.faultKind = c, kind
					err := fw.newServer()
					refused := err != nil
					if refused {
						if err = fw.newServer(); err != nil { // the single fault is spent
							res.violate(pos+1, "restart-fails", "C19/restart-fails-after-store-recovered", "server re-created over the same store", err.Error(), fmt.Sprintf("start-up fault %s@call%d", kind, c))
							return res
						}
					}
					res.Extra["startup_fault_placements"]++
					if fw.store.fired != "" {
						res.fire("startup_store_err:" + kind)
					}
					fw.maybeReg = nil
					for j := pos + 1; j < len(steps); j++ {
						exp, obs, dc, leak, well, pan := fw.step(steps[j], res)
						if !c19CheckStep(res, j, fmt.Sprintf("restart-after-%d with %s@startup-call%d (refused=%v)", pos, kind, c, refused), steps[j], exp, obs, dc, leak, well, pan, false) {
							res.logf("restart after step %d under start-up fault %s@call%d (%s; refused=%v): step %d expect=%s observed=%s", pos, kind, c, fw.store.fired, refused, j, exp, obs)
							return res
						}
						if obs != ref.outcomes[j] && !dc {
							res.logf("restart after step %d under start-up fault %s@call%d (%s; refused=%v): step %d original=%s restarted=%s", pos, kind, c, fw.store.fired, refused, j, ref.outcomes[j], obs)
							res.violate(j, "restart-divergence", "C19/restart-divergence-after-startup-store-error/"+steps[j].Op+"/"+ref.outcomes[j].Class+"->"+obs.Class,
								"a server that came up while the store failed one read continues the history exactly as the original ("+ref.outcomes[j].String()+")", obs.String(), fmt.Sprintf("restart inserted after step %d, %s@startup-call%d, refused to start=%v", pos, kind, c, refused))
							return res
						}
					}
				}
			}
		}
	}

	// ---- (iii) one store fault at EVERY store call x kind
	// The fork starts from the world as it was before the step that issues store call j (server
	// re-created over that store with faults off), so only the suffix is re-executed.
	if k.Faults {
		prevCalls := initialCalls
		for sidx := range steps {
			for j := prevCalls; j < ref.calls[sidx]; j++ {
				for _, kind := range []string{"notfound", "io", "io-after", "crash", "crash-after"} {
					var fw *c19World
					if sidx == 0 {
						fw = initial.fork()
					} else {
						fw = ref.worlds[sidx-1].fork()
					}
					fw.installClock()
					if err := fw.newServer(); err != nil {
						panic(err)
					}
					fw.store.calls = 0
					fw.store.faultAt, fw.store.faultKind = j-prevCalls, kind
					res.Extra["fault_placements"]++
					var twinObs c19Outcome
					var twinDC bool
					var twin *c19World // after a truthful failure (error before anything was applied): a server restarted right then
					for i := sidx; i < len(steps); i++ {
						st := steps[i]
						if twin != nil {
							// the restarted twin serves the same request; it must answer like the original
							texp, tobs, tdc, _, _, _ := twin.step(st, res)
							_ = texp
							twinObs, twinDC = tobs, tdc
						}
						if st.Op == "restart" && fw.store.fired == "" {
							var err error
							crashed := guard(func() { err = fw.newServer() })
							if crashed != nil {
								if _, ok := crashed.(c19Crash); !ok {
									panic(crashed)
								}
								err = fw.newServer() // died during start-up; the operator starts it again (the single fault is spent)
							}
							if err != nil {
								break // the pending fault hit start-up: the server refuses to start
							}
							fw.maybeReg = nil
							continue
						}
						wasFaulted := fw.faulted
						exp, obs, dc, leak, well, pan := fw.step(st, res)
						if twin != nil && st.Op != "restart" && !dc && !twinDC && pan == nil && twinObs != obs {
							res.logf("fault %s at store call %d (%s), server restarted right after the failed request: step %d %s original=%s restarted=%s", kind, j, fw.store.fired, i, c19Describe(st), obs, twinObs)
							res.violate(i, "restart-divergence", "C19/restart-divergence-after-store-error/"+st.Op+"/"+obs.Class+"->"+twinObs.Class,
								"a server re-created over the store after the failed request continues exactly as the original ("+obs.String()+")", twinObs.String(), fmt.Sprintf("fault %s@call%d", kind, j))
							return res
						}
						if kind == "io" && fw.faulted && !wasFaulted && twin == nil && pan == nil {
							twin = fw.fork()
							twin.faulted = true
							twin.installClock()
							if err := twin.newServer(); err != nil {
								twin = nil
							}
							fw.installClock()
							res.Extra["restart_twins_after_store_error"]++
						}
						if fw.faulted && (st.Op == "sso" || st.Op == "shortcut") && fw.lastAlt.Class != "" && c19Matches(obs, fw.lastAlt) {
							res.Extra["ambiguous_registration_accepted"]++
							continue
						}
						if !c19CheckStep(res, i, fmt.Sprintf("fault %s@call%d", kind, j), st, exp, obs, dc, leak, well, pan, fw.faulted) {
							res.logf("fault %s at store call %d (%s): step %d %s expect=%s observed=%s", kind, j, fw.store.fired, i, c19Describe(st), exp, obs)
							return res
						}
					}
					if fw.store.fired != "" {
						if strings.HasPrefix(kind, "crash") {
							res.fire("mid_request_crash:" + kind)
						} else {
							res.fire("store_err:" + kind)
						}
					}
				}
			}
			prevCalls = ref.calls[sidx]
		}
	}
	// ---- (iv) random multi-fault placements over the whole history, safety only
	for fi, placement := range k.Multi {
		fw := initial.fork()
		fw.installClock()
		if err := fw.newServer(); err != nil {
			panic(err)
		}
		fw.store.calls = 0
		fw.store.more = map[int]string{}
		for idx, kind := range placement {
			var n int
			fmt.Sscan(idx, &n)
			fw.store.more[n] = kind
		}
		res.Extra["multi_fault_forks"]++
		for i, st := range steps {
			if st.Op == "restart" {
				var err error
				if crashed := guard(func() { err = fw.newServer() }); crashed != nil {
					if _, ok := crashed.(c19Crash); !ok {
						panic(crashed)
					}
					crashed2 := guard(func() { err = fw.newServer() })
					if crashed2 != nil {
						break
					}
				}
				if err != nil {
					break
				}
				fw.maybeReg = nil
				continue
			}
			var exp, obs c19Outcome
			var dc, well bool
			var leak string
			var pan any
			if hp := guard(func() { exp, obs, dc, leak, well, pan = fw.step(st, res) }); hp != nil {
				if _, ok := hp.(c19Crash); ok {
					break // a second crash while the server was starting again: give up on this fork
				}
				if _, ok := hp.(error); ok {
					break // another fault hit the restart after a crash: the server refuses to start, the fork ends
				}
				panic(hp)
			}
			if fw.faulted && (st.Op == "sso" || st.Op == "shortcut") && fw.lastAlt.Class != "" && c19Matches(obs, fw.lastAlt) {
				continue
			}
			if !c19CheckStep(res, i, fmt.Sprintf("multi-fault fork %d", fi), st, exp, obs, dc, leak, well, pan, fw.faulted) {
				res.logf("multi-fault fork %d %v (last fired %s): step %d %s expect=%s observed=%s", fi, placement, fw.store.fired, i, c19Describe(st), exp, obs)
				return res
			}
		}
		if fw.store.nfired > 1 {
			res.fire("multi_fault")
		}
	}
	return res
}

func c19Describe(st c19Step) string {
	b, _ := json.Marshal(st)
	return string(bytes.ReplaceAll(b, []byte(`"`), nil))
}

// c19CheckStep applies the oracle to one step. relaxed: a store fault has fired in this
// fork — the request may answer ERROR or LOGIN_FORM instead, later requests are checked
// for safety only (an assertion or session only where the model allows exactly that one).
func c19CheckStep(res *Result, i int, phase string, st c19Step, exp, obs c19Outcome, dc bool, leak string, well bool, pan any, relaxed bool) bool {
	if pan != nil {
		res.violate(i, "panic", "C19/panic/"+st.Op, "exactly one well-formed reply", "panic", fmt.Sprintf("%s: %v", phase, pan))
		return false
	}
	if leak != "" {
		res.violate(i, "hash-disclosure", "C19/hash-disclosure/"+st.Op, "no stored password hash in any reply", "hash of "+leak+" in reply", phase)
		return false
	}
	if !well {
		res.violate(i, "malformed-reply", "C19/malformed-reply/"+st.Op+"/"+obs.Class, "exactly one well-formed reply", obs.String(), phase)
		return false
	}
	if dc {
		res.dontcare("session-expiry-equality")
		if obs.Class == "ASSERTION" && !c19Matches(obs, exp) {
			res.violate(i, "wrong-assertion", "C19/wrong-assertion/"+st.Op, exp.String()+" or LOGIN_FORM", obs.String(), phase)
			return false
		}
		return true
	}
	if c19Matches(obs, exp) {
		return true
	}
	// safety direction first: these are violations under every fault
	if obs.Class == "ASSERTION" {
		res.violate(i, "unauthorised-assertion", "C19/unauthorised-assertion/"+st.Op+"/expected-"+exp.Class, exp.String(), obs.String(), phase)
		return false
	}
	if obs.Class == "SESSION_ID_FROM_CLIENT" {
		res.violate(i, "session-fixation", "C19/session-id-chosen-by-client/"+st.Op, "a session ID the server generated", "the ID the client presented", phase)
		return false
	}
	if obs.Class == "SESSION" {
		res.violate(i, "unauthorised-session", "C19/unauthorised-session/"+st.Op+"/expected-"+exp.Class, exp.String(), obs.String(), phase)
		return false
	}
	if relaxed {
		res.Extra["relaxed_deviations"]++
		return true // after an injected store error a request may fail or ask for login, and listings may be stale
	}
	res.violate(i, "model-divergence", "C19/model-divergence/"+st.Op+"/"+exp.Class+"->"+obs.Class, exp.String(), obs.String(), phase)
	return false
}

func simplifyC19(p *Plan) []*Plan {
	var out []*Plan
	for i, raw := range p.Steps {
		st := decode[c19Step](raw)
		if st.Op == "sso" && st.Bind == "post" && st.User == "" {
			c := p.Clone()
			st2 := st
			st2.Bind = "redirect"
			c.Steps[i] = mustJSON(st2)
			out = append(out, c)
		}
		if st.Op == "put_shortcut" && st.Relay != "" {
			c := p.Clone()
			st2 := st
			st2.Relay = ""
			c.Steps[i] = mustJSON(st2)
			out = append(out, c)
		}
	}
	return out
}

func init() {
	register(&Profile{
		ID: "C19", Name: "idpserver", Level: "fault_enumeration",
		Rule: "histories of 6-17 operations over {put/delete user (with/without/empty password), put/delete service (3 SP identities, 3 names, invalid body), put/delete shortcut, login (right/wrong/empty/other user's password), SSO (redirect/post, cookie of slot k / none / forged, or credentials), shortcut launch, delete session, advance clock (incl. to session expiry -1ms/0/+1ms), list/get calls, restart} are sampled from the seed; for EACH history the check runs (i) the fault-free history against the strict reference model, (ii) a server re-created over the store after EVERY position, compared step by step with the original's outcome classes, (iii) EVERY store call index x {not-found, I/O error before apply, I/O error after apply, process crash at that call, process crash right after the call applied} as a single injected fault (a crash abandons the request without a reply and a new server starts over what the store holds) against the relaxed model; evaluations = sampled histories (extra.restart_positions and extra.fault_placements count the enumerated forks); non-trivial = the reference run contains an authentication decision (assertion, session, login form or error); distinct = distinct abstract reference log; after a truthful store failure (I/O error before apply) a twin server restarted at that moment serves the rest of the history and must answer like the original; PUT /users may omit attributes; targeted tails: replace-record-then-login-then-SSO, and login / advance to session expiry -1ms..+999ms / use cookie; thorough tier: 2-4 random multi-fault forks per history; logins may present a planted or stale cookie (a session whose ID equals a value the client chose is a violation); passwords of exactly 72 and of 100 bytes with near-miss logins (password+tail, first 72 bytes+other tail); PUT /users bodies may name another user; targeted scenarios for each; a session in use at a drawn distance (1 s ... 59 min) before its expiry whose cookie returns at a drawn distance (1 ms ... 50 min) after it; the credentials of a live session's user replaced (API, operator, PUT keeping the hash) or the user removed, then the cookie used (the API variant as a history of its own: it hashes at full cost); replies are searched for every hash the store held before or holds after the request, raw, URL-escaped, base64 (4 alphabets) and as lists of byte values (decimal, hex, octal, escapes x 7 separators); in 40% of the histories the three service names are replaced throughout by names that orderings rank differently (s10/s5/s9, mixed case, leading zeros, punctuation), and 40% of the uploads of the other metadata variant are documents that carry the entity ID without a service-provider role (may be refused; if stored, it registers no service provider, and next to a name with the SP document the served one is the server's choice - the same after every restart)",
		Gen:  genC19, Exec: execC19, Simplify: simplifyC19,
		RunsQuick: 160, RunsThorough: 16000,
		Assumptions: []string{"emitted assertions are decoded by the real SP the form addresses (request correlation disabled in that monitor)", "session expiry is read from the session object the server stores, not from a constant", "after an injected store error requests are checked for safety only (no unauthorised assertion/session, no hash disclosure, one well-formed reply)", "bcrypt, RSA padding randomness are not behind a seam and never enter the abstract log"},
		Components: map[string][]string{
			"real": {"samlidp.Server and all handlers", "saml.IdentityProvider", "saml.ServiceProvider (request creation, assertion decoding)", "bcrypt", "xmlenc", "goxmldsig"},
			"stub": {"SimStore (sorted, faultable, forkable)", "browser (cookie slots)", "logical clock behind saml.TimeNow"},
		},
	})
}
